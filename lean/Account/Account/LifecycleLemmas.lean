import Account.Lifecycle
import Account.OrderLemmas
/-!
# C11 — lemmas about `dispatch`, `walk` and `run`
-/
namespace Account.C11

/-! ## matchArm -/

theorem matchArm_some {arms : List (List Nat × Nat)} {key : List Nat} {h : Nat}
    (hm : matchArm arms key = some h) : (key, h) ∈ arms := by
  unfold matchArm at hm
  cases hf : arms.find? (fun a => a.1 == key) with
  | none => simp [hf] at hm
  | some a =>
    simp [hf] at hm
    have h1 := List.find?_some hf
    have h2 := List.mem_of_find?_eq_some hf
    simp at h1
    subst hm; subst h1
    exact h2

theorem matchArm_none {arms : List (List Nat × Nat)} {key : List Nat}
    (hm : matchArm arms key = none) : ∀ a ∈ arms, a.1 ≠ key := by
  unfold matchArm at hm
  simp only [Option.map_eq_none_iff, List.find?_eq_none, beq_iff_eq] at hm
  exact hm

theorem matchArm_of_mem : ∀ {arms : List (List Nat × Nat)} {key : List Nat} {h : Nat},
    (arms.map (·.1)).Nodup → (key, h) ∈ arms → matchArm arms key = some h
  | [], _, _, _, hm => by simp at hm
  | a :: rest, key, h, hnd, hm => by
    simp only [List.map_cons, List.nodup_cons] at hnd
    rcases List.mem_cons.mp hm with rfl | hr
    · simp [matchArm]
    · have hne : a.1 ≠ key := by
        intro heq
        apply hnd.1
        rw [heq]
        exact List.mem_map.mpr ⟨(key, h), hr, rfl⟩
      have ih := matchArm_of_mem hnd.2 hr
      have hb : (a.1 == key) = false := by simp [hne]
      unfold matchArm at ih ⊢
      simp only [List.find?_cons, hb]
      exact ih

/-! ## walk -/

theorem walk_all_none : ∀ (steps : List (Event × Option Err)) (tr : Trace),
    (∀ s ∈ steps, s.2 = none) → walk steps tr = (tr ++ steps.map (·.1), .ok)
  | [], tr, _ => by simp [walk]
  | (e, none) :: rest, tr, h => by
    simp only [walk]
    rw [walk_all_none rest _ (fun s hs => h s (List.mem_cons_of_mem _ hs))]
    simp
  | (e, some er) :: rest, tr, h => by
    have := h (e, some er) (by simp)
    simp at this

theorem walk_first_failure : ∀ (pre : List (Event × Option Err)) (e : Event) (er : Err)
    (post : List (Event × Option Err)) (tr : Trace), (∀ s ∈ pre, s.2 = none) →
    walk (pre ++ (e, some er) :: post) tr = (tr ++ pre.map (·.1) ++ [e], .err (toProgramError er))
  | [], e, er, post, tr, _ => by simp [walk]
  | (x, none) :: pre, e, er, post, tr, h => by
    simp only [List.cons_append, walk]
    rw [walk_first_failure pre e er post _ (fun s hs => h s (List.mem_cons_of_mem _ hs))]
    simp
  | (x, some er') :: pre, e, er, post, tr, h => by
    have := h (x, some er') (by simp)
    simp at this

/-- Every list of steps either has no failing step or splits at its first failing step. -/
theorem steps_cases : ∀ (steps : List (Event × Option Err)),
    (∀ s ∈ steps, s.2 = none) ∨
    ∃ pre e er post, steps = pre ++ (e, some er) :: post ∧ ∀ s ∈ pre, s.2 = none
  | [] => Or.inl (by simp)
  | (x, some er) :: rest => Or.inr ⟨[], x, er, rest, by simp, by simp⟩
  | (x, none) :: rest => by
    rcases steps_cases rest with h | ⟨pre, e, er, post, h1, h2⟩
    · left
      intro s hs
      rcases List.mem_cons.mp hs with rfl | hs
      · rfl
      · exact h s hs
    · right
      refine ⟨(x, none) :: pre, e, er, post, by simp [h1], ?_⟩
      intro s hs
      rcases List.mem_cons.mp hs with rfl | hs
      · rfl
      · exact h2 s hs

/-! ## run = walk over the expected steps -/

/-- the calls of a step list with the failure attached to each, `k` calls already made -/
def pairsOf (fail : Nat → Event → Option Err) : Nat → List Step → List (Event × Option Err)
  | _, [] => []
  | k, s :: ss =>
    match s.ev with
    | none => pairsOf fail k ss
    | some e => (e, fail k e) :: pairsOf fail (k + 1) ss

theorem stepLoop_walk (fail : Nat → Event → Option Err) :
    ∀ (ss : List Step) (k : Nat) (tr : Trace) (c : Ctx) (rest : List (Event × Option Err)),
    walk (pairsOf fail k ss ++ rest) tr =
      match stepLoop fail k ss tr c with
      | (tr', _, some e) => (tr', .err (toProgramError e))
      | (tr', _, none) => walk rest tr'
  | [], k, tr, c, rest => by simp [pairsOf, stepLoop]
  | s :: ss, k, tr, c, rest => by
    cases hs : s.ev with
    | none =>
      simp only [pairsOf, stepLoop, hs]
      exact stepLoop_walk fail ss k tr _ rest
    | some e =>
      simp only [pairsOf, stepLoop, hs, List.cons_append]
      cases hf : fail k e with
      | none =>
        simp only [walk]
        exact stepLoop_walk fail ss (k + 1) _ _ rest
      | some er => simp [walk]

theorem applyEffs_append (c : Ctx) (a b : List Eff) :
    applyEffs c (a ++ b) = applyEffs (applyEffs c a) b := by
  simp [applyEffs, List.foldl_append]

/-- A loop that ran to its end has applied every cache update, in order. -/
theorem stepLoop_ctx (fail : Nat → Event → Option Err) :
    ∀ (ss : List Step) (k : Nat) (tr : Trace) (c : Ctx),
    (stepLoop fail k ss tr c).2.2 = none →
    (stepLoop fail k ss tr c).2.1 = applyEffs c (ss.flatMap (·.effs))
  | [], k, tr, c, _ => by simp [stepLoop, applyEffs]
  | s :: ss, k, tr, c, h => by
    cases hs : s.ev with
    | none =>
      simp only [stepLoop, hs] at h ⊢
      rw [stepLoop_ctx fail ss k tr _ h, List.flatMap_cons, applyEffs_append]
    | some e =>
      simp only [stepLoop, hs] at h ⊢
      cases hf : fail k e with
      | some er => simp [hf] at h
      | none =>
        simp only [hf] at h ⊢
        rw [stepLoop_ctx fail ss (k + 1) _ _ h, List.flatMap_cons, applyEffs_append]

theorem pairsOf_events (fail : Nat → Event → Option Err) :
    ∀ (ss : List Step) (k : Nat), (pairsOf fail k ss).map (·.1) = events ss
  | [], _ => by simp [pairsOf, events]
  | s :: ss, k => by
    cases hs : s.ev with
    | none =>
      have ih := pairsOf_events fail ss k
      simp only [events] at ih
      simp [pairsOf, events, hs, ih]
    | some e =>
      have ih := pairsOf_events fail ss (k + 1)
      simp only [events] at ih
      simp [pairsOf, events, hs, ih]

theorem pairsOf_failures (fail : Nat → Event → Option Err) :
    ∀ (ss : List Step) (k : Nat), (pairsOf fail k ss).map (·.2) = failsOf fail k ss
  | [], _ => by simp [pairsOf, failsOf]
  | s :: ss, k => by
    cases hs : s.ev with
    | none => simp [pairsOf, failsOf, hs, pairsOf_failures fail ss k]
    | some e => simp [pairsOf, failsOf, hs, pairsOf_failures fail ss (k + 1)]

theorem decodeSteps_effs (t : ASet) : t.decodeSteps.flatMap (·.effs) = [] := by
  simp [ASet.decodeSteps, evStep, List.flatMap_eq_nil_iff]

/-- All steps of an instruction with the failure attached to each. -/
def steps (ix : Ix) (plan : FaultPlan) (data : List Nat) (naccts : Nat) : List (Event × Option Err) :=
  (⟨.args, ix.id, [], none, none⟩, argsFail ix plan data)
  :: (pairsOf (decodeFail plan naccts) 0 ix.set.decodeSteps
  ++ (pairsOf (plainFail plan) 0 ix.set.validateSteps
  ++ ((processEvent ix data, planned plan .process ix.id)
  :: (pairsOf (plainFail plan) 0 ix.set.cleanupSteps ++ []))))

theorem run_eq_walk (ix : Ix) (plan : FaultPlan) (data : List Nat) (naccts : Nat) :
    run ix plan data naccts = walk (steps ix plan data naccts) [] := by
  unfold run steps
  cases ha : argsFail ix plan data with
  | some e => simp [walk]
  | none =>
    simp only [walk, List.nil_append]
    rw [stepLoop_walk _ _ _ _ {}]
    have hdc := stepLoop_ctx (decodeFail plan naccts) ix.set.decodeSteps 0
      [⟨.args, ix.id, [], none, none⟩] {}
    cases hd : stepLoop (decodeFail plan naccts) 0 ix.set.decodeSteps
        [⟨.args, ix.id, [], none, none⟩] {} with
    | mk tr1 r1 =>
      obtain ⟨c1, o1⟩ := r1
      cases o1 with
      | some e => simp
      | none =>
        rw [hd] at hdc
        have hc1 : c1 = {} := by
          have := hdc rfl
          simpa [decodeSteps_effs, applyEffs] using this
        subst hc1
        simp only
        rw [stepLoop_walk _ _ _ _ {}]
        have hvc := stepLoop_ctx (plainFail plan) ix.set.validateSteps 0 tr1 {}
        cases hv : stepLoop (plainFail plan) 0 ix.set.validateSteps tr1 {} with
        | mk tr2 r2 =>
          obtain ⟨c2, o2⟩ := r2
          cases o2 with
          | some e => simp
          | none =>
            rw [hv] at hvc
            have hc2 : c2 = ix.set.cache := by
              have := hvc rfl
              simpa [ASet.cache] using this
            subst hc2
            simp only
            cases hp : planned plan .process ix.id with
            | some e => simp [walk, processEvent]
            | none =>
              simp only [walk]
              rw [stepLoop_walk _ _ _ _ ix.set.cache]
              simp only [processEvent]
              cases hc : stepLoop (plainFail plan) 0 ix.set.cleanupSteps
                  (tr2 ++ [⟨.process, ix.id, data.take ix.alen, ix.set.cache.funder,
                    ix.set.cache.recipient⟩]) ix.set.cache with
              | mk tr3 r3 =>
                obtain ⟨c3, o3⟩ := r3
                cases o3 with
                | some e => simp
                | none => simp [walk]

theorem steps_events (ix : Ix) (plan : FaultPlan) (data : List Nat) (naccts : Nat) :
    (steps ix plan data naccts).map (·.1) = expected ix data := by
  simp [steps, expected, pairsOf_events]

theorem steps_failures (ix : Ix) (plan : FaultPlan) (data : List Nat) (naccts : Nat) :
    (steps ix plan data naccts).map (·.2) = failures ix plan data naccts := by
  simp [steps, failures, pairsOf_failures]

theorem steps_eq_zip (ix : Ix) (plan : FaultPlan) (data : List Nat) (naccts : Nat) :
    steps ix plan data naccts = (expected ix data).zip (failures ix plan data naccts) :=
  List.zip_of_prod (steps_events ix plan data naccts) (steps_failures ix plan data naccts)

end Account.C11

namespace Account.C11

/-! ## what `walk` returns, in terms of the event list and the failure list -/

theorem walk_spec (steps : List (Event × Option Err)) :
    (walk steps []).1 <+: steps.map (·.1) ∧
    ((walk steps []).2 = .ok →
      (walk steps []).1 = steps.map (·.1) ∧ ∀ o ∈ steps.map (·.2), o = none) ∧
    (∀ c, (walk steps []).2 = .err c → ∃ i er,
      (steps.map (·.2))[i]? = some (some er) ∧
      (∀ j, j < i → (steps.map (·.2))[j]? = some none) ∧
      (walk steps []).1 = (steps.map (·.1)).take (i + 1) ∧ c = toProgramError er) := by
  rcases steps_cases steps with hall | ⟨pre, e, er, post, hsplit, hpre⟩
  · rw [walk_all_none steps [] hall]
    refine ⟨by simp, ?_, ?_⟩
    · intro _
      refine ⟨by simp, ?_⟩
      intro o ho
      obtain ⟨s, hs, rfl⟩ := List.mem_map.mp ho
      exact hall s hs
    · intro c hc; simp at hc
  · subst hsplit
    rw [walk_first_failure pre e er post [] hpre]
    have hlen : (pre.map (·.2)).length = pre.length := by simp
    refine ⟨?_, ?_, ?_⟩
    · simp only [List.nil_append, List.map_append, List.map_cons]
      exact ⟨post.map (·.1), by simp⟩
    · intro h; simp at h
    · intro c hc
      simp only [Result.err.injEq] at hc
      refine ⟨pre.length, er, ?_, ?_, ?_, hc.symm⟩
      · simp only [List.map_append, List.map_cons]
        rw [List.getElem?_append_right (by simp)]
        simp
      · intro j hj
        simp only [List.map_append, List.map_cons]
        rw [List.getElem?_append_left (by simpa using hj)]
        rw [List.getElem?_map]
        have : j < pre.length := hj
        rw [List.getElem?_eq_getElem this]
        simp only [Option.map_some, Option.some.injEq]
        exact hpre _ (List.getElem_mem this)
      · simp only [List.nil_append, List.map_append, List.map_cons]
        have : (List.map (·.1) pre ++ e :: List.map (·.1) post)
            = (List.map (·.1) pre ++ [e]) ++ List.map (·.1) post := by simp
        rw [this, List.take_left' (by simp)]

/-- Forward direction: the first failing position determines the whole outcome. -/
theorem walk_first (steps : List (Event × Option Err)) (i : Nat) (er : Err)
    (hi : (steps.map (·.2))[i]? = some (some er))
    (hpre : ∀ j, j < i → (steps.map (·.2))[j]? = some none) :
    walk steps [] = ((steps.map (·.1)).take (i + 1), .err (toProgramError er)) := by
  have h := walk_spec steps
  cases hres : (walk steps []).2 with
  | ok =>
    have := (h.2.1 hres).2 (some er) (List.mem_of_getElem? hi)
    simp at this
  | err c =>
    obtain ⟨i', er', h1, h2, h3, h4⟩ := h.2.2 c hres
    have hii : i' = i := by
      rcases Nat.lt_trichotomy i' i with hlt | heq | hgt
      · have := hpre i' hlt; rw [h1] at this; simp at this
      · exact heq
      · have := h2 i hgt; rw [hi] at this; simp at this
    subst hii
    rw [hi] at h1
    have : er = er' := by simpa using h1
    subst this
    subst h4
    rw [← h3, ← hres]

end Account.C11

namespace Account.C11

/-- If some step is due to fail, nothing beyond it is ever run. -/
theorem walk_prefix_of_failing (A : List (Event × Option Err)) (e : Event) (er : Err)
    (B : List (Event × Option Err)) :
    (walk (A ++ (e, some er) :: B) []).1 <+: A.map (·.1) ++ [e] := by
  rcases steps_cases A with hall | ⟨pre, e', er', post, hsplit, hpre⟩
  · rw [walk_first_failure A e er B [] hall]
    simp
  · subst hsplit
    have : (pre ++ (e', some er') :: post) ++ (e, some er) :: B
        = pre ++ (e', some er') :: (post ++ (e, some er) :: B) := by simp
    rw [this, walk_first_failure pre e' er' _ [] hpre]
    refine ⟨post.map (·.1) ++ [e], ?_⟩
    simp

end Account.C11
