import Account.Lifecycle
import Account.OrderLemmas
/-!
# C11 — lemmas about `dispatch`, `walk` and `run`
-/
namespace Account.C11

/-! ## matchArm -/

theorem matchArm_some {arms : List (List Nat × Nat)} {key : List Nat} {h : Nat}
    (hm : matchArm arms key = some h) : (key, h) ∈ arms := by
  unfold matchArm at hm
  cases hf : arms.find? (fun a => a.1 == key) with
  | none => simp [hf] at hm
  | some a =>
    simp [hf] at hm
    have h1 := List.find?_some hf
    have h2 := List.mem_of_find?_eq_some hf
    simp at h1
    subst hm; subst h1
    exact h2

theorem matchArm_none {arms : List (List Nat × Nat)} {key : List Nat}
    (hm : matchArm arms key = none) : ∀ a ∈ arms, a.1 ≠ key := by
  unfold matchArm at hm
  simp only [Option.map_eq_none_iff, List.find?_eq_none, beq_iff_eq] at hm
  exact hm

theorem matchArm_of_mem : ∀ {arms : List (List Nat × Nat)} {key : List Nat} {h : Nat},
    (arms.map (·.1)).Nodup → (key, h) ∈ arms → matchArm arms key = some h
  | [], _, _, _, hm => by simp at hm
  | a :: rest, key, h, hnd, hm => by
    simp only [List.map_cons, List.nodup_cons] at hnd
    rcases List.mem_cons.mp hm with rfl | hr
    · simp [matchArm]
    · have hne : a.1 ≠ key := by
        intro heq
        apply hnd.1
        rw [heq]
        exact List.mem_map.mpr ⟨(key, h), hr, rfl⟩
      have ih := matchArm_of_mem hnd.2 hr
      have hb : (a.1 == key) = false := by simp [hne]
      unfold matchArm at ih ⊢
      simp only [List.find?_cons, hb]
      exact ih

/-! ## walk -/

theorem walk_all_none : ∀ (steps : List (Event × Option Err)) (tr : Trace),
    (∀ s ∈ steps, s.2 = none) → walk steps tr = (tr ++ steps.map (·.1), .ok)
  | [], tr, _ => by simp [walk]
  | (e, none) :: rest, tr, h => by
    simp only [walk]
    rw [walk_all_none rest _ (fun s hs => h s (List.mem_cons_of_mem _ hs))]
    simp
  | (e, some er) :: rest, tr, h => by
    have := h (e, some er) (by simp)
    simp at this

theorem walk_first_failure : ∀ (pre : List (Event × Option Err)) (e : Event) (er : Err)
    (post : List (Event × Option Err)) (tr : Trace), (∀ s ∈ pre, s.2 = none) →
    walk (pre ++ (e, some er) :: post) tr = (tr ++ pre.map (·.1) ++ [e], .err (toProgramError er))
  | [], e, er, post, tr, _ => by simp [walk]
  | (x, none) :: pre, e, er, post, tr, h => by
    simp only [List.cons_append, walk]
    rw [walk_first_failure pre e er post _ (fun s hs => h s (List.mem_cons_of_mem _ hs))]
    simp
  | (x, some er') :: pre, e, er, post, tr, h => by
    have := h (x, some er') (by simp)
    simp at this

/-- Every list of steps either has no failing step or splits at its first failing step. -/
theorem steps_cases : ∀ (steps : List (Event × Option Err)),
    (∀ s ∈ steps, s.2 = none) ∨
    ∃ pre e er post, steps = pre ++ (e, some er) :: post ∧ ∀ s ∈ pre, s.2 = none
  | [] => Or.inl (by simp)
  | (x, some er) :: rest => Or.inr ⟨[], x, er, rest, by simp, by simp⟩
  | (x, none) :: rest => by
    rcases steps_cases rest with h | ⟨pre, e, er, post, h1, h2⟩
    · left
      intro s hs
      rcases List.mem_cons.mp hs with rfl | hs
      · rfl
      · exact h s hs
    · right
      refine ⟨(x, none) :: pre, e, er, post, by simp [h1], ?_⟩
      intro s hs
      rcases List.mem_cons.mp hs with rfl | hs
      · rfl
      · exact h2 s hs

/-! ## run = walk over the expected steps -/

/-- the calls of a step list with the failure attached to each -/
def pairsOf (plan : FaultPlan) : List Step → List (Event × Option Err)
  | [] => []
  | s :: ss =>
    match s.ev with
    | none => pairsOf plan ss
    | some e => (e, stepFail plan e s.natural) :: pairsOf plan ss

theorem exec_walk (plan : FaultPlan) :
    ∀ (ss : List Step) (tr : Trace) (c : Ctx) (rest : List (Event × Option Err)),
    walk (pairsOf plan ss ++ rest) tr =
      match exec plan ss tr c with
      | (tr', _, some e) => (tr', .err (toProgramError e))
      | (tr', _, none) => walk rest tr'
  | [], tr, c, rest => by simp [pairsOf, exec]
  | s :: ss, tr, c, rest => by
    cases hs : s.ev with
    | none =>
      simp only [pairsOf, exec, hs]
      exact exec_walk plan ss tr _ rest
    | some e =>
      simp only [pairsOf, exec, hs, List.cons_append]
      cases hf : stepFail plan e s.natural with
      | none =>
        simp only [walk]
        exact exec_walk plan ss _ _ rest
      | some er => simp [walk]

theorem applyEffs_append (c : Ctx) (a b : List Eff) :
    applyEffs c (a ++ b) = applyEffs (applyEffs c a) b := by
  simp [applyEffs, List.foldl_append]

/-- A sequence that ran to its end has applied every cache update, in order. -/
theorem exec_ctx (plan : FaultPlan) :
    ∀ (ss : List Step) (tr : Trace) (c : Ctx),
    (exec plan ss tr c).2.2 = none →
    (exec plan ss tr c).2.1 = applyEffs c (ss.flatMap (·.effs))
  | [], tr, c, _ => by simp [exec, applyEffs]
  | s :: ss, tr, c, h => by
    cases hs : s.ev with
    | none =>
      simp only [exec, hs] at h ⊢
      rw [exec_ctx plan ss tr _ h, List.flatMap_cons, applyEffs_append]
    | some e =>
      simp only [exec, hs] at h ⊢
      cases hf : stepFail plan e s.natural with
      | some er => simp [hf] at h
      | none =>
        simp only [hf] at h ⊢
        rw [exec_ctx plan ss _ _ h, List.flatMap_cons, applyEffs_append]

/-- Running a concatenation = running the first part and, if it did not fail, the second. -/
theorem exec_append (plan : FaultPlan) :
    ∀ (a b : List Step) (tr : Trace) (c : Ctx),
    exec plan (a ++ b) tr c =
      match exec plan a tr c with
      | (tr', c', some e) => (tr', c', some e)
      | (tr', c', none) => exec plan b tr' c'
  | [], b, tr, c => by simp [exec]
  | s :: a, b, tr, c => by
    cases hs : s.ev with
    | none =>
      simp only [List.cons_append, exec, hs]
      exact exec_append plan a b tr _
    | some e =>
      simp only [List.cons_append, exec, hs]
      cases hf : stepFail plan e s.natural with
      | some er => simp
      | none => exact exec_append plan a b _ _

theorem pairsOf_events (plan : FaultPlan) :
    ∀ (ss : List Step), (pairsOf plan ss).map (·.1) = events ss
  | [] => by simp [pairsOf, events]
  | s :: ss => by
    have ih := pairsOf_events plan ss
    simp only [events] at ih
    cases hs : s.ev with
    | none => simp [pairsOf, events, hs, ih]
    | some e => simp [pairsOf, events, hs, ih]

theorem pairsOf_failures (plan : FaultPlan) :
    ∀ (ss : List Step), (pairsOf plan ss).map (·.2) = failsOf plan ss
  | [] => by simp [pairsOf, failsOf]
  | s :: ss => by
    cases hs : s.ev with
    | none => simp [pairsOf, failsOf, hs, pairsOf_failures plan ss]
    | some e => simp [pairsOf, failsOf, hs, pairsOf_failures plan ss]

mutual
theorem decodeSteps_effs : ∀ (r : RSet), r.decodeSteps.flatMap (·.effs) = []
  | .leaf _ _ _ => by simp [RSet.decodeSteps]
  | .node _ _ _ _ fs => by simp only [RSet.decodeSteps]; exact decodeStepsF_effs fs
  | .seq rs => by simp only [RSet.decodeSteps]; exact decodeStepsL_effs rs
theorem decodeStepsF_effs : ∀ (fs : List (FieldHdr × RSet)), (decodeStepsF fs).flatMap (·.effs) = []
  | [] => by simp [decodeStepsF]
  | (_, r) :: rest => by
    simp only [decodeStepsF, List.flatMap_append, decodeSteps_effs r, decodeStepsF_effs rest,
      List.append_nil]
theorem decodeStepsL_effs : ∀ (rs : List RSet), (decodeStepsL rs).flatMap (·.effs) = []
  | [] => by simp [decodeStepsL]
  | r :: rest => by
    simp only [decodeStepsL, List.flatMap_append, decodeSteps_effs r, decodeStepsL_effs rest,
      List.append_nil]
end

/-- All steps of an instruction with the failure attached to each. -/
def steps (ix : Ix) (plan : FaultPlan) (data : List Nat) (accts : List Bool) : List (Event × Option Err) :=
  (argsEvent ix, argsFail ix plan data)
  :: (pairsOf plan (ix.shape accts).decodeSteps
  ++ (pairsOf plan (ix.shape accts).validateSteps
  ++ ((processEvent ix data (ix.shape accts), planned plan (processEvent ix data (ix.shape accts)))
  :: (pairsOf plan (ix.shape accts).cleanupSteps ++ []))))

theorem run_eq_walk (ix : Ix) (plan : FaultPlan) (data : List Nat) (accts : List Bool) :
    run ix plan data accts = walk (steps ix plan data accts) [] := by
  unfold run steps
  simp only [Ix.shape]
  generalize (ix.set.resolve ⟨accts, 0⟩).1 = r
  cases ha : argsFail ix plan data with
  | some e => simp [walk]
  | none =>
    simp only [walk, List.nil_append]
    rw [exec_walk _ _ _ {}]
    have hdc := exec_ctx plan r.decodeSteps [argsEvent ix] {}
    cases hd : exec plan r.decodeSteps [argsEvent ix] {} with
    | mk tr1 r1 =>
      obtain ⟨c1, o1⟩ := r1
      cases o1 with
      | some e => simp
      | none =>
        rw [hd] at hdc
        have hc1 : c1 = {} := by
          have := hdc rfl
          simpa [decodeSteps_effs, applyEffs] using this
        subst hc1
        simp only
        rw [exec_walk _ _ _ {}]
        have hvc := exec_ctx plan r.validateSteps tr1 {}
        cases hv : exec plan r.validateSteps tr1 {} with
        | mk tr2 r2 =>
          obtain ⟨c2, o2⟩ := r2
          cases o2 with
          | some e => simp
          | none =>
            rw [hv] at hvc
            have hc2 : c2 = r.cache := by
              have := hvc rfl
              simpa [RSet.cache] using this
            subst hc2
            simp only
            have hpe : (⟨.process, ix.id, 0, data.take ix.alen, r.cache.funder, r.cache.recipient⟩ : Event)
                = processEvent ix data r := rfl
            rw [hpe]
            cases hp : planned plan (processEvent ix data r) with
            | some e => simp [walk]
            | none =>
              simp only [walk]
              rw [exec_walk _ _ _ r.cache]
              cases hc : exec plan r.cleanupSteps (tr2 ++ [processEvent ix data r]) r.cache with
              | mk tr3 r3 =>
                obtain ⟨c3, o3⟩ := r3
                cases o3 with
                | some e => simp
                | none => simp [walk]

theorem steps_events (ix : Ix) (plan : FaultPlan) (data : List Nat) (accts : List Bool) :
    (steps ix plan data accts).map (·.1) = expected ix data accts := by
  simp [steps, expected, pairsOf_events]

theorem steps_failures (ix : Ix) (plan : FaultPlan) (data : List Nat) (accts : List Bool) :
    (steps ix plan data accts).map (·.2) = failures ix plan data accts := by
  simp [steps, failures, pairsOf_failures]

end Account.C11

namespace Account.C11

/-! ## what `walk` returns, in terms of the event list and the failure list -/

theorem walk_spec (steps : List (Event × Option Err)) :
    (walk steps []).1 <+: steps.map (·.1) ∧
    ((walk steps []).2 = .ok →
      (walk steps []).1 = steps.map (·.1) ∧ ∀ o ∈ steps.map (·.2), o = none) ∧
    (∀ c, (walk steps []).2 = .err c → ∃ i er,
      (steps.map (·.2))[i]? = some (some er) ∧
      (∀ j, j < i → (steps.map (·.2))[j]? = some none) ∧
      (walk steps []).1 = (steps.map (·.1)).take (i + 1) ∧ c = toProgramError er) := by
  rcases steps_cases steps with hall | ⟨pre, e, er, post, hsplit, hpre⟩
  · rw [walk_all_none steps [] hall]
    refine ⟨by simp, ?_, ?_⟩
    · intro _
      refine ⟨by simp, ?_⟩
      intro o ho
      obtain ⟨s, hs, rfl⟩ := List.mem_map.mp ho
      exact hall s hs
    · intro c hc; simp at hc
  · subst hsplit
    rw [walk_first_failure pre e er post [] hpre]
    have hlen : (pre.map (·.2)).length = pre.length := by simp
    refine ⟨?_, ?_, ?_⟩
    · simp only [List.nil_append, List.map_append, List.map_cons]
      exact ⟨post.map (·.1), by simp⟩
    · intro h; simp at h
    · intro c hc
      simp only [Result.err.injEq] at hc
      refine ⟨pre.length, er, ?_, ?_, ?_, hc.symm⟩
      · simp only [List.map_append, List.map_cons]
        rw [List.getElem?_append_right (by simp)]
        simp
      · intro j hj
        simp only [List.map_append, List.map_cons]
        rw [List.getElem?_append_left (by simpa using hj)]
        rw [List.getElem?_map]
        have : j < pre.length := hj
        rw [List.getElem?_eq_getElem this]
        simp only [Option.map_some, Option.some.injEq]
        exact hpre _ (List.getElem_mem this)
      · simp only [List.nil_append, List.map_append, List.map_cons]
        have : (List.map (·.1) pre ++ e :: List.map (·.1) post)
            = (List.map (·.1) pre ++ [e]) ++ List.map (·.1) post := by simp
        rw [this, List.take_left' (by simp)]

/-- Forward direction: the first failing position determines the whole outcome. -/
theorem walk_first (steps : List (Event × Option Err)) (i : Nat) (er : Err)
    (hi : (steps.map (·.2))[i]? = some (some er))
    (hpre : ∀ j, j < i → (steps.map (·.2))[j]? = some none) :
    walk steps [] = ((steps.map (·.1)).take (i + 1), .err (toProgramError er)) := by
  have h := walk_spec steps
  cases hres : (walk steps []).2 with
  | ok =>
    have := (h.2.1 hres).2 (some er) (List.mem_of_getElem? hi)
    simp at this
  | err c =>
    obtain ⟨i', er', h1, h2, h3, h4⟩ := h.2.2 c hres
    have hii : i' = i := by
      rcases Nat.lt_trichotomy i' i with hlt | heq | hgt
      · have := hpre i' hlt; rw [h1] at this; simp at this
      · exact heq
      · have := h2 i hgt; rw [hi] at this; simp at this
    subst hii
    rw [hi] at h1
    have : er = er' := by simpa using h1
    subst this
    subst h4
    rw [← h3, ← hres]

end Account.C11

namespace Account.C11

/-- If some step is due to fail, nothing beyond it is ever run. -/
theorem walk_prefix_of_failing (A : List (Event × Option Err)) (e : Event) (er : Err)
    (B : List (Event × Option Err)) :
    (walk (A ++ (e, some er) :: B) []).1 <+: A.map (·.1) ++ [e] := by
  rcases steps_cases A with hall | ⟨pre, e', er', post, hsplit, hpre⟩
  · rw [walk_first_failure A e er B [] hall]
    simp
  · subst hsplit
    have : (pre ++ (e', some er') :: post) ++ (e, some er) :: B
        = pre ++ (e', some er') :: (post ++ (e, some er) :: B) := by simp
    rw [this, walk_first_failure pre e' er' _ [] hpre]
    refine ⟨post.map (·.1) ++ [e], ?_⟩
    simp

end Account.C11
