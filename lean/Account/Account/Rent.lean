import Account.Init
/-!
# Rent adjustment and close (C13)

Code modelled (as read in /repo):

* `single_set.rs` 227-299 `normalize_rent` / `refund_rent` / `receive_rent` (refund as repaired by 519a31c: below the minimum,
  zero lamports → `Ok` and nothing changes, otherwise `InsufficientFunds`): read `lamports` and
  `data_len`, `rent = minimum_balance(data_len)`; top-ups go through `CanFundRent::fund_rent`
  (a System `Transfer` CPI, signed with the funder's seeds when it has some); excess is moved with
  direct lamport writes: `*account.lamports -= n` first, then `funder/recipient.add_lamports(n)`
  (`+=` on `u64`; the repo's release profile has `overflow-checks = true`, so wrapping is a panic).
* `single_set.rs` 200-216 `close_account`: `resize(W)`, fill with `0xFF`,
  `recipient.add_lamports(info.lamports())`, `lamports = 0`.
* `account.rs` 47-110 / `borsh_account.rs` 32-111 cleanup wiring: explicit argument or
  `ctx.get_funder()` / `ctx.get_recipient()` (`EmptyFunderCache` / `EmptyRecipientCache`);
  `BorshAccount` serializes first, except for close (never) and for the cached receive / refund
  variants (cache lookup BEFORE the serialize).
-/
namespace Account.Rent
open Common Account.World Account.Init

/-- `CanAddLamports::add_lamports` (`+=` with overflow checks). -/
def addLamports (k : Key) (n : Nat) (s : St) : Res Unit × St :=
  if (s.w k).lamports + n ≥ 2 ^ 64 then (.panic, s)
  else (.ok (), { s with w := setLamports s.w k ((s.w k).lamports + n) })

def normalizeRent (env : Env) (f : Funder) (tgt : Key) (s : St) : Res Unit × St :=
  let lam := (s.w tgt).lamports
  let rent := env.rentMin (s.w tgt).data.length
  if rent = lam then (.ok (), s)
  else if rent > lam then
    (if lam = 0 then (.ok (), s) else fundRent env f tgt (rent - lam) s)
  else
    let n := lam - rent
    addLamports f.key n { s with w := setLamports s.w tgt (lam - n) }

def refundRent (env : Env) (recipient : Key) (tgt : Key) (s : St) : Res Unit × St :=
  let lam := (s.w tgt).lamports
  let rent := env.rentMin (s.w tgt).data.length
  if rent = lam then (.ok (), s)
  else if rent > lam then
    (if lam = 0 then (.ok (), s) else (.err .insufficientFunds, s))
  else
    let n := lam - rent
    addLamports recipient n { s with w := setLamports s.w tgt (lam - n) }

def receiveRent (env : Env) (f : Funder) (tgt : Key) (s : St) : Res Unit × St :=
  let lam := (s.w tgt).lamports
  let rent := env.rentMin (s.w tgt).data.length
  if rent > lam then
    (if lam = 0 then (.ok (), s) else fundRent env f tgt (rent - lam) s)
  else (.ok (), s)

/-- `resize(W)` then `fill(0xFF)`. -/
def markClosed (W : Nat) (tgt : Key) (w : World) : World :=
  w.set tgt { w tgt with data := List.replicate W 255 }

/-- `close_account` for a type with a `W`-byte discriminant. -/
def closeAccount (W : Nat) (recipient : Key) (tgt : Key) (s : St) : Res Unit × St :=
  let s1 : St := { s with w := markClosed W tgt s.w }
  match addLamports recipient (s1.w tgt).lamports s1 with
  | (.ok (), s2) => (.ok (), { s2 with w := setLamports s2.w tgt 0 })
  | r => r

inductive CleanOp
  | normalize | refund | receive | close
deriving DecidableEq, Repr

/-- Who pays / receives: an explicit argument or the context cache. -/
inductive Who
  | arg (f : Funder)
  | cached (f : Option Funder)
deriving DecidableEq, Repr

def CleanOp.missing : CleanOp → Err
  | .normalize => .emptyFunderCache
  | .receive => .emptyFunderCache
  | .refund => .emptyRecipientCache
  | .close => .emptyRecipientCache

def runOp (env : Env) (W : Nat) (op : CleanOp) (f : Funder) (tgt : Key) (s : St) : Res Unit × St :=
  match op with
  | .normalize => normalizeRent env f tgt s
  | .refund => refundRent env f.key tgt s
  | .receive => receiveRent env f tgt s
  | .close => closeAccount W f.key tgt s

/-- Cleanup of `Account<T>` with one of the four arguments. -/
def cleanupZc (env : Env) (W : Nat) (op : CleanOp) (who : Who) (tgt : Key) (s : St) :
    Res Unit × St :=
  match who with
  | .arg f => runOp env W op f tgt s
  | .cached none => (.err op.missing, s)
  | .cached (some f) => runOp env W op f tgt s

/-- Cleanup of `BorshAccount<T>`; `cached` = encoding of the value held by the wrapper. -/
def cleanupBorsh (env : Env) (ty : AcctType) (op : CleanOp) (who : Who) (tgt : Key)
    (cached : Option (List Nat)) (s : St) : Res Unit × St :=
  let ser (s : St) : St := { s with w := serializeBorsh env ty tgt cached s.w }
  match op, who with
  | .close, .arg f => runOp env ty.W .close f tgt s
  | .close, .cached none => (.err .emptyRecipientCache, s)
  | .close, .cached (some f) => runOp env ty.W .close f tgt s
  | op, .arg f => runOp env ty.W op f tgt (ser s)
  -- normalize: serialize, then the cache lookup
  | .normalize, .cached none => (.err .emptyFunderCache, ser s)
  | .normalize, .cached (some f) => runOp env ty.W .normalize f tgt (ser s)
  -- receive / refund: cache lookup first
  | op, .cached none => (.err op.missing, s)
  | op, .cached (some f) => runOp env ty.W op f tgt (ser s)


/-! ## The context cache (`context.rs` 85-103)

`set_funder` / `set_recipient` are `Option::replace`: a later call OVERWRITES an earlier one;
`get_funder` / `get_recipient` return what is stored (no fall-back between the two slots). -/

structure Cache where
  funder : Option Funder := none
  recipient : Option Funder := none
deriving DecidableEq, Repr

def Cache.setFunder (c : Cache) (f : Funder) : Cache := { c with funder := some f }
def Cache.setRecipient (c : Cache) (r : Funder) : Cache := { c with recipient := some r }

/-- The cached form of a cleanup argument (`NormalizeRent(())`, …): which slot it reads. -/
def Cache.who (c : Cache) (op : CleanOp) : Who :=
  match op with
  | .normalize => .cached c.funder
  | .receive => .cached c.funder
  | .refund => .cached c.recipient
  | .close => .cached c.recipient

/-! ## A derived account set that caches BOTH a funder and a recipient

`struct S { #[validate(funder)] funder: Signer<Mut<AccountInfo>>, #[validate(recipient)] recipient:
Mut<AccountInfo>, #[cleanup(arg = Op(()))] target: Account<T> }` in either declaration order of the
first two fields. The derive (`star_frame_proc/.../struct_impl/validate.rs` 215-252) validates the
fields in declaration order and, right after a field marked `funder` / `recipient`, runs
`if ctx.get_funder().is_none() { ctx.set_funder(..) }` / the same for the recipient
(`context.rs` 85-103: plain getters and setters) — so after a successful validation of a fresh
context BOTH are cached, whatever the order. Cleanup then runs the cached variant on the target. -/

inductive Order
  | funderFirst | recipientFirst
deriving DecidableEq, Repr

/-- `Signer<Mut<AccountInfo>>`: inner (`Mut`) check first, then the signer check. -/
def validateFunderField (env : Env) (k : Key) : Except Err Unit :=
  if !env.isWritable k then .error .expectedWritable
  else if !env.isSigner k then .error .expectedSigner
  else .ok ()

/-- `Mut<AccountInfo>`. -/
def validateRecipientField (env : Env) (k : Key) : Except Err Unit :=
  if !env.isWritable k then .error .expectedWritable else .ok ()

/-- What the context caches after validating the two marked fields of a fresh context. -/
def cachedAfterValidate (fk rk : Key) : Option Funder × Option Funder :=
  (some { key := fk, seeds := none }, some { key := rk, seeds := none })

/-- Validation then cleanup of the derived set. -/
def runSet (env : Env) (ty : AcctType) (order : Order) (op : CleanOp) (fk rk tgt : Key) (s : St) :
    Res Unit × St :=
  let first := match order with
    | .funderFirst => validateFunderField env fk
    | .recipientFirst => validateRecipientField env rk
  let second := match order with
    | .funderFirst => validateRecipientField env rk
    | .recipientFirst => validateFunderField env fk
  match first with
  | .error e => (.err e, s)
  | .ok () =>
    match second with
    | .error e => (.err e, s)
    | .ok () =>
      match validateAccountInfo env ty (s.w tgt) with
      | .error e => (.err e, s)
      | .ok () =>
        let c := cachedAfterValidate fk rk
        let who : Who := match op with
          | .normalize => .cached c.1
          | .receive => .cached c.1
          | .refund => .cached c.2
          | .close => .cached c.2
        cleanupZc env ty.W op who tgt s

end Account.Rent
