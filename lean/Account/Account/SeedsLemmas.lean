import Account.Seeds
/-!
# C10 — helper lemmas about the seed model (`Account/Seeds.lean`)
-/
namespace Account.Seeds
open Common

/-! ## flatten algebra -/

theorem flatten_empty_slot (S : List (List Nat)) (b : Nat) :
    (S ++ [[]] ++ [[b]]).flatten = (S ++ [[b]]).flatten := by
  simp

theorem getLast?_append_singleton (l : List (List Nat)) (x : List Nat) :
    (l ++ [x]).getLast? = some x := by
  simp

theorem seedsWithBump_append_empty (us : List (List Nat)) (b : Nat) :
    seedsWithBump (us ++ [[]]) b = us ++ [[b]] := by
  unfold seedsWithBump
  rw [getLast?_append_singleton]
  simp

/-- `seeds_with_bump` IS "drop the placeholder, push the bump" — the very list the repaired `find`
and client paths build, for ANY seed vector. -/
theorem seedsWithBump_eq_drop (ss : List (List Nat)) (b : Nat) :
    seedsWithBump ss b = dropTrailingEmpty ss ++ [[b]] := by
  unfold seedsWithBump dropTrailingEmpty
  split <;> rfl

theorem dropTrailingEmpty_append_empty (us : List (List Nat)) :
    dropTrailingEmpty (us ++ [[]]) = us := by
  unfold dropTrailingEmpty
  rw [getLast?_append_singleton]
  simp

/-- Dropping a trailing empty seed never changes the hashed bytes. -/
theorem dropTrailingEmpty_flatten (ss : List (List Nat)) :
    (dropTrailingEmpty ss).flatten = ss.flatten := by
  unfold dropTrailingEmpty
  split
  · rename_i h
    have hne : ss ≠ [] := by
      intro h0; subst h0; simp at h
    have hl : ss.getLast hne = [] := by
      have := List.getLast?_eq_some_getLast hne
      rw [this] at h
      exact Option.some.inj h
    have hd : ss = ss.dropLast ++ [ss.getLast hne] := (List.dropLast_concat_getLast hne).symm
    rw [hl] at hd
    conv => rhs; rw [hd]
    simp
  · rfl

theorem dropTrailingEmpty_length_le (ss : List (List Nat)) :
    (dropTrailingEmpty ss).length ≤ ss.length := by
  unfold dropTrailingEmpty
  split <;> simp

theorem effSeeds_placeholder (S : SeedStruct) (h : S.placeholder = true) :
    effSeeds S = userSeeds S := by
  unfold effSeeds seeds
  rw [h]
  exact dropTrailingEmpty_append_empty _

theorem effSeeds_flatten (S : SeedStruct) : (effSeeds S).flatten = (userSeeds S).flatten := by
  unfold effSeeds
  rw [dropTrailingEmpty_flatten]
  unfold seeds
  cases S.placeholder <;> simp

theorem seedsWithBump_seeds (S : SeedStruct) (b : Nat) :
    seedsWithBump (seeds S) b = effSeeds S ++ [[b]] :=
  seedsWithBump_eq_drop _ _

/-- Replacing the empty last slot and pushing after it give the same concatenation, for ANY seed
vector (derived or hand-written). -/
theorem seedsWithBump_flatten (ss : List (List Nat)) (b : Nat) :
    (seedsWithBump ss b).flatten = (ss ++ [[b]]).flatten := by
  unfold seedsWithBump
  split
  · rename_i h
    have hne : ss ≠ [] := by
      intro h0; subst h0; simp at h
    have hl : ss.getLast hne = [] := by
      have := List.getLast?_eq_some_getLast hne
      rw [this] at h
      exact Option.some.inj h
    have hd : ss = ss.dropLast ++ [ss.getLast hne] := (List.dropLast_concat_getLast hne).symm
    rw [hl] at hd
    conv => rhs; rw [hd]
    simp
  · rfl

/-! ## `create` -/

theorem create_ok_iff (H : Hash) (ss : List (List Nat)) (P k : List Nat) :
    create H ss P = .ok k ↔ limitsOk ss = true ∧ H ss.flatten P = some k := by
  unfold create limitsOk
  by_cases h1 : ss.length > MAX_SEEDS
  · simp [h1]
  · by_cases h2 : (ss.any fun s => decide (s.length > MAX_SEED_LEN)) = true
    · simp [h1, h2]
    · simp only [h1, h2, if_false]
      cases hH : H ss.flatten P <;> simp

/-- `create` only looks at the count limit, the per-seed length limit and the flattened bytes. -/
theorem create_congr_flatten (H : Hash) (a b : List (List Nat)) (P : List Nat)
    (hl : limitsOk a = true) (hl' : limitsOk b = true) (hf : a.flatten = b.flatten) :
    create H a P = create H b P := by
  unfold limitsOk at hl hl'
  simp only [Bool.and_eq_true, Bool.not_eq_true', decide_eq_false_iff_not] at hl hl'
  unfold create
  have ha2 : (a.any fun s => decide (s.length > MAX_SEED_LEN)) = false := hl.2
  have hb2 : (b.any fun s => decide (s.length > MAX_SEED_LEN)) = false := hl'.2
  simp only [hl.1, hl'.1, if_false, ha2, hb2, hf]

theorem limitsOk_iff (ss : List (List Nat)) :
    limitsOk ss = true ↔ ss.length ≤ 16 ∧ ∀ s ∈ ss, s.length ≤ 32 := by
  unfold limitsOk MAX_SEEDS MAX_SEED_LEN
  simp only [Bool.and_eq_true, Bool.not_eq_true', decide_eq_false_iff_not, Nat.not_lt,
    List.any_eq_false, decide_eq_true_eq]

/-- With room for two more slots, the empty slot changes nothing: `create` of
`us ++ [[]] ++ [[b]]` (what the `find` paths hash) equals `create` of `us ++ [[b]]`. -/
theorem create_empty_slot (H : Hash) (us : List (List Nat)) (b : Nat) (P : List Nat)
    (hn : us.length + 2 ≤ 16) :
    create H (us ++ [[]] ++ [[b]]) P = create H (us ++ [[b]]) P := by
  by_cases hlen : ∀ s ∈ us, s.length ≤ 32
  · by_cases hb : ([b] : List Nat).length ≤ 32
    · apply create_congr_flatten
      · rw [limitsOk_iff]; constructor
        · simp; omega
        · intro s hs
          simp only [List.mem_append, List.mem_singleton] at hs
          rcases hs with (hs | hs) | hs
          · exact hlen s hs
          · subst hs; simp
          · subst hs; simp
      · rw [limitsOk_iff]; constructor
        · simp; omega
        · intro s hs
          simp only [List.mem_append, List.mem_singleton] at hs
          rcases hs with hs | hs
          · exact hlen s hs
          · subst hs; simp
      · exact flatten_empty_slot us b
    · simp at hb
  · -- some user seed is too long: both sides fail with the same error
    have hex : ∃ s ∈ us, s.length > 32 := by
      apply Classical.byContradiction
      intro hne
      apply hlen
      intro s hs
      apply Nat.le_of_not_lt
      intro hgt
      exact hne ⟨s, hs, hgt⟩
    obtain ⟨s, hs, hgt⟩ := hex
    have h1 : ¬ (us ++ [[]] ++ [[b]]).length > MAX_SEEDS := by
      unfold MAX_SEEDS; simp; omega
    have h2 : ¬ (us ++ [[b]]).length > MAX_SEEDS := by
      unfold MAX_SEEDS; simp; omega
    have a1 : ((us ++ [[]] ++ [[b]]).any fun s => decide (s.length > MAX_SEED_LEN)) = true := by
      rw [List.any_eq_true]; exact ⟨s, by simp [hs], by simpa [MAX_SEED_LEN] using hgt⟩
    have a2 : ((us ++ [[b]]).any fun s => decide (s.length > MAX_SEED_LEN)) = true := by
      rw [List.any_eq_true]; exact ⟨s, by simp [hs], by simpa [MAX_SEED_LEN] using hgt⟩
    unfold create
    simp only [h1, h2, if_false, a1, a2, if_true]

/-! ## `find` -/

theorem findIn_empty_slot (H : Hash) (us : List (List Nat)) (P : List Nat)
    (hn : us.length + 2 ≤ 16) (bs : List Nat) :
    findIn H (us ++ [[]]) P bs = findIn H us P bs := by
  induction bs with
  | nil => rfl
  | cons b bs ih =>
    unfold findIn
    rw [create_empty_slot H us b P hn, ih]

theorem findIn_some (H : Hash) (ss : List (List Nat)) (P : List Nat) (bs : List Nat)
    (k : List Nat) (b : Nat) (h : findIn H ss P bs = some (k, b)) :
    b ∈ bs ∧ create H (ss ++ [[b]]) P = .ok k := by
  induction bs with
  | nil => simp [findIn] at h
  | cons c cs ih =>
    unfold findIn at h
    split at h
    · rename_i k' hc
      simp only [Option.some.injEq, Prod.mk.injEq] at h
      obtain ⟨rfl, rfl⟩ := h
      exact ⟨by simp, hc⟩
    · have := ih h
      exact ⟨by simp [this.1], this.2⟩
    · simp at h

theorem find_some (H : Hash) (ss : List (List Nat)) (P : List Nat) (k : List Nat) (b : Nat)
    (h : find H ss P = some (k, b)) :
    b ∈ bumps ∧ create H (ss ++ [[b]]) P = .ok k :=
  findIn_some H ss P bumps k b h

theorem mem_bumps (b : Nat) : b ∈ bumps ↔ 1 ≤ b ∧ b ≤ 255 := by
  unfold bumps
  simp only [List.mem_map, List.mem_reverse, List.mem_range]
  constructor
  · rintro ⟨a, ha, rfl⟩; omega
  · rintro ⟨h1, h2⟩; exact ⟨b - 1, by omega, by omega⟩

/-! ## Soundness of the query lists (the driver's completeness test for the oracle table) -/

theorem create_congr (H H' : Hash) (ss : List (List Nat)) (P : List Nat)
    (h : ∀ q ∈ createQueries ss P, H' q.1 q.2 = H q.1 q.2) :
    create H' ss P = create H ss P := by
  unfold createQueries at h
  unfold create
  by_cases h1 : ss.length > MAX_SEEDS
  · simp [h1]
  · by_cases h2 : (ss.any fun s => decide (s.length > MAX_SEED_LEN)) = true
    · simp [h1, h2]
    · have hl : limitsOk ss = true := by
        unfold limitsOk; simp [h1, h2]
      simp only [hl, if_true, List.mem_singleton, forall_eq] at h
      simp only [h1, h2, if_false, h]

theorem limitsOk_false_create (H : Hash) (ss : List (List Nat)) (P : List Nat)
    (h : limitsOk ss = false) : create H ss P = .error .maxSeedLengthExceeded := by
  unfold limitsOk at h
  unfold create
  by_cases h1 : ss.length > MAX_SEEDS
  · simp [h1]
  · simp only [h1, decide_false, Bool.not_false, Bool.true_and, Bool.not_eq_false'] at h
    simp [h1, h]

theorem findIn_congr (H H' : Hash) (ss : List (List Nat)) (P : List Nat) (bs : List Nat)
    (h : ∀ q ∈ findInQueries H ss P bs, H' q.1 q.2 = H q.1 q.2) :
    findIn H' ss P bs = findIn H ss P bs := by
  induction bs with
  | nil => rfl
  | cons b bs ih =>
    unfold findInQueries at h
    unfold findIn
    by_cases hl : limitsOk (ss ++ [[b]]) = true
    · simp only [hl, if_true, List.mem_cons, forall_eq_or_imp] at h
      have hc : create H' (ss ++ [[b]]) P = create H (ss ++ [[b]]) P := by
        apply create_congr
        unfold createQueries
        simp only [hl, if_true, List.mem_singleton, forall_eq]
        exact h.1
      rw [hc]
      cases hH : H (ss ++ [[b]]).flatten P with
      | some k =>
        have : create H (ss ++ [[b]]) P = .ok k := (create_ok_iff _ _ _ _).2 ⟨hl, hH⟩
        simp [this]
      | none =>
        have hcre : create H (ss ++ [[b]]) P = .error .invalidSeeds := by
          have hl' := hl
          unfold limitsOk at hl'
          simp only [Bool.and_eq_true, Bool.not_eq_true', decide_eq_false_iff_not] at hl'
          unfold create
          have h2 : ((ss ++ [[b]]).any fun s => decide (s.length > MAX_SEED_LEN)) = false := hl'.2
          simp only [hl'.1, if_false, h2, hH]
          rfl
        rw [hH] at h
        simp only [hcre]
        exact ih h.2
    · have hl' : limitsOk (ss ++ [[b]]) = false := by simpa using hl
      rw [limitsOk_false_create H' _ _ hl', limitsOk_false_create H _ _ hl']

theorem find_congr (H H' : Hash) (ss : List (List Nat)) (P : List Nat)
    (h : ∀ q ∈ findQueries H ss P, H' q.1 q.2 = H q.1 q.2) :
    find H' ss P = find H ss P :=
  findIn_congr H H' ss P bumps h

/-! ## Field encodings -/

theorem bytesOf_uint_length (w v : Nat) : (bytesOf (.uint w v)).length = w := by
  simp [bytesOf]

theorem bytesOf_sint_length (w : Nat) (v : Int) : (bytesOf (.sint w v)).length = w := by
  simp [bytesOf]

/-- Once something is recorded, every further validation returns `Ok` and changes nothing. -/
theorem sticky_history (H : Hash) (P : List Nat) (hs : List VStep) (st : Seeded) (r : Recorded)
    (hr : st.recorded = some r) :
    (runHistory H P hs st).2 = st ∧ (runHistory H P hs st).1 = List.replicate hs.length .ok := by
  induction hs with
  | nil => simp [runHistory]
  | cons s rest ih =>
    have hs : applyStep H P s st = (.ok, st) := by
      cases s with
      | seeds S => simp [applyStep, validateSeeds, hr]
      | bump S b => simp [applyStep, validateWithBump, hr]
    simp only [runHistory, hs, ih.1, ih.2, List.length_cons, List.replicate_succ, and_self]

theorem compBytes_singleton (v : FieldVal) : compBytes [v] = bytesOf v := by
  simp [compBytes]

theorem compBytes_nil : compBytes [] = [] := rfl

/-- If `create` succeeds WITH the empty slot in place, it succeeds with the same address without it
(the success itself shows that there was room for the extra slot). -/
theorem create_empty_slot_ok (H : Hash) (us : List (List Nat)) (b : Nat) (P k : List Nat)
    (h : create H (us ++ [[]] ++ [[b]]) P = .ok k) : create H (us ++ [[b]]) P = .ok k := by
  have hl := ((create_ok_iff H _ P k).1 h).1
  rw [limitsOk_iff] at hl
  have hn : us.length + 2 ≤ 16 := by
    have := hl.1
    simp at this
    omega
  rw [← create_empty_slot H us b P hn]
  exact h

theorem userSeeds_length (S : SeedStruct) :
    (userSeeds S).length = S.const.toList.length + S.fields.length := by
  simp [userSeeds]

end Account.Seeds
