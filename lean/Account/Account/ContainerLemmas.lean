import Account.Lifecycle
/-!
# C11 — containers (`Option`, `Vec`, arrays, `Rest`): shape, order, one account per leaf
-/
namespace Account.C11

/-! ## a sequence runs its elements in order, in every phase -/

theorem decodeStepsL_flatMap : ∀ (rs : List RSet), decodeStepsL rs = rs.flatMap (·.decodeSteps)
  | [] => rfl
  | r :: rest => by simp [decodeStepsL, decodeStepsL_flatMap rest]

theorem validateStepsL_flatMap : ∀ (rs : List RSet), validateStepsL rs = rs.flatMap (·.validateSteps)
  | [] => rfl
  | r :: rest => by simp [validateStepsL, validateStepsL_flatMap rest]

theorem cleanupStepsL_flatMap : ∀ (rs : List RSet), cleanupStepsL rs = rs.flatMap (·.cleanupSteps)
  | [] => rfl
  | r :: rest => by simp [cleanupStepsL, cleanupStepsL_flatMap rest]

/-! ## each present leaf owns its own account, in account order -/

mutual
/-- the slots of the present leaves, in decode order -/
def RSet.slots : RSet → List Nat
  | .leaf _ s pr => if pr then [s] else []
  | .node _ _ _ _ fs => slotsF fs
  | .seq rs => slotsL rs
def slotsF : List (FieldHdr × RSet) → List Nat
  | [] => []
  | (_, r) :: rest => r.slots ++ slotsF rest
def slotsL : List RSet → List Nat
  | [] => []
  | r :: rest => r.slots ++ slotsL rest
end

/-- what `resolve` guarantees about the slots it hands out -/
def SlotsOK (a a' : Accts) (slots : List Nat) : Prop :=
  a.pos ≤ a'.pos ∧ (∀ s ∈ slots, a.pos ≤ s ∧ s < a'.pos) ∧ slots.Pairwise (· < ·)

theorem SlotsOK_nil (a : Accts) : SlotsOK a a [] := ⟨Nat.le_refl _, by simp, by simp⟩

theorem SlotsOK_append {a a1 a2 : Accts} {s1 s2 : List Nat}
    (h1 : SlotsOK a a1 s1) (h2 : SlotsOK a1 a2 s2) : SlotsOK a a2 (s1 ++ s2) := by
  obtain ⟨p1, b1, w1⟩ := h1
  obtain ⟨p2, b2, w2⟩ := h2
  refine ⟨Nat.le_trans p1 p2, ?_, ?_⟩
  · intro s hs
    rcases List.mem_append.mp hs with h | h
    · have := b1 s h; omega
    · have := b2 s h; omega
  · rw [List.pairwise_append]
    refine ⟨w1, w2, ?_⟩
    intro x hx y hy
    have := b1 x hx
    have := b2 y hy
    omega

mutual
theorem resolve_slots : ∀ (t : ASet) (a : Accts), SlotsOK a (t.resolve a).2 (t.resolve a).1.slots
  | .leaf p, a => by
    cases hr : a.rest with
    | nil => simp only [ASet.resolve, hr, RSet.slots]; exact SlotsOK_nil a
    | cons x xs =>
      simp only [ASet.resolve, hr, RSet.slots, if_true]
      refine ⟨by simp [Accts.take1], ?_, by simp⟩
      intro s hs; simp at hs; subst hs; simp [Accts.take1]
  | .node sid b e x fs, a => by
    simp only [ASet.resolve, RSet.slots]; exact resolveF_slots fs a
  | .seq ts, a => by
    simp only [ASet.resolve, RSet.slots]; exact resolveL_slots ts a
  | .opt k t, a => by
    cases hr : a.rest with
    | nil => simp only [ASet.resolve, hr, RSet.slots, slotsL]; exact SlotsOK_nil a
    | cons x xs =>
      by_cases hk : k = .option ∧ x = true
      · simp only [ASet.resolve, hr, hk, and_self, if_true, RSet.slots, slotsL]
        exact ⟨by simp [Accts.take1], by simp, by simp⟩
      · simp only [ASet.resolve, hr, hk, if_false, RSet.slots, slotsL, List.append_nil]
        exact resolve_slots t a
theorem resolveF_slots : ∀ (fs : List (FieldHdr × ASet)) (a : Accts),
    SlotsOK a (resolveF fs a).2 (slotsF (resolveF fs a).1)
  | [], a => by simp only [resolveF, slotsF]; exact SlotsOK_nil a
  | (h, t) :: rest, a => by
    simp only [resolveF, slotsF]
    exact SlotsOK_append (resolve_slots t a) (resolveF_slots rest (t.resolve a).2)
theorem resolveL_slots : ∀ (ts : List ASet) (a : Accts),
    SlotsOK a (resolveL ts a).2 (slotsL (resolveL ts a).1)
  | [], a => by simp only [resolveL, slotsL]; exact SlotsOK_nil a
  | t :: rest, a => by
    simp only [resolveL, slotsL]
    exact SlotsOK_append (resolve_slots t a) (resolveL_slots rest (t.resolve a).2)
end

end Account.C11
