import Account.Borsh
import Account.ValidateLemmas
/-! Helper lemmas for C15 (model: `Account/Borsh.lean`). -/
namespace Account.Borsh
open Common Account.Validate

variable {α : Type}

theorem leaves_nil (v0 : α) : leaves v0 [] = v0 := rfl
theorem leaves_cons (v0 w : α) (ws : List α) : leaves v0 (w :: ws) = leaves w ws := rfl

theorem applySets_ok {b : BAcct α} (hw : b.acct.writable = true) (ws : List α) (v0 : α)
    (hv : b.val = some v0) :
    applySets b ws = .ok { acct := b.acct, val := some (leaves v0 ws) } := by
  induction ws generalizing b v0 with
  | nil => cases b; simp_all [applySets, leaves_nil]
  | cons w ws ih =>
    simp only [applySets, setInner, hw, if_true]
    rw [ih (b := { b with val := some w }) hw w rfl, leaves_cons]

/-- The write-back, when its guards hold: the account becomes `prefix ++ ser v`, nothing else
changes. -/
theorem serializeBack_writes {c : Codec α} (hc : CodecOK c) {t : PType} {b : BAcct α} {v : α}
    (hval : b.val = some v) (hw : b.acct.writable = true) (ho : b.acct.owner = t.progId)
    (hfree : b.acct.borrow.canWrite = true) (hlen : b.acct.data.length > t.W)
    (hv : c.valid v) (hfit : t.W + c.objLen v ≤ b.acct.orig + maxIncrease) :
    serializeBack c t b =
      .ok { acct := { b.acct with data := b.acct.data.take t.W ++ c.ser v }, val := b.val } := by
  have hsl := hc.len v hv
  unfold serializeBack
  simp only [hval, hw, hlen, ho, decide_true, Bool.and_self, if_true]
  cases hr : resize b.acct (t.W + c.objLen v) with
  | error e =>
    exfalso
    unfold resize at hr
    simp only [hfree, Bool.not_true, Bool.false_eq_true, if_false] at hr
    split at hr
    · cases hr
    · split at hr
      · omega
      · cases hr
  | ok a1 =>
    have hl1 := resize_length hr
    have hfr := resize_frame hr
    have htk := resize_take (k := t.W) hr (by omega) (by omega)
    have hfit2 : (c.ser v).length ≤ a1.data.length - t.W := by omega
    have hdrop : a1.data.drop (t.W + (c.ser v).length) = [] := by
      apply List.drop_of_length_le; omega
    simp only [writeBody, hfit2, if_true, hdrop, List.append_nil, htk]
    congr 1
    cases a1; cases hb : b.acct
    simp_all

theorem serializeBack_skips {c : Codec α} {t : PType} {b b' : BAcct α}
    (h : serializeBack c t b = .ok b')
    (hg : b.acct.writable = false ∨ b.acct.owner ≠ t.progId ∨ b.acct.data.length ≤ t.W) :
    b' = b := by
  unfold serializeBack at h
  cases hv : b.val with
  | none => simp only [hv] at h; cases h; rfl
  | some v =>
    simp only [hv] at h
    have hcond : (b.acct.writable && decide (b.acct.data.length > t.W) &&
        decide (b.acct.owner = t.progId)) = false := by
      rcases hg with h1 | h1 | h1
      · simp [h1]
      · simp [h1]
      · have : ¬ b.acct.data.length > t.W := by omega
        simp [this]
    simp only [hcond, Bool.false_eq_true, if_false] at h
    cases h; rfl

theorem live_length {c : Codec α} (hc : CodecOK c) {t : PType} {a : Acct} {v : α}
    (hl : Live c t a v) : a.data.length = t.W + c.objLen v := by
  rw [hl.data, List.length_append, hc.len v hl.valid]; rfl

theorem live_take {c : Codec α} {t : PType} {a : Acct} {v : α} (hl : Live c t a v) :
    a.data.take t.W = t.disc := by
  rw [hl.data]; unfold PType.W; simp

theorem live_drop {c : Codec α} {t : PType} {a : Acct} {v : α} (hl : Live c t a v) :
    a.data.drop t.W = c.ser v := by
  rw [hl.data]; unfold PType.W; simp

theorem live_admit {c : Codec α} (hc : CodecOK c) {t : PType} {a : Acct} {v : α}
    (hl : Live c t a v) : Admit t a :=
  ⟨hl.owner, live_take hl, by have := live_length hc hl; omega⟩

theorem decode_live {c : Codec α} (hc : CodecOK c) {t : PType} {a : Acct} {v : α}
    (hl : Live c t a v) : decodeAcct c t a = .ok { acct := a, val := some v } := by
  have hlen := live_length hc hl
  have hpos := hl.nonempty
  unfold decodeAcct
  have : a.data.length > t.W := by omega
  simp only [this, if_true, hl.free]
  simp [Borrow.free, Borrow.canRead, live_drop hl, hc.rt v hl.valid]

theorem client_live {c : Codec α} (hc : CodecOK c) {t : PType} {a : Acct} {v : α}
    (hl : Live c t a v) : clientDeserialize c t a.data = .ok v := by
  have hlen := live_length hc hl
  unfold clientDeserialize
  have : ¬ a.data.length < t.W := by omega
  simp [this, live_take hl, live_drop hl, hc.rt v hl.valid]

/-- When the cache / lamports side of a cleanup succeeds, the cleanup IS the write-back. -/
theorem cleanup_of_ok {c : Codec α} {t : PType} {k : Cleanup} (hk : CleanOK k) (b : BAcct α) :
    cleanup c t k b = serializeBack c t b := by
  cases k with
  | dflt =>
    simp only [cleanup, cleanupFull]
    cases serializeBack c t b <;> rfl
  | close r => exact absurd hk (by simp [CleanOK])
  | rent op who drained =>
    obtain ⟨hw, hd⟩ := hk
    have h2 : rentTail op drained = .ok () := by simp [rentTail, hd]
    simp only [cleanup, cleanupFull, if_false, hw, h2]
    cases serializeBack c t b <;> rfl

/-- A cleanup other than close that succeeds has performed exactly the write-back. -/
theorem cleanup_ok_writeback {c : Codec α} {t : PType} {k : Cleanup} (hk : ∀ r, k ≠ .close r)
    {b b' : BAcct α} (h : cleanup c t k b = .ok b') : serializeBack c t b = .ok b' := by
  cases k with
  | dflt =>
    simp only [cleanup, cleanupFull] at h
    cases hs : serializeBack c t b with
    | error e => rw [hs] at h; cases h
    | ok b1 => rw [hs] at h; exact h
  | close r => exact absurd rfl (hk r)
  | rent op who drained =>
    by_cases h1 : who = Who.cachedMissing ∧ op ≠ RentOp.normalize
    · simp [cleanup, cleanupFull, h1] at h
    · cases hs : serializeBack c t b with
      | error e => simp [cleanup, cleanupFull, h1, hs] at h
      | ok b1 =>
        by_cases h2 : who = Who.cachedMissing
        · by_cases h3 : op = RentOp.normalize <;> simp [cleanup, cleanupFull, hs, h2, h3] at h
        · cases hr : rentTail op drained with
          | error e => simp [cleanup, cleanupFull, hs, h2, hr] at h
          | ok u =>
            cases u
            simp only [cleanup, cleanupFull, hs, h2, hr, if_false] at h
            exact h

/-- The state any non-close cleanup leaves, even when it fails: either untouched or exactly the
write-back's result. -/
theorem cleanupFull_state {c : Codec α} {t : PType} {k : Cleanup} (hk : ∀ r, k ≠ .close r)
    (b : BAcct α) :
    (cleanupFull c t k b).1 = b ∨ serializeBack c t b = .ok (cleanupFull c t k b).1 := by
  cases k with
  | dflt =>
    simp only [cleanupFull]
    cases hs : serializeBack c t b with
    | error e => exact Or.inl rfl
    | ok b1 => exact Or.inr rfl
  | close r => exact absurd rfl (hk r)
  | rent op who drained =>
    simp only [cleanupFull]
    split
    · exact Or.inl rfl
    · cases hs : serializeBack c t b with
      | error e => exact Or.inl rfl
      | ok b1 =>
        simp only
        split <;> exact Or.inr rfl

/-- One instruction maps a live account holding `v0` to a live account holding what the instruction
left in the wrapper. -/
theorem instr_live {c : Codec α} (hc : CodecOK c) {t : PType} {a : Acct} {v0 : α}
    (hl : Live c t a v0) (ws : List α) (k : Cleanup) (hk : CleanOK k)
    (hs : StepOK c t a.orig (leaves v0 ws)) :
    ∃ a', instr c t a ws k = .ok a' ∧ Live c t a' (leaves v0 ws) := by
  have hlen := live_length hc hl
  have hfreeW : a.borrow.canWrite = true := by rw [hl.free]; rfl
  have hfreeR : a.borrow.canRead = true := by rw [hl.free]; rfl
  have hval := validate_ok_of_admit (live_admit hc hl) (Or.inl hfreeR)
  have hsets := applySets_ok (b := { acct := a, val := some v0 }) hl.writable ws v0 rfl
  have hser := serializeBack_writes hc (t := t)
    (b := { acct := a, val := some (leaves v0 ws) }) (v := leaves v0 ws) rfl hl.writable hl.owner
    hfreeW (by have := hl.nonempty; simp only; omega) hs.1 hs.2.2
  refine ⟨nextIx { a with data := a.data.take t.W ++ c.ser (leaves v0 ws) }, ?_, ?_⟩
  · unfold instr
    rw [decode_live hc hl]
    simp only [hval, hsets, cleanup_of_ok hk, hser]
  · exact {
      writable := hl.writable
      owner := hl.owner
      free := rfl
      data := by simp [nextIx, live_take hl]
      orig := rfl
      valid := hs.1
      nonempty := hs.2.1 }

end Account.Borsh
