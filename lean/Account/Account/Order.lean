/-!
# C11 — order in which the derived `validate_accounts` validates the fields of an account set

Model of `star_frame_proc/src/account_set/struct_impl/validate.rs` (the `pending` loop, as of the
commit "fix: validate account set fields in a topological order of their requires"):

```rust
let mut pending = validates.zip(relevant_requires).zip(field_names).collect::<Vec<_>>();
while !pending.is_empty() {
    let next_index = pending.iter()
        .position(|((_, required), _)| {
            required.iter().all(|r| !pending.iter().any(|(_, name)| name == r))
        })
        .unwrap_or(0);               // only reachable with cyclic requires
    let ((validate, _), field_name) = pending.remove(next_index);
    out.push((validate, field_name));
}
```

Field names are `Nat`s (the harness uses the declaration index as the name). Everything here is
computable and is what the driver `c11_model` executes.
-/
namespace Account.C11

/-- A field of an account set: its name and the names listed in `#[validate(requires = [..])]`. -/
abbrev Field := Nat × List Nat

/-- Declared field names, in declaration order. -/
def names (fs : List Field) : List Nat := fs.map (·.1)

/-- The `position` predicate: every required name is no longer the name of a pending field
(a required name that is not a pending field at all therefore counts as satisfied). -/
def ready (pending : List Field) (f : Field) : Bool :=
  f.2.all fun r => !(pending.any fun g => g.1 == r)

/-- `pending.iter().position(ready).unwrap_or(0)` -/
def nextIndex (pending : List Field) : Nat :=
  (pending.findIdx? (ready pending)).getD 0

/-- The `while !pending.is_empty()` loop with explicit fuel (`pending.len()` iterations suffice,
`orderLoop_fuel`). `pending.remove(i)` is `eraseIdx`; the pushed name is emitted in front. -/
def orderLoop : Nat → List Field → List Nat
  | 0, _ => []
  | n + 1, pending =>
    match pending with
    | [] => []
    | p :: ps =>
      match (p :: ps)[nextIndex (p :: ps)]? with
      | none => []    -- unreachable: `nextIndex` is in range for a non-empty list
      | some g => g.1 :: orderLoop n ((p :: ps).eraseIdx (nextIndex (p :: ps)))

/-- Names of the fields in the order the generated `validate_accounts` validates them. -/
def order (fs : List Field) : List Nat := orderLoop fs.length fs

/-! ## The loop that was there before the fix (kept to document why it was wrong)

Walk the fields in reverse declaration order; insert each one right after the last already placed
field that it requires, or at the front if there is none. -/

def insertIdxGo (req : List Nat) : List Nat → Nat → Nat → Nat
  | [], _, best => best
  | x :: xs, i, best => insertIdxGo req xs (i + 1) (if req.contains x then i + 1 else best)

/-- index + 1 of the LAST element of `out` whose name is in `req`, else 0 -/
def insertIdx (out : List Nat) (req : List Nat) : Nat := insertIdxGo req out 0 0

def insertAtN (l : List Nat) (i : Nat) (x : Nat) : List Nat := l.take i ++ [x] ++ l.drop i

def orderOld (fs : List Field) : List Nat :=
  fs.reverse.foldl (fun out f => insertAtN out (insertIdx out f.2) f.1) []

/-! ## Specification vocabulary -/

/-- `Edge fs r f`: field `f` (by name) is declared in `fs` and requires `r`. -/
def Edge (fs : List Field) (r f : Nat) : Prop := ∃ fld ∈ fs, fld.1 = f ∧ r ∈ fld.2

/-- No field (transitively) requires itself. Names that are not fields cannot lie on a cycle
(every node of a cycle is the target of an edge, hence a field), so this is acyclicity of the
`requires` graph on the fields. This is what the macro's `daggy` check enforces at compile time. -/
def Acyclic (fs : List Field) : Prop := ∀ x, ¬ Relation.TransGen (Edge fs) x x

/-- `a` occurs strictly before `b` in `l`. -/
def Before (l : List Nat) (a b : Nat) : Prop := ∃ l₁ l₂ l₃, l = l₁ ++ a :: l₂ ++ b :: l₃

/-- Executable check of "every field after everything it requires" used by the driver's
self-check and the non-vacuity examples. -/
def respects (fs : List Field) (out : List Nat) : Bool :=
  fs.all fun f => f.2.all fun r =>
    !(names fs).contains r ||
    (match out.idxOf? r, out.idxOf? f.1 with
     | some i, some j => decide (i < j)
     | _, _ => false)

end Account.C11
