import Account.Interp
import Account.LifecycleLemmas
/-!
# C11 — the recursive early-exit interpreter equals the flattened step sequence
-/
namespace Account.C11

/-! ## algebra of `Prog` -/

theorem skip_andThen (p : Prog) : skipP.andThen p = p := by
  funext tr c; simp [Prog.andThen, skipP]

theorem andThen_skip (p : Prog) : p.andThen skipP = p := by
  funext tr c
  simp only [Prog.andThen, skipP]
  rcases p tr c with ⟨tr', c', _ | e⟩ <;> rfl

theorem andThen_assoc (p q r : Prog) : (p.andThen q).andThen r = p.andThen (q.andThen r) := by
  funext tr c
  simp only [Prog.andThen]
  rcases p tr c with ⟨tr', c', _ | e⟩ <;> rfl

theorem exec_nil (plan : FaultPlan) : exec plan [] = skipP := by
  funext tr c; simp [exec, skipP]

theorem exec_app (plan : FaultPlan) (a b : List Step) :
    exec plan (a ++ b) = Prog.andThen (exec plan a) (exec plan b) := by
  funext tr c
  rw [exec_append]
  simp only [Prog.andThen]
  rcases exec plan a tr c with ⟨tr', c', _ | e⟩ <;> rfl

theorem exec_call (plan : FaultPlan) (e : Event) (nat : Option Err) :
    exec plan [⟨some e, nat, []⟩] = call plan e nat := by
  funext tr c
  simp only [exec, call]
  cases stepFail plan e nat <;> simp [applyEffs]

theorem exec_cache (plan : FaultPlan) (es : List Eff) :
    exec plan [⟨none, none, es⟩] = cacheP es := by
  funext tr c; simp [exec, cacheP]

theorem cacheP_nil : cacheP [] = skipP := by
  funext tr c; simp [cacheP, skipP, applyEffs]

theorem optCall_exec (plan : FaultPlan) (b : Bool) (ph : Phase) (tag slot : Nat) :
    optCall plan b ph tag slot = exec plan (if b then [evStep ph tag slot] else []) := by
  cases b
  · simp [optCall, exec_nil]
  · simp [optCall, evStep, exec_call]

theorem preP_exec (plan : FaultPlan) (h : FieldHdr) (r : RSet) :
    preP plan h r = exec plan (preSteps h r) := by
  cases r with
  | leaf p s pr =>
    simp only [preP, preSteps, exec_app, optCall_exec, andThen_assoc]
  | node => simp [preP, preSteps, exec_nil]
  | seq => simp [preP, preSteps, exec_nil]

theorem cachePOf_exec (plan : FaultPlan) (h : FieldHdr) (r : RSet) :
    cachePOf h r = exec plan (cacheEffs h r) := by
  cases r with
  | leaf p s pr =>
    simp only [cachePOf, cacheEffs]
    generalize ((if h.funder then [Eff.funder s] else [])
      ++ (if h.recipient then [Eff.recipient s] else [])) = es
    cases es with
    | nil => simp [cacheP_nil, exec_nil]
    | cons x xs => simp [exec_cache]
  | node => simp [cachePOf, cacheEffs, exec_nil]
  | seq => simp [cachePOf, cacheEffs, exec_nil]

theorem lookupP_map (plan : FaultPlan) (table : List (Nat × List Step)) (n : Nat) :
    lookupP (table.map fun e => (e.1, exec plan e.2)) n
      = exec plan (((table.find? (fun e => e.1 == n)).map (·.2)).getD []) := by
  unfold lookupP
  rw [List.find?_map]
  cases hf : table.find? ((fun e : Nat × Prog => e.1 == n) ∘ fun e => (e.1, exec plan e.2)) with
  | none =>
    have : table.find? (fun e => e.1 == n) = none := by
      simpa [Function.comp_def] using hf
    simp [this, exec_nil]
  | some e =>
    have : table.find? (fun e => e.1 == n) = some e := by
      simpa [Function.comp_def] using hf
    simp [this]

theorem runOrdered_exec (plan : FaultPlan) (table : List (Nat × List Step)) :
    ∀ (ns : List Nat),
    runOrdered ns (table.map fun e => (e.1, exec plan e.2)) = exec plan (arrange ns table)
  | [] => by simp [runOrdered, seqP, arrange, exec_nil]
  | n :: ns => by
    have ih := runOrdered_exec plan table ns
    simp only [runOrdered, arrange] at ih
    simp only [runOrdered, arrange, List.map_cons, seqP, List.flatMap_cons, exec_app, lookupP_map, ih]

/-! ## validate and cleanup -/

mutual
theorem validateI_eq (plan : FaultPlan) : ∀ (r : RSet), r.validateI plan = exec plan r.validateSteps
  | .leaf p s _ => by simp [RSet.validateI, RSet.validateSteps, evStep, exec_call]
  | .node sid b e x fs => by
    simp only [RSet.validateI, RSet.validateSteps, validateBlocksI_eq plan fs, runOrdered_exec,
      optCall_exec, exec_app, andThen_assoc]
  | .seq rs => by
    simp only [RSet.validateI, RSet.validateSteps]
    exact validateIL_eq plan rs
theorem validateBlocksI_eq (plan : FaultPlan) : ∀ (fs : List (FieldHdr × RSet)),
    validateBlocksI plan fs = (validateBlocks fs).map fun e => (e.1, exec plan e.2)
  | [] => by simp [validateBlocksI, validateBlocks]
  | (h, r) :: rest => by
    simp only [validateBlocksI, validateBlocks, List.map_cons, validateBlocksI_eq plan rest,
      preP_exec, cachePOf_exec plan, validateI_eq plan r]
    cases h.skip <;> simp [exec_nil, exec_app, andThen_assoc, skip_andThen]
theorem validateIL_eq (plan : FaultPlan) : ∀ (rs : List RSet),
    validateIL plan rs = exec plan (validateStepsL rs)
  | [] => by simp [validateIL, validateStepsL, exec_nil]
  | r :: rest => by
    simp only [validateIL, validateStepsL, exec_app, validateI_eq plan r, validateIL_eq plan rest]
end

mutual
theorem cleanupI_eq (plan : FaultPlan) : ∀ (r : RSet), r.cleanupI plan = exec plan r.cleanupSteps
  | .leaf p s _ => by simp [RSet.cleanupI, RSet.cleanupSteps, evStep, exec_call]
  | .node sid b e x fs => by
    simp only [RSet.cleanupI, RSet.cleanupSteps, cleanupIF_eq plan fs, optCall_exec, exec_app]
  | .seq rs => by
    simp only [RSet.cleanupI, RSet.cleanupSteps]
    exact cleanupIL_eq plan rs
theorem cleanupIF_eq (plan : FaultPlan) : ∀ (fs : List (FieldHdr × RSet)),
    cleanupIF plan fs = exec plan (cleanupStepsF fs)
  | [] => by simp [cleanupIF, cleanupStepsF, exec_nil]
  | (_, r) :: rest => by
    simp only [cleanupIF, cleanupStepsF, exec_app, cleanupI_eq plan r, cleanupIF_eq plan rest]
theorem cleanupIL_eq (plan : FaultPlan) : ∀ (rs : List RSet),
    cleanupIL plan rs = exec plan (cleanupStepsL rs)
  | [] => by simp [cleanupIL, cleanupStepsL, exec_nil]
  | r :: rest => by
    simp only [cleanupIL, cleanupStepsL, exec_app, cleanupI_eq plan r, cleanupIL_eq plan rest]
end

/-! ## decode -/

/-- What the recursive decoder returns, in terms of the flattened decode steps of the shape
`resolve` computes: the same trace; the same first error if a step fails; otherwise exactly the
resolved shape and the remaining accounts. -/
def DecodeAgrees {ρ : Type} (plan : FaultPlan) (ss : List Step) (shape : ρ) (a' : Accts)
    (tr : Trace) (c : Ctx) (res : Trace × Accts × Except Err ρ) : Prop :=
  match exec plan ss tr c with
  | (tr', _, some er) => res.1 = tr' ∧ res.2.2 = .error er
  | (tr', c', none) => res = (tr', a', .ok shape) ∧ c' = c

theorem DecodeAgrees_nil {ρ : Type} (plan : FaultPlan) (shape : ρ) (a : Accts) (tr : Trace) (c : Ctx) :
    DecodeAgrees plan [] shape a tr c (tr, a, .ok shape) := by
  simp [DecodeAgrees, exec]

/-- `first?` then `next?`, combining the two decoded values -/
def bindD {ρ₁ ρ₂ ρ : Type} (res₁ : Trace × Accts × Except Err ρ₁)
    (next : Trace → Accts → Trace × Accts × Except Err ρ₂) (comb : ρ₁ → ρ₂ → ρ) :
    Trace × Accts × Except Err ρ :=
  match res₁ with
  | (tr', a', .error er) => (tr', a', .error er)
  | (tr', a', .ok r) =>
    match next tr' a' with
    | (tr'', a'', .error er) => (tr'', a'', .error er)
    | (tr'', a'', .ok rs) => (tr'', a'', .ok (comb r rs))

/-- sequencing two decoders that agree with their step lists -/
theorem DecodeAgrees_append {ρ₁ ρ₂ ρ : Type} (plan : FaultPlan) (s₁ s₂ : List Step)
    (sh₁ : ρ₁) (sh₂ : ρ₂) (a₁ a₂ : Accts) (tr : Trace) (c : Ctx)
    (res₁ : Trace × Accts × Except Err ρ₁)
    (next : Trace → Accts → Trace × Accts × Except Err ρ₂) (comb : ρ₁ → ρ₂ → ρ)
    (h₁ : DecodeAgrees plan s₁ sh₁ a₁ tr c res₁)
    (h₂ : ∀ tr', DecodeAgrees plan s₂ sh₂ a₂ tr' c (next tr' a₁)) :
    DecodeAgrees plan (s₁ ++ s₂) (comb sh₁ sh₂) a₂ tr c (bindD res₁ next comb) := by
  unfold DecodeAgrees at h₁ ⊢
  rw [exec_append]
  rcases he : exec plan s₁ tr c with ⟨tr1, c1, _ | er⟩
  · rw [he] at h₁
    obtain ⟨h₁, hc⟩ := h₁
    subst h₁; subst hc
    simp only [bindD]
    have h := h₂ tr1
    unfold DecodeAgrees at h
    rcases he2 : exec plan s₂ tr1 c1 with ⟨tr2, c2, _ | er2⟩
    · rw [he2] at h
      obtain ⟨h, hc⟩ := h
      rw [h]; exact ⟨rfl, hc⟩
    · rw [he2] at h
      obtain ⟨h1, h2⟩ := h
      rcases hn : next tr1 a₁ with ⟨t, a, _ | rs⟩
      · rw [hn] at h1 h2; simp at h2 h1; subst h2; subst h1; exact ⟨rfl, rfl⟩
      · rw [hn] at h2; simp at h2
  · rw [he] at h₁
    obtain ⟨h1, h2⟩ := h₁
    rcases res₁ with ⟨t, a, _ | r⟩
    · simp at h2 h1; subst h2; subst h1; exact ⟨rfl, rfl⟩
    · simp at h2

mutual
theorem decodeI_agrees (plan : FaultPlan) : ∀ (t : ASet) (tr : Trace) (a : Accts) (c : Ctx),
    DecodeAgrees plan (t.resolve a).1.decodeSteps (t.resolve a).1 (t.resolve a).2 tr c
      (t.decodeI plan tr a)
  | .leaf p, tr, a, c => by
    cases hr : a.rest with
    | nil =>
      simp only [ASet.resolve, ASet.decodeI, hr, RSet.decodeSteps, DecodeAgrees, exec, stepFail]
      cases planned plan ⟨.decode, p, a.pos, [], none, none⟩ <;> simp
    | cons x xs =>
      simp only [ASet.resolve, ASet.decodeI, hr, RSet.decodeSteps, DecodeAgrees, exec, stepFail]
      cases planned plan ⟨.decode, p, a.pos, [], none, none⟩ <;> simp [applyEffs]
  | .node sid b e x fs, tr, a, c => by
    have h := decodeIF_agrees plan fs tr a c
    simp only [ASet.resolve, ASet.decodeI, RSet.decodeSteps]
    unfold DecodeAgrees at h ⊢
    rcases he : exec plan (decodeStepsF (resolveF fs a).1) tr c with ⟨tr1, c1, _ | er⟩
    · rw [he] at h; obtain ⟨h, hc⟩ := h; rw [h]; exact ⟨rfl, hc⟩
    · rw [he] at h
      obtain ⟨h1, h2⟩ := h
      rcases hd : decodeIF plan fs tr a with ⟨t, a', _ | r⟩
      · rw [hd] at h1 h2; simp at h2; subst h2; exact ⟨h1, rfl⟩
      · rw [hd] at h2; simp at h2
  | .seq ts, tr, a, c => by
    have h := decodeIL_agrees plan ts tr a c
    simp only [ASet.resolve, ASet.decodeI, RSet.decodeSteps]
    unfold DecodeAgrees at h ⊢
    rcases he : exec plan (decodeStepsL (resolveL ts a).1) tr c with ⟨tr1, c1, _ | er⟩
    · rw [he] at h; obtain ⟨h, hc⟩ := h; rw [h]; exact ⟨rfl, hc⟩
    · rw [he] at h
      obtain ⟨h1, h2⟩ := h
      rcases hd : decodeIL plan ts tr a with ⟨t, a', _ | r⟩
      · rw [hd] at h1 h2; simp at h2; subst h2; exact ⟨h1, rfl⟩
      · rw [hd] at h2; simp at h2
  | .opt k t, tr, a, c => by
    cases hr : a.rest with
    | nil =>
      simp only [ASet.resolve, ASet.decodeI, hr, RSet.decodeSteps, decodeStepsL]
      exact DecodeAgrees_nil plan _ a tr c
    | cons x xs =>
      by_cases hk : k = .option ∧ x = true
      · simp only [ASet.resolve, ASet.decodeI, hr, hk, and_self, if_true, RSet.decodeSteps,
          decodeStepsL]
        exact DecodeAgrees_nil plan _ _ tr c
      · have h := decodeI_agrees plan t tr a c
        simp only [ASet.resolve, ASet.decodeI, hr, hk, if_false, RSet.decodeSteps, decodeStepsL,
          List.append_nil]
        unfold DecodeAgrees at h ⊢
        rcases he : exec plan (t.resolve a).1.decodeSteps tr c with ⟨tr1, c1, _ | er⟩
        · rw [he] at h; obtain ⟨h, hc⟩ := h; rw [h]; exact ⟨rfl, hc⟩
        · rw [he] at h
          obtain ⟨h1, h2⟩ := h
          rcases hd : t.decodeI plan tr a with ⟨t', a', _ | r⟩
          · rw [hd] at h1 h2; simp at h2; subst h2; exact ⟨h1, rfl⟩
          · rw [hd] at h2; simp at h2
theorem decodeIF_agrees (plan : FaultPlan) : ∀ (fs : List (FieldHdr × ASet)) (tr : Trace)
    (a : Accts) (c : Ctx),
    DecodeAgrees plan (decodeStepsF (resolveF fs a).1) (resolveF fs a).1 (resolveF fs a).2 tr c
      (decodeIF plan fs tr a)
  | [], tr, a, c => by
    simp only [resolveF, decodeIF, decodeStepsF]
    exact DecodeAgrees_nil plan _ a tr c
  | (h, t) :: rest, tr, a, c => by
    simp only [resolveF, decodeStepsF]
    have hb : decodeIF plan ((h, t) :: rest) tr a
        = bindD (t.decodeI plan tr a) (decodeIF plan rest) (fun r rs => (h, r) :: rs) := by
      simp only [decodeIF, bindD]
      rcases t.decodeI plan tr a with ⟨t1, a1, er | r⟩
      · rfl
      · simp only
        rcases decodeIF plan rest t1 a1 with ⟨t2, a2, er | rs⟩ <;> rfl
    rw [hb]
    exact DecodeAgrees_append plan _ _ (t.resolve a).1 (resolveF rest (t.resolve a).2).1
      (t.resolve a).2 _ tr c (t.decodeI plan tr a) (decodeIF plan rest) (fun r rs => (h, r) :: rs)
      (decodeI_agrees plan t tr a c)
      (fun tr' => decodeIF_agrees plan rest tr' (t.resolve a).2 c)
theorem decodeIL_agrees (plan : FaultPlan) : ∀ (ts : List ASet) (tr : Trace) (a : Accts) (c : Ctx),
    DecodeAgrees plan (decodeStepsL (resolveL ts a).1) (resolveL ts a).1 (resolveL ts a).2 tr c
      (decodeIL plan ts tr a)
  | [], tr, a, c => by
    simp only [resolveL, decodeIL, decodeStepsL]
    exact DecodeAgrees_nil plan _ a tr c
  | t :: rest, tr, a, c => by
    simp only [resolveL, decodeStepsL]
    have hb : decodeIL plan (t :: rest) tr a
        = bindD (t.decodeI plan tr a) (decodeIL plan rest) (fun r rs => r :: rs) := by
      simp only [decodeIL, bindD]
      rcases t.decodeI plan tr a with ⟨t1, a1, er | r⟩
      · rfl
      · simp only
        rcases decodeIL plan rest t1 a1 with ⟨t2, a2, er | rs⟩ <;> rfl
    rw [hb]
    exact DecodeAgrees_append plan _ _ (t.resolve a).1 (resolveL rest (t.resolve a).2).1
      (t.resolve a).2 _ tr c (t.decodeI plan tr a) (decodeIL plan rest) (fun r rs => r :: rs)
      (decodeI_agrees plan t tr a c)
      (fun tr' => decodeIL_agrees plan rest tr' (t.resolve a).2 c)
end

/-! ## the whole run -/

theorem runI_eq_run (ix : Ix) (plan : FaultPlan) (data : List Nat) (accts : List Bool) :
    runI ix plan data accts = run ix plan data accts := by
  unfold runI run
  cases argsFail ix plan data with
  | some e => rfl
  | none =>
    simp only
    have h := decodeI_agrees plan ix.set [argsEvent ix] ⟨accts, 0⟩ {}
    unfold DecodeAgrees at h
    rcases he : exec plan (ix.set.resolve ⟨accts, 0⟩).1.decodeSteps [argsEvent ix] {} with ⟨tr1, c1, _ | er⟩
    · rw [he] at h
      obtain ⟨h, hc⟩ := h
      subst hc
      rw [h]
      simp only [validateI_eq, cleanupI_eq]
      rcases exec plan (ix.set.resolve ⟨accts, 0⟩).1.validateSteps tr1 {} with ⟨tr2, c2, _ | e⟩
      · simp only
        cases planned plan ⟨.process, ix.id, 0, data.take ix.alen, c2.funder, c2.recipient⟩ with
        | some e => rfl
        | none =>
          simp only
          rcases exec plan (ix.set.resolve ⟨accts, 0⟩).1.cleanupSteps
            (tr2 ++ [⟨.process, ix.id, 0, data.take ix.alen, c2.funder, c2.recipient⟩]) c2
            with ⟨tr3, c3, _ | e⟩ <;> rfl
      · rfl
    · rw [he] at h
      obtain ⟨h1, h2⟩ := h
      rcases hd : ix.set.decodeI plan [argsEvent ix] ⟨accts, 0⟩ with ⟨t, a', _ | r⟩
      · rw [hd] at h1 h2; simp at h2 h1; subst h2; subst h1; rfl
      · rw [hd] at h2; simp at h2

end Account.C11
