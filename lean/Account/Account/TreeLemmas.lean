import Account.Lifecycle
import Account.OrderLemmas
/-!
# C11 — lemmas about nested account sets (`ASet`): hooks, blocks, `arrange`, the cache
-/
namespace Account.C11

/-! ## `arrange` -/

/-- the block of code generated for the field called `n` -/
def blockOf (table : List (Nat × List Step)) (n : Nat) : List Step :=
  ((table.find? (fun e => e.1 == n)).map (·.2)).getD []

theorem arrange_eq (ns : List Nat) (table : List (Nat × List Step)) :
    arrange ns table = ns.flatMap (blockOf table) := rfl

theorem arrange_append (a b : List Nat) (table : List (Nat × List Step)) :
    arrange (a ++ b) table = arrange a table ++ arrange b table := by
  simp [arrange]

theorem arrange_cons (n : Nat) (a : List Nat) (table : List (Nat × List Step)) :
    arrange (n :: a) table = blockOf table n ++ arrange a table := by
  simp [arrange, blockOf]

/-- If `r` comes before `f` in the order, the whole block of `r` comes before the whole block of `f`. -/
theorem arrange_before {ns : List Nat} {r f : Nat} (table : List (Nat × List Step))
    (h : Before ns r f) :
    ∃ l₁ l₂ l₃, arrange ns table = l₁ ++ blockOf table r ++ l₂ ++ blockOf table f ++ l₃ := by
  obtain ⟨a, b, c, rfl⟩ := h
  refine ⟨arrange a table, arrange b table, arrange c table, ?_⟩
  simp [arrange_append, arrange_cons]

theorem blockOf_cons_ne {hd : Nat × List Step} {tl : List (Nat × List Step)} {n : Nat}
    (h : n ≠ hd.1) : blockOf (hd :: tl) n = blockOf tl n := by
  have : (hd.1 == n) = false := by simp; exact fun e => h e.symm
  simp [blockOf, List.find?_cons, this]

theorem blockOf_cons_self (hd : Nat × List Step) (tl : List (Nat × List Step)) :
    blockOf (hd :: tl) hd.1 = hd.2 := by
  simp [blockOf, List.find?_cons]

theorem arrange_cons_table_of_not_mem : ∀ (ns : List Nat) (hd : Nat × List Step)
    (tl : List (Nat × List Step)), hd.1 ∉ ns → arrange ns (hd :: tl) = arrange ns tl
  | [], _, _, _ => by simp [arrange]
  | n :: ns, hd, tl, h => by
    simp only [List.mem_cons, not_or] at h
    rw [arrange_cons, arrange_cons, blockOf_cons_ne (fun e => h.1 e.symm),
      arrange_cons_table_of_not_mem ns hd tl h.2]

/-- Arranging by the table's own (distinct) names, in table order, is plain concatenation. -/
theorem arrange_self : ∀ (table : List (Nat × List Step)), (table.map (·.1)).Nodup →
    arrange (table.map (·.1)) table = table.flatMap (·.2)
  | [], _ => by simp [arrange]
  | hd :: tl, h => by
    simp only [List.map_cons, List.nodup_cons] at h
    simp only [List.map_cons, List.flatMap_cons]
    rw [arrange_cons, blockOf_cons_self, arrange_cons_table_of_not_mem _ _ _ h.1, arrange_self tl h.2]

/-- Arranging by any permutation of the distinct names yields a permutation of all blocks:
every block exactly once. -/
theorem arrange_perm {ns : List Nat} {table : List (Nat × List Step)}
    (hnd : (table.map (·.1)).Nodup) (hp : ns.Perm (table.map (·.1))) :
    (arrange ns table).Perm (table.flatMap (·.2)) := by
  rw [← arrange_self table hnd, arrange_eq, arrange_eq]
  exact hp.flatMap_right _

theorem blockOf_of_mem : ∀ {table : List (Nat × List Step)} {e : Nat × List Step},
    (table.map (·.1)).Nodup → e ∈ table → blockOf table e.1 = e.2
  | [], _, _, h => by simp at h
  | hd :: tl, e, hnd, h => by
    simp only [List.map_cons, List.nodup_cons] at hnd
    rcases List.mem_cons.mp h with rfl | ht
    · exact blockOf_cons_self _ _
    · have hne : e.1 ≠ hd.1 := by
        intro heq
        exact hnd.1 (heq ▸ List.mem_map.mpr ⟨e, ht, rfl⟩)
      rw [blockOf_cons_ne hne]
      exact blockOf_of_mem hnd.2 ht

/-! ## blocks of a struct -/

theorem validateBlocks_names : ∀ (fs : List (FieldHdr × RSet)),
    (validateBlocks fs).map (·.1) = names (sigs fs)
  | [] => by simp [validateBlocks, sigs, names]
  | (h, s) :: r => by
    have ih := validateBlocks_names r
    simp only [sigs, names] at ih
    simp [validateBlocks, sigs, names, ih]

theorem validateBlocks_mem : ∀ {fs : List (FieldHdr × RSet)} {h : FieldHdr} {s : RSet},
    (h, s) ∈ fs →
    (h.name, (if h.skip then [] else preSteps h s ++ s.validateSteps) ++ cacheEffs h s) ∈ validateBlocks fs
  | [], _, _, hm => by simp at hm
  | (h', s') :: r, h, s, hm => by
    simp only [validateBlocks]
    rcases List.mem_cons.mp hm with heq | ht
    · cases heq; exact List.mem_cons_self
    · exact List.mem_cons_of_mem _ (validateBlocks_mem ht)

/-- With distinct field names, the block arranged under a field's name is that field's code:
its own validation (unless `skip`) followed by the funder / recipient caching. -/
theorem blockOf_field {fs : List (FieldHdr × RSet)} {h : FieldHdr} {s : RSet}
    (hnd : (names (sigs fs)).Nodup) (hm : (h, s) ∈ fs) :
    blockOf (validateBlocks fs) h.name =
      (if h.skip then [] else preSteps h s ++ s.validateSteps) ++ cacheEffs h s := by
  have := blockOf_of_mem (table := validateBlocks fs)
    (by rw [validateBlocks_names]; exact hnd) (validateBlocks_mem hm)
  simpa using this

theorem validateSteps_node (sid : Nat) (b e x : Bool) (fs : List (FieldHdr × RSet)) :
    (RSet.node sid b e x fs).validateSteps =
      (if b then [evStep .vbefore sid] else [])
      ++ arrange (order (sigs fs)) (validateBlocks fs)
      ++ (if e then [evStep .vextra sid] else []) := by
  simp [RSet.validateSteps]

/-! ## the flat case is the original C11 model -/

def flatHdr (f : Field) : FieldHdr := ⟨f.1, f.2, false, false, false, false, false, false⟩

theorem flat_eq (sid : Nat) (fs : List Field) :
    flat sid fs = .node sid false false false (fs.map fun f => (flatHdr f, RSet.leaf f.1 f.1 true)) := rfl

theorem events_map_evStep (ph : Phase) : ∀ (l : List Nat),
    events (l.map (fun f => evStep ph f f)) = l.map (fun f => (⟨ph, f, f, [], none, none⟩ : Event))
  | [] => rfl
  | x :: xs => by
    have ih := events_map_evStep ph xs
    simp only [events, List.map_cons, List.filterMap_cons] at ih ⊢
    rw [ih]; rfl

theorem sigs_flat (fs : List Field) :
    sigs (fs.map fun f => (flatHdr f, RSet.leaf f.1 f.1 true)) = fs := by
  induction fs with
  | nil => rfl
  | cons f r ih =>
    simp only [sigs, List.map_cons] at ih ⊢
    rw [ih]; rfl

theorem validateBlocks_flat : ∀ (fs : List Field),
    validateBlocks (fs.map fun f => (flatHdr f, RSet.leaf f.1 f.1 true))
      = fs.map (fun f => (f.1, [evStep .validate f.1 f.1]))
  | [] => by simp [validateBlocks]
  | f :: r => by
    have ih := validateBlocks_flat r
    simp only [List.map_cons, validateBlocks, ih]
    simp [RSet.validateSteps, cacheEffs, preSteps, flatHdr]

theorem blockOf_flat : ∀ (fs : List Field) (n : Nat), n ∈ names fs →
    blockOf (fs.map (fun f => (f.1, [evStep .validate f.1 f.1]))) n = [evStep .validate n n]
  | [], _, h => by simp [names] at h
  | f :: r, n, h => by
    by_cases hn : n = f.1
    · subst hn; simp [blockOf, List.find?_cons]
    · have : n ∈ names r := by
        simp only [names, List.map_cons, List.mem_cons] at h
        rcases h with h | h
        · exact absurd h hn
        · exact h
      simp only [List.map_cons]
      rw [blockOf_cons_ne (by simpa using hn)]
      exact blockOf_flat r n this

theorem arrange_flat (fs : List Field) : ∀ (ns : List Nat), (∀ n ∈ ns, n ∈ names fs) →
    arrange ns (fs.map (fun f => (f.1, [evStep .validate f.1 f.1]))) = ns.map (fun n => evStep .validate n n)
  | [], _ => by simp [arrange]
  | n :: ns, h => by
    rw [arrange_cons, blockOf_flat fs n (h n (by simp)),
      arrange_flat fs ns (fun m hm => h m (List.mem_cons_of_mem _ hm))]
    simp

/-- A flat struct of leaves without hooks validates exactly `order fs`. -/
theorem flat_validateSteps (sid : Nat) (fs : List Field) :
    (flat sid fs).validateSteps = (order fs).map (fun n => evStep .validate n n) := by
  rw [flat_eq, validateSteps_node, sigs_flat, validateBlocks_flat]
  simp only [Bool.false_eq_true, if_false, List.nil_append, List.append_nil]
  apply arrange_flat
  intro n hn
  exact (orderLoop_perm fs.length fs (Nat.le_refl _)).mem_iff.mp hn

theorem decodeStepsF_flat : ∀ (fs : List Field),
    events (decodeStepsF (fs.map fun f => (flatHdr f, RSet.leaf f.1 f.1 true)))
      = (names fs).map (fun f => (⟨.decode, f, f, [], none, none⟩ : Event))
  | [] => by simp [decodeStepsF, names, events]
  | f :: r => by
    have ih := decodeStepsF_flat r
    simp only [names, events] at ih
    simp [decodeStepsF, RSet.decodeSteps, names, events, ih]

theorem cleanupStepsF_flat : ∀ (fs : List Field),
    events (cleanupStepsF (fs.map fun f => (flatHdr f, RSet.leaf f.1 f.1 true)))
      = (names fs).map (fun f => (⟨.cleanup, f, f, [], none, none⟩ : Event))
  | [] => by simp [cleanupStepsF, names, events]
  | f :: r => by
    have ih := cleanupStepsF_flat r
    simp only [names, events] at ih
    simp [cleanupStepsF, RSet.cleanupSteps, evStep, names, events, ih]

/-! ## every block exactly once, through any nesting -/

mutual
/-- field names are pairwise distinct in every struct of the tree (guaranteed by rustc) -/
def RSet.namesOK : RSet → Bool
  | .leaf _ _ _ => true
  | .node _ _ _ _ fs => decide (names (sigs fs)).Nodup && namesOKF fs
  | .seq rs => namesOKL rs
def namesOKF : List (FieldHdr × RSet) → Bool
  | [] => true
  | (_, s) :: r => s.namesOK && namesOKF r
def namesOKL : List RSet → Bool
  | [] => true
  | s :: r => s.namesOK && namesOKL r
end

mutual
/-- The validation steps with every struct's fields taken in DECLARATION order. -/
def RSet.validateStepsDecl : RSet → List Step
  | .leaf p s _ => [evStep .validate p s]
  | .node sid b e _ fs =>
    (if b then [evStep .vbefore sid] else [])
    ++ validateDeclF fs
    ++ (if e then [evStep .vextra sid] else [])
  | .seq rs => validateDeclL rs
def validateDeclF : List (FieldHdr × RSet) → List Step
  | [] => []
  | (h, s) :: r =>
    ((if h.skip then [] else preSteps h s ++ s.validateStepsDecl) ++ cacheEffs h s) ++ validateDeclF r
def validateDeclL : List RSet → List Step
  | [] => []
  | s :: r => s.validateStepsDecl ++ validateDeclL r
end

mutual
theorem validateSteps_perm_decl : ∀ (t : RSet), t.namesOK = true →
    t.validateSteps.Perm t.validateStepsDecl
  | .leaf _ _ _, _ => by simp [RSet.validateSteps, RSet.validateStepsDecl]
  | .node sid b e x fs, h => by
    simp only [RSet.namesOK, Bool.and_eq_true, decide_eq_true_eq] at h
    rw [validateSteps_node]
    simp only [RSet.validateStepsDecl]
    have hnd : ((validateBlocks fs).map (·.1)).Nodup := by rw [validateBlocks_names]; exact h.1
    have hp : (order (sigs fs)).Perm ((validateBlocks fs).map (·.1)) := by
      rw [validateBlocks_names]
      exact orderLoop_perm _ _ (Nat.le_refl _)
    have h1 := arrange_perm hnd hp
    have h2 := validateBlocks_perm_decl fs h.2
    exact ((h1.trans h2).append_left _).append_right _
  | .seq rs, h => by
    simp only [RSet.namesOK] at h
    simp only [RSet.validateSteps, RSet.validateStepsDecl]
    exact validateStepsL_perm_decl rs h
theorem validateBlocks_perm_decl : ∀ (fs : List (FieldHdr × RSet)), namesOKF fs = true →
    ((validateBlocks fs).flatMap (·.2)).Perm (validateDeclF fs)
  | [], _ => by simp [validateBlocks, validateDeclF]
  | (h, s) :: r, hok => by
    simp only [namesOKF, Bool.and_eq_true] at hok
    simp only [validateBlocks, validateDeclF, List.flatMap_cons]
    have ih := validateBlocks_perm_decl r hok.2
    refine List.Perm.append ?_ ih
    refine List.Perm.append_right _ ?_
    cases h.skip with
    | true => simp
    | false =>
      simp only [Bool.false_eq_true, if_false]
      exact (validateSteps_perm_decl s hok.1).append_left _
theorem validateStepsL_perm_decl : ∀ (rs : List RSet), namesOKL rs = true →
    (validateStepsL rs).Perm (validateDeclL rs)
  | [], _ => by simp [validateStepsL, validateDeclL]
  | s :: r, hok => by
    simp only [namesOKL, Bool.and_eq_true] at hok
    simp only [validateStepsL, validateDeclL]
    exact (validateSteps_perm_decl s hok.1).append (validateStepsL_perm_decl r hok.2)
end

/-! ## the cache -/

def firstFunder (es : List Eff) : Option Nat :=
  es.findSome? fun | .funder p => some p | .recipient _ => none
def firstRecipient (es : List Eff) : Option Nat :=
  es.findSome? fun | .recipient p => some p | .funder _ => none

theorem applyEffs_funder : ∀ (es : List Eff) (c : Ctx),
    (applyEffs c es).funder = (c.funder <|> firstFunder es)
  | [], c => by simp [applyEffs, firstFunder]
  | .funder p :: es, c => by
    have ih := applyEffs_funder es
    simp only [applyEffs, List.foldl_cons] at ih ⊢
    rw [ih]
    cases hc : c.funder <;> simp [applyEff, hc, firstFunder]
  | .recipient p :: es, c => by
    have ih := applyEffs_funder es
    simp only [applyEffs, List.foldl_cons] at ih ⊢
    rw [ih]
    cases hc : c.recipient <;> simp [applyEff, hc, firstFunder]

theorem applyEffs_recipient : ∀ (es : List Eff) (c : Ctx),
    (applyEffs c es).recipient = (c.recipient <|> firstRecipient es)
  | [], c => by simp [applyEffs, firstRecipient]
  | .recipient p :: es, c => by
    have ih := applyEffs_recipient es
    simp only [applyEffs, List.foldl_cons] at ih ⊢
    rw [ih]
    cases hc : c.recipient <;> simp [applyEff, hc, firstRecipient]
  | .funder p :: es, c => by
    have ih := applyEffs_recipient es
    simp only [applyEffs, List.foldl_cons] at ih ⊢
    rw [ih]
    cases hc : c.funder <;> simp [applyEff, hc, firstRecipient]

end Account.C11

namespace Account.C11

/-! ## phases of the steps of each part of the lifecycle -/

theorem mem_arrange {ns : List Nat} {table : List (Nat × List Step)} {s : Step}
    (h : s ∈ arrange ns table) : ∃ e ∈ table, s ∈ e.2 := by
  simp only [arrange, List.mem_flatMap] at h
  obtain ⟨n, _, hs⟩ := h
  cases hf : table.find? (fun e => e.1 == n) with
  | none => simp [hf] at hs
  | some e =>
    simp [hf] at hs
    exact ⟨e, List.mem_of_find?_eq_some hf, hs⟩

def validatePhases : List Phase := [.vbefore, .vaddr, .vtemp, .varg, .validate, .vextra]

theorem cacheEffs_ev (h : FieldHdr) (t : RSet) : ∀ s ∈ cacheEffs h t, s.ev = none := by
  intro s hs
  cases t with
  | leaf p sl pr =>
    simp only [cacheEffs] at hs
    generalize ((if h.funder then [Eff.funder sl] else [])
      ++ (if h.recipient then [Eff.recipient sl] else [])) = es at hs
    cases hes : es.isEmpty <;> simp [hes] at hs
    subst hs; rfl
  | node => simp [cacheEffs] at hs
  | seq => simp [cacheEffs] at hs

theorem preSteps_phase (h : FieldHdr) (t : RSet) : ∀ s ∈ preSteps h t, ∀ e, s.ev = some e →
    e.phase ∈ validatePhases := by
  intro s hs e he
  cases t with
  | leaf p sl pr =>
    simp only [preSteps, List.mem_append] at hs
    rcases hs with (hs | hs) | hs
    · cases hfl : h.addr <;> simp [evStep, hfl] at hs
      subst hs; simp at he; subst he; simp [validatePhases]
    · cases hfl : h.temp <;> simp [evStep, hfl] at hs
      subst hs; simp at he; subst he; simp [validatePhases]
    · cases hfl : h.arg <;> simp [evStep, hfl] at hs
      subst hs; simp at he; subst he; simp [validatePhases]
  | node => simp [preSteps] at hs
  | seq => simp [preSteps] at hs

mutual
theorem validateSteps_phase : ∀ (t : RSet) (s : Step), s ∈ t.validateSteps →
    ∀ e, s.ev = some e → e.phase ∈ validatePhases
  | .leaf p sl _, s, hs, e, he => by
    simp [RSet.validateSteps, evStep] at hs
    subst hs; simp at he; subst he; simp [validatePhases]
  | .node sid b e' x fs, s, hs, e, he => by
    rw [validateSteps_node] at hs
    simp only [List.mem_append] at hs
    rcases hs with (hs | hs) | hs
    · cases b <;> simp [evStep] at hs
      subst hs; simp at he; subst he; simp [validatePhases]
    · obtain ⟨ent, hent, hs⟩ := mem_arrange hs
      exact validateBlocks_phase fs ent hent s hs e he
    · cases e' <;> simp [evStep] at hs
      subst hs; simp at he; subst he; simp [validatePhases]
  | .seq rs, s, hs, e, he => by
    simp only [RSet.validateSteps] at hs
    exact validateStepsL_phase rs s hs e he
theorem validateBlocks_phase : ∀ (fs : List (FieldHdr × RSet)) (ent : Nat × List Step),
    ent ∈ validateBlocks fs → ∀ s ∈ ent.2, ∀ e, s.ev = some e → e.phase ∈ validatePhases
  | [], ent, h, _, _, _, _ => by simp [validateBlocks] at h
  | (h, t) :: r, ent, hm, s, hs, e, he => by
    simp only [validateBlocks, List.mem_cons] at hm
    rcases hm with rfl | hm
    · simp only [List.mem_append] at hs
      rcases hs with hs | hs
      · cases hsk : h.skip with
        | true => simp [hsk] at hs
        | false =>
          simp only [hsk, Bool.false_eq_true, if_false, List.mem_append] at hs
          rcases hs with hs | hs
          · exact preSteps_phase h t s hs e he
          · exact validateSteps_phase t s hs e he
      · have := cacheEffs_ev h t s hs
        rw [this] at he; cases he
    · exact validateBlocks_phase r ent hm s hs e he
theorem validateStepsL_phase : ∀ (rs : List RSet) (s : Step), s ∈ validateStepsL rs →
    ∀ e, s.ev = some e → e.phase ∈ validatePhases
  | [], s, hs, _, _ => by simp [validateStepsL] at hs
  | t :: r, s, hs, e, he => by
    simp only [validateStepsL, List.mem_append] at hs
    rcases hs with hs | hs
    · exact validateSteps_phase t s hs e he
    · exact validateStepsL_phase r s hs e he
end

theorem events_validate_phase (t : RSet) : ∀ e ∈ events t.validateSteps, e.phase ∈ validatePhases := by
  intro e he
  simp only [events, List.mem_filterMap] at he
  obtain ⟨s, hs, hse⟩ := he
  exact validateSteps_phase t s hs e hse

mutual
theorem decodeSteps_phase : ∀ (t : RSet) (s : Step), s ∈ t.decodeSteps →
    ∀ e, s.ev = some e → e.phase = .decode
  | .leaf p sl pr, s, hs, e, he => by
    simp [RSet.decodeSteps] at hs
    subst hs; simp at he; subst he; rfl
  | .node _ _ _ _ fs, s, hs, e, he => by
    simp only [RSet.decodeSteps] at hs
    exact decodeStepsF_phase fs s hs e he
  | .seq rs, s, hs, e, he => by
    simp only [RSet.decodeSteps] at hs
    exact decodeStepsL_phase rs s hs e he
theorem decodeStepsF_phase : ∀ (fs : List (FieldHdr × RSet)) (s : Step), s ∈ decodeStepsF fs →
    ∀ e, s.ev = some e → e.phase = .decode
  | [], s, hs, _, _ => by simp [decodeStepsF] at hs
  | (_, t) :: r, s, hs, e, he => by
    simp only [decodeStepsF, List.mem_append] at hs
    rcases hs with hs | hs
    · exact decodeSteps_phase t s hs e he
    · exact decodeStepsF_phase r s hs e he
theorem decodeStepsL_phase : ∀ (rs : List RSet) (s : Step), s ∈ decodeStepsL rs →
    ∀ e, s.ev = some e → e.phase = .decode
  | [], s, hs, _, _ => by simp [decodeStepsL] at hs
  | t :: r, s, hs, e, he => by
    simp only [decodeStepsL, List.mem_append] at hs
    rcases hs with hs | hs
    · exact decodeSteps_phase t s hs e he
    · exact decodeStepsL_phase r s hs e he
end

theorem events_decode_phase (t : RSet) : ∀ e ∈ events t.decodeSteps, e.phase = .decode := by
  intro e he
  simp only [events, List.mem_filterMap] at he
  obtain ⟨s, hs, hse⟩ := he
  exact decodeSteps_phase t s hs e hse

end Account.C11
