import Account.Rent
import Account.InitLemmas
/-! Lemmas about `addLamports`, `fundRent` and the four cleanup operations (C13). -/
namespace Account.Rent
open Common Account.World Account.Init

theorem addLamports_ok {k : Key} {n : Nat} {s : St} (h : (s.w k).lamports + n < 2 ^ 64) :
    addLamports k n s = (.ok (), { s with w := setLamports s.w k ((s.w k).lamports + n) }) := by
  unfold addLamports
  rw [if_neg (by omega)]

theorem addLamports_panic {k : Key} {n : Nat} {s : St} (h : (s.w k).lamports + n ≥ 2 ^ 64) :
    addLamports k n s = (.panic, s) := by
  unfold addLamports
  rw [if_pos h]

theorem addLamports_world (k : Key) (n : Nat) (s : St) :
    (addLamports k n s).2.w = s.w ∨ (addLamports k n s).2.w = setLamports s.w k ((s.w k).lamports + n) := by
  unfold addLamports
  split
  · left; rfl
  · right; rfl

/-- Debit the target, credit the other account: the direct-write path of normalize / refund. -/
theorem debit_credit (other tgt : Key) (n : Nat) (s : St) (ks : List Key) (hnd : ks.Nodup)
    (ht : tgt ∈ ks) (ho : other ∈ ks) (hne : other ≠ tgt) (hn : n ≤ (s.w tgt).lamports)
    (hsum : total ks s.w < 2 ^ 64) :
    addLamports other n { s with w := setLamports s.w tgt ((s.w tgt).lamports - n) }
      = (.ok (), { s with w := move s.w tgt other n }) := by
  have hle := add_le_total ks s.w other tgt hnd ho ht hne
  have h1 : ((setLamports s.w tgt ((s.w tgt).lamports - n)) other).lamports = (s.w other).lamports := by
    rw [setLamports_other _ _ hne]
  rw [addLamports_ok (by simp only []; rw [h1]; omega)]
  rfl

theorem fundRent_world (env : Env) (f : Funder) (tgt : Key) (n : Nat) (s : St) :
    ((fundRent env f tgt n s).1 ≠ .ok () ∧ (fundRent env f tgt n s).2.w = s.w) ∨
    ((fundRent env f tgt n s).1 = .ok () ∧ (fundRent env f tgt n s).2.w = move s.w f.key tgt n ∧
      n ≤ (s.w f.key).lamports) := by
  unfold fundRent
  rcases invoke_world env { ix := .transfer f.key tgt n, seeds := f.seeds.toList } s with h | ⟨h1, h2⟩
  · left; exact h
  · right
    simp only [sys] at h2
    obtain ⟨e, hn, -, -⟩ := transfer_ok h2
    exact ⟨h1, e, hn⟩

theorem fundRent_not_panic (env : Env) (f : Funder) (tgt : Key) (n : Nat) (s : St) :
    (fundRent env f tgt n s).1 ≠ .panic := by
  unfold fundRent invoke
  simp only []
  split; · simp
  split; · simp
  split <;> simp

theorem fundRent_log (env : Env) (f : Funder) (tgt : Key) (n : Nat) (s : St) :
    (fundRent env f tgt n s).2.log = s.log ++ [{ ix := .transfer f.key tgt n, seeds := f.seeds.toList }] := by
  unfold fundRent; rw [invoke_log]


theorem markClosed_tgt (W : Nat) (tgt : Key) (w : World) :
    (markClosed W tgt w) tgt = { w tgt with data := List.replicate W 255 } := by
  simp [markClosed]

theorem markClosed_other (W : Nat) {tgt k : Key} (w : World) (h : k ≠ tgt) :
    (markClosed W tgt w) k = w k := by
  simp [markClosed, set_other _ _ h]

theorem total_markClosed (W : Nat) (tgt : Key) (w : World) (ks : List Key) (hnd : ks.Nodup) :
    total ks (markClosed W tgt w) = total ks w :=
  total_set_eq ks w tgt _ hnd rfl

/-- The two outcomes of `close_account`: the credit wraps (panic, account already marked), or the
whole balance is credited and the account zeroed. -/
theorem closeAccount_cases (W : Nat) (r tgt : Key) (s : St) :
    (closeAccount W r tgt s = (.panic, { s with w := markClosed W tgt s.w }) ∧
      ((markClosed W tgt s.w) r).lamports + (s.w tgt).lamports ≥ 2 ^ 64) ∨
    (closeAccount W r tgt s = (.ok (), { s with w := setLamports (setLamports (markClosed W tgt s.w) r
        (((markClosed W tgt s.w) r).lamports + (s.w tgt).lamports)) tgt 0 }) ∧
      ((markClosed W tgt s.w) r).lamports + (s.w tgt).lamports < 2 ^ 64) := by
  have hl : ((markClosed W tgt s.w) tgt).lamports = (s.w tgt).lamports := by rw [markClosed_tgt]
  unfold closeAccount
  simp only []
  rw [hl]
  by_cases hov : ((markClosed W tgt s.w) r).lamports + (s.w tgt).lamports ≥ 2 ^ 64
  · left
    rw [addLamports_panic (by simpa using hov)]
    exact ⟨rfl, hov⟩
  · right
    rw [addLamports_ok (by simp only []; omega)]
    exact ⟨rfl, by omega⟩


def Who.resolve : Who → Option Funder
  | .arg f => some f
  | .cached f => f

theorem total_serializeBorsh (env : Env) (ty : AcctType) (tgt : Key) (cached : Option (List Nat))
    (w : World) (ks : List Key) (hnd : ks.Nodup) :
    total ks (serializeBorsh env ty tgt cached w) = total ks w := by
  unfold serializeBorsh
  split
  · rfl
  · split
    · exact total_set_eq ks w tgt _ hnd rfl
    · rfl

end Account.Rent
