import Account.Driver.SysAcct
/-! Model driver for C12 (account initialization): see `Account.Driver.SysAcct`. -/
def main : IO Unit := Common.Proto.run ({} : Account.Driver.SysAcct.DS) Account.Driver.SysAcct.step
