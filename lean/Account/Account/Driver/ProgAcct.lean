import Account.Validate
import Account.Borsh
import Account.BorshCodecs
import Common.Proto
/-!
Shared op interpreter of the C08 and C15 model drivers: answers the op lines of
`harness/hx-progacct` by running the definitions of `Account/Validate.lean` and `Account/Borsh.lean`
(the ones the theorems of `Props/C08.lean` / `Props/C15.lean` are about).

Op lines (see `harness/hx-progacct/src/ops.rs` for the implementation side):
```
setup <zc|zc0|un|fix|var|unit> <progid:hex32> <disc:hex> <owner:hex32> <writable:0|1> <data:hex>   -> ok
borrow none|shared|shared7|excl   -> ok           (data borrow held while the following ops run)
decode                            -> ok | ok none | ok <ser v> | err:…
validate | data | data_mut | cleanup | close | close_nr | serialize | reload | get
{normalize|receive|refund}[_c|_cm]   rent cleanups: explicit argument / cached / cache empty
set <ser v> | mutate <ser v> | client | bytes | next | chown <hex32> | poke <off> <hex>
```
-/
open Common Common.Proto Account.Validate Account.Borsh

namespace Account.Driver.ProgAcct

inductive Kind | zc | fix | var | zc0 | unit | un
deriving Repr, DecidableEq

structure St where
  kind : Kind
  t : PType
  a : Acct
  /-- `none`: no account set decoded yet in this instruction; `some v`: decoded, holding `v`. -/
  wrapper : Option (Option Val)
  /-- the account holds no lamports (closed earlier in this instruction) -/
  lam : LamState

def parseKind : String → Option Kind
  | "zc" => some .zc | "fix" => some .fix | "var" => some .var
  | "zc0" => some .zc0 | "unit" => some .unit | "un" => some .un | _ => none

/-- First discriminant byte of the kind's account type. -/
def kindBase : Kind → Nat
  | .zc => 0x21 | .fix => 0x61 | .var => 0xa1 | .zc0 => 0xe1 | .unit => 0x31 | .un => 0x41

def Kind.isZc : Kind → Bool | .zc => true | .zc0 => true | .un => true | _ => false

/-- The harness programs: one per discriminant width, id `[0x50, W, 0x11, 0x11, …]`. -/
def progIdOf (W : Nat) : List Nat := [0x50, W] ++ List.replicate 30 0x11
/-- Discriminant of the account type of kind `k` in the width-`W` program. -/
def discOf (W : Nat) (k : Kind) : List Nat := (List.range W).map (fun j => (kindBase k + 5 * j) % 256)

def widths : List Nat := [0, 1, 2, 3, 4, 5, 6, 7, 8, 12, 16, 24, 32]

/-- Ids of the two extra programs: the crate's DECLARED program (what a declaration without a
`program` argument refers to) and a second program with the default `[u8; 8]` discriminant type. -/
def declId : List Nat := [0x50, 0xD0] ++ List.replicate 30 0x11
def q8Id : List Nat := [0x50, 0xD1] ++ List.replicate 30 0x11

/-- Account types declared through every OTHER declaration form (`harness/hx-progacct/src/progs.rs`):
`#[unsized_type(program_account[, program = P][, seeds = S][, discriminant = e])]`, and the derive
forms without `program` / with `seeds` / with the default Anchor-style sighash discriminant
(`sha256("account:<Name>")[..8]`, listed literally: a change of the default shows as a disagreement). -/
def extraTypes : List (Kind × List Nat × String) :=
  [ (.zc, declId, "6482e1681f76f867"),   -- DZc        derive, zero_copy, declared program, sighash
    (.fix, declId, "cd7ac81db27e5afa"),  -- DFix       derive, borsh, declared program, sighash
    (.un, declId, "4cbc515f016b035f"),   -- DUn        unsized_type(program_account)
    (.un, declId, "9597e1873c9f5495"),   -- DUnSeeds   unsized_type(program_account, seeds = ..)
    (.un, q8Id, "569cd0cde328e8f1"),     -- UnQ8       unsized_type(program_account, program = q8)
    (.un, q8Id, "ae97954c99c69ad5"),     -- UnQ8Seeds  … program = q8, seeds = ..
    (.un, q8Id, "41464b50555a5f64"),     -- UnQ8Disc      … program = q8, discriminant = ..
    (.un, q8Id, "51565b60656a6f74"),     -- UnQ8DiscSeeds … program = q8, seeds = .., discriminant = ..
    (.zc, progIdOf 2, "4146"),           -- ZcSeeds2   derive, program = p2, seeds, discriminant
    (.zc, q8Id, "504bc91dcb289d8d"),     -- ZcQ8       derive, program = q8, sighash
    (.fix, q8Id, "b02d0ae92a1dc405") ]   -- FixQ8Seeds derive, borsh, program = q8, seeds, sighash

/-- The account types that exist in the harness (anything else is `bad-op` on both sides); the
width-1 program has an extra zero-copy type whose discriminant IS the closed marker. -/
def knownType (k : Kind) (progId disc : List Nat) : Bool :=
  (k != .un && widths.contains disc.length && progId == progIdOf disc.length &&
    (disc == discOf disc.length k || (k == .zc && disc == [255])))
  || extraTypes.any (fun e => e.1 == k && e.2.1 == progId && parseHex e.2.2 == some disc)

def codecOf : Kind → Codec Val
  | .var => varCodec
  | .unit => unitCodec
  | _ => fixCodec

def showErr : Err → String
  | .accountDataTooSmall => "err:AccountDataTooSmall"
  | .accountBorrowFailed => "err:AccountBorrowFailed"
  | .discriminantMismatch => "err:Custom1003"
  | .invalidAccountOwner => "err:InvalidAccountOwner"
  | .rawSliceAdvance => "err:Custom2002"
  | .invalidRealloc => "err:InvalidRealloc"
  | .ioError => "err:Custom9001"
  | .expectedWritable => "err:Custom1000"
  | .emptyFunderCache => "err:Custom1004"
  | .emptyRecipientCache => "err:Custom1005"
  | .insufficientFunds => "err:InsufficientFunds"
  | .expectedSigner => "err:Custom1001"
  | .addressMismatch => "err:Custom1002"
  | .illegalOwner => "err:IllegalOwner"
  | .incorrectProgramId => "err:IncorrectProgramId"
  | .notEnoughAccounts => "err:Custom9004"
  | .createAttempted => "err:CreateAttempted"
  | .panicked => "panic"
  | .invalidArgument => "err:InvalidArgument"

def showUnit : Except Err Unit → String
  | .ok () => "ok"
  | .error e => showErr e

def showView : Except Err (List Nat) → String
  | .ok v => "ok " ++ toHex v
  | .error e => showErr e

def showVal (c : Codec Val) : Option Val → String
  | none => "ok none"
  | some v => "ok " ++ toHex (c.ser v)

def parseKey (s : String) : Option (List Nat) := do
  let k ← parseHex s
  if k.length = 32 then some k else none

def bad (s : Option St) : Option St × String := (s, "bad-op")

/-- Ops that need a set-up account. -/
def stepSt (s : St) (toks : List String) : Option St × String :=
  let c := codecOf s.kind
  let borsh : Bool := !s.kind.isZc
  match toks with
  | ["borrow", m] =>
    let b : Option Borrow := match m with
      | "none" => some Borrow.free
      | "shared" => some ⟨false, 1⟩
      | "shared7" => some ⟨false, 7⟩
      | "excl" => some ⟨true, 0⟩
      | _ => none
    match b with
    | some b => (some { s with a := { s.a with borrow := b } }, "ok")
    | none => bad (some s)
  | ["decode"] =>
    if borsh then
      match decodeAcct c s.t s.a with
      | .ok b => (some { s with wrapper := some b.val }, showVal c b.val)
      | .error e => (some { s with wrapper := none }, showErr e)
    else (some { s with wrapper := some none }, "ok")
  | ["validate"] =>
    match s.wrapper with
    | some _ => (some s, showUnit (validateAccountInfo s.t s.a))
    | none => bad (some s)
  | ["data"] =>
    match s.wrapper, s.kind.isZc with
    | some _, true => (some s, showView (dataView s.t s.a))
    | _, _ => bad (some s)
  | ["data_mut"] =>
    match s.wrapper, s.kind.isZc with
    | some _, true => (some s, showView (dataMutView s.t s.a))
    | _, _ => bad (some s)
  | [op] =>
    if op = "bytes" then (some s, s!"{s.a.data.length} {toHex s.a.data}")
    else if op = "next" then
      (some { s with a := nextIx s.a, wrapper := none, lam := LamState.plenty }, "ok")
    else if op = "client" then
      if borsh then
        match clientDeserialize c s.t s.a.data with
        | .ok v => (some s, "ok " ++ toHex (c.ser v))
        | .error e => (some s, showErr e)
      else bad (some s)
    else
    match s.wrapper with
    | none => bad (some s)
    | some val =>
      let b : BAcct Val := { acct := s.a, val := val }
      let fin (r : Except Err (BAcct Val)) (_drain : Bool) : Option St × String :=
        match r with
        | .ok b' => (some { s with a := b'.acct, wrapper := some b'.val }, "ok")
        | .error e => (some s, showErr e)
      -- a cleanup leaves its state even when it fails (e.g. `NormalizeRent(())` without a funder
      -- has already written the value back); `lam'` = the balance a SUCCESSFUL cleanup leaves
      let finFull (r : BAcct Val × Except Err Unit) (lam' : LamState) : Option St × String :=
        let b' := r.1
        match r.2 with
        | .ok () => (some { s with a := b'.acct, wrapper := some b'.val, lam := lam' }, "ok")
        | .error e => (some { s with a := b'.acct, wrapper := some b'.val }, showErr e)
      let rentOf (name : String) : Option RentOp :=
        if name = "normalize" then some .normalize
        else if name = "receive" then some .receive
        else if name = "refund" then some .refund else none
      -- the size the rent adjustment sees: after the write-back (zero-copy accounts: unchanged)
      let lenAfter : Nat :=
        if borsh then
          match serializeBack c s.t b with
          | .ok b' => b'.acct.data.length
          | .error _ => s.a.data.length
        else s.a.data.length
      let fails := s.lam.refundFails lenAfter
      let cl : Option (Cleanup × Option RentOp) :=
        if op = "cleanup" then some (.dflt, none)
        else if op = "close" then some (.close true, none)
        else if op = "close_nr" then some (.close false, none)
        else
          match op.splitOn "_" with
          | [n] => (rentOf n).map (fun r => (.rent r .arg fails, some r))
          | [n, "c"] => (rentOf n).map (fun r => (.rent r .cached fails, some r))
          | [n, "cm"] => (rentOf n).map (fun r => (.rent r .cachedMissing fails, some r))
          | _ => none
      match cl with
      | some (k, rop) =>
        let lam' : LamState :=
          match k, rop with
          | .close _, _ => .zero
          | _, some r => lamNext r s.lam lenAfter
          | _, none => s.lam
        if borsh then finFull (cleanupFull c s.t k b) lam'
        else
          -- `Account<T>`: no write-back in any variant; the rent variants touch lamports only
          match k with
          | .dflt => (some s, "ok")
          | .rent r who d =>
            if who = .cachedMissing then (some s, showErr r.missing)
            else
              match rentTail r d with
              | .ok () => (some { s with lam := lam' }, "ok")
              | .error e => (some s, showErr e)
          | .close r =>
            match cleanupClose s.t r s.a with
            | .ok a' => (some { s with a := a', lam := .zero }, "ok")
            | .error e => (some s, showErr e)
      | none =>
        if !borsh then bad (some s)
        else if op = "serialize" then fin (serializeBack c s.t b) false
        else if op = "get" then
          match val with
          | some v => (some s, "ok " ++ toHex (c.ser v))
          | none => (some s, "panic")
        else if op = "reload" then
          fin (reload c s.t b) false
        else bad (some s)
  | ["set", h] =>
    match s.wrapper, borsh, (parseHex h).bind c.de with
    | some val, true, some v =>
      match setInner { acct := s.a, val := val } v with
      | .ok b' => (some { s with wrapper := some b'.val }, "ok")
      | .error e => (some s, showErr e)
    | _, _, _ => bad (some s)
  | ["mutate", h] =>
    match s.wrapper, borsh, (parseHex h).bind c.de with
    | some val, true, some v =>
      match derefMutSet { acct := s.a, val := val } v with
      | some b' => (some { s with wrapper := some b'.val }, "ok")
      | none => (some s, "panic")
    | _, _, _ => bad (some s)
  | ["chown", h] =>
    match parseKey h with
    | some k => (some { s with a := { s.a with owner := k } }, "ok")
    | none => bad (some s)
  | ["poke", off, h] =>
    let offN : Option Nat :=
      if off.length ≤ 9 ∧ off ≠ "" ∧ off.toList.all Char.isDigit then off.toNat? else none
    match offN, parseHex h with
    | some off, some bs =>
      if off + bs.length ≤ s.a.data.length ∧ bs ≠ [] then
        (some { s with a := { s.a with data := s.a.data.take off ++ bs ++ s.a.data.drop (off + bs.length) } }, "ok")
      else bad (some s)
    | _, _ => bad (some s)
  | _ => bad (some s)

def step (s : Option St) (toks : List String) : Option St × String :=
  match toks with
  | ["setup", k, pid, disc, owner, w, data] =>
    let wb : Option Bool := if w = "1" then some true else if w = "0" then some false else none
    match parseKind k, parseKey pid, parseHex disc, parseKey owner, wb, parseHex data with
    | some k, some pid, some disc, some owner, some w, some data =>
      if knownType k pid disc then
        let t : PType := { progId := pid, disc := disc, body := if k = .zc ∨ k = .un then 2 else 0 }
        let a : Acct := { owner, data, writable := w, borrow := Borrow.free, orig := data.length }
        (some { kind := k, t, a, wrapper := none, lam := LamState.plenty }, "ok")
      else bad s
    | _, _, _, _, _, _ => bad s
  | _ =>
    match s with
    | some st => stepSt st toks
    | none => bad s

end Account.Driver.ProgAcct
