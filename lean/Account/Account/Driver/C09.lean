import Account.Nests
import Account.Driver.ProgAcct
import Common.Proto
/-!
Model driver for C09: answers the op lines of `harness/hx-accounts/src/c09.rs`.

```
nest <progid:hex32> <set> <acct>*    decode + validate of the account set over the given accounts
meta <chain>                          advertised SingleSetMeta of a single-account chain  -> <s><w>
eq <a:hex32> <b:hex32>                the framework's fast 32-byte comparison            -> 1 | 0
seq <progid> <vec|arr1|arr2|arr3> <bcast|vecargs|arrargs> <chain with one seeded:ARG> <m> <pda>*m <acct>*
                                      a Vec / array of argument-taking elements validated with (arg,) / Vec<arg> / [arg; M]

set   := opt(set) | box(set) | rest(set) | arr<N>(set) | vec<N>(set) | addr:<hex32>(set)
       | st(set;set;…) | chain
chain := layer,layer,…,base
layer := signer | mut | nsigner | nmut | advw | advs | box | addr:<hex32> | seeded:<hex32>
       | init | initnf (no funder in the Context)
base  := info | sysacct | program:<hex32> | sysvar:<hex32> | acct:<progid>:<disc> | borsh:<progid>:<disc>
acct  := <key:hex32>:<owner:hex32>:<signer 0|1>:<writable 0|1>:<data:hex>
```
-/
open Common Common.Proto Account.Validate Account.Nests

namespace Account.Driver.C09

def parseKey (s : String) : Option (List Nat) := do
  let k ← parseHex s
  if k.length = 32 then some k else none

def parseBit (s : String) : Option Bool :=
  if s = "1" then some true else if s = "0" then some false else none

def parseItem (s : String) : Option (Sum Layer Base) :=
  match s with
  | "signer" => some (.inl .signer)
  | "mut" => some (.inl .wr)
  | "nsigner" => some (.inl .nsigner)
  | "nmut" => some (.inl .nmut)
  | "advw" => some (.inl .advw)
  | "advs" => some (.inl .advs)
  | "box" => some (.inl .box)
  | "init" => some (.inl (.init true))
  | "initnf" => some (.inl (.init false))
  | "info" => some (.inr .info)
  | "sysacct" => some (.inr .sysacct)
  | _ =>
    match s.splitOn ":" with
    | ["addr", h] => (parseKey h).map (fun k => .inl (.addr k))
    | ["seeded", h] => (parseKey h).map (fun k => .inl (.seeded k))
    | ["program", h] => (parseKey h).map (fun k => .inr (.program k))
    | ["sysvar", h] => (parseKey h).map (fun k => .inr (.sysvar k))
    | ["acct", p, d] =>
      match parseKey p, parseHex d with
      | some p, some d => some (.inr (.account { progId := p, disc := d, body := 2 }))
      | _, _ => none
    | ["borsh", p, d] =>
      match parseKey p, parseHex d with
      | some p, some d => some (.inr (.borsh { progId := p, disc := d, body := 0 }))
      | _, _ => none
    | _ => none

def parseChainItems : List String → Option (List Layer × Base)
  | [] => none
  | [b] => match parseItem b with
    | some (.inr b) => some ([], b)
    | _ => none
  | l :: rest => match parseItem l with
    | some (.inl l) => (parseChainItems rest).map (fun (ls, b) => (l :: ls, b))
    | _ => none

def parseChain (s : String) : Option (List Layer × Base) := parseChainItems (s.splitOn ",")

/-- Split `s` (the inside of `st(…)`) at the top-level `;`. -/
def splitTop (cs : List Char) : List (List Char) :=
  let rec go (cs : List Char) (depth : Nat) (cur : List Char) (acc : List (List Char)) : List (List Char) :=
    match cs with
    | [] => (cur.reverse :: acc).reverse
    | c :: rest =>
      if c = '(' then go rest (depth + 1) (c :: cur) acc
      else if c = ')' then go rest (depth - 1) (c :: cur) acc
      else if c = ';' ∧ depth = 0 then go rest depth [] (cur.reverse :: acc)
      else go rest depth (c :: cur) acc
  go cs 0 [] []

def seqOf : List ASet → ASet
  | [] => .nil
  | s :: ss => .cons s (seqOf ss)

/-- `head(inner)` with the parentheses balanced at the very end. -/
def splitCall (s : String) : Option (String × String) :=
  match s.splitOn "(" with
  | [] => none
  | [_] => none
  | head :: _ =>
    if s.endsWith ")" then
      let inner := (s.drop (head.length + 1)).dropEnd 1
      some (head, inner.toString)
    else none

partial def parseSet (s : String) : Option ASet :=
  match splitCall s with
  | none => (parseChain s).map (fun (ls, b) => .single ls b)
  | some (head, inner) =>
    if head = "opt" then (parseSet inner).map .opt
    else if head = "box" then (parseSet inner).map .boxed
    else if head = "rest" then (parseSet inner).map .rest
    else if head = "st" then
      let parts := (splitTop inner.toList).map String.ofList
      (parts.mapM parseSet).map seqOf
    else if head.startsWith "arr" then
      match (head.drop 3).toString.toNat? with
      | some n => if n ≤ 8 then (parseSet inner).map (.arr n) else none
      | none => none
    else if head.startsWith "vec" then
      match (head.drop 3).toString.toNat? with
      | some n => if n ≤ 8 then (parseSet inner).map (.arr n) else none
      | none => none
    else if head.startsWith "addr:" then
      match parseKey (head.drop 5).toString with
      | some k => (parseSet inner).map (.addr k)
      | none => none
    else none

def parseAcct (s : String) : Option NAcct :=
  match s.splitOn ":" with
  | [k, o, sg, w, d] =>
    match parseKey k, parseKey o, parseBit sg, parseBit w, parseHex d with
    | some k, some o, some sg, some w, some d =>
      some { key := k, signer := sg,
             a := { owner := o, data := d, writable := w, borrow := Borrow.free, orig := d.length } }
    | _, _, _, _, _ => none
  | _ => none

def showRes : Except Err Unit → String
  | .ok () => "ok"
  | .error e => Account.Driver.ProgAcct.showErr e

def step (_ : Unit) (toks : List String) : Unit × String :=
  match toks with
  | "nest" :: pid :: set :: accts =>
    match parseKey pid, parseSet set, accts.mapM parseAcct with
    | some pid, some s, some accts => ((), showRes (decodeValidate pid s accts))
    | _, _, _ => ((), "bad-op")
  | "seq" :: pid :: carrier :: form :: chain :: m :: rest =>
    -- a `Vec<E>` / `[E; N]` of argument-taking elements (`E` has a `Seeded` layer fed by the argument)
    let items := chain.splitOn ","
    let outerS := items.takeWhile (· ≠ "seeded:ARG")
    let innerS := (items.dropWhile (· ≠ "seeded:ARG")).drop 1
    let layers (xs : List String) : Option (List Layer) :=
      xs.mapM (fun x => match parseItem x with | some (.inl l) => some l | _ => none)
    let formP : Option ArgForm :=
      if form = "bcast" then some .bcast else if form = "vecargs" then some .vecArgs
      else if form = "arrargs" then some .arrArgs else none
    let mN : Option Nat := if m.length ≤ 2 ∧ m ≠ "" ∧ m.toList.all Char.isDigit then m.toNat? else none
    match parseKey pid, formP, mN, layers outerS, parseChainItems innerS with
    | some _, some f, some m, some outer, some (inner, base) =>
      if items.contains "seeded:ARG" ∧ m ≤ rest.length then
        match (rest.take m).mapM parseKey, (rest.drop m).mapM parseAcct with
        | some args, some accts =>
          let c : ArgChain := { outer, inner, base }
          let n? : Option Nat :=
            if carrier = "vec" then (if f = .bcast ∧ m ≠ 1 then none else some accts.length)
            else if carrier = "arr1" ∨ carrier = "arr2" ∨ carrier = "arr3" then
              let n := (carrier.drop 3).toString.toNat?.getD 0
              -- arrays: no `Vec<arg>` form; `[arg; M]` needs M = N by type; `(arg,)` takes one argument
              if f = .vecArgs ∨ (f = .arrArgs ∧ m ≠ n) ∨ (f = .bcast ∧ m ≠ 1) then none else some n
            else none
          match n? with
          | some n => ((), showRes (decodeValidateArgs c f n args accts))
          | none => ((), "bad-op")
        | _, _ => ((), "bad-op")
      else ((), "bad-op")
    | _, _, _, _, _ => ((), "bad-op")
  | ["meta", chain] =>
    match parseChain chain with
    | some (ls, b) =>
      let m := advertised ls b
      ((), showBool m.signer ++ showBool m.writable)
    | none => ((), "bad-op")
  | ["eq", a, b] =>
    match parseKey a, parseKey b with
    | some a, some b => ((), showBool (Account.Modifiers.fastEq32 a b))
    | _, _ => ((), "bad-op")
  | _ => ((), "bad-op")

end Account.Driver.C09

def main : IO Unit := Common.Proto.run () Account.Driver.C09.step
