import Account.Modifiers
import Common.Proto
/-! Model driver for C09: answers the op lines of `harness/hx-accounts/src/c09.rs`. -/
open Common Common.Proto Account.Modifiers

namespace Account.Driver.C09

def parseKey (s : String) : Option (List Nat) := do
  let k ← parseHex s
  if k.length = 32 then some k else none

def parseLayerOrBase (s : String) : Option (Sum Layer Base) :=
  match s with
  | "signer" => some (.inl .signer)
  | "mut" => some (.inl .wr)
  | "nsigner" => some (.inl .nsigner)
  | "nmut" => some (.inl .nmut)
  | "advw" => some (.inl .advw)
  | "advs" => some (.inl .advs)
  | "info" => some (.inr .info)
  | "sysacct" => some (.inr .sysacct)
  | _ =>
    match s.splitOn ":" with
    | ["addr", h] => (parseKey h).map (fun k => .inl (.addr k))
    | ["program", h] => (parseKey h).map (fun k => .inr (.program k))
    | ["sysvar", h] => (parseKey h).map (fun k => .inr (.sysvar k))
    | _ => none

def parseItems : List String → Option (List Layer × Base)
  | [] => none
  | [b] => match parseLayerOrBase b with
    | some (.inr b) => some ([], b)
    | _ => none
  | l :: rest => match parseLayerOrBase l with
    | some (.inl l) => (parseItems rest).map (fun (ls, b) => (l :: ls, b))
    | _ => none

def parseNest (s : String) : Option Nest :=
  match s.splitOn "," with
  | "opt" :: rest => (parseItems rest).map (fun (ls, b) => { opt := true, layers := ls, base := b })
  | items => (parseItems items).map (fun (ls, b) => { opt := false, layers := ls, base := b })

def showErr : Err → String
  | .expectedWritable => "err:Custom1000"
  | .expectedSigner => "err:Custom1001"
  | .addressMismatch => "err:Custom1002"
  | .illegalOwner => "err:IllegalOwner"
  | .incorrectProgramId => "err:IncorrectProgramId"
  | .missingAccount => "err:MissingAccount"

def showRes : Except Err Unit → String
  | .ok () => "ok"
  | .error e => showErr e

def step (_ : Unit) (toks : List String) : Unit × String :=
  match toks with
  | ["val", nest, p, s, w, key, owner] =>
    match parseNest nest, parseBool p, parseBool s, parseBool w, parseKey key, parseKey owner with
    | some n, some p, some s, some w, some key, some owner =>
      let acct : Option Acct := if p then some { key, owner, signer := s, writable := w } else none
      ((), showRes (validate n acct))
    | _, _, _, _, _, _ => ((), "bad-op")
  | ["eq", a, b] =>
    match parseKey a, parseKey b with
    | some a, some b => ((), showBool (fastEq32 a b))
    | _, _ => ((), "bad-op")
  | _ => ((), "bad-op")

end Account.Driver.C09

def main : IO Unit := Common.Proto.run () Account.Driver.C09.step
