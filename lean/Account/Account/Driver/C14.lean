import Account.Sets
import Common.Proto
/-! Model driver for C14: answers the op lines of `harness/hx-sets/src/c14.rs` with the definitions of
`Account/Sets.lean` (the ones the theorems of `Account/Props/C14.lean` are about). -/
open Common Common.Proto Account.Sets

namespace Account.Driver.C14

/-! ### compact s-expressions: `atom` or `(head,item,…)` -/
inductive Sx
  | atom (s : String)
  | list (xs : List Sx)
deriving Inhabited

def atomChar (c : Char) : Bool := c.isAlphanum || c == ':' || c == '_' || c == '-'

mutual
def parseSx : Nat → List Char → Option (Sx × List Char)
  | 0, _ => none
  | fuel + 1, '(' :: cs => (parseItems fuel cs).map (fun (xs, r) => (.list xs, r))
  | _ + 1, cs =>
    let a := cs.takeWhile atomChar
    if a.isEmpty then none else some (.atom (String.ofList a), cs.dropWhile atomChar)
def parseItems : Nat → List Char → Option (List Sx × List Char)
  | 0, _ => none
  | fuel + 1, cs =>
    match parseSx fuel cs with
    | none => none
    | some (x, ',' :: r) => (parseItems fuel r).map (fun (xs, r') => (x :: xs, r'))
    | some (x, ')' :: r) => some ([x], r)
    | some _ => none
end

def readSx (s : String) : Option Sx :=
  match parseSx (s.length + 1) s.toList with
  | some (x, []) => some x
  | _ => none

/-! ### keys are names -/
def smallDec (s : String) (maxDigits : Nat) : Option Nat :=
  let cs := s.toList
  if cs.isEmpty || cs.length > maxDigits || !cs.all Char.isDigit || (cs.length > 1 && cs.head? == some '0') then none
  else s.toNat?

def validName (s : String) : Bool :=
  s == "pid" || s == "sys" || s == "rent" || s == "ixs" ||
  (match s.toList with
   | 'k' :: ds => (smallDec (String.ofList ds) 4).isSome
   | _ => false)

def keyOf (s : String) : Key := s.toList.map Char.toNat
def nameOf (k : Key) : String := String.ofList (k.map Char.ofNat)
def pid : Key := keyOf "pid"

def parseName (s : String) : Option Key := if validName s then some (keyOf s) else none

/-! ### shapes, values, arguments -/
def parseFlag : Sx → Option Bool
  | .atom "1" => some true
  | .atom "0" => some false
  | _ => none

/-- the flag checks in execution order: a string over `s`/`w`, `-` for none -/
def parseChecks (s : String) : Option (List Chk) :=
  if s == "-" then some [] else
  s.toList.mapM (fun c => if c == 's' then some Chk.signer else if c == 'w' then some Chk.writable else none)

partial def parseShape : Sx → Option SetShape
  | .list [.atom "single", s, w, .atom k, .atom cs] => do
    let s ← parseFlag s
    let w ← parseFlag w
    let cs ← parseChecks cs
    if k == "-" then pure (.single s w none cs) else pure (.single s w (some (← parseName k)) cs)
  | .list [.atom "opt", x] => (parseShape x).map .opt
  | .list [.atom "vec", x] => (parseShape x).map .vec
  | .list [.atom "rest", x] => (parseShape x).map .rest
  | .list [.atom "boxed", x] => (parseShape x).map .boxed
  | .list [.atom "arr", .atom n, x] => do
    let n ← smallDec n 2
    pure (.arr n (← parseShape x))
  | .list (.atom "struct" :: xs) => (xs.mapM parseShape).map .struct
  | _ => none

partial def parseClient : Sx → Option ClientVal
  | .atom "absent" => some .absent
  | .list [.atom "key", .atom k] => if k == "-" then some (.key none) else (parseName k).map (fun k => .key (some k))
  | .list [.atom "present", x] => (parseClient x).map .present
  | .list (.atom "many" :: xs) => (xs.mapM parseClient).map .many
  | _ => none

partial def parseArg : Sx → Option DecodeArg
  | .atom "u" => some .unit
  | .list [.atom "len", .atom n, x] => do
    let n ← smallDec n 3
    pure (.len n (← parseArg x))
  | .list (.atom "fields" :: xs) => (xs.mapM parseArg).map .fields
  | .list (.atom "each" :: xs) => (xs.mapM parseArg).map .each
  | .list (.atom "arreach" :: xs) => (xs.mapM parseArg).map .arrEach
  | .atom "each" => some (.each [])
  | .atom "arreach" => some (.arrEach [])
  | _ => none

partial def parseArgTy : Sx → Option ArgTy
  | .atom "u" => some .unit
  | .list [.atom "len", x] => (parseArgTy x).map .len
  | .list [.atom "each", .atom n, x] => do pure (.each (← smallDec n 2) (← parseArgTy x))
  | .list [.atom "arreach", .atom n, x] => do pure (.arrEach (← smallDec n 2) (← parseArgTy x))
  | .list (.atom "fields" :: xs) => (xs.mapM parseArgTy).map .fields
  | _ => none

mutual
/-- The harness's `ClientAccounts` types: the default key (`-`) exists only for a bare
`Program<_>` / `Sysvar<_>` (`Option<Pubkey>`); under `Signer`/`Mut` the client type is `Pubkey`. -/
def harnessTyped : SetShape → ClientVal → Bool
  | .single sg wr fk cs, .key k => k.isSome || (fk.isSome && !sg && !wr && cs.isEmpty)
  | .opt _, .absent => true
  | .opt s, .present v => harnessTyped s v
  | .vec s, .many vs => vs.all (harnessTyped s)
  | .arr n s, .many vs => vs.length == n && vs.all (harnessTyped s)
  | .rest s, .many vs => vs.all (harnessTyped s)
  | .boxed s, v => harnessTyped s v
  | .struct fs, .many vs => harnessTypedFields fs vs
  | _, _ => false
def harnessTypedFields : List SetShape → List ClientVal → Bool
  | [], [] => true
  | s :: fs, v :: vs => harnessTyped s v && harnessTypedFields fs vs
  | _, _ => false
end

/-! ### printing -/
def showMeta (m : Meta) : String := s!"{nameOf m.key}:{showBool m.signer}:{showBool m.writable}"
def showMetas (ms : List Meta) : String :=
  if ms.isEmpty then "-" else ",".intercalate (ms.map showMeta)

partial def showVal : SetVal → String
  | .acct a => s!"(acct,{nameOf a.key}:{showBool a.signer}:{showBool a.writable})"
  | .absent => "absent"
  | .present v => s!"(present,{showVal v})"
  | .many vs => "(" ++ ",".intercalate ("many" :: vs.map showVal) ++ ")"

def showArgs (r : RunArgs) : String := s!"{r.a},{r.b},{showBool r.c},{toHex r.d}"

def showVErr : Except VErr Unit → String
  | .ok () => "ok"
  | .error .key => "key"
  | .error .signer => "sig"
  | .error .writable => "wr"
  | .error .badVal => "badval"

def showE : E → String
  | .notEnough => "err:notenough"
  | .badArg => "err:badarg"
  | .badVal => "err:badval"
  | .diverge => "err:diverge"
  | .missingOptionalProgram => "err:missingprog"
  | .tooMany => "panic"
  | .noCpiArray => "err:nocpiarray"

/-! ### tuple-struct instructions -/
def parseAnn (s : String) : Option (List Phase) :=
  if s == "-" then some [] else
  s.toList.mapM (fun c =>
    if c == 'd' then some Phase.decode else if c == 'v' then some Phase.validate
    else if c == 'r' then some Phase.run else if c == 'c' then some Phase.cleanup else none)

def showPhase (vs : List (List Nat)) : String :=
  if vs.isEmpty then "-" else "+".intercalate (vs.map (fun v => ".".intercalate (v.map toString)))

/-! ### state -/
structure St where
  table : List (List Nat) := []
  idx : Nat := 0
  shape : Option SetShape := none
  argTy : ArgTy := .unit
  client : Option ClientVal := none
  metas : List Meta := []
  extras : List Key := []
  drops : List (Nat × Bool) := []          -- (index, drop the signer flag?)
  grants : List (Nat × Bool) := []         -- (index, grant the signer flag?)
  ix : Option (List Nat) := none           -- instruction data
  run : Option (Option SetVal) := none     -- last run: the set `process` saw, if it was reached

def acctOf (m : Meta) : Acct := { key := m.key, signer := m.signer, writable := m.writable }

def applyDrop (accts : List Acct) (d : Nat × Bool) : List Acct :=
  accts.mapIdx (fun i a => if i = d.1 then (if d.2 then { a with signer := false } else { a with writable := false }) else a)

def applyGrant (accts : List Acct) (d : Nat × Bool) : List Acct :=
  accts.mapIdx (fun i a => if i = d.1 then (if d.2 then { a with signer := true } else { a with writable := true }) else a)

def accounts (st : St) : List Acct :=
  st.grants.foldl applyGrant (st.drops.foldl applyDrop (st.metas.map acctOf)) ++ st.extras.map (fun k => { key := k, signer := false, writable := false })

def parseDisc (s : String) : Option (List Nat) := do
  let d ← parseHex s
  if d.length = 8 then some d else none

def step (st : St) (toks : List String) : St × String :=
  let bad := (st, "bad-op")
  match toks with
  | "table" :: ds =>
    match ds.mapM parseDisc with
    | some t => ({ table := t }, s!"ok {t.length}")
    | none => bad
  | ["set", _name, shape, argTy, idx] =>
    match (readSx shape).bind parseShape, (readSx argTy).bind parseArgTy, smallDec idx 3 with
    | some s, some ty, some i =>
      if i < st.table.length then
        ({ table := st.table, idx := i, shape := some s, argTy := ty },
         s!"ok min={minLen s} len={accountLen s} copt={showBool (containsOption s)}")
      else bad
    | _, _, _ => bad
  | ["tix", idx, _name, selfAnn, anns, vals, k] =>
    match smallDec idx 3, parseAnn selfAnn, (anns.splitOn ",").mapM parseAnn,
          (vals.splitOn ",").mapM (fun v => (smallDec v 3).bind (fun x => if x < 256 then some x else none)),
          smallDec k 2 with
    | some i, some sa, some as, some vs, some k =>
      if i < st.table.length ∧ as.length = vs.length ∧ k ≤ 20 then
        let data := ixData (st.table.getD i []) vs
        let accts : List Acct := (List.range k).map (fun j => { key := keyOf s!"k{j + 1}", signer := false, writable := false })
        match entryTuple st.table i pid sa as data accts with
        | .error .badData => (st, "err:data")
        | .error (.decode e) => (st, showE e)
        | .ok o =>
          (st, s!"ok {toHex data} used={o.used} rem={o.rem} d={o.decoded} v={showPhase o.validate} r={showPhase o.run} c={showPhase o.cleanup}")
      else bad
    | _, _, _, _, _ => bad
  | ["client", val] =>
    match st.shape, (readSx val).bind parseClient with
    | some s, some v =>
      if harnessTyped s v then
        let ms := clientMetas pid s v
        ({ table := st.table, idx := st.idx, shape := st.shape, argTy := st.argTy, client := some v, metas := ms }, s!"ok {showMetas ms}")
      else bad
    | _, _ => bad
  | "extra" :: names =>
    match st.client, names.mapM parseName with
    | some _, some ks => if ks.length ≤ 8 then ({ st with extras := ks, run := none }, "ok") else bad
    | _, _ => bad
  | ["drop", i, f] =>
    match st.client, smallDec i 2 with
    | some _, some i =>
      if i < st.metas.length ∧ (f = "s" ∨ f = "w") then
        ({ st with drops := st.drops ++ [(i, f == "s")], run := none }, "ok")
      else bad
    | _, _ => bad
  | ["grant", i, f] =>
    match st.client, smallDec i 2 with
    | some _, some i =>
      if i < st.metas.length ∧ (f = "s" ∨ f = "w") then
        ({ st with grants := st.grants ++ [(i, f == "s")], run := none }, "ok")
      else bad
    | _, _ => bad
  | ["grantall", f] =>
    match st.client with
    | some _ =>
      if f = "s" ∨ f = "w" ∨ f = "sw" then
        let flags : List Bool := f.toList.map (· == 's')
        ({ st with grants := (List.range st.metas.length).flatMap (fun i => flags.map (fun b => (i, b))), run := none }, "ok")
      else bad
    | none => bad
  | ["ix", darg, a, b, c, d] =>
    match st.shape, st.client, (readSx darg).bind parseArg, smallDec a 3, smallDec b 20, parseBool c, parseHex d with
    | some s, some _, some arg, some a, some b, some cb, some d =>
      if argTyped s arg ∧ hasTy st.argTy arg ∧ a < 256 ∧ b < 256 ^ 8 ∧ (c = "0" ∨ c = "1") ∧ d.length ≤ 64 then
        let run : RunArgs := { a, b, c := cb, d }
        let data := ixData (st.table.getD st.idx []) (serArg arg ++ serRun run)
        ({ st with ix := some data, run := none }, s!"ok {toHex data}")
      else bad
    | _, _, _, _, _, _, _ => bad
  | ["run"] =>
    match st.shape, st.client, st.ix with
    | some s, some _, some data =>
      match entry st.table st.idx pid s st.argTy data (accounts st) with
      | .error .badData => ({ st with run := some none }, "err:data")
      | .error (.decode e) => ({ st with run := some none }, showE e)
      | .ok o =>
        let reached := match o.v with | .ok () => true | .error _ => false
        ({ st with run := some (if reached then some o.val else none) },
         s!"ok used={o.used} rem={o.rem} val={showVal o.val} v={showVErr o.v} args={if reached then showArgs o.args else "-"}")
    | _, _, _ => bad
  | ["cpi"] =>
    match st.shape, st.run with
    | some s, some (some sv) =>
      match cpi pid (some { key := pid, signer := false, writable := false }) s sv with
      | .error e => (st, showE e)
      | .ok view =>
        let infos := if view.infos.isEmpty then "-" else ",".intercalate (view.infos.map (fun a => nameOf a.key))
        (st, s!"ok metas={showMetas view.metas} infos={infos} decl={view.declared}")
    | _, _ => bad
  | _ => bad

end Account.Driver.C14

def main : IO Unit := Common.Proto.run ({} : Account.Driver.C14.St) Account.Driver.C14.step
