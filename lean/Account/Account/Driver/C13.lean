import Account.Driver.SysAcct
/-! Model driver for C13 (rent adjustment and close): see `Account.Driver.SysAcct`. -/
def main : IO Unit := Common.Proto.run ({} : Account.Driver.SysAcct.DS) Account.Driver.SysAcct.step
