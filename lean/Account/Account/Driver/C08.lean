import Account.Driver.ProgAcct
/-! Model driver for C08: the shared program-account op interpreter (`Driver/ProgAcct.lean`). -/
def main : IO Unit := Common.Proto.run (none : Option Account.Driver.ProgAcct.St) Account.Driver.ProgAcct.step
