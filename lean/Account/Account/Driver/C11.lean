import Common.Proto
import Account.Lifecycle
/-!
# `c11_model` — runs `Account.C11.entry` (dispatch + lifecycle) on the harness's op lines

  tbl <set> <width> <align> <dischex>:<hid> ...      -> ok <n> | bad-op
  ixs <hid>:<alen>:<fields> ...                       -> ok | bad-op
  ix <off> <datahex> <naccts> <plan>                  -> t=<trace> r=<ok|bN|cN>
-/
open Common.Proto
namespace Account.C11.Driver
open Account.C11

structure St where
  tbl : Option Table := none
  ixs : Option (List Ix) := none

/-- `(offset, declared discriminant)` of the variants of the harness's `#[star_frame_error]` enums
(`E0`, `E7`, `EMax`, `EDef`; 20873 = LE u16 of sha256("star_frame_proc")[0..2], the macro's
default offset). -/
def harnessErrs : List (Nat × Nat) :=
  [(0, 7), (0, 8), (7, 3), (7, 4), (7, 100), (65535, 0), (65535, 65535), (20873, 0), (20873, 9)]

def allM {α β : Type} (f : α → Option β) : List α → Option (List β)
  | [] => some []
  | x :: xs => do
    let y ← f x
    let ys ← allM f xs
    pure (y :: ys)

def parseArm (w : Nat) (tok : String) : Option (List Nat × Nat) :=
  match tok.splitOn ":" with
  | [d, h] => do
    let bs ← parseHex d
    let hid ← h.toNat?
    if bs.length = w then some (bs, hid) else none
  | _ => none

def parseField (tok : String) : Option Field :=
  match tok.splitOn "<" with
  | [] => none
  | n :: rs => do
    let name ← n.toNat?
    let reqs ← allM String.toNat? rs
    pure (name, reqs)

def parseFields (tok : String) : Option (List Field) :=
  if tok = "-" then some [] else allM parseField (tok.splitOn "/")

def parseIxDecl (tok : String) : Option Ix :=
  match tok.splitOn ":" with
  | [h, a, fs] => do
    let hid ← h.toNat?
    let alen ← a.toNat?
    let fields ← parseFields fs
    pure ⟨hid, alen, fields⟩
  | _ => none

def parsePhase (c : Char) : Option Phase :=
  if c = 'a' then some .args else if c = 'd' then some .decode else if c = 'v' then some .validate
  else if c = 'p' then some .process else if c = 'c' then some .cleanup else none

def parseErr (s : String) : Option Err :=
  match s.toList with
  | 'b' :: rest => do
    let n ← (String.ofList rest).toNat?
    if 2 ≤ n ∧ n ≤ 26 then some (.prog (.builtin n)) else none
  | 'c' :: rest => do
    let n ← (String.ofList rest).toNat?
    if n < 4294967296 then some (.prog (.custom n)) else none
  | 'e' :: rest =>
    match (String.ofList rest).splitOn "." with
    | [o, d] => do
      let off ← o.toNat?
      let disc ← d.toNat?
      if harnessErrs.contains (off, disc) then some (.star off disc) else none
    | _ => none
  | _ => none

def parseFault (tok : String) : Option Fault :=
  match tok.splitOn "=" with
  | [l, r] =>
    match l.toList with
    | c :: rest => do
      let ph ← parsePhase c
      let tag ← (String.ofList rest).toNat?
      let e ← parseErr r
      if tag < 4294967296 then some ⟨ph, tag, e⟩ else none
    | [] => none
  | _ => none

def parsePlan (tok : String) : Option FaultPlan :=
  if tok = "-" then some [] else allM parseFault (tok.splitOn ",")

def phaseChar : Phase → String
  | .args => "a" | .decode => "d" | .validate => "v" | .process => "p" | .cleanup => "c"

def showEvent (e : Event) : String :=
  match e.phase with
  | .process => s!"p{e.tag}:{toHex e.payload}"
  | ph => s!"{phaseChar ph}{e.tag}"

def showTrace (tr : Trace) : String :=
  if tr.isEmpty then "-" else ".".intercalate (tr.map showEvent)

def showResult : Result → String
  | .ok => "ok"
  | .err (.builtin n) => s!"b{n}"
  | .err (.custom c) => s!"c{c}"

def step (st : St) (toks : List String) : St × String :=
  match toks with
  | "tbl" :: _name :: w :: al :: arms =>
    let st0 : St := {}
    match w.toNat?, al.toNat? with
    | some width, some align =>
      match allM (parseArm width) arms with
      | some as =>
        if align = 0 ∨ ¬ (as.map (·.1)).Nodup then (st0, "bad-op")
        else ({ tbl := some ⟨width, align, as⟩ }, s!"ok {as.length}")
      | none => (st0, "bad-op")
    | _, _ => (st0, "bad-op")
  | "ixs" :: decls =>
    match st.tbl with
    | none => ({ st with ixs := none }, "bad-op")
    | some t =>
      match allM parseIxDecl decls with
      | some ixs =>
        if t.arms.all (fun a => ixs.any (fun i => i.id == a.2)) ∧ ixs.length = t.arms.length
        then ({ st with ixs := some ixs }, "ok")
        else ({ st with ixs := none }, "bad-op")
      | none => ({ st with ixs := none }, "bad-op")
  | ["ix", off, data, naccts, plan] =>
    match st.tbl, st.ixs with
    | some t, some ixs =>
      match off.toNat?, parseHex data, naccts.toNat?, parsePlan plan with
      | some off, some bs, some n, some pl =>
        if off > 7 ∨ n > 16 then (st, "bad-op")
        else
          let (tr, r) := entry t ixs off bs n pl
          (st, s!"t={showTrace tr} r={showResult r}")
      | _, _, _, _ => (st, "bad-op")
    | _, _ => (st, "bad-op")
  | _ => (st, "bad-op")

end Account.C11.Driver

def main : IO Unit := Common.Proto.run ({} : Account.C11.Driver.St) Account.C11.Driver.step
