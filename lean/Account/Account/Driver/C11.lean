import Common.Proto
import Account.Lifecycle
/-!
# `c11_model` — runs `Account.C11.entry` (dispatch + lifecycle) on the harness's op lines

  tbl <set> <width> <align> <dischex>:<hid> ...      -> ok <n> | bad-op
  ixs <hid>:<alen>:<set> ...                          -> ok | bad-op
      set = L<pid> | N<sid>[b][e][x](<name>{<req}[!s|f|r..]=<set>,…)
  ix <off> <datahex> <naccts> <plan>                  -> t=<trace> r=<ok|bN|cN>
-/
open Common.Proto
namespace Account.C11.Driver
open Account.C11

structure St where
  tbl : Option Table := none
  ixs : Option (List Ix) := none

/-- `(offset, declared discriminant)` of the variants of the harness's `#[star_frame_error]` enums
(`E0`, `E7`, `EMax`, `EDef`; 20873 = LE u16 of sha256("star_frame_proc")[0..2], the macro's
default offset). -/
def harnessErrs : List (Nat × Nat) :=
  [(0, 7), (0, 8), (7, 3), (7, 4), (7, 100), (65535, 0), (65535, 65535), (20873, 0), (20873, 9)]

def allM {α β : Type} (f : α → Option β) : List α → Option (List β)
  | [] => some []
  | x :: xs => do
    let y ← f x
    let ys ← allM f xs
    pure (y :: ys)

def parseArm (w : Nat) (tok : String) : Option (List Nat × Nat) :=
  match tok.splitOn ":" with
  | [d, h] => do
    let bs ← parseHex d
    let hid ← h.toNat?
    if bs.length = w then some (bs, hid) else none
  | _ => none

/-- leading decimal number -/
def takeNat (cs : List Char) : Option (Nat × List Char) :=
  let ds := cs.takeWhile Char.isDigit
  if ds.isEmpty then none else (String.ofList ds).toNat?.map (fun n => (n, cs.drop ds.length))

/-- `{<req}` -/
def takeReqs : Nat → List Char → Option (List Nat × List Char)
  | 0, _ => none
  | fuel + 1, '<' :: cs => do
    let (r, cs) ← takeNat cs
    let (rs, cs) ← takeReqs fuel cs
    pure (r :: rs, cs)
  | _, cs => some ([], cs)

def takeFlags (allowed : List Char) (cs : List Char) : List Char × List Char :=
  (cs.takeWhile allowed.contains, cs.dropWhile allowed.contains)

mutual
/-- set := `L<pid>` | `N<sid>[b][e][x](field,field,…)` -/
def parseSet : Nat → List Char → Option (ASet × List Char)
  | 0, _ => none
  | fuel + 1, 'L' :: cs => do
    let (p, cs) ← takeNat cs
    pure (.leaf p, cs)
  | fuel + 1, 'N' :: cs => do
    let (sid, cs) ← takeNat cs
    let (fl, cs) := takeFlags ['b', 'e', 'x'] cs
    match cs with
    | '(' :: ')' :: cs => pure (.node sid (fl.contains 'b') (fl.contains 'e') (fl.contains 'x') [], cs)
    | '(' :: cs => do
      let (fs, cs) ← parseFieldsT fuel cs
      pure (.node sid (fl.contains 'b') (fl.contains 'e') (fl.contains 'x') fs, cs)
    | _ => none
  | _, _ => none
/-- field := `<name>{<req}[!flags]=<set>`, fields separated by `,`, list closed by `)` -/
def parseFieldsT : Nat → List Char → Option (List (FieldHdr × ASet) × List Char)
  | 0, _ => none
  | fuel + 1, cs => do
    let (name, cs) ← takeNat cs
    let (reqs, cs) ← takeReqs (cs.length + 1) cs
    let (fl, cs) := match cs with
      | '!' :: cs => takeFlags ['s', 'f', 'r'] cs
      | cs => ([], cs)
    match cs with
    | '=' :: cs => do
      let (sub, cs) ← parseSet fuel cs
      let hdr : FieldHdr := ⟨name, reqs, fl.contains 's', fl.contains 'f', fl.contains 'r'⟩
      match cs with
      | ',' :: cs => do
        let (rest, cs) ← parseFieldsT fuel cs
        pure ((hdr, sub) :: rest, cs)
      | ')' :: cs => pure ([(hdr, sub)], cs)
      | _ => none
    | _ => none
end

def parseSetTok (tok : String) : Option ASet :=
  match parseSet (tok.length + 1) tok.toList with
  | some (t, []) => some t
  | _ => none

def parseIxDecl (tok : String) : Option Ix :=
  match tok.splitOn ":" with
  | [h, a, t] => do
    let hid ← h.toNat?
    let alen ← a.toNat?
    let set ← parseSetTok t
    pure ⟨hid, alen, set⟩
  | _ => none

def parsePhase (c : Char) : Option Phase :=
  if c = 'a' then some .args else if c = 'd' then some .decode else if c = 'v' then some .validate
  else if c = 'p' then some .process else if c = 'c' then some .cleanup
  else if c = 'B' then some .vbefore else if c = 'E' then some .vextra else if c = 'X' then some .cextra
  else none

def parseErr (s : String) : Option Err :=
  match s.toList with
  | 'b' :: rest => do
    let n ← (String.ofList rest).toNat?
    if 2 ≤ n ∧ n ≤ 26 then some (.prog (.builtin n)) else none
  | 'c' :: rest => do
    let n ← (String.ofList rest).toNat?
    if n < 4294967296 then some (.prog (.custom n)) else none
  | 'e' :: rest =>
    match (String.ofList rest).splitOn "." with
    | [o, d] => do
      let off ← o.toNat?
      let disc ← d.toNat?
      if harnessErrs.contains (off, disc) then some (.star off disc) else none
    | _ => none
  | _ => none

def parseFault (tok : String) : Option Fault :=
  match tok.splitOn "=" with
  | [l, r] =>
    match l.toList with
    | c :: rest => do
      let ph ← parsePhase c
      let tag ← (String.ofList rest).toNat?
      let e ← parseErr r
      if tag < 4294967296 then some ⟨ph, tag, e⟩ else none
    | [] => none
  | _ => none

def parsePlan (tok : String) : Option FaultPlan :=
  if tok = "-" then some [] else allM parseFault (tok.splitOn ",")

def phaseChar : Phase → String
  | .args => "a" | .decode => "d" | .validate => "v" | .process => "p" | .cleanup => "c"
  | .vbefore => "B" | .vextra => "E" | .cextra => "X"

/-- a cached leaf is printed as its position in the account list (= decode order) -/
def showCached (order : List Nat) : Option Nat → String
  | none => "-"
  | some p => toString (order.idxOf p)

def showEvent (order : List Nat) (e : Event) : String :=
  match e.phase with
  | .process => s!"p{e.tag}:{toHex e.payload}:{showCached order e.funder}:{showCached order e.recipient}"
  | ph => s!"{phaseChar ph}{e.tag}"

def showTrace (order : List Nat) (tr : Trace) : String :=
  if tr.isEmpty then "-" else ".".intercalate (tr.map (showEvent order))

def showResult : Result → String
  | .ok => "ok"
  | .err (.builtin n) => s!"b{n}"
  | .err (.custom c) => s!"c{c}"

def step (st : St) (toks : List String) : St × String :=
  match toks with
  | "tbl" :: _name :: w :: al :: arms =>
    let st0 : St := {}
    match w.toNat?, al.toNat? with
    | some width, some align =>
      match allM (parseArm width) arms with
      | some as =>
        if align = 0 ∨ ¬ (as.map (·.1)).Nodup then (st0, "bad-op")
        else ({ tbl := some ⟨width, align, as⟩ }, s!"ok {as.length}")
      | none => (st0, "bad-op")
    | _, _ => (st0, "bad-op")
  | "ixs" :: decls =>
    match st.tbl with
    | none => ({ st with ixs := none }, "bad-op")
    | some t =>
      match allM parseIxDecl decls with
      | some ixs =>
        if t.arms.all (fun a => ixs.any (fun i => i.id == a.2)) ∧ ixs.length = t.arms.length
        then ({ st with ixs := some ixs }, "ok")
        else ({ st with ixs := none }, "bad-op")
      | none => ({ st with ixs := none }, "bad-op")
  | ["ix", off, data, naccts, plan] =>
    match st.tbl, st.ixs with
    | some t, some ixs =>
      match off.toNat?, parseHex data, naccts.toNat?, parsePlan plan with
      | some off, some bs, some n, some pl =>
        if off > 7 ∨ n > 16 then (st, "bad-op")
        else
          let (tr, r) := entry t ixs off bs n pl
          -- the instruction that ran (if any) fixes how cached leaves are printed
          let order := match tr.head? with
            | some e => ((ixs.find? (fun i => i.id == e.tag)).map (·.set.decodeOrder)).getD []
            | none => []
          (st, s!"t={showTrace order tr} r={showResult r}")
      | _, _, _, _ => (st, "bad-op")
    | _, _ => (st, "bad-op")
  | _ => (st, "bad-op")

end Account.C11.Driver

def main : IO Unit := Common.Proto.run ({} : Account.C11.Driver.St) Account.C11.Driver.step
