import Common.Proto
import Account.Interp
/-!
# `c11_model` — runs `Account.C11.entry` (dispatch + lifecycle) on the harness's op lines

  tbl <set> <width> <align> <dischex>:<hid> ...      -> ok <n> | bad-op
  ixs <hid>:<alen>:<set> ...                          -> ok | bad-op
      set = L<pid> | N<sid>[b][e][x](<name>{<req}[!s|f|r|a|t|g..]=<set>,…) | S(<set>,…) | V<n>*<set>
            | O<set> | R<set>
  accounts = <n> | <n>P<i>.<j>…   (positions whose key is the program id)
  ix <off> <datahex> <naccts> <plan>                  -> t=<trace> r=<ok|bN|cN>
-/
open Common.Proto
namespace Account.C11.Driver
open Account.C11

structure St where
  tbl : Option Table := none
  ixs : Option (List Ix) := none

/-- `(offset, declared discriminant)` of the variants of the harness's `#[star_frame_error]` enums
(`E0`, `E7`, `EMax`, `EDef`; 20873 = LE u16 of sha256("star_frame_proc")[0..2], the macro's
default offset). -/
def harnessErrs : List (Nat × Nat) :=
  [(0, 7), (0, 8), (7, 3), (7, 4), (7, 100), (65535, 0), (65535, 65535), (20873, 0), (20873, 9)]

def allM {α β : Type} (f : α → Option β) : List α → Option (List β)
  | [] => some []
  | x :: xs => do
    let y ← f x
    let ys ← allM f xs
    pure (y :: ys)

def parseArm (w : Nat) (tok : String) : Option (List Nat × Nat) :=
  match tok.splitOn ":" with
  | [d, h] => do
    let bs ← parseHex d
    let hid ← h.toNat?
    if bs.length = w then some (bs, hid) else none
  | _ => none

/-- leading decimal number -/
def takeNat (cs : List Char) : Option (Nat × List Char) :=
  let ds := cs.takeWhile Char.isDigit
  if ds.isEmpty then none else (String.ofList ds).toNat?.map (fun n => (n, cs.drop ds.length))

/-- `{<req}` -/
def takeReqs : Nat → List Char → Option (List Nat × List Char)
  | 0, _ => none
  | fuel + 1, '<' :: cs => do
    let (r, cs) ← takeNat cs
    let (rs, cs) ← takeReqs fuel cs
    pure (r :: rs, cs)
  | _, cs => some ([], cs)

def takeFlags (allowed : List Char) (cs : List Char) : List Char × List Char :=
  (cs.takeWhile allowed.contains, cs.dropWhile allowed.contains)

mutual
/-- set := `L<pid>` | `N<sid>[b][e][x](field,field,…)` | `S(set,…)` | `V<n>*set` | `Oset` | `Rset` -/
def parseSet : Nat → List Char → Option (ASet × List Char)
  | 0, _ => none
  | fuel + 1, 'L' :: cs => do
    let (p, cs) ← takeNat cs
    pure (.leaf p, cs)
  | fuel + 1, 'N' :: cs => do
    let (sid, cs) ← takeNat cs
    let (fl, cs) := takeFlags ['b', 'e', 'x'] cs
    match cs with
    | '(' :: ')' :: cs => pure (.node sid (fl.contains 'b') (fl.contains 'e') (fl.contains 'x') [], cs)
    | '(' :: cs => do
      let (fs, cs) ← parseFieldsT fuel cs
      pure (.node sid (fl.contains 'b') (fl.contains 'e') (fl.contains 'x') fs, cs)
    | _ => none
  | fuel + 1, 'S' :: '(' :: ')' :: cs => pure (.seq [], cs)
  | fuel + 1, 'S' :: '(' :: cs => do
    let (ts, cs) ← parseSetsT fuel cs
    pure (.seq ts, cs)
  | fuel + 1, 'V' :: cs => do
    let (n, cs) ← takeNat cs
    match cs with
    | '*' :: cs => do
      let (t, cs) ← parseSet fuel cs
      if n ≤ 32 then pure (.seq (List.replicate n t), cs) else none
    | _ => none
  | fuel + 1, 'O' :: cs => do
    let (t, cs) ← parseSet fuel cs
    pure (.opt .option t, cs)
  | fuel + 1, 'R' :: cs => do
    let (t, cs) ← parseSet fuel cs
    -- `while !accounts.is_empty()`: at most 32 accounts per op line, one consumed per iteration
    pure (.seq (List.replicate 33 (.opt .nonempty t)), cs)
  | _, _ => none
/-- field := `<name>{<req}[!flags]=<set>`, fields separated by `,`, list closed by `)` -/
def parseFieldsT : Nat → List Char → Option (List (FieldHdr × ASet) × List Char)
  | 0, _ => none
  | fuel + 1, cs => do
    let (name, cs) ← takeNat cs
    let (reqs, cs) ← takeReqs (cs.length + 1) cs
    let (fl, cs) := match cs with
      | '!' :: cs => takeFlags ['s', 'f', 'r', 'a', 't', 'g'] cs
      | cs => ([], cs)
    match cs with
    | '=' :: cs => do
      let (sub, cs) ← parseSet fuel cs
      let hdr : FieldHdr := ⟨name, reqs, fl.contains 's', fl.contains 'f', fl.contains 'r',
        fl.contains 'a', fl.contains 't', fl.contains 'g'⟩
      match cs with
      | ',' :: cs => do
        let (rest, cs) ← parseFieldsT fuel cs
        pure ((hdr, sub) :: rest, cs)
      | ')' :: cs => pure ([(hdr, sub)], cs)
      | _ => none
    | _ => none
def parseSetsT : Nat → List Char → Option (List ASet × List Char)
  | 0, _ => none
  | fuel + 1, cs => do
    let (t, cs) ← parseSet fuel cs
    match cs with
    | ',' :: cs => do
      let (rest, cs) ← parseSetsT fuel cs
      pure (t :: rest, cs)
    | ')' :: cs => pure ([t], cs)
    | _ => none
end

def parseSetTok (tok : String) : Option ASet :=
  match parseSet (tok.length + 1) tok.toList with
  | some (t, []) => some t
  | _ => none

def parseIxDecl (tok : String) : Option Ix :=
  match tok.splitOn ":" with
  | [h, a, t] => do
    let hid ← h.toNat?
    let alen ← a.toNat?
    let set ← parseSetTok t
    pure ⟨hid, alen, set⟩
  | _ => none

def parsePhase (c : Char) : Option Phase :=
  if c = 'a' then some .args else if c = 'd' then some .decode else if c = 'v' then some .validate
  else if c = 'p' then some .process else if c = 'c' then some .cleanup
  else if c = 'B' then some .vbefore else if c = 'E' then some .vextra else if c = 'X' then some .cextra
  else if c = 'K' then some .vaddr else if c = 'T' then some .vtemp else if c = 'G' then some .varg
  else none

def parseErr (s : String) : Option Err :=
  match s.toList with
  | 'b' :: rest => do
    let n ← (String.ofList rest).toNat?
    if 2 ≤ n ∧ n ≤ 26 then some (.prog (.builtin n)) else none
  | 'c' :: rest => do
    let n ← (String.ofList rest).toNat?
    if n < 4294967296 then some (.prog (.custom n)) else none
  | 'e' :: rest =>
    match (String.ofList rest).splitOn "." with
    | [o, d] => do
      let off ← o.toNat?
      let disc ← d.toNat?
      if harnessErrs.contains (off, disc) then some (.star off disc) else none
    | _ => none
  | _ => none

def parseFault (tok : String) : Option Fault :=
  match tok.splitOn "=" with
  | [l, r] =>
    match l.toList with
    | c :: rest => do
      let ph ← parsePhase c
      let e ← parseErr r
      match (String.ofList rest).splitOn "@" with
      | [t] => do
        let tag ← t.toNat?
        if tag < 4294967296 then some ⟨ph, tag, none, e⟩ else none
      | [t, sl] => do
        let tag ← t.toNat?
        let slot ← sl.toNat?
        if tag < 4294967296 ∧ slot < 4294967296 then some ⟨ph, tag, some slot, e⟩ else none
      | _ => none
    | [] => none
  | _ => none

def parsePlan (tok : String) : Option FaultPlan :=
  if tok = "-" then some [] else allM parseFault (tok.splitOn ",")

def phaseChar : Phase → String
  | .args => "a" | .decode => "d" | .validate => "v" | .process => "p" | .cleanup => "c"
  | .vbefore => "B" | .vextra => "E" | .cextra => "X"
  | .vaddr => "K" | .vtemp => "T" | .varg => "G"

def leafPhase : Phase → Bool
  | .decode | .validate | .cleanup | .vaddr | .vtemp | .varg => true
  | _ => false

def showCached : Option Nat → String
  | none => "-"
  | some p => toString p

def showEvent (e : Event) : String :=
  match e.phase with
  | .process => s!"p{e.tag}:{toHex e.payload}:{showCached e.funder}:{showCached e.recipient}"
  | ph =>
    if leafPhase ph && e.slot != e.tag then s!"{phaseChar ph}{e.tag}@{e.slot}"
    else s!"{phaseChar ph}{e.tag}"

def showTrace (tr : Trace) : String :=
  if tr.isEmpty then "-" else ".".intercalate (tr.map showEvent)

/-- `<n>` or `<n>P<i>.<j>…`: `n` accounts, the listed positions carry the program id as key -/
def parseAccts (tok : String) : Option (List Bool) :=
  match tok.splitOn "P" with
  | [n] => do
    let n ← n.toNat?
    if n ≤ 32 then some (List.replicate n false) else none
  | [n, ps] => do
    let n ← n.toNat?
    let idx ← allM String.toNat? (ps.splitOn ".")
    if n ≤ 32 ∧ idx.all (· < n) then some ((List.range n).map (fun i => idx.contains i)) else none
  | _ => none

def showResult : Result → String
  | .ok => "ok"
  | .err (.builtin n) => s!"b{n}"
  | .err (.custom c) => s!"c{c}"

def step (st : St) (toks : List String) : St × String :=
  match toks with
  | "tbl" :: _name :: w :: al :: arms =>
    let st0 : St := {}
    match w.toNat?, al.toNat? with
    | some width, some align =>
      match allM (parseArm width) arms with
      | some as =>
        if align = 0 ∨ ¬ (as.map (·.1)).Nodup then (st0, "bad-op")
        else ({ tbl := some ⟨width, align, as⟩ }, s!"ok {as.length}")
      | none => (st0, "bad-op")
    | _, _ => (st0, "bad-op")
  | "ixs" :: decls =>
    match st.tbl with
    | none => ({ st with ixs := none }, "bad-op")
    | some t =>
      match allM parseIxDecl decls with
      | some ixs =>
        if t.arms.all (fun a => ixs.any (fun i => i.id == a.2)) ∧ ixs.length = t.arms.length
        then ({ st with ixs := some ixs }, "ok")
        else ({ st with ixs := none }, "bad-op")
      | none => ({ st with ixs := none }, "bad-op")
  | ["ix", off, data, naccts, plan] =>
    match st.tbl, st.ixs with
    | some t, some ixs =>
      match off.toNat?, parseHex data, parseAccts naccts, parsePlan plan with
      | some off, some bs, some accts, some pl =>
        if off > 7 then (st, "bad-op")
        else
          let (tr, r) := entry t ixs off bs accts pl
          (st, s!"t={showTrace tr} r={showResult r}")
      | _, _, _, _ => (st, "bad-op")
    | _, _ => (st, "bad-op")
  | _ => (st, "bad-op")

end Account.C11.Driver

def main : IO Unit := Common.Proto.run ({} : Account.C11.Driver.St) Account.C11.Driver.step
