import Account.Rent
import Common.Proto
/-!
Shared op-line interpreter of the C12 / C13 model drivers: answers the op lines of
`harness/hx-sysacct/src/ops.rs` by running `Account.Init` / `Account.Rent`.
-/
open Common Common.Proto Account.World Account.Init Account.Rent

namespace Account.Driver.SysAcct

/-- The harness program id (`progs.rs` `PROGRAM_ID`). -/
def programId : Key := List.replicate 32 0x5A

def borshValid (b : List Nat) : Bool :=
  decide (b.length ≥ 12) && decide (rdLE ((b.drop 8).take 4) = b.length - 12)

/-- The account types compiled into the harness (`progs.rs`). -/
def tyOf : String → Option AcctType
  | "zc16" => some { disc := [0xA1, 1, 2, 3, 4, 5, 6, 0x1A], kind := .zc, valid := fun _ => true }
  | "zclist" => some { disc := [0xB2, 0, 0, 0, 0, 0, 0, 0x2B], kind := .zc, valid := fun _ => true }
  | "borsh" => some { disc := [0, 0, 0, 0xC3, 0, 0, 0, 0x3C], kind := .borsh, valid := borshValid }
  | "bunit" => some { disc := [0xD4, 0, 0, 0, 0, 0, 0, 0x4D], kind := .borsh, valid := fun b => b.isEmpty }
  | _ => none

/-- Is `enc` the encoding of a value of the named harness type? (`ops.rs` `valid_value`) -/
def validValue (ty : String) (enc : List Nat) : Bool :=
  match ty with
  | "zc16" => enc.length == 16
  | "zclist" => decide (enc.length ≥ 4) && (enc.length - 4 == 3 || enc.length - 4 == 17) &&
      decide (rdLE (enc.take 4) = enc.length - 4)
  | "borsh" => borshValid enc && decide (enc.length ≤ 1000)
  | "bunit" => enc.isEmpty
  | _ => false

def defaultValue (ty : String) : List Nat :=
  match ty with
  | "zc16" => List.replicate 16 0
  | "zclist" => List.replicate 4 0
  | "bunit" => []
  | _ => List.replicate 12 0

structure Decl where
  key : Key
  acct : Acct
  signer : Bool
  writable : Bool

/-- The pending `Init<…>` wrapper: type, target, cached borsh value, `needed_init` flag. -/
structure Held where
  tyName : String
  ty : AcctType
  target : Target
  wrapper : Option (List Nat)
  flag : Bool

structure DS where
  rent : Nat × Nat := (3480, 2)
  htab : List (List Nat × Option Key) := []
  decls : List Decl := []
  frozen : Bool := false
  w : World := fun _ => { lamports := 0, owner := systemId, data := [] }
  funder : Option Funder := none
  /-- the context cache: every `cache` line is one `set_funder` / `set_recipient` call -/
  cache : Cache := {}
  /-- the decoded `Init` wrapper kept between ops -/
  pending : Option Held := none

def DS.declared (s : DS) (k : Key) : Bool := s.decls.any (·.key == k)

def DS.env (s : DS) : Env :=
  { program := programId
    H := fun flat P => if P = programId then
        (match s.htab.find? (·.1 == flat) with
         | some (_, r) => r
         | none => none) else none
    rentMin := fun n => (128 + n) * s.rent.1 * s.rent.2
    isSigner := fun k => match s.decls.find? (·.key == k) with
      | some d => d.signer
      | none => false
    isWritable := fun k => match s.decls.find? (·.key == k) with
      | some d => d.writable
      | none => false }

def parseKey (s : String) : Option Key := do
  let k ← parseHex s
  if k.length = 32 then some k else none

def parseNat (s : String) : Option Nat :=
  if s.isEmpty then none else if s.toList.all Char.isDigit then s.toNat? else none

def parseSeedList : List String → Option (List (List Nat))
  | [] => some []
  | x :: xs => do
    let a ← parseHex x
    let r ← parseSeedList xs
    pure (a :: r)

/-- `none` → `some none`; `a.b.c` → `some (some [a, b, c])`. -/
def parseSeeds (s : String) : Option (Option (List (List Nat))) :=
  if s = "none" then some none else (parseSeedList (s.splitOn ".")).map some

def showSysErr : SysErr → String
  | .missingRequiredSignature => "err:MissingRequiredSignature"
  | .accountAlreadyInUse => "err:Custom0"
  | .resultWithNegativeLamports => "err:Custom1"
  | .invalidAccountDataLength => "err:Custom3"
  | .invalidArgument => "err:InvalidArgument"
  | .externalAccountLamportSpend => "err:ExternalAccountLamportSpend"
  | .modifiedProgramId => "err:ModifiedProgramId"
  | .arithmeticOverflow => "err:ArithmeticOverflow"

def showErr : Err → String
  | .sys e => showSysErr e
  | .privilegeEscalation => "err:PrivilegeEscalation"
  | .badSeeds .maxSeedLengthExceeded => "err:MaxSeedLengthExceeded"
  | .badSeeds .invalidSeeds => "err:InvalidSeeds"
  | .expectedWritable => "err:Custom1000"
  | .expectedSigner => "err:Custom1001"
  | .addressMismatch => "err:Custom1002"
  | .discriminantMismatch => "err:Custom1003"
  | .emptyFunderCache => "err:Custom1004"
  | .emptyRecipientCache => "err:Custom1005"
  | .accountDataTooSmall => "err:AccountDataTooSmall"
  | .invalidAccountOwner => "err:InvalidAccountOwner"
  | .borshIo => "err:Custom9001"
  | .insufficientFunds => "err:InsufficientFunds"
  | .initFailed => "err:Custom9004"

def showSeedSets (sets : List (List (List Nat))) : String :=
  "[" ++ "|".intercalate (sets.map fun set => ".".intercalate (set.map toHex)) ++ "]"

def showCpi (c : Cpi) : String :=
  (match c.ix with
   | .createAccount s d l sp o => s!"create({toHex s},{toHex d},{l},{sp},{toHex o})<sw,sw>"
   | .assign k o => s!"assign({toHex k},{toHex o})<sw>"
   | .transfer s d l => s!"transfer({toHex s},{toHex d},{l})<sw,-w>"
   | .allocate k sp => s!"allocate({toHex k},{sp})<sw>") ++ showSeedSets c.seeds

def showLog (l : List Cpi) : String :=
  if l.isEmpty then "-" else ";".intercalate (l.map showCpi)

def showWorld (s : DS) : String :=
  if s.decls.isEmpty then "-" else
  ";".intercalate (s.decls.map fun d =>
    let a := s.w d.key
    s!"{toHex d.key}={a.lamports},{toHex a.owner},{toHex a.data}")

def freeze (s : DS) : DS := { s with frozen := true }

/-- `Box<T>` (impls/boxed.rs) forwards every account-set trait to `T`, so the carrier tokens
(`funder … box`, `init … box|ibox`) do not change the model's answer. -/
def stripCarrier (toks : List String) : List String :=
  match toks with
  | ["funder", k, sd, "box"] => ["funder", k, sd]
  | ["init", a, b, c, d, e, f, "box"] => ["init", a, b, c, d, e, f]
  | ["init", a, b, c, d, e, f, "ibox"] => ["init", a, b, c, d, e, f]
  | t => t

def stepCore (s : DS) (toks : List String) : DS × String :=
  match toks with
  | ["rent", a, b] =>
    match parseNat a, parseNat b with
    | some a, some b =>
      if 1 ≤ b ∧ b ≤ 3 ∧ a < 2 ^ 32 then ({ s with rent := (a, b) }, "ok") else (s, "bad-op")
    | _, _ => (s, "bad-op")
  | ["h", flat, key] =>
    match parseHex flat with
    | none => (s, "bad-op")
    | some flat =>
      if key = "-" then ({ s with htab := s.htab ++ [(flat, none)] }, "ok")
      else match parseKey key with
        | some k => ({ s with htab := s.htab ++ [(flat, some k)] }, "ok")
        | none => (s, "bad-op")
  | ["acct", key, lam, owner, data, sg, wr] =>
    match parseKey key, parseNat lam, parseKey owner, parseHex data, parseBool sg, parseBool wr with
    | some key, some lam, some owner, some data, some sg, some wr =>
      if s.frozen ∨ s.declared key ∨ s.decls.length ≥ 16 ∨ data.length > 20000 ∨ lam ≥ 2 ^ 64
        then (s, "bad-op")
      else
        let a : Acct := { lamports := lam, owner, data }
        ({ s with decls := s.decls ++ [{ key, acct := a, signer := sg, writable := wr }],
                  w := s.w.set key a }, "ok")
    | _, _, _, _, _, _ => (s, "bad-op")
  | ["funder", key, seeds] =>
    match parseKey key, parseSeeds seeds with
    | some key, some seeds =>
      if !s.declared key then (s, "bad-op") else
      let s := freeze s
      match seeds with
      | none => ({ s with funder := some { key, seeds := none } }, "ok")
      | some ss =>
        -- `Seeded<Mut<AccountInfo>, RawSeeds>` validated with `Seeds(..)`: seeds first, then `Mut`
        match Account.Seeds.find s.env.H (Account.Seeds.dropTrailingEmpty ss) programId with
        | none => (s, "panic")
        | some (addr, bump) =>
          if addr ≠ key then (s, showErr .addressMismatch)
          else if !s.env.isWritable key then (s, showErr .expectedWritable)
          else ({ s with funder := some { key, seeds := some (Account.Seeds.seedsWithBump ss bump) } }, "ok")
    | _, _ => (s, "bad-op")
  | ["cache", which] =>
    if s.funder.isNone then (s, "bad-op")
    else match s.funder with
      | none => (s, "bad-op")
      | some f =>
        if which = "funder" then ({ s with cache := s.cache.setFunder f }, "ok")
        else if which = "recipient" then ({ s with cache := s.cache.setRecipient f }, "ok")
        else (s, "bad-op")
  | ["init", tyName, mode, tkey, tseeds, how, val] =>
    match tyOf tyName, parseKey tkey, parseSeeds tseeds with
    | some ty, some tkey, some tseeds =>
      if ¬ (mode = "create" ∨ mode = "ifneeded") ∨ !s.declared tkey ∨ ¬ (how = "arg" ∨ how = "cached")
        ∨ (how = "arg" ∧ s.funder.isNone) then (s, "bad-op")
      else
        let enc? : Option (List Nat) :=
          if val = "default" then some (defaultValue tyName)
          else match parseHex val with
            | some v => if validValue tyName v then some v else none
            | none => none
        match enc? with
        | none => (s, "bad-op")
        | some enc =>
          let s := freeze s
          let target : Target := match tseeds with
            | none => .signer tkey
            | some ss => .seeded tkey ss
          let fa : FunderArg := if how = "arg" then
              (match s.funder with
               | some f => .arg f
               | none => .cached none)
            else .cached s.cache.funder
          let dec : Except Err (Option (List Nat)) :=
            if ty.kind = .borsh then decodeBorsh ty (s.w tkey) else .ok none
          match dec with
          | .error e => (s, showErr e ++ " cpis=-")
          | .ok decoded =>
            let s0 := s
            let (r, st) := initValidate s.env ty (mode = "ifneeded") target fa enc { w := s.w, log := [] }
            let s := { s with w := st.w }
            let wrapper := wrapperAfterInit s0.env ty (mode = "ifneeded") target fa enc { w := s0.w, log := [] } decoded
            let held : Held := { tyName, ty, target, wrapper, flag := flagAfter false r }
            match r with
            | .ok needed =>
              ({ s with pending := some held },
               s!"ok needed={showBool needed} cpis={showLog st.log}")
            -- the decoded set survives a failed validation: it can be cleaned up / validated again
            | .err e => ({ s with pending := some held }, showErr e ++ " cpis=" ++ showLog st.log)
            | .panic => (s, "panic cpis=" ++ showLog st.log)
    | _, _, _ => (s, "bad-op")
  | ["cleanup"] =>
    match s.pending with
    | none => (s, "bad-op")
    | some h =>
      let s := { s with pending := none }
      match h.ty.kind with
      | .zc => (s, "ok")
      | .borsh => ({ s with w := serializeBorsh s.env h.ty h.target.key h.wrapper s.w }, "ok")
  | ["needed"] =>
    match s.pending with
    | none => (s, "bad-op")
    | some h => (s, showBool h.flag)
  | "reinit" :: mode :: how :: rest =>
    -- the same wrapper (or a clone: same state) validated again with the default initial value
    if ¬ (rest = [] ∨ rest = ["clone"]) ∨ ¬ (mode = "create" ∨ mode = "ifneeded")
        ∨ ¬ (how = "arg" ∨ how = "cached") ∨ (how = "arg" ∧ s.funder.isNone) then (s, "bad-op")
    else match s.pending with
    | none => (s, "bad-op")
    | some h =>
      let fa : FunderArg := if how = "arg" then
          (match s.funder with
           | some f => .arg f
           | none => .cached none)
        else .cached s.cache.funder
      let enc := defaultValue h.tyName
      let st0 : St := { w := s.w, log := [] }
      let (r, st) := initValidate s.env h.ty (mode = "ifneeded") h.target fa enc st0
      let wrapper := wrapperAfterInit s.env h.ty (mode = "ifneeded") h.target fa enc st0 h.wrapper
      let s := { s with w := st.w, pending := some { h with wrapper, flag := flagAfter h.flag r } }
      match r with
      | .ok needed => (s, s!"ok needed={showBool needed} cpis={showLog st.log}")
      | .err e => (s, showErr e ++ " cpis=" ++ showLog st.log)
      | .panic => (s, "panic cpis=" ++ showLog st.log)
  | ["clean", tyName, opName, tkey, how, newval] =>
    let op? : Option CleanOp := match opName with
      | "normalize" => some .normalize
      | "refund" => some .refund
      | "receive" => some .receive
      | "close" => some .close
      | _ => none
    match tyOf tyName, op?, parseKey tkey with
    | some ty, some op, some tkey =>
      let nv? : Option (Option (List Nat)) :=
        if newval = "keep" then some none
        else match parseHex newval with
          | some v => if tyName = "borsh" ∧ validValue "borsh" v then some (some v) else none
          | none => none
      if ¬ (tyName = "zc16" ∨ tyName = "borsh") ∨ !s.declared tkey ∨ ¬ (how = "arg" ∨ how = "cached")
        ∨ (how = "arg" ∧ s.funder.isNone) then (s, "bad-op")
      else match nv? with
      | none => (s, "bad-op")
      | some nv =>
        let s := freeze s
        let who : Who := if how = "arg" then
            (match s.funder with
             | some f => .arg f
             | none => .cached none)
          else s.cache.who op
        let st0 : St := { w := s.w, log := [] }
        let out (r : Res Unit × St) : DS × String :=
          let s := { s with w := r.2.w }
          match r.1 with
          | .ok () => (s, "ok cpis=" ++ showLog r.2.log)
          | .err e => (s, showErr e ++ " cpis=" ++ showLog r.2.log)
          | .panic => (s, "panic cpis=" ++ showLog r.2.log)
        match ty.kind with
        | .zc => out (cleanupZc s.env ty.W op who tkey st0)
        | .borsh =>
          match decodeBorsh ty (s.w tkey) with
          | .error e => (s, showErr e ++ " cpis=-")
          | .ok decoded =>
            match nv with
            | none => out (cleanupBorsh s.env ty op who tkey decoded st0)
            | some v =>
              -- `set_inner` requires a writable account
              if !s.env.isWritable tkey then (s, showErr .expectedWritable ++ " cpis=-")
              else out (cleanupBorsh s.env ty op who tkey (some v) st0)
    | _, _, _ => (s, "bad-op")
  | ["set", order, opName, fkey, rkey, tkey] =>
    let op? : Option CleanOp := match opName with
      | "normalize" => some .normalize
      | "refund" => some .refund
      | "receive" => some .receive
      | "close" => some .close
      | _ => none
    let order? : Option Order := match order with
      | "fr" => some .funderFirst
      | "rf" => some .recipientFirst
      | _ => none
    match order?, op?, parseKey fkey, parseKey rkey, parseKey tkey, tyOf "zc16" with
    | some order, some op, some fk, some rk, some tk, some ty =>
      if !s.declared fk ∨ !s.declared rk ∨ !s.declared tk then (s, "bad-op") else
      let s := freeze s
      let r := runSet s.env ty order op fk rk tk { w := s.w, log := [] }
      let s := { s with w := r.2.w }
      match r.1 with
      | .ok () => (s, "ok cpis=" ++ showLog r.2.log)
      | .err e => (s, showErr e ++ " cpis=" ++ showLog r.2.log)
      | .panic => (s, "panic cpis=" ++ showLog r.2.log)
    | _, _, _, _, _, _ => (s, "bad-op")
  | ["world"] => (freeze s, showWorld s)
  | _ => (s, "bad-op")

def step (s : DS) (toks : List String) : DS × String := stepCore s (stripCarrier toks)

end Account.Driver.SysAcct
