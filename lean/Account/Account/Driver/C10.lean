import Common.Proto
import Account.Seeds
/-!
# C10 model driver (`c10_model`)

Replays the op lines written by `hx-seeds` against the definitions of `Account/Seeds.lean` (the same
definitions the theorems of `Account/Props/C10.lean` are about). The hash oracle `H` of a case is the
table given by its `h <flat-hex> <program-hex> -> <key-hex>|none` lines. An op whose `H` queries
(`createQueries` / `findQueries`; sound by `create_congr` / `find_congr`) are not all in the table is
answered `bad-op`, like every unparseable or inapplicable op.

Ops (one answer line each):
```
h <flat> <prog> -> <key>|none     ok
prog cur|p0|p1|p2 <ctx-prog>      ok          seed program: current program (= ctx id) or fixed Pk::ID
struct <sid> <const|none> <tys> [noslot]  ok  must equal row <sid> of `structTable` (`noslot`: hand-written, no placeholder)
vals <v>…                         ok          one token per field (decimal ints, hex keys/arrays, true/false, v+v+… nested)
seeds                             ok <s>,<s>,…            GetSeeds::seeds()
key <key>                         ok          fresh `Seeded` around an account with that key
vseeds | vbump <b>                ok | err:<class> | panic
access                            ok bump=<b> vals=<v>,… | panic
signer                            ok <flat> -> <key>|err:<class> | panic    (current-program mode only)
cfind pK | ccreate pK <b>         ok <key> [<bump>] | err:<class> | panic
```
-/
namespace Account.Driver.C10
open Common.Proto Account.Seeds

inductive PrimTy
  | uint (w : Nat)
  | sint (w : Nat)
  | key
  | arr (n : Nat)
  | bool
  deriving DecidableEq, Repr

/-- A field is a primitive (`PackedValue<T>` counts as its `T`) or a padding-free nested `NoUninit`
struct, written `n(t+t+…)` (`n()` = a unit struct). -/
inductive FieldTy
  | plain (t : PrimTy)
  | nested (ts : List PrimTy)
  deriving DecidableEq, Repr

namespace FieldTy
def uint (w : Nat) : FieldTy := .plain (.uint w)
def sint (w : Nat) : FieldTy := .plain (.sint w)
def key : FieldTy := .plain .key
def arr (n : Nat) : FieldTy := .plain (.arr n)
def bool : FieldTy := .plain .bool
end FieldTy

open FieldTy in
/-- The seed structs declared in `harness/hx-seeds/src/structs.rs` (same ids, same order of fields,
same constants). Rows 29/30 are `Pubkey` / `u64` themselves through the blanket
`impl<T: Seed + Debug> GetSeeds for T`. -/
def structTable : List (Nat × Option (List Nat) × List FieldTy) :=
  let tc : List Nat := "TEST_CONST".toUTF8.toList.map (·.toNat)
  [ (0, none, []),
    (1, none, [key]),
    (2, none, [key, key]),
    (3, none, [key, uint 8]),
    (4, some tc, []),
    (5, some tc, [key]),
    (6, none, [uint 1]),
    (7, none, [uint 2]),
    (8, none, [uint 4]),
    (9, none, [uint 8]),
    (10, none, [uint 16]),
    (11, none, [sint 1]),
    (12, none, [sint 2]),
    (13, none, [sint 4]),
    (14, none, [sint 8]),
    (15, none, [sint 16]),
    (16, none, [arr 0]),
    (17, none, [arr 1, arr 32]),
    (18, some [112], [uint 1, sint 2, uint 4, sint 8, uint 16, key, arr 7]),
    (19, some ("market".toUTF8.toList.map (·.toNat)), [key, key, uint 8, uint 1]),
    (20, none, [arr 33]),
    (21, some (List.replicate 33 120), [uint 1]),
    (22, none, [uint 1, uint 1, uint 1, uint 1, uint 1, uint 1, uint 1,
                uint 2, uint 2, uint 2, uint 2, uint 2, uint 2, uint 2]),
    (23, some [120], [uint 1, sint 1, uint 2, sint 2, uint 4, sint 4, uint 8, sint 8,
                      uint 16, sint 16, key, arr 3, uint 1]),
    (24, none, List.replicate 15 (uint 1)),
    (25, some [99], [uint 1, uint 1, uint 1, uint 1, uint 1, uint 1, uint 1,
                     uint 2, uint 2, uint 2, uint 2, uint 2, uint 2, key]),
    (26, none, [uint 2, uint 2]),
    (27, none, List.replicate 16 (uint 1)),
    (28, some [], [uint 4]),
    (29, none, [key]),
    (30, none, [uint 8]),
    (31, none, [uint 1, arr 0]),
    (32, none, [bool]),
    (33, some [112, 107], [uint 8, sint 2, uint 16]),
    (34, none, [nested [.uint 4, .uint 2, .uint 2], uint 1]),
    (35, none, [nested [.uint 1, .uint 8, .sint 4], nested [.uint 1, .uint 8, .sint 4]]),
    (36, none, [uint 1, arr 0, uint 2]),
    (37, none, [arr 0, uint 1]),
    (38, none, [arr 0, arr 0]),
    (39, some [], [uint 2, arr 0, key]),
    (40, none, [nested [], uint 4]),
    (41, none, [arr 31, arr 2]),
    (42, none, [arr 1, key]),
    (43, none, [arr 17, arr 17, arr 30]),
    (44, none, [arr 3, arr 5]),
    (45, none, [arr 5, arr 3]),
    (46, none, [arr 8]),
    (47, none, [arr 4, arr 0, arr 4]),
    (48, none, List.replicate 14 key),
    (49, none, List.replicate 15 key),
    (50, some (List.replicate 32 7), [arr 32]),
    (51, none, [arr 31, bool]),
    -- hand-written `impl GetSeeds`
    (52, none, [uint 1, arr 0]),
    (53, none, [uint 8]),
    (54, some ("TEST_CONST".toUTF8.toList.map (·.toNat)), [key, uint 8]) ]

/-- Hand-written `GetSeeds` impls that return NO bump placeholder (`struct … noslot`): 52 ends in an
empty REAL seed, 53 in a non-empty one. (54 is hand-written WITH the placeholder, as the trait
documentation shows.) -/
def noSlotSids : List Nat := [52, 53]

/-- `P0::ID`, `P1::ID`, `P2::ID` of the harness. -/
def fixedProg (k : Nat) : List Nat := (List.range 32).map fun i => (k * 37 + i * 11 + 5) % 256

structure St where
  table : List (List Nat × List Nat × Option (List Nat)) := []
  /-- `none`: current program (ctx id); `some k`: fixed program `Pk`. -/
  mode : Option (Option Nat) := none
  ctxProg : List Nat := []
  shape : Option (Option (List Nat) × List FieldTy) := none
  placeholder : Bool := true
  vals : Option SeedStruct := none
  seeded : Option Seeded := none

def tableH (t : List (List Nat × List Nat × Option (List Nat))) : Hash := fun flat P =>
  match t.find? (fun e => e.1 == flat && e.2.1 == P) with
  | some e => e.2.2
  | none => none

def complete (t : List (List Nat × List Nat × Option (List Nat))) (qs : List (List Nat × List Nat)) : Bool :=
  qs.all fun q => t.any fun e => e.1 == q.1 && e.2.1 == q.2

def parsePrimTy (s : String) : Option PrimTy :=
  match s with
  | "u8" => some (.uint 1) | "u16" => some (.uint 2) | "u32" => some (.uint 4)
  | "u64" => some (.uint 8) | "u128" => some (.uint 16)
  | "i8" => some (.sint 1) | "i16" => some (.sint 2) | "i32" => some (.sint 4)
  | "i64" => some (.sint 8) | "i128" => some (.sint 16)
  | "key" => some .key
  | "bool" => some .bool
  | _ =>
    match s.toList with
    | 'a' :: rest =>
      match (String.ofList rest).toNat? with
      | some n => if toString n == String.ofList rest then some (.arr n) else none
      | none => none
    | _ => none

def parseTy (s : String) : Option FieldTy :=
  if s.startsWith "n(" && s.endsWith ")" then
    let inner := String.ofList ((s.toList.drop 2).dropLast)
    if inner == "" then some (.nested []) else ((inner.splitOn "+").mapM parsePrimTy).map .nested
  else (parsePrimTy s).map .plain

def parseTys (s : String) : Option (List FieldTy) :=
  if s == "-" then some [] else (s.splitOn ",").mapM parseTy

def parsePrim (ty : PrimTy) (tok : String) : Option FieldVal :=
  match ty with
  | .uint w =>
    match tok.toNat? with
    | some v => if toString v == tok && v < 256 ^ w then some (.uint w v) else none
    | none => none
  | .sint w =>
    match tok.toInt? with
    | some v =>
      if toString v == tok && -(((256 ^ w / 2 : Nat)) : Int) ≤ v && v < ((256 ^ w / 2 : Nat) : Int)
      then some (.sint w v) else none
    | none => none
  | .key =>
    match parseHex tok with
    | some bs => if bs.length == 32 then some (.key bs) else none
    | none => none
  | .arr n =>
    match parseHex tok with
    | some bs => if bs.length == n then some (.arr bs) else none
    | none => none
  | .bool => if tok == "true" then some (.bool true) else if tok == "false" then some (.bool false) else none

def parsePrims : List PrimTy → List String → Option (List FieldVal)
  | [], [] => some []
  | ty :: tys, tok :: toks =>
    match parsePrim ty tok, parsePrims tys toks with
    | some v, some vs => some (v :: vs)
    | _, _ => none
  | _, _ => none

/-- One field value: a primitive token, or `v+v+…` for a nested struct (`-` for a unit struct). -/
def parseVal (ty : FieldTy) (tok : String) : Option (List FieldVal) :=
  match ty with
  | .plain t => (parsePrim t tok).map fun v => [v]
  | .nested [] => if tok == "-" then some [] else none
  | .nested ts => parsePrims ts (tok.splitOn "+")

def parseVals : List FieldTy → List String → Option (List (List FieldVal))
  | [], [] => some []
  | ty :: tys, tok :: toks =>
    match parseVal ty tok, parseVals tys toks with
    | some v, some vs => some (v :: vs)
    | _, _ => none
  | _, _ => none

def showPrim : FieldVal → String
  | .uint _ v => toString v
  | .sint _ v => toString v
  | .key bs => toHex bs
  | .arr bs => toHex bs
  | .bool b => if b then "true" else "false"

def showVal (c : List FieldVal) : String :=
  if c.isEmpty then "-" else "+".intercalate (c.map showPrim)

def showList (xs : List String) : String :=
  if xs.isEmpty then "-" else ",".intercalate xs

def showSeeds (ss : List (List Nat)) : String := showList (ss.map toHex)

def showErr : CreateErr → String
  | .maxSeedLengthExceeded => "err:MaxSeedLengthExceeded"
  | .invalidSeeds => "err:InvalidSeeds"

def showV : VRes → String
  | .ok => "ok"
  | .addressMismatch => "err:AddressMismatch"
  | .createErr e => showErr e
  | .panic => "panic"

def parseKey (s : String) : Option (List Nat) :=
  match parseHex s with
  | some bs => if bs.length == 32 then some bs else none
  | none => none

def parseProgSel (s : String) : Option Nat :=
  match s with
  | "p0" => some 0 | "p1" => some 1 | "p2" => some 2 | _ => none

def parseBump (s : String) : Option Nat :=
  match s.toNat? with
  | some b => if toString b == s && b < 256 then some b else none
  | none => none

/-- The seed program id used by on-chain validation in the current mode. -/
def seedProg (st : St) : Option (List Nat) :=
  match st.mode with
  | none => none
  | some none => some st.ctxProg
  | some (some k) => some (fixedProg k)

def bad (st : St) : St × String := (st, "bad-op")

def structStep (st : St) (sid c tys : String) (ph : Bool) : St × String :=
  match sid.toNat?, (if c == "none" then some none else (parseHex c).map some), parseTys tys with
  | some n, some cst, some ts =>
    if toString n == sid && structTable.lookup n == some (cst, ts) && (noSlotSids.contains n == !ph) then
      ({ st with shape := some (cst, ts), placeholder := ph, vals := none, seeded := none }, "ok")
    else bad st
  | _, _, _ => bad st

def step (st : St) (toks : List String) : St × String :=
  match toks with
  | ["h", flat, prog, "->", res] =>
    match parseHex flat, parseKey prog with
    | some f, some p =>
      if res == "none" then ({ st with table := st.table ++ [(f, p, none)] }, "ok")
      else match parseKey res with
        | some k => ({ st with table := st.table ++ [(f, p, some k)] }, "ok")
        | none => bad st
    | _, _ => bad st
  | ["prog", m, ctx] =>
    match parseKey ctx with
    | none => bad st
    | some c =>
      if m == "cur" then ({ st with mode := some none, ctxProg := c, seeded := none }, "ok")
      else match parseProgSel m with
        | some k => ({ st with mode := some (some k), ctxProg := c, seeded := none }, "ok")
        | none => bad st
  | ["struct", sid, c, tys] => structStep st sid c tys true
  | ["struct", sid, c, tys, "noslot"] => structStep st sid c tys false
  | "vals" :: vs =>
    match st.shape with
    | none => bad st
    | some (cst, tys) =>
      match parseVals tys vs with
      | some fs => ({ st with vals := some ⟨cst, fs, st.placeholder⟩ }, "ok")
      | none => bad st
  | ["seeds"] =>
    match st.vals with
    | some S => (st, "ok " ++ showSeeds (seeds S))
    | none => bad st
  | ["key", k] =>
    match parseKey k, st.shape, st.mode with
    | some kb, some _, some _ => ({ st with seeded := some ⟨kb, none⟩ }, "ok")
    | _, _, _ => bad st
  | ["vseeds"] =>
    match st.seeded, st.vals, seedProg st with
    | some sd, some S, some P =>
      let H := tableH st.table
      let qs := if sd.recorded.isSome then [] else findQueries H (dropTrailingEmpty (seeds S)) P
      if complete st.table qs then
        let (r, sd') := validateSeeds H P S sd
        ({ st with seeded := some sd' }, showV r)
      else bad st
    | _, _, _ => bad st
  | ["vbump", b] =>
    match st.seeded, st.vals, seedProg st, parseBump b with
    | some sd, some S, some P, some bump =>
      let H := tableH st.table
      let qs := if sd.recorded.isSome then [] else createQueries (seedsWithBump (seeds S) bump) P
      if complete st.table qs then
        let (r, sd') := validateWithBump H P S bump sd
        ({ st with seeded := some sd' }, showV r)
      else bad st
    | _, _, _, _ => bad st
  | ["access"] =>
    match st.seeded with
    | some sd =>
      match accessSeeds sd with
      | some r => (st, s!"ok bump={r.bump} vals={showList (r.seeds.fields.map showVal)}")
      | none => (st, "panic")
    | none => bad st
  | ["signer"] =>
    match st.seeded, st.mode, seedProg st with
    | some sd, some none, some P =>
      match signerSeeds sd with
      | some ss =>
        -- printed in the form the property speaks about: the bytes that get hashed and the address
        -- they recreate (how the bytes are split into slots only matters through the limits)
        let H := tableH st.table
        if complete st.table (createQueries ss P) then
          match create H ss P with
          | .ok k => (st, s!"ok {toHex ss.flatten} -> {toHex k}")
          | .error e => (st, s!"ok {toHex ss.flatten} -> {showErr e}")
        else bad st
      | none => (st, "panic")
    | _, _, _ => bad st
  | ["cfind", p] =>
    match st.vals, parseProgSel p with
    | some S, some k =>
      let H := tableH st.table
      let P := fixedProg k
      if complete st.table (findQueries H (dropTrailingEmpty (seeds S)) P) then
        match clientFind H P S with
        | some (a, b) => (st, s!"ok {toHex a} {b}")
        | none => (st, "panic")
      else bad st
    | _, _ => bad st
  | ["ccreate", p, b] =>
    match st.vals, parseProgSel p, parseBump b with
    | some S, some k, some bump =>
      let H := tableH st.table
      let P := fixedProg k
      if complete st.table (createQueries (dropTrailingEmpty (seeds S) ++ [[bump]]) P) then
        match clientCreate H P S bump with
        | .ok a => (st, s!"ok {toHex a}")
        | .error e => (st, showErr e)
      else bad st
    | _, _, _ => bad st
  | _ => bad st

end Account.Driver.C10

def main : IO Unit := Common.Proto.run ({} : Account.Driver.C10.St) Account.Driver.C10.step
