import Account.World
import Account.Seeds
/-!
# Account initialization (C12)

Code modelled (as read in /repo):

* `cpi.rs` `CpiBuilder::invoke_signed` + the runtime's CPI entry (`translate_signers`: every signer
  seed set must derive an address under the CALLING program, else the call fails; then
  `prepare_next_instruction`: a meta flagged signer must be a signer of the outer instruction or one
  of the derived addresses, a meta flagged writable must be writable in the outer instruction, else
  `PrivilegeEscalation`), then the System program (`Account.World.sys`). A failed CPI leaves the
  world as it was before that CPI (the runtime aborts the transaction; the native harness sees the
  state in which the earlier CPIs have happened — that is the world returned here; `rollback` is
  the transaction-level view).
* `single_set.rs` `system_create_account` 330-392: `lamports == 0 && funder.can_create_account()`
  (always true for the blanket `CanFundRent`) → ONE `CreateAccount` signed by funder seeds then
  account seeds; else `required = exempt.max(1).saturating_sub(current)`, `Transfer` if `> 0`
  (signed by the funder seeds only, `invoke()` when the funder has none), `Allocate`, `Assign`
  (both signed by the account seeds only).
* `account.rs` 339-368 / `borsh_account.rs` 313-339 `init_account::<IF_NEEDED>`:
  `needs_init = owner == System || data.get(..W).ok_or(AccountDataTooSmall)?.all(0)` (as repaired
  by d51f9cb: `data.len() < W` with a non-System owner is an error, nothing changes), `check_writable`, `system_create_account(funder, OwnerProgram::ID, space)`,
  then zero-copy: `AccountDiscriminant::<T>::init` writes `disc ++ encode(v)` over the first
  `space` bytes; borsh: writes `disc` over the first `W` bytes and caches the value (written by
  `serialize()` at cleanup: `resize(W + len)`, then the value after the discriminant).
* `init.rs` 20-75: `init_seeds`, then `init_account`, then `needed_init.set`, then the wrapped
  field's own validation (`Seeded`: seeds already set → nothing; `Account`/`BorshAccount`:
  `validate_account_info` = discriminant then owner; `Signer`: `check_signer` AFTER the inner).
* `seeded.rs` (after 801ca3a): `find_program_address(without_bump_placeholder(seeds()), program)`
  — a trailing empty slot is dropped before the search (`None` → panic), address
  must equal the account key, the recorded `seeds_with_bump` are the account seeds of the init.
* funder from the argument, or `ctx.get_funder()` (`EmptyFunderCache` when missing; looked up
  BEFORE the if-needed test).
-/
namespace Account.Init
open Common Account.World

structure Env where
  program : Key
  H : Account.Seeds.Hash
  rentMin : Nat → Nat
  isSigner : Key → Bool
  isWritable : Key → Bool

inductive Err
  | sys (e : SysErr)
  | privilegeEscalation
  | badSeeds (e : Account.Seeds.CreateErr)
  | expectedWritable        -- Custom 1000
  | expectedSigner          -- Custom 1001
  | addressMismatch         -- Custom 1002
  | discriminantMismatch    -- Custom 1003
  | emptyFunderCache
  | emptyRecipientCache
  | accountDataTooSmall
  | invalidAccountOwner
  | borshIo
  | insufficientFunds
  | initFailed              -- `UnsizedInit::init` ran out of bytes (unreachable after a successful create)
deriving DecidableEq, Repr

inductive Res (α : Type)
  | ok (a : α)
  | err (e : Err)
  | panic
deriving Repr, DecidableEq

/-- One intercepted CPI: the System instruction and the signer seed sets handed to `invoke_signed`. -/
structure Cpi where
  ix : SysIx
  seeds : List (List (List Nat))
deriving DecidableEq, Repr

structure St where
  w : World
  log : List Cpi

/-- `translate_signers`: every seed set must derive under the calling program. -/
def derive (env : Env) : List (List (List Nat)) → Except Account.Seeds.CreateErr (List Key)
  | [] => .ok []
  | s :: rest =>
    match Account.Seeds.create env.H s env.program with
    | .error e => .error e
    | .ok k =>
      match derive env rest with
      | .error e => .error e
      | .ok ks => .ok (k :: ks)

/-- Is every flagged signer authorised (outer signer or derived address), every account writable? -/
def authorised (env : Env) (ix : SysIx) (pdas : List Key) : Bool :=
  ix.metaSigners.all (fun k => env.isSigner k || pdas.contains k) &&
  ix.accounts.all (fun k => env.isWritable k)

/-- One CPI: logged, then executed. -/
def invoke (env : Env) (c : Cpi) (s : St) : Res Unit × St :=
  let s1 : St := { s with log := s.log ++ [c] }
  match derive env c.seeds with
  | .error e => (.err (.badSeeds e), s1)
  | .ok pdas =>
    if !authorised env c.ix pdas then (.err .privilegeEscalation, s1)
    else match sys c.ix c.ix.metaSigners s.w with
      | .error e => (.err (.sys e), s1)
      | .ok w' => (.ok (), { w := w', log := s1.log })

/-- A funder / recipient: its key and `signer_seeds()` (`none` for a plain `Signer`). -/
structure Funder where
  key : Key
  seeds : Option (List (List Nat))
deriving DecidableEq, Repr

/-- `CanFundRent::fund_rent`: `invoke()` without seeds, `invoke_signed(&[&seeds])` with. -/
def fundRent (env : Env) (f : Funder) (dst : Key) (n : Nat) (s : St) : Res Unit × St :=
  invoke env { ix := .transfer f.key dst n, seeds := f.seeds.toList } s

/-- `system_create_account`. -/
def systemCreateAccount (env : Env) (f : Funder) (tgt : Key) (owner : Key) (space : Nat)
    (acctSeeds : Option (List (List Nat))) (s : St) : Res Unit × St :=
  let cur := (s.w tgt).lamports
  let exempt := env.rentMin space
  if cur = 0 then
    invoke env { ix := .createAccount f.key tgt exempt space owner,
                 seeds := f.seeds.toList ++ acctSeeds.toList } s
  else
    let required := max exempt 1 - cur
    let r1 : Res Unit × St := if required > 0 then fundRent env f tgt required s else (.ok (), s)
    match r1 with
    | (.ok (), s1) =>
      match invoke env { ix := .allocate tgt space, seeds := acctSeeds.toList } s1 with
      | (.ok (), s2) => invoke env { ix := .assign tgt owner, seeds := acctSeeds.toList } s2
      | r => r
    | r => r

inductive Kind
  | zc      -- `Account<T>` (zero-copy)
  | borsh   -- `BorshAccount<T>`
deriving DecidableEq, Repr

/-- What the model needs to know of the Rust account type. -/
structure AcctType where
  disc : List Nat
  kind : Kind
  /-- does `T::try_from_slice` accept these bytes (borsh decode of an existing account) -/
  valid : List Nat → Bool

def AcctType.W (ty : AcctType) : Nat := ty.disc.length

def allZero (l : List Nat) : Bool := l.all (· == 0)

/-- The part of `init_account` after the if-needed test: `check_writable`, create, write. `enc` =
the encoded initial value (`INIT_BYTES` / `object_length` = its length). -/
def initGo (env : Env) (ty : AcctType) (tgt : Key) (f : Funder)
    (acctSeeds : Option (List (List Nat))) (enc : List Nat) (s : St) : Res Bool × St :=
  if !env.isWritable tgt then (.err .expectedWritable, s)
  else
    match systemCreateAccount env f tgt env.program (ty.W + enc.length) acctSeeds s with
    | (.ok (), s1) =>
      match ty.kind with
      | .zc =>
        if (s1.w tgt).data.length < ty.W + enc.length then (.err .initFailed, s1)
        else
          let a : Acct := { s1.w tgt with data := ty.disc ++ enc ++ (s1.w tgt).data.drop (ty.W + enc.length) }
          (.ok true, { s1 with w := s1.w.set tgt a })
      | .borsh =>
        if (s1.w tgt).data.length < ty.W then (.panic, s1)
        else
          let a : Acct := { s1.w tgt with data := ty.disc ++ (s1.w tgt).data.drop ty.W }
          (.ok true, { s1 with w := s1.w.set tgt a })
    | (.err e, s1) => (.err e, s1)
    | (.panic, s1) => (.panic, s1)

/-- `init_account::<IF_NEEDED>` of `Account<T>` / `BorshAccount<T>`. -/
def initAccount (env : Env) (ty : AcctType) (ifNeeded : Bool) (tgt : Key) (f : Funder)
    (acctSeeds : Option (List (List Nat))) (enc : List Nat) (s : St) : Res Bool × St :=
  if ifNeeded then
    if (s.w tgt).owner = systemId then initGo env ty tgt f acctSeeds enc s
    else if (s.w tgt).data.length < ty.W then (.err .accountDataTooSmall, s)
    else if allZero ((s.w tgt).data.take ty.W) then initGo env ty tgt f acctSeeds enc s
    else (.ok false, s)
  else initGo env ty tgt f acctSeeds enc s

/-- `ProgramAccount::validate_account_info`: discriminant first, then owner. -/
def validateAccountInfo (env : Env) (ty : AcctType) (a : Acct) : Except Err Unit :=
  if ty.W ≠ 0 ∧ a.data.length < ty.W then .error .accountDataTooSmall
  else if ty.W ≠ 0 ∧ a.data.take ty.W ≠ ty.disc then .error .discriminantMismatch
  else if a.owner ≠ env.program then .error .invalidAccountOwner
  else .ok ()

inductive Target
  | signer (k : Key)                              -- `Init<Signer<Account<T>>>`
  | seeded (k : Key) (seeds : List (List Nat))    -- `Init<Seeded<Account<T>, S>>`, `seeds = S::seeds()`
deriving DecidableEq, Repr

def Target.key : Target → Key
  | .signer k => k
  | .seeded k _ => k

inductive FunderArg
  | arg (f : Funder)              -- `Create((init, &funder))`
  | cached (f : Option Funder)    -- `Create(init)` with `ctx.get_funder()`
deriving DecidableEq, Repr

def FunderArg.resolve : FunderArg → Option Funder
  | .arg f => some f
  | .cached f => f

/-- `init_seeds`: the account seeds the init will sign with. -/
def initSeeds (env : Env) : Target → Res (Option (List (List Nat)))
  | .signer _ => .ok none
  | .seeded k ss =>
    match Account.Seeds.find env.H (Account.Seeds.dropTrailingEmpty ss) env.program with
    | none => .panic
    | some (addr, bump) =>
      if addr = k then .ok (some (Account.Seeds.seedsWithBump ss bump)) else .err .addressMismatch

/-- Validation of `Init<…>` with `Create` (`ifNeeded = false`) / `CreateIfNeeded`. -/
def initValidate (env : Env) (ty : AcctType) (ifNeeded : Bool) (tgt : Target) (fa : FunderArg)
    (enc : List Nat) (s : St) : Res Bool × St :=
  match initSeeds env tgt with
  | .panic => (.panic, s)
  | .err e => (.err e, s)
  | .ok acctSeeds =>
    match fa.resolve with
    | none => (.err .emptyFunderCache, s)
    | some f =>
      match initAccount env ty ifNeeded tgt.key f acctSeeds enc s with
      | (.ok needed, s1) =>
        match validateAccountInfo env ty (s1.w tgt.key) with
        | .error e => (.err e, s1)
        | .ok () =>
          match tgt with
          | .signer k => if env.isSigner k then (.ok needed, s1) else (.err .expectedSigner, s1)
          | .seeded _ _ => (.ok needed, s1)
      | r => r

/-- Borsh decode of the account set (before validation): the cached value, as its encoding. -/
def decodeBorsh (ty : AcctType) (a : Acct) : Except Err (Option (List Nat)) :=
  if a.data.length > ty.W then
    (if ty.valid (a.data.drop ty.W) then .ok (some (a.data.drop ty.W)) else .error .borshIo)
  else .ok none

/-- The value held by the `BorshAccount` wrapper after the validation of `Init<…>`: `init_account`
stores the initial value (`self.data = Some(data)`) as its very last step, i.e. only when it returns
`Ok(true)`; in every other case (not needed, any error) the wrapper keeps what decode put there. -/
def wrapperAfterInit (env : Env) (ty : AcctType) (ifNeeded : Bool) (tgt : Target) (fa : FunderArg)
    (enc : List Nat) (s : St) (decoded : Option (List Nat)) : Option (List Nat) :=
  match initSeeds env tgt, fa.resolve with
  | .ok acctSeeds, some f =>
    match (initAccount env ty ifNeeded tgt.key f acctSeeds enc s).1 with
    | .ok true => some enc
    | _ => decoded
  | _, _ => decoded

/-- `BorshAccount::serialize` with the cached value's encoding `enc`. -/
def serializeBorsh (env : Env) (ty : AcctType) (tgt : Key) (cached : Option (List Nat)) (w : World) :
    World :=
  match cached with
  | none => w
  | some enc =>
    if env.isWritable tgt ∧ (w tgt).data.length > ty.W ∧ (w tgt).owner = env.program then
      w.set tgt { w tgt with data := (w tgt).data.take ty.W ++ enc }
    else w

/-! ## Repeated validation of one `Init` wrapper (`init.rs` 26-64)

Every validate block ends with `self.needed_init.set(needed_init)` after a successful
`init_account`: the flag is OVERWRITTEN by each successful validation (an error returns before the
`set`, leaving the flag as it was). A wrapper starts with `needed_init = false`; a clone copies it. -/

/-- The flag after one validation that answered `r`. -/
def flagAfter (prev : Bool) (r : Res Bool) : Bool :=
  match r with
  | .ok b => b
  | _ => prev

/-- One validation request on a wrapper: `Create` / `CreateIfNeeded`, funder, initial value. -/
structure Request where
  ifNeeded : Bool
  fa : FunderArg
  enc : List Nat

/-- State of a wrapper across validations: the world / log, its flag, the answers so far. -/
structure Hist where
  st : St
  flag : Bool
  answers : List (Res Bool)

def validateOnce (env : Env) (ty : AcctType) (tgt : Target) (h : Hist) (q : Request) : Hist :=
  let r := initValidate env ty q.ifNeeded tgt q.fa q.enc h.st
  { st := r.2, flag := flagAfter h.flag r.1, answers := h.answers ++ [r.1] }

/-- A history of validations of the same wrapper. -/
def validateMany (env : Env) (ty : AcctType) (tgt : Target) (h : Hist) (qs : List Request) : Hist :=
  qs.foldl (validateOnce env ty tgt) h

/-- Transaction-level view: a failed instruction leaves nothing behind. -/
def rollback {α : Type} (s0 : St) (r : Res α × St) : World :=
  match r.1 with
  | .ok _ => r.2.w
  | _ => s0.w

end Account.Init
