import Account.BorshCodecs
/-! `CodecOK` for the two concrete codecs the model drivers run. -/
namespace Account.Borsh
open Common

theorem rdLE_leN1 (b : Nat) (h : b < 256) : rdLE (leN 1 b) = b := rdLE_leN 1 b (by simpa using h)

theorem unitCodec_ok : CodecOK unitCodec where
  rt := by intro x hx; cases hx; rfl
  len := by intro x _; rfl

theorem fixCodec_ok : CodecOK fixCodec where
  rt := by
    intro x hx
    cases x with
    | var tag bytes name => exact absurd hx (by simp [fixCodec])
    | unit => exact absurd hx (by simp [fixCodec])
    | fix a b =>
      have ha : a < 256 ^ 2 := by have := hx.1; omega
      have hb : b < 256 ^ 1 := by have := hx.2; omega
      show deFix (leN 2 a ++ leN 1 b) = some (.fix a b)
      unfold deFix
      have h1 : (leN 2 a ++ leN 1 b).take 2 = leN 2 a := by
        rw [List.take_left' (by simp)]
      have h2 : (leN 2 a ++ leN 1 b).drop 2 = leN 1 b := by
        rw [List.drop_left' (by simp)]
      simp only [List.length_append, leN_length, if_true, h1, h2, rdLE_leN 2 a ha, rdLE_leN 1 b hb]
  len := by intro x _; rfl

theorem varCodec_ok : CodecOK varCodec where
  rt := by
    intro x hx
    cases x with
    | fix a b => exact absurd hx (by simp [varCodec])
    | unit => exact absurd hx (by simp [varCodec])
    | var tag bytes name =>
      obtain ⟨_, hb, hn, hu⟩ := hx
      have hb' : bytes.length < 256 ^ 4 := by omega
      have hn' : name.length < 256 ^ 4 := by omega
      show deVar ([tag] ++ (leN 4 bytes.length ++ (bytes ++ (leN 4 name.length ++ name)))) =
        some (.var tag bytes name)
      simp only [List.singleton_append, deVar]
      have t1 : (leN 4 bytes.length ++ (bytes ++ (leN 4 name.length ++ name))).take 4
          = leN 4 bytes.length := by rw [List.take_left' (by simp)]
      have d1 : (leN 4 bytes.length ++ (bytes ++ (leN 4 name.length ++ name))).drop 4
          = bytes ++ (leN 4 name.length ++ name) := by rw [List.drop_left' (by simp)]
      have t2 : (bytes ++ (leN 4 name.length ++ name)).take bytes.length = bytes := by
        rw [List.take_left' rfl]
      have d2 : (bytes ++ (leN 4 name.length ++ name)).drop bytes.length
          = leN 4 name.length ++ name := by rw [List.drop_left' rfl]
      have t3 : (leN 4 name.length ++ name).take 4 = leN 4 name.length := by
        rw [List.take_left' (by simp)]
      have d3 : (leN 4 name.length ++ name).drop 4 = name := by
        rw [List.drop_left' (by simp)]
      simp only [t1, d1, rdLE_leN 4 _ hb', t2, d2, t3, d3, rdLE_leN 4 _ hn', hu]
      simp
  len := by intro x _; rfl

end Account.Borsh
