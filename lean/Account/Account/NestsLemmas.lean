import Account.Nests
import Account.ValidateLemmas
/-! Helper lemmas for the extended C09 model (`Account/Nests.lean`). -/
namespace Account.Nests
open Common Account.Validate
open Account.Modifiers (fastEq32 Key32 systemId fastEq32_iff)

theorem runChecks_append (a : NAcct) (xs ys : List Check) :
    runChecks a (xs ++ ys) =
      match runChecks a xs with
      | .error e => .error e
      | .ok () => runChecks a ys := by
  induction xs with
  | nil => rfl
  | cons c cs ih =>
    simp only [List.cons_append, runChecks]
    cases evalCheck a c with
    | error e => rfl
    | ok u => cases u; exact ih

theorem runChecks_single (a : NAcct) (c : Check) : runChecks a [c] = evalCheck a c := by
  simp only [runChecks]
  cases evalCheck a c with
  | error e => rfl
  | ok u => cases u; rfl

/-- A chain's validation is the first failing check of its execution-order list — whatever meta
oracle the wrappers are handed. -/
theorem validateWith_eq_runChecks (M : List Layer → Base → Meta) (ls : List Layer) (b : Base)
    (a : NAcct) : validateWith M ls b a = runChecks a (checksL ls b) := by
  fun_induction validateWith M ls b a <;>
    simp_all [checksL, runChecks_append, runChecks, checkSigner, checkWritable]
  · cases evalCheck _ Check.isSigner with
    | error e => rfl
    | ok u => cases u; rfl
  · cases evalCheck _ Check.isWritable with
    | error e => rfl
    | ok u => cases u; rfl

theorem validateL_eq_runChecks (ls : List Layer) (b : Base) (a : NAcct) :
    validateL ls b a = runChecks a (checksL ls b) := validateWith_eq_runChecks _ ls b a

theorem runChecks_ok_iff (a : NAcct) (cs : List Check) :
    runChecks a cs = .ok () ↔ ∀ c ∈ cs, evalCheck a c = .ok () := by
  induction cs with
  | nil => simp [runChecks]
  | cons c cs ih =>
    simp only [runChecks, List.forall_mem_cons]
    cases h : evalCheck a c with
    | error e => simp
    | ok u => cases u; simp [ih]

/-- Membership in the execution-order list: exactly the base's checks and each layer's own checks. -/
theorem mem_checksL (c : Check) (ls : List Layer) (b : Base) :
    c ∈ checksL ls b ↔ c ∈ baseChecks b ∨ ∃ l ∈ ls, c ∈ layerChecks b l := by
  fun_induction checksL ls b <;> simp_all [layerChecks] <;> grind

/-! ## Carriers -/

theorem runAll_append (xs ys : List (NAcct × Check)) :
    runAll (xs ++ ys) =
      match runAll xs with
      | .error e => .error e
      | .ok () => runAll ys := by
  induction xs with
  | nil => rfl
  | cons x xs ih =>
    obtain ⟨a, c⟩ := x
    simp only [List.cons_append, runAll]
    cases evalCheck a c with
    | error e => rfl
    | ok u => cases u; exact ih

theorem runAll_map (a : NAcct) (cs : List Check) :
    runAll (cs.map (fun c => (a, c))) = runChecks a cs := by
  induction cs with
  | nil => rfl
  | cons c cs ih =>
    simp only [List.map_cons, runAll, runChecks]
    cases evalCheck a c with
    | error e => rfl
    | ok u => cases u; exact ih

theorem checkKey_eq_runAll (k : List Nat) (d : DSet) : checkKey k d = runAll (keyChecks k d) := by
  induction d with
  | single ls b a =>
    simp only [checkKey, keyChecks, runAll]
    cases evalCheck a (.keyIs k .addressMismatch) with
    | error e => rfl
    | ok u => cases u; rfl
  | some d ih => simpa [checkKey, keyChecks] using ih
  | boxed d ih => simpa [checkKey, keyChecks] using ih
  | absent => rfl
  | addr k' d _ => rfl
  | nil => rfl
  | cons d r _ _ => rfl

/-- Validation of a whole decoded set is the first failing check of its execution-order list. -/
theorem validateD_eq_runAll (d : DSet) : validateD d = runAll (checksD d) := by
  induction d with
  | single ls b a => simp [validateD, checksD, runAll_map, validateL_eq_runChecks]
  | absent => rfl
  | some d ih => simpa [validateD, checksD] using ih
  | boxed d ih => simpa [validateD, checksD] using ih
  | addr k d ih =>
    simp only [validateD, checksD, runAll_append, checkKey_eq_runAll, ih]
    cases runAll (keyChecks k d) with
    | error e => rfl
    | ok u => cases u; rfl
  | nil => rfl
  | cons d r ihd ihr =>
    simp only [validateD, checksD, runAll_append, ihd, ihr]
    cases runAll (checksD d) with
    | error e => rfl
    | ok u => cases u; rfl

theorem runAll_ok_iff (cs : List (NAcct × Check)) :
    runAll cs = .ok () ↔ ∀ x ∈ cs, evalCheck x.1 x.2 = .ok () := by
  induction cs with
  | nil => simp [runAll]
  | cons x cs ih =>
    obtain ⟨a, c⟩ := x
    simp only [runAll, List.forall_mem_cons]
    cases h : evalCheck a c with
    | error e => simp
    | ok u => cases u; simp [ih]

/-- A failing run stops at the FIRST failing entry: everything before it passes, and the reported
error is that entry's. -/
theorem runAll_error_iff (cs : List (NAcct × Check)) (e : Err) :
    runAll cs = .error e ↔
      ∃ pre a c post, cs = pre ++ (a, c) :: post ∧
        (∀ x ∈ pre, evalCheck x.1 x.2 = .ok ()) ∧ evalCheck a c = .error e := by
  induction cs with
  | nil => simp [runAll]
  | cons x cs ih =>
    obtain ⟨a, c⟩ := x
    simp only [runAll]
    cases h : evalCheck a c with
    | error e' =>
      constructor
      · intro he
        injection he with he; subst he
        exact ⟨[], a, c, cs, rfl, by simp, h⟩
      · rintro ⟨pre, a', c', post, heq, hpre, hfail⟩
        cases pre with
        | nil =>
          simp only [List.nil_append, List.cons.injEq, Prod.mk.injEq] at heq
          obtain ⟨⟨rfl, rfl⟩, _⟩ := heq
          rw [h] at hfail; exact hfail
        | cons p pre =>
          simp only [List.cons_append, List.cons.injEq] at heq
          have := hpre p (List.mem_cons_self)
          rw [← heq.1] at this
          simp only at this
          rw [h] at this; cases this
    | ok u =>
      cases u
      simp only
      rw [ih]
      constructor
      · rintro ⟨pre, a', c', post, heq, hpre, hfail⟩
        refine ⟨(a, c) :: pre, a', c', post, by simp [heq], ?_, hfail⟩
        intro x hx
        rcases List.mem_cons.mp hx with rfl | hx
        · exact h
        · exact hpre x hx
      · rintro ⟨pre, a', c', post, heq, hpre, hfail⟩
        cases pre with
        | nil =>
          simp only [List.nil_append, List.cons.injEq, Prod.mk.injEq] at heq
          obtain ⟨⟨rfl, rfl⟩, _⟩ := heq
          rw [h] at hfail; cases hfail
        | cons p pre =>
          simp only [List.cons_append, List.cons.injEq] at heq
          exact ⟨pre, a', c', post, heq.2, fun x hx => hpre x (List.mem_cons_of_mem _ hx), hfail⟩

/-! ## What each check means -/

theorem eval_isSigner (a : NAcct) : evalCheck a .isSigner = .ok () ↔ a.signer = true := by
  cases h : a.signer <;> simp [evalCheck, h]

theorem eval_isWritable (a : NAcct) : evalCheck a .isWritable = .ok () ↔ a.a.writable = true := by
  cases h : a.a.writable <;> simp [evalCheck, h]

theorem eval_keyIs {a : NAcct} {k : List Nat} (e : Err) (ha : Key32 a.key) (hk : Key32 k) :
    evalCheck a (.keyIs k e) = .ok () ↔ a.key = k := by
  have := fastEq32_iff ha hk
  cases h : fastEq32 a.key k with
  | true => exact ⟨fun _ => this.mp h, fun _ => by simp [evalCheck, h]⟩
  | false =>
    have hne : a.key ≠ k := fun he => by rw [this.mpr he] at h; cases h
    simp [evalCheck, h, hne]

theorem systemId_key32 : Key32 systemId := Account.Modifiers.systemId_key32

theorem eval_ownerIsSystem {a : NAcct} (ha : Key32 a.a.owner) :
    evalCheck a .ownerIsSystem = .ok () ↔ a.a.owner = systemId := by
  have := fastEq32_iff ha systemId_key32
  cases h : fastEq32 a.a.owner systemId with
  | true => exact ⟨fun _ => this.mp h, fun _ => by simp [evalCheck, h]⟩
  | false =>
    have hne : a.a.owner ≠ systemId := fun he => by rw [this.mpr he] at h; cases h
    simp [evalCheck, h, hne]

/-! ## Sequence carriers with argument lists -/

/-- With at least as many arguments as elements, the pairwise loop accepts iff EVERY element has an
argument at its index and accepts under it — no element escapes validation. -/
theorem validateZip_ok_iff {α β : Type} (v : α → β → Except Err Unit) (xs : List β) (as : List α)
    (h : xs.length ≤ as.length) :
    validateZip v xs as = .ok () ↔
      ∀ (i : Nat) x, xs[i]? = some x → ∃ a, as[i]? = some a ∧ v a x = .ok () := by
  induction xs generalizing as with
  | nil => simp [validateZip]
  | cons x xs ih =>
    cases as with
    | nil => simp at h
    | cons a as =>
      have h' : xs.length ≤ as.length := by simpa using h
      simp only [validateZip]
      constructor
      · intro hz i y hy
        cases hv : v a x with
        | error e => rw [hv] at hz; cases hz
        | ok u =>
          cases u
          rw [hv] at hz
          cases i with
          | zero => simp at hy; subst hy; exact ⟨a, by simp, hv⟩
          | succ i =>
            simp only [List.getElem?_cons_succ] at hy ⊢
            exact (ih as h').mp hz i y hy
      · intro hall
        obtain ⟨a', ha', hv⟩ := hall 0 x (by simp)
        simp at ha'; subst ha'
        rw [hv]
        exact (ih as h').mpr (fun i y hy => by
          have := hall (i + 1) y (by simpa using hy)
          simpa using this)

/-- A failing pairwise loop reports the error of the FIRST failing element. -/
theorem validateZip_error_first {α β : Type} (v : α → β → Except Err Unit) (x : β) (xs : List β)
    (a : α) (as : List α) (e : Err) (h : v a x = .error e) :
    validateZip v (x :: xs) (a :: as) = .error e := by
  simp [validateZip, h]

theorem validateZip_replicate {α β : Type} (v : α → β → Except Err Unit) (xs : List β) (a : α) :
    validateZip v xs (List.replicate xs.length a) = .ok () ↔ ∀ x ∈ xs, v a x = .ok () := by
  induction xs with
  | nil => simp [validateZip]
  | cons x xs ih =>
    simp only [List.length_cons, List.replicate_succ, validateZip, List.forall_mem_cons]
    cases v a x with
    | error e => simp
    | ok u => cases u; simpa using ih

end Account.Nests
