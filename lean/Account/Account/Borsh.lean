import Account.Validate
/-!
# Model of borsh-backed program accounts (C15)

`star_frame/src/account_set/borsh_account.rs` (`decode_accounts`, `serialize`, `reload`,
`set_inner`, `Deref`/`DerefMut`, the `#[cleanup(...)]` variants) and `client.rs`
(`check_discriminant`, `DeserializeBorshAccount::deserialize_account`).

The borsh encoding of the user's account type is a PARAMETER (`Codec`): `ser`, `de`
(`try_from_slice`: must consume every byte), `objLen` (`borsh::object_length`), and the range
predicate `valid` of the type's values.
-/
namespace Account.Borsh
open Common Account.Validate

structure Codec (α : Type) where
  ser : α → List Nat
  de : List Nat → Option α
  objLen : α → Nat
  valid : α → Prop

/-- The assumed behaviour of the borsh encoders of the user type (checked at run time by the harness
on every generated value; proved for the driver's concrete codecs in `BorshCodecsLemmas.lean`). -/
structure CodecOK {α : Type} (c : Codec α) : Prop where
  rt : ∀ x, c.valid x → c.de (c.ser x) = some x
  len : ∀ x, c.valid x → (c.ser x).length = c.objLen x

/-- `BorshAccount<T>`: the account plus the deserialized value (`None` when the account holds no
more than the discriminant). -/
structure BAcct (α : Type) where
  acct : Acct
  val : Option α

/-- `BorshAccount::decode_accounts`: only when `data_len > W` is the body deserialized (a shared
borrow of the data, then `T::try_from_slice(&data[W..])`). -/
def decodeAcct {α : Type} (c : Codec α) (t : PType) (a : Acct) : Except Err (BAcct α) :=
  if a.data.length > t.W then
    if !a.borrow.canRead then .error .accountBorrowFailed
    else match c.de (a.data.drop t.W) with
      | some v => .ok { acct := a, val := some v }
      | none => .error .ioError
  else .ok { acct := a, val := none }

/-- `BorshAccount::set_inner`. -/
def setInner {α : Type} (b : BAcct α) (v : α) : Except Err (BAcct α) :=
  if b.acct.writable then .ok { b with val := some v } else .error .expectedWritable

/-- Assignment through `DerefMut` (`*account = v`): `none` = panic (not writable, or no value). -/
def derefMutSet {α : Type} (b : BAcct α) (v : α) : Option (BAcct α) :=
  if !b.acct.writable then none
  else match b.val with
    | none => none
    | some _ => some { b with val := some v }

/-- `data.serialize(&mut &mut account_data[W..])`: writes the bytes at offset `W`; an `io::Error`
(`WriteZero`) when they do not fit. -/
def writeBody (W : Nat) (data bytes : List Nat) : Except Err (List Nat) :=
  if bytes.length ≤ data.length - W then
    .ok (data.take W ++ bytes ++ data.drop (W + bytes.length))
  else .error .ioError

/-- `BorshAccount::serialize`: no value → nothing; written back only when writable ∧ `data_len > W`
∧ still owned by the program (plain `Pubkey` equality): resize to `W + object_length`, then
serialize behind the discriminant. Every error path of the real code leaves the account as it was,
except the `WriteZero` one, which is unreachable when `|ser v| = objLen v`. -/
def serializeBack {α : Type} (c : Codec α) (t : PType) (b : BAcct α) : Except Err (BAcct α) :=
  match b.val with
  | none => .ok b
  | some v =>
    if b.acct.writable && decide (b.acct.data.length > t.W) && decide (b.acct.owner = t.progId) then
      match resize b.acct (t.W + c.objLen v) with
      | .error e => .error e
      | .ok a1 =>
        match writeBody t.W a1.data (c.ser v) with
        | .error e => .error e
        | .ok d => .ok { b with acct := { a1 with data := d } }
    else .ok b

/-- `BorshAccount::reload`: shared borrow, `data.get(W..)` (`AccountDataTooSmall` when the account is
shorter than the discriminant), `try_from_slice`. -/
def reload {α : Type} (c : Codec α) (t : PType) (b : BAcct α) : Except Err (BAcct α) :=
  if !b.acct.borrow.canRead then .error .accountBorrowFailed
  else if b.acct.data.length < t.W then .error .accountDataTooSmall
  else match c.de (b.acct.data.drop t.W) with
    | some v => .ok { b with val := some v }
    | none => .error .ioError

/-- The three rent adjustments (`single_set.rs` `normalize_rent` / `receive_rent` / `refund_rent`):
lamports-only operations, they never touch the account data. -/
inductive RentOp
  | normalize | receive | refund
deriving Repr, DecidableEq

/-- Where the funder / recipient comes from: the cleanup argument (`Op(&x)`), the `Context` cache
(`Op(())`) with something cached, or the cache with nothing in it. -/
inductive Who
  | arg | cached | cachedMissing
deriving Repr, DecidableEq

/-- What the rent adjustments need to know about the account's lamports: none (closed earlier in this
instruction), or exactly the rent minimum of `n` data bytes (`plenty` = far more than any reachable
size). The rent minimum is strictly increasing in the size, so comparing sizes compares balances. -/
inductive LamState
  | zero
  | rentOf (n : Nat)
deriving Repr, DecidableEq

def LamState.plenty : LamState := .rentOf 1000000

/-- `refund_rent` (`single_set.rs`, since `/repo` 519a31c): below the minimum of the current size it
leaves a ZERO balance alone and reports `InsufficientFunds` for a funded account. -/
def LamState.refundFails (lam : LamState) (len : Nat) : Bool :=
  match lam with
  | .zero => false
  | .rentOf n => decide (n < len)

/-- The balance a successful rent adjustment leaves (a zero balance is never touched). -/
def lamNext (op : RentOp) (lam : LamState) (len : Nat) : LamState :=
  match lam with
  | .zero => .zero
  | .rentOf n =>
    match op with
    | .normalize => .rentOf len
    | .receive => .rentOf (max n len)
    | .refund => .rentOf (min n len)

/-- EVERY `#[cleanup]` variant of `BorshAccount` (`borsh_account.rs` 35-113). `refundFails` = the
lamports side of `refund_rent` fails (`LamState.refundFails` of the balance and the size after the
write-back): the only outcome of the lamports-only adjustments that is not `Ok` (with a funded
funder `normalize_rent` / `receive_rent` always succeed). -/
inductive Cleanup
  | dflt                                               -- `()`: serialize, then `check_cleanup` (a no-op)
  | rent (op : RentOp) (who : Who) (refundFails : Bool)  -- `NormalizeRent` / `ReceiveRent` / `RefundRent`, `<&X>` or `<()>`
  | close (haveRecipient : Bool)                       -- `CloseAccount<()>`: NO write-back; recipient from the `Context`
deriving Repr, DecidableEq

/-- The error of a missing cache entry. -/
def RentOp.missing : RentOp → Err
  | .normalize => .emptyFunderCache
  | .receive => .emptyFunderCache
  | .refund => .emptyRecipientCache

/-- The lamports-only tail of a rent cleanup (after the write-back). -/
def rentTail (op : RentOp) (drained : Bool) : Except Err Unit :=
  if op = .refund ∧ drained = true then .error .insufficientFunds else .ok ()

/-- A cleanup as the code runs it: the state it leaves (also when it fails) and its result.
Order of the steps per variant, as written in the attribute list:
* `()`, `Op(&x)`: `serialize()?` then the rent adjustment;
* `NormalizeRent(())`: `serialize()?`, THEN the funder lookup (`EmptyFunderCache`), then the adjustment;
* `ReceiveRent(())` / `RefundRent(())`: the cache lookup FIRST, then `serialize()?`, then the adjustment;
* `CloseAccount(())`: recipient lookup, `close_account`; no `serialize()`. -/
def cleanupFull {α : Type} (c : Codec α) (t : PType) :
    Cleanup → BAcct α → BAcct α × Except Err Unit
  | .dflt, b =>
    match serializeBack c t b with
    | .error e => (b, .error e)
    | .ok b' => (b', .ok ())
  | .rent op who drained, b =>
    if who = .cachedMissing ∧ op ≠ .normalize then (b, .error op.missing)
    else
      match serializeBack c t b with
      | .error e => (b, .error e)
      | .ok b' =>
        if who = .cachedMissing then (b', .error op.missing)
        else (b', rentTail op drained)
  | .close r, b =>
    match cleanupClose t r b.acct with
    | .error e => (b, .error e)
    | .ok a => ({ b with acct := a }, .ok ())

/-- The successful outcome of a cleanup. -/
def cleanup {α : Type} (c : Codec α) (t : PType) (k : Cleanup) (b : BAcct α) :
    Except Err (BAcct α) :=
  match cleanupFull c t k b with
  | (b', .ok ()) => .ok b'
  | (_, .error e) => .error e

/-- The cache / lamports side of a cleanup succeeds (nothing to say about the write-back). -/
def CleanOK : Cleanup → Prop
  | .dflt => True
  | .rent op who drained => who ≠ .cachedMissing ∧ ¬ (op = .refund ∧ drained = true)
  | .close _ => False

/-- `client.rs` `DeserializeBorshAccount::deserialize_account`: `check_discriminant` (too short or
different → `DiscriminantMismatch`), then `try_from_slice` of the rest. -/
def clientDeserialize {α : Type} (c : Codec α) (t : PType) (data : List Nat) : Except Err α :=
  if data.length < t.W then .error .discriminantMismatch
  else if data.take t.W != t.disc then .error .discriminantMismatch
  else match c.de (data.drop t.W) with
    | some v => .ok v
    | none => .error .ioError

/-- The account as the NEXT instruction receives it: borrows released, the current length becomes the
original length. -/
def nextIx (a : Acct) : Acct := { a with borrow := Borrow.free, orig := a.data.length }

/-- `set_inner` for each value in turn. -/
def applySets {α : Type} (b : BAcct α) : List α → Except Err (BAcct α)
  | [] => .ok b
  | v :: vs =>
    match setInner b v with
    | .error e => .error e
    | .ok b' => applySets b' vs

/-- One instruction over the account: decode, validate, any number of value changes, then the
cleanup variant `k`; the result is what the next instruction is handed. -/
def instr {α : Type} (c : Codec α) (t : PType) (a : Acct) (ws : List α) (k : Cleanup := .dflt) :
    Except Err Acct :=
  match decodeAcct c t a with
  | .error e => .error e
  | .ok b =>
    match validateAccountInfo t b.acct with
    | .error e => .error e
    | .ok () =>
      match applySets b ws with
      | .error e => .error e
      | .ok b1 =>
        match cleanup c t k b1 with
        | .error e => .error e
        | .ok b2 => .ok (nextIx b2.acct)

/-- A history of instructions, each with its own list of value changes and its own cleanup variant. -/
def run {α : Type} (c : Codec α) (t : PType) : Acct → List (List α × Cleanup) → Except Err Acct
  | a, [] => .ok a
  | a, (ws, k) :: rest =>
    match instr c t a ws k with
    | .error e => .error e
    | .ok a' => run c t a' rest

/-- The value an instruction leaves in the wrapper: the last one set, else the decoded one. -/
def leaves {α : Type} (v0 : α) : List α → α
  | [] => v0
  | w :: ws => leaves w ws

/-- The value the whole history leaves. -/
def leavesAll {α : Type} (v0 : α) : List (List α × Cleanup) → α
  | [] => v0
  | (ws, _) :: rest => leavesAll (leaves v0 ws) rest

/-! ## Declarative side -/

/-- A live borsh account holding `v`: writable, owned by the program, unborrowed, and its data is
exactly discriminant ++ serialization. -/
structure Live {α : Type} (c : Codec α) (t : PType) (a : Acct) (v : α) : Prop where
  writable : a.writable = true
  owner : a.owner = t.progId
  free : a.borrow = Borrow.free
  data : a.data = t.disc ++ c.ser v
  orig : a.orig = a.data.length
  valid : c.valid v
  nonempty : 0 < c.objLen v

/-- What a value must satisfy to be written back in an instruction that started with `orig` bytes:
in the type's range, non-empty serialization (an account of exactly `W` bytes counts as closed), and
within the runtime's per-instruction growth allowance. -/
def StepOK {α : Type} (c : Codec α) (t : PType) (orig : Nat) (v : α) : Prop :=
  c.valid v ∧ 0 < c.objLen v ∧ t.W + c.objLen v ≤ orig + maxIncrease

def ChainOK {α : Type} (c : Codec α) (t : PType) : Nat → α → List (List α × Cleanup) → Prop
  | _, _, [] => True
  | orig, v0, (ws, k) :: rest =>
    CleanOK k ∧ StepOK c t orig (leaves v0 ws) ∧
      ChainOK c t (t.W + c.objLen (leaves v0 ws)) (leaves v0 ws) rest

end Account.Borsh
