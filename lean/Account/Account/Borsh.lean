import Account.Validate
/-!
# Model of borsh-backed program accounts (C15)

`star_frame/src/account_set/borsh_account.rs` (`decode_accounts`, `serialize`, `reload`,
`set_inner`, `Deref`/`DerefMut`, the `#[cleanup(...)]` variants) and `client.rs`
(`check_discriminant`, `DeserializeBorshAccount::deserialize_account`).

The borsh encoding of the user's account type is a PARAMETER (`Codec`): `ser`, `de`
(`try_from_slice`: must consume every byte), `objLen` (`borsh::object_length`), and the range
predicate `valid` of the type's values.
-/
namespace Account.Borsh
open Common Account.Validate

structure Codec (α : Type) where
  ser : α → List Nat
  de : List Nat → Option α
  objLen : α → Nat
  valid : α → Prop

/-- The assumed behaviour of the borsh encoders of the user type (checked at run time by the harness
on every generated value; proved for the driver's concrete codecs in `BorshCodecsLemmas.lean`). -/
structure CodecOK {α : Type} (c : Codec α) : Prop where
  rt : ∀ x, c.valid x → c.de (c.ser x) = some x
  len : ∀ x, c.valid x → (c.ser x).length = c.objLen x

/-- `BorshAccount<T>`: the account plus the deserialized value (`None` when the account holds no
more than the discriminant). -/
structure BAcct (α : Type) where
  acct : Acct
  val : Option α

/-- `BorshAccount::decode_accounts`: only when `data_len > W` is the body deserialized (a shared
borrow of the data, then `T::try_from_slice(&data[W..])`). -/
def decodeAcct {α : Type} (c : Codec α) (t : PType) (a : Acct) : Except Err (BAcct α) :=
  if a.data.length > t.W then
    if !a.borrow.canRead then .error .accountBorrowFailed
    else match c.de (a.data.drop t.W) with
      | some v => .ok { acct := a, val := some v }
      | none => .error .ioError
  else .ok { acct := a, val := none }

/-- `BorshAccount::set_inner`. -/
def setInner {α : Type} (b : BAcct α) (v : α) : Except Err (BAcct α) :=
  if b.acct.writable then .ok { b with val := some v } else .error .expectedWritable

/-- Assignment through `DerefMut` (`*account = v`): `none` = panic (not writable, or no value). -/
def derefMutSet {α : Type} (b : BAcct α) (v : α) : Option (BAcct α) :=
  if !b.acct.writable then none
  else match b.val with
    | none => none
    | some _ => some { b with val := some v }

/-- `data.serialize(&mut &mut account_data[W..])`: writes the bytes at offset `W`; an `io::Error`
(`WriteZero`) when they do not fit. -/
def writeBody (W : Nat) (data bytes : List Nat) : Except Err (List Nat) :=
  if bytes.length ≤ data.length - W then
    .ok (data.take W ++ bytes ++ data.drop (W + bytes.length))
  else .error .ioError

/-- `BorshAccount::serialize`: no value → nothing; written back only when writable ∧ `data_len > W`
∧ still owned by the program (plain `Pubkey` equality): resize to `W + object_length`, then
serialize behind the discriminant. Every error path of the real code leaves the account as it was,
except the `WriteZero` one, which is unreachable when `|ser v| = objLen v`. -/
def serializeBack {α : Type} (c : Codec α) (t : PType) (b : BAcct α) : Except Err (BAcct α) :=
  match b.val with
  | none => .ok b
  | some v =>
    if b.acct.writable && decide (b.acct.data.length > t.W) && decide (b.acct.owner = t.progId) then
      match resize b.acct (t.W + c.objLen v) with
      | .error e => .error e
      | .ok a1 =>
        match writeBody t.W a1.data (c.ser v) with
        | .error e => .error e
        | .ok d => .ok { b with acct := { a1 with data := d } }
    else .ok b

/-- `BorshAccount::reload`: `none` = panic (the slice `data[W..]` is out of range). -/
def reload {α : Type} (c : Codec α) (t : PType) (b : BAcct α) : Option (Except Err (BAcct α)) :=
  if !b.acct.borrow.canRead then some (.error .accountBorrowFailed)
  else if b.acct.data.length < t.W then none
  else match c.de (b.acct.data.drop t.W) with
    | some v => some (.ok { b with val := some v })
    | none => some (.error .ioError)

/-- The `#[cleanup]` variants of `BorshAccount`. `drained` = the account holds no lamports (it was
closed earlier in this instruction), the only fact about lamports the rent variants need here. -/
inductive Cleanup
  | dflt                          -- `()`: serialize, then `check_cleanup` (a no-op)
  | refundRent (drained : Bool)   -- `RefundRent<&Recipient>`: serialize, then `refund_rent` (lamports only)
  | close (haveRecipient : Bool)  -- `CloseAccount<()>`: NO write-back; recipient from the `Context`
deriving Repr, DecidableEq

def cleanup {α : Type} (c : Codec α) (t : PType) : Cleanup → BAcct α → Except Err (BAcct α)
  | .dflt, b => serializeBack c t b
  | .refundRent drained, b =>
    match serializeBack c t b with
    | .error e => .error e
    | .ok b' => if drained then .error .insufficientFunds else .ok b'
  | .close r, b =>
    match cleanupClose t r b.acct with
    | .error e => .error e
    | .ok a => .ok { b with acct := a }

/-- `client.rs` `DeserializeBorshAccount::deserialize_account`: `check_discriminant` (too short or
different → `DiscriminantMismatch`), then `try_from_slice` of the rest. -/
def clientDeserialize {α : Type} (c : Codec α) (t : PType) (data : List Nat) : Except Err α :=
  if data.length < t.W then .error .discriminantMismatch
  else if data.take t.W != t.disc then .error .discriminantMismatch
  else match c.de (data.drop t.W) with
    | some v => .ok v
    | none => .error .ioError

/-- The account as the NEXT instruction receives it: borrows released, the current length becomes the
original length. -/
def nextIx (a : Acct) : Acct := { a with borrow := Borrow.free, orig := a.data.length }

/-- `set_inner` for each value in turn. -/
def applySets {α : Type} (b : BAcct α) : List α → Except Err (BAcct α)
  | [] => .ok b
  | v :: vs =>
    match setInner b v with
    | .error e => .error e
    | .ok b' => applySets b' vs

/-- One instruction over the account: decode, validate, any number of value changes, default
cleanup; the result is what the next instruction is handed. -/
def instr {α : Type} (c : Codec α) (t : PType) (a : Acct) (ws : List α) : Except Err Acct :=
  match decodeAcct c t a with
  | .error e => .error e
  | .ok b =>
    match validateAccountInfo t b.acct with
    | .error e => .error e
    | .ok () =>
      match applySets b ws with
      | .error e => .error e
      | .ok b1 =>
        match cleanup c t .dflt b1 with
        | .error e => .error e
        | .ok b2 => .ok (nextIx b2.acct)

/-- A history of instructions, each with its own list of value changes. -/
def run {α : Type} (c : Codec α) (t : PType) : Acct → List (List α) → Except Err Acct
  | a, [] => .ok a
  | a, ws :: rest =>
    match instr c t a ws with
    | .error e => .error e
    | .ok a' => run c t a' rest

/-- The value an instruction leaves in the wrapper: the last one set, else the decoded one. -/
def leaves {α : Type} (v0 : α) : List α → α
  | [] => v0
  | w :: ws => leaves w ws

/-- The value the whole history leaves. -/
def leavesAll {α : Type} (v0 : α) : List (List α) → α
  | [] => v0
  | ws :: rest => leavesAll (leaves v0 ws) rest

/-! ## Declarative side -/

/-- A live borsh account holding `v`: writable, owned by the program, unborrowed, and its data is
exactly discriminant ++ serialization. -/
structure Live {α : Type} (c : Codec α) (t : PType) (a : Acct) (v : α) : Prop where
  writable : a.writable = true
  owner : a.owner = t.progId
  free : a.borrow = Borrow.free
  data : a.data = t.disc ++ c.ser v
  orig : a.orig = a.data.length
  valid : c.valid v
  nonempty : 0 < c.objLen v

/-- What a value must satisfy to be written back in an instruction that started with `orig` bytes:
in the type's range, non-empty serialization (an account of exactly `W` bytes counts as closed), and
within the runtime's per-instruction growth allowance. -/
def StepOK {α : Type} (c : Codec α) (t : PType) (orig : Nat) (v : α) : Prop :=
  c.valid v ∧ 0 < c.objLen v ∧ t.W + c.objLen v ≤ orig + maxIncrease

def ChainOK {α : Type} (c : Codec α) (t : PType) : Nat → α → List (List α) → Prop
  | _, _, [] => True
  | orig, v0, ws :: rest =>
    StepOK c t orig (leaves v0 ws) ∧
      ChainOK c t (t.W + c.objLen (leaves v0 ws)) (leaves v0 ws) rest

end Account.Borsh
