import Common.Bytes
/-!
# Model of the three views of an instruction's account set (C14)

* client view  — `ClientAccountSet::extend_account_metas`
  (`star_frame_proc/src/account_set/struct_impl/mod.rs` 242-262, 480-530; `impls/{option,vec,array,
  boxed,account_info}.rs`, `rest.rs`, `program.rs`, `sysvar.rs`);
* on-chain view — `AccountSetDecode::decode_accounts` (`struct_impl/decode.rs` 128-201 and the impls)
  followed by `AccountSetValidate::validate_accounts`;
* CPI view     — `CpiAccountSet::{to_cpi_accounts, write_account_metas, write_account_infos}` and
  the array length declared through `AccountLen` / `HandleCpiArray` (`cpi.rs`).

Every function recurses structurally on the *shape*; values are taken apart one level at a time.
Keys are byte lists; key comparison is list equality (`fast_32_byte_eq` = byte equality is C09's
`fastEq32_iff_eq`).
-/
namespace Account.Sets
open Common

abbrev Key := List Nat

/-- A client / CPI account meta. -/
structure Meta where
  key : Key
  signer : Bool
  writable : Bool
deriving Repr, DecidableEq

/-- What decode and validate see of a runtime `AccountInfo`. -/
structure Acct where
  key : Key
  signer : Bool
  writable : Bool
deriving Repr, DecidableEq

/-- One flag check of a single account's validation. -/
inductive Chk
  | signer      -- `check_signer`   (`Signer<_>`)
  | writable    -- `check_writable` (`Mut<_>`)
deriving Repr, DecidableEq

/-- Shapes of account sets built from the framework's building blocks. -/
inductive SetShape
  /-- a `SingleAccountSet`: `AccountInfo` under any stack of `Signer`/`Mut`, `Program<P>`, `Sysvar<S>`;
  `signer`/`writable` are its static `SingleSetMeta` (what client and CPI metas carry); `fixedKey`
  is the address validation requires (and the client's default key for a bare `Program`/`Sysvar`);
  `checks` are the flag checks validation runs, in execution order (inner wrapper first:
  `Signer<Mut<_>>` is `[writable, signer]`). For the framework's wrappers the meta covers the checks
  (`metaCovers`), but `SingleSetMeta` is free-form (`#[single_account_set(meta = …)]`), and before
  the /repo fix of `MaybeSigner`/`MaybeMut` a pass-through wrapper reset the flag of a checking one
  below it (`MaybeSigner<false, Signer<T>>`: `signer = false`, `checks = [signer]`). -/
  | single (signer writable : Bool) (fixedKey : Option Key) (checks : List Chk)
  | opt (s : SetShape)
  | vec (s : SetShape)
  | arr (n : Nat) (s : SetShape)
  | boxed (s : SetShape)
  | struct (fs : List SetShape)
  | rest (s : SetShape)
deriving Repr

/-- What the client supplies (`ClientAccounts`). -/
inductive ClientVal
  /-- key of a single account; `none` = the default of a bare `Program`/`Sysvar` -/
  | key (k : Option Key)
  | absent
  | present (v : ClientVal)
  /-- elements of a vec / array / rest, or the fields of a struct -/
  | many (vs : List ClientVal)
deriving Repr

/-- A decoded account set (also the `CpiAccounts` made from it by `to_cpi_accounts`). -/
inductive SetVal
  | acct (a : Acct)
  | absent
  | present (v : SetVal)
  | many (vs : List SetVal)
deriving Repr

/-- Decode arguments: `()`; `(len, inner)` for a `Vec` (every element gets `inner`); `each` = one
argument per element of a `Vec` (the `[TA; N]`, `&[TA; N]`, `&mut [TA; N]` and `(I,)` forms of
`impls/vec.rs`); `arrEach` = one argument per element of an array (the `[DArg; N]` form of
`impls/array.rs`); one per field for a struct. `Option`, `Box`, arrays (`(arg,)` form, of which `()`
is an instance) and `Rest` pass theirs through. -/
inductive DecodeArg
  | unit
  | len (n : Nat) (inner : DecodeArg)
  | each (as : List DecodeArg)
  | arrEach (as : List DecodeArg)
  | fields (as : List DecodeArg)
deriving Repr

inductive E
  | notEnough              -- `try_advance_array` failed: "Not enough accounts to decode AccountInfo"
  | badArg                 -- the decode argument does not have the type the shape needs (a compile error in Rust)
  | badVal                 -- the value does not have the shape's type (a compile error in Rust)
  | diverge                -- `Rest<T>` whose `T` decodes without consuming: the `while` loop never ends
  | missingOptionalProgram -- `ErrorCode::MissingOptionalProgram`
  | tooMany                -- more than 64 accounts written into a dynamic CPI array (index panic)
  | noCpiArray             -- `AccountLen` has no `HandleCpiArray` impl (64..99, or > 100): does not compile
deriving Repr, DecidableEq

/-! ## Client view -/

def placeholder (pid : Key) : Meta := { key := pid, signer := false, writable := false }

mutual
/-- `ClientAccountSet::extend_account_metas` (the metas pushed, in order). -/
def clientMetas (pid : Key) : SetShape → ClientVal → List Meta
  | .single sg wr fk _, .key k => [{ key := k.getD (fk.getD []), signer := sg, writable := wr }]
  | .opt _, .absent => [placeholder pid]
  | .opt s, .present v => clientMetas pid s v
  | .vec s, .many vs => vs.flatMap (clientMetas pid s)
  | .arr _ s, .many vs => vs.flatMap (clientMetas pid s)
  | .rest s, .many vs => vs.flatMap (clientMetas pid s)
  | .boxed s, v => clientMetas pid s v
  | .struct fs, .many vs => clientMetasFields pid fs vs
  | _, _ => []
def clientMetasFields (pid : Key) : List SetShape → List ClientVal → List Meta
  | s :: fs, v :: vs => clientMetas pid s v ++ clientMetasFields pid fs vs
  | _, _ => []
end

mutual
/-- `ClientAccountSet::MIN_LEN`. -/
def minLen : SetShape → Nat
  | .single .. => 1
  | .opt _ => 1
  | .vec _ => 0
  | .arr n s => n * minLen s
  | .boxed s => minLen s
  | .struct fs => minLenFields fs
  | .rest _ => 0
def minLenFields : List SetShape → Nat
  | [] => 0
  | s :: fs => minLen s + minLenFields fs
end

/-! ## On-chain view: decode -/

/-- `len` sequential decodes (`Vec<T>` with a length argument, `[T; N]`). -/
def iterN (f : List Acct → Except E (SetVal × List Acct)) : Nat → List Acct → Except E (List SetVal × List Acct)
  | 0, accts => .ok ([], accts)
  | n + 1, accts =>
    match f accts with
    | .error e => .error e
    | .ok (v, r) =>
      match iterN f n r with
      | .error e => .error e
      | .ok (vs, r') => .ok (v :: vs, r')

/-- `Rest<T>`: `while !accounts.is_empty() { out.push(T::decode_accounts(..)?) }`. The fuel is the
number of accounts; it runs out only if some iteration consumed nothing (the real loop then never
terminates). -/
def iterRest (f : List Acct → Except E (SetVal × List Acct)) : Nat → List Acct → Except E (List SetVal × List Acct)
  | _, [] => .ok ([], [])
  | 0, _ :: _ => .error .diverge
  | fuel + 1, a :: r =>
    match f (a :: r) with
    | .error e => .error e
    | .ok (v, r') =>
      match iterRest f fuel r' with
      | .error e => .error e
      | .ok (vs, r'') => .ok (v :: vs, r'')

/-- sequential decodes of elements of one shape, each with its own argument -/
def iterEach (f : DecodeArg → List Acct → Except E (SetVal × List Acct)) :
    List DecodeArg → List Acct → Except E (List SetVal × List Acct)
  | [], accts => .ok ([], accts)
  | a :: as, accts =>
    match f a accts with
    | .error e => .error e
    | .ok (v, r) =>
      match iterEach f as r with
      | .error e => .error e
      | .ok (vs, r') => .ok (v :: vs, r')

mutual
/-- `AccountSetDecode::decode_accounts`: the decoded set and the accounts left over. -/
def decode (pid : Key) : SetShape → DecodeArg → List Acct → Except E (SetVal × List Acct)
  | .single .., _, accts =>
    match accts with
    | [] => .error .notEnough
    | a :: r => .ok (.acct a, r)
  | .opt s, arg, accts =>
    match accts with
    | [] => .ok (.absent, [])
    | a :: r =>
      if a.key = pid then .ok (.absent, r)
      else match decode pid s arg (a :: r) with
        | .error e => .error e
        | .ok (v, r') => .ok (.present v, r')
  | .vec s, arg, accts =>
    match arg with
    | .len n inner =>
      match iterN (decode pid s inner) n accts with
      | .error e => .error e
      | .ok (vs, r) => .ok (.many vs, r)
    | .each as =>
      match iterEach (decode pid s) as accts with
      | .error e => .error e
      | .ok (vs, r) => .ok (.many vs, r)
    | _ => .error .badArg
  | .arr n s, arg, accts =>
    match arg with
    | .arrEach as =>
      if as.length = n then
        match iterEach (decode pid s) as accts with
        | .error e => .error e
        | .ok (vs, r) => .ok (.many vs, r)
      else .error .badArg
    | _ =>
      match iterN (decode pid s arg) n accts with
      | .error e => .error e
      | .ok (vs, r) => .ok (.many vs, r)
  | .boxed s, arg, accts => decode pid s arg accts
  | .struct fs, arg, accts =>
    match arg with
    | .fields as =>
      match decodeFields pid fs as accts with
      | .error e => .error e
      | .ok (vs, r) => .ok (.many vs, r)
    | _ => .error .badArg
  | .rest s, arg, accts =>
    match iterRest (decode pid s arg) accts.length accts with
    | .error e => .error e
    | .ok (vs, r) => .ok (.many vs, r)
/-- the generated struct decode: fields in declaration order, each with its own argument -/
def decodeFields (pid : Key) : List SetShape → List DecodeArg → List Acct → Except E (List SetVal × List Acct)
  | [], [], accts => .ok ([], accts)
  | s :: fs, a :: as, accts =>
    match decode pid s a accts with
    | .error e => .error e
    | .ok (v, r) =>
      match decodeFields pid fs as r with
      | .error e => .error e
      | .ok (vs, r') => .ok (v :: vs, r')
  | _, _, _ => .error .badArg
end

/-! ## On-chain view: validate (only what C14 needs: flags and fixed addresses; C09 has the rest) -/

inductive VErr
  | key | signer | writable | badVal
deriving Repr, DecidableEq

def allOk {α : Type} (f : α → Except VErr Unit) : List α → Except VErr Unit
  | [] => .ok ()
  | x :: xs => match f x with
    | .error e => .error e
    | .ok () => allOk f xs

/-- the flag checks of one account, first failure wins -/
def runChecks : List Chk → Acct → Except VErr Unit
  | [], _ => .ok ()
  | .signer :: cs, a => if a.signer then runChecks cs a else .error .signer
  | .writable :: cs, a => if a.writable then runChecks cs a else .error .writable

mutual
def validate : SetShape → SetVal → Except VErr Unit
  | .single _ _ fk checks, .acct a =>
    if fk.isSome ∧ fk ≠ some a.key then .error .key else runChecks checks a
  | .opt _, .absent => .ok ()
  | .opt s, .present v => validate s v
  | .vec s, .many vs => allOk (validate s) vs
  | .arr _ s, .many vs => allOk (validate s) vs
  | .rest s, .many vs => allOk (validate s) vs
  | .boxed s, v => validate s v
  | .struct fs, .many vs => validateFields fs vs
  | _, _ => .error .badVal
def validateFields : List SetShape → List SetVal → Except VErr Unit
  | [], [] => .ok ()
  | s :: fs, v :: vs =>
    match validate s v with
    | .error e => .error e
    | .ok () => validateFields fs vs
  | _, _ => .error .badVal
end

/-! ## CPI view -/

mutual
/-- `CpiAccountSet::write_account_metas` on `to_cpi_accounts` of a decoded set. -/
def cpiMetas (pid : Key) : SetShape → SetVal → List Meta
  | .single sg wr _ _, .acct a => [{ key := a.key, signer := sg, writable := wr }]
  | .opt _, .absent => [placeholder pid]
  | .opt s, .present v => cpiMetas pid s v
  | .vec s, .many vs => vs.flatMap (cpiMetas pid s)
  | .arr _ s, .many vs => vs.flatMap (cpiMetas pid s)
  | .rest s, .many vs => vs.flatMap (cpiMetas pid s)
  | .boxed s, v => cpiMetas pid s v
  | .struct fs, .many vs => cpiMetasFields pid fs vs
  | _, _ => []
def cpiMetasFields (pid : Key) : List SetShape → List SetVal → List Meta
  | s :: fs, v :: vs => cpiMetas pid s v ++ cpiMetasFields pid fs vs
  | _, _ => []
end

/-- sequential `?` over a list -/
def collectE (f : SetVal → Except E (List Acct)) : List SetVal → Except E (List Acct)
  | [] => .ok []
  | v :: vs =>
    match f v with
    | .error e => .error e
    | .ok xs =>
      match collectE f vs with
      | .error e => .error e
      | .ok ys => .ok (xs ++ ys)

mutual
/-- `CpiAccountSet::write_account_infos`; `prog` is the program `AccountInfo` handed to the builder
(`None` unless `ContainsOption = True`). -/
def cpiInfos (prog : Option Acct) : SetShape → SetVal → Except E (List Acct)
  | .single .., .acct a => .ok [a]
  | .opt _, .absent =>
    match prog with
    | some p => .ok [p]
    | none => .error .missingOptionalProgram
  | .opt s, .present v => cpiInfos prog s v
  | .vec s, .many vs => collectE (cpiInfos prog s) vs
  | .arr _ s, .many vs => collectE (cpiInfos prog s) vs
  | .rest s, .many vs => collectE (cpiInfos prog s) vs
  | .boxed s, v => cpiInfos prog s v
  | .struct fs, .many vs => cpiInfosFields prog fs vs
  | _, _ => .error .badVal
def cpiInfosFields (prog : Option Acct) : List SetShape → List SetVal → Except E (List Acct)
  | [], [] => .ok []
  | s :: fs, v :: vs =>
    match cpiInfos prog s v with
    | .error e => .error e
    | .ok xs =>
      match cpiInfosFields prog fs vs with
      | .error e => .error e
      | .ok ys => .ok (xs ++ ys)
  | _, _ => .error .badVal
end

/-- `DynamicCpiAccountSetLen = typenum::U100`, the sentinel for "dynamic". -/
def dynLen : Nat := 100

mutual
/-- `CpiAccountSet::AccountLen` (as a number). -/
def accountLen : SetShape → Nat
  | .single .. => 1
  | .opt s => if accountLen s = 1 then 1 else dynLen
  | .vec _ => dynLen
  | .arr n s => accountLen s * n
  | .boxed s => accountLen s
  | .struct fs => min (accountLenFields fs) dynLen
  | .rest _ => dynLen
def accountLenFields : List SetShape → Nat
  | [] => 0
  | s :: fs => accountLen s + accountLenFields fs
end

mutual
/-- `CpiAccountSet::ContainsOption` (arrays propagate their element's since /repo cf061c0). -/
def containsOption : SetShape → Bool
  | .single .. => false
  | .opt _ => true
  | .vec s => containsOption s
  | .arr _ s => containsOption s
  | .boxed s => containsOption s
  | .struct fs => containsOptionFields fs
  | .rest s => containsOption s
def containsOptionFields : List SetShape → Bool
  | [] => false
  | s :: fs => containsOption s || containsOptionFields fs
end

/-- Length of the `MaybeUninit` arrays `HandleCpiArray` allocates: exact for `U0..U63`, 64 for the
dynamic sentinel, no impl otherwise. -/
def declaredLen (s : SetShape) : Option Nat :=
  let n := accountLen s
  if n = dynLen then some 64 else if n < 64 then some n else none

/-- What `CpiBuilder::invoke_signed` hands to the runtime. -/
structure CpiView where
  metas : List Meta
  infos : List Acct
  declared : Nat
deriving Repr, DecidableEq

/-- `CpiBuilder::invoke_signed` up to the syscall: infos first (may fail), then metas; writing past
the declared array is an index panic; a fixed-size array must be filled exactly (`assert_eq!`). -/
def cpi (pid : Key) (prog : Option Acct) (s : SetShape) (sv : SetVal) : Except E CpiView :=
  match declaredLen s with
  | none => .error .noCpiArray
  | some d =>
    match cpiInfos (if containsOption s then prog else none) s sv with
    | .error e => .error e
    | .ok infos =>
      let metas := cpiMetas pid s sv
      if d < infos.length ∨ d < metas.length then .error .tooMany
      else .ok { metas, infos, declared := d }

/-! ## Relating the views -/

mutual
/-- The client value a decoded set denotes. -/
def toClient : SetShape → SetVal → ClientVal
  | .single .., .acct a => .key (some a.key)
  | .opt _, .absent => .absent
  | .opt s, .present v => .present (toClient s v)
  | .vec s, .many vs => .many (vs.map (toClient s))
  | .arr _ s, .many vs => .many (vs.map (toClient s))
  | .rest s, .many vs => .many (vs.map (toClient s))
  | .boxed s, v => toClient s v
  | .struct fs, .many vs => .many (toClientFields fs vs)
  | _, _ => .many []
def toClientFields : List SetShape → List SetVal → List ClientVal
  | s :: fs, v :: vs => toClient s v :: toClientFields fs vs
  | _, _ => []
end

mutual
/-- The client value with default keys filled in. -/
def resolve : SetShape → ClientVal → ClientVal
  | .single _ _ fk _, .key k => .key (some (k.getD (fk.getD [])))
  | .opt _, .absent => .absent
  | .opt s, .present v => .present (resolve s v)
  | .vec s, .many vs => .many (vs.map (resolve s))
  | .arr _ s, .many vs => .many (vs.map (resolve s))
  | .rest s, .many vs => .many (vs.map (resolve s))
  | .boxed s, v => resolve s v
  | .struct fs, .many vs => .many (resolveFields fs vs)
  | _, _ => .many []
def resolveFields : List SetShape → List ClientVal → List ClientVal
  | s :: fs, v :: vs => resolve s v :: resolveFields fs vs
  | _, _ => []
end

mutual
/-- The same decoded set with the runtime signer / writable flags of every account replaced
(`g` chooses the new flags): "the infos supplied for the slots carry other privileges". -/
def reflag (g : Acct → Bool × Bool) : SetShape → SetVal → SetVal
  | .single .., .acct a => .acct { key := a.key, signer := (g a).1, writable := (g a).2 }
  | .opt s, .present v => .present (reflag g s v)
  | .vec s, .many vs => .many (vs.map (reflag g s))
  | .arr _ s, .many vs => .many (vs.map (reflag g s))
  | .rest s, .many vs => .many (vs.map (reflag g s))
  | .boxed s, v => reflag g s v
  | .struct fs, .many vs => .many (reflagFields g fs vs)
  | _, v => v
def reflagFields (g : Acct → Bool × Bool) : List SetShape → List SetVal → List SetVal
  | s :: fs, v :: vs => reflag g s v :: reflagFields g fs vs
  | _, vs => vs
end

/-! ## Well-formedness: which (shape, decode argument, client value) triples the round trip speaks about -/

mutual
/-- no `Rest` anywhere below -/
def restFree : SetShape → Bool
  | .single .. => true
  | .opt s => restFree s
  | .vec s => restFree s
  | .arr _ s => restFree s
  | .boxed s => restFree s
  | .struct fs => restFreeFields fs
  | .rest _ => false
def restFreeFields : List SetShape → Bool
  | [] => true
  | s :: fs => restFree s && restFreeFields fs
end

mutual
/-- the client value has the shape's `ClientAccounts` type -/
def typed : SetShape → ClientVal → Bool
  | .single _ _ fk _, .key k => k.isSome || fk.isSome
  | .opt _, .absent => true
  | .opt s, .present v => typed s v
  | .vec s, .many vs => vs.all (typed s)
  | .arr n s, .many vs => vs.length == n && vs.all (typed s)
  | .rest s, .many vs => vs.all (typed s)
  | .boxed s, v => typed s v
  | .struct fs, .many vs => typedFields fs vs
  | _, _ => false
def typedFields : List SetShape → List ClientVal → Bool
  | [], [] => true
  | s :: fs, v :: vs => typed s v && typedFields fs vs
  | _, _ => false
end

mutual
/-- the decoded value has the shape's type -/
def svTyped : SetShape → SetVal → Bool
  | .single .., .acct _ => true
  | .opt _, .absent => true
  | .opt s, .present v => svTyped s v
  | .vec s, .many vs => vs.all (svTyped s)
  | .arr n s, .many vs => vs.length == n && vs.all (svTyped s)
  | .rest s, .many vs => vs.all (svTyped s)
  | .boxed s, v => svTyped s v
  | .struct fs, .many vs => svTypedFields fs vs
  | _, _ => false
def svTypedFields : List SetShape → List SetVal → Bool
  | [], [] => true
  | s :: fs, v :: vs => svTyped s v && svTypedFields fs vs
  | _, _ => false
end

mutual
/-- the decode argument has the type the shape's decode takes -/
def argTyped : SetShape → DecodeArg → Bool
  | .single .., .unit => true
  | .opt s, a => argTyped s a
  | .vec s, .len _ inner => argTyped s inner
  | .vec s, .each as => as.all (argTyped s)
  | .arr n s, .arrEach as => as.length == n && as.all (argTyped s)
  | .arr _ s, a => argTyped s a
  | .rest s, a => argTyped s a
  | .boxed s, a => argTyped s a
  | .struct fs, .fields as => argTypedFields fs as
  | _, _ => false
def argTypedFields : List SetShape → List DecodeArg → Bool
  | [], [] => true
  | s :: fs, a :: as => argTyped s a && argTypedFields fs as
  | _, _ => false
end

/-- first meta exists and is not the program id (what a *present* optional needs to be seen as present) -/
def headNotPid (pid : Key) (ms : List Meta) : Bool :=
  match ms with
  | [] => false
  | m :: _ => m.key != pid

/-- pointwise over an argument list and a value list of the same length -/
def all2 (f : DecodeArg → ClientVal → Bool) : List DecodeArg → List ClientVal → Bool
  | [], [] => true
  | a :: as, v :: vs => f a v && all2 f as vs
  | _, _ => false

mutual
/-- `fits pid s arg v`: `v` has type `s`, `arg` is the decode argument describing `v` (vector
lengths), and the side conditions of the round trip hold:
* a present optional's metas are non-empty and do not start with the program id (otherwise the
  placeholder encoding makes it decode as absent — inherent);
* `Rest` occurs only in tail position (it swallows every remaining account) and each of its elements
  uses at least one account (otherwise the `while` loop never ends). -/
def fits (pid : Key) : SetShape → DecodeArg → ClientVal → Bool
  | .single _ _ fk _, .unit, .key k => k.isSome || fk.isSome
  | .opt _, _, .absent => true
  | .opt s, a, .present v => fits pid s a v && headNotPid pid (clientMetas pid s v)
  | .vec s, .len n inner, .many vs => vs.length == n && restFree s && vs.all (fits pid s inner)
  | .vec s, .each as, .many vs => restFree s && all2 (fits pid s) as vs
  | .arr n s, .arrEach as, .many vs => vs.length == n && restFree s && all2 (fits pid s) as vs
  | .arr n s, a, .many vs => vs.length == n && restFree s && vs.all (fits pid s a)
  | .rest s, a, .many vs => restFree s && vs.all (fun v => fits pid s a v && !(clientMetas pid s v).isEmpty)
  | .boxed s, a, v => fits pid s a v
  | .struct fs, .fields as, .many vs => fitsFields pid fs as vs
  | _, _, _ => false
def fitsFields (pid : Key) : List SetShape → List DecodeArg → List ClientVal → Bool
  | [], [], [] => true
  | s :: fs, a :: as, v :: vs => fits pid s a v && (fs.isEmpty || restFree s) && fitsFields pid fs as vs
  | _, _, _ => false
end

mutual
/-- the static meta of every single account covers what its validation checks -/
def metaCovers : SetShape → Bool
  | .single sg wr _ checks => checks.all (fun c => match c with | .signer => sg | .writable => wr)
  | .opt s => metaCovers s
  | .vec s => metaCovers s
  | .arr _ s => metaCovers s
  | .boxed s => metaCovers s
  | .struct fs => metaCoversFields fs
  | .rest s => metaCovers s
def metaCoversFields : List SetShape → Bool
  | [] => true
  | s :: fs => metaCovers s && metaCoversFields fs
end

mutual
/-- no explicit client key contradicts a fixed address -/
def addrOk : SetShape → ClientVal → Bool
  | .single _ _ fk _, .key k => fk.isNone || k.isNone || k == fk
  | .opt _, .absent => true
  | .opt s, .present v => addrOk s v
  | .vec s, .many vs => vs.all (addrOk s)
  | .arr _ s, .many vs => vs.all (addrOk s)
  | .rest s, .many vs => vs.all (addrOk s)
  | .boxed s, v => addrOk s v
  | .struct fs, .many vs => addrOkFields fs vs
  | _, _ => true
def addrOkFields : List SetShape → List ClientVal → Bool
  | s :: fs, v :: vs => addrOk s v && addrOkFields fs vs
  | _, _ => true
end

mutual
/-- the decode argument a client sends for its value (vector lengths; the first element's argument
stands for all elements, which is what `fits` demands) -/
def argOf : SetShape → ClientVal → DecodeArg
  | .single .., _ => .unit
  | .opt s, .present v => argOf s v
  | .opt s, _ => defaultArg s
  | .vec s, .many vs => .len vs.length (match vs with | v :: _ => argOf s v | [] => defaultArg s)
  | .arr _ s, .many vs => (match vs with | v :: _ => argOf s v | [] => defaultArg s)
  | .rest s, .many vs => (match vs with | v :: _ => argOf s v | [] => defaultArg s)
  | .boxed s, v => argOf s v
  | .struct fs, .many vs => .fields (argOfFields fs vs)
  | _, _ => .unit
def argOfFields : List SetShape → List ClientVal → List DecodeArg
  | s :: fs, v :: vs => argOf s v :: argOfFields fs vs
  | s :: fs, [] => defaultArg s :: argOfFields fs []
  | [], _ => []
def defaultArg : SetShape → DecodeArg
  | .single .. => .unit
  | .opt s => defaultArg s
  | .vec s => .len 0 (defaultArg s)
  | .arr _ s => defaultArg s
  | .rest s => defaultArg s
  | .boxed s => defaultArg s
  | .struct fs => .fields (defaultArgFields fs)
def defaultArgFields : List SetShape → List DecodeArg
  | [] => []
  | s :: fs => defaultArg s :: defaultArgFields fs
end

mutual
/-- no `Option` anywhere below -/
def optFree : SetShape → Bool
  | .single .. => true
  | .opt _ => false
  | .vec s => optFree s
  | .arr _ s => optFree s
  | .boxed s => optFree s
  | .struct fs => optFreeFields fs
  | .rest s => optFree s
def optFreeFields : List SetShape → Bool
  | [] => true
  | s :: fs => optFree s && optFreeFields fs
end

mutual
/-- the static `(signer, writable)` requirements of the single accounts of a shape -/
def staticFlags : SetShape → List (Bool × Bool)
  | .single sg wr _ _ => [(sg, wr)]
  | .opt s => staticFlags s
  | .vec s => staticFlags s
  | .arr _ s => staticFlags s
  | .boxed s => staticFlags s
  | .struct fs => staticFlagsFields fs
  | .rest s => staticFlags s
def staticFlagsFields : List SetShape → List (Bool × Bool)
  | [] => []
  | s :: fs => staticFlags s ++ staticFlagsFields fs
end

/-! ## Instruction data: discriminant ++ borsh(decode argument) ++ borsh(run arguments) -/

mutual
/-- borsh of a decode argument: `()` is empty, `(usize, T)` is a `u64` then `T`, structs concatenate -/
def serArg : DecodeArg → List Nat
  | .unit => []
  | .len n inner => leN 8 n ++ serArg inner
  | .each as => serArgs as
  | .arrEach as => serArgs as
  | .fields as => serArgs as
def serArgs : List DecodeArg → List Nat
  | [] => []
  | a :: as => serArg a ++ serArgs as
end

/-- The Rust type of a decode argument (chosen by the set's author with `#[decode(arg = …)]`):
`()`, `(usize, T)`, `[T; N]` for a `Vec` / for an array, a struct of arguments. -/
inductive ArgTy
  | unit
  | len (t : ArgTy)
  | each (n : Nat) (t : ArgTy)
  | arrEach (n : Nat) (t : ArgTy)
  | fields (ts : List ArgTy)
deriving Repr

/-- `n` consecutive values (borsh of `[T; N]`: no length prefix) -/
def deRep (f : List Nat → Option (DecodeArg × List Nat)) : Nat → List Nat → Option (List DecodeArg × List Nat)
  | 0, bs => some ([], bs)
  | n + 1, bs =>
    match f bs with
    | none => none
    | some (a, r) =>
      match deRep f n r with
      | none => none
      | some (as, r') => some (a :: as, r')

mutual
/-- borsh deserialization of a decode argument of the given type -/
def deArg : ArgTy → List Nat → Option (DecodeArg × List Nat)
  | .unit, bs => some (.unit, bs)
  | .len t, bs =>
    if bs.length < 8 then none
    else match deArg t (bs.drop 8) with
      | none => none
      | some (inner, r) => some (.len (rdLE (bs.take 8)) inner, r)
  | .each n t, bs =>
    match deRep (deArg t) n bs with
    | none => none
    | some (as, r) => some (.each as, r)
  | .arrEach n t, bs =>
    match deRep (deArg t) n bs with
    | none => none
    | some (as, r) => some (.arrEach as, r)
  | .fields ts, bs =>
    match deArgFields ts bs with
    | none => none
    | some (as, r) => some (.fields as, r)
def deArgFields : List ArgTy → List Nat → Option (List DecodeArg × List Nat)
  | [], bs => some ([], bs)
  | t :: ts, bs =>
    match deArg t bs with
    | none => none
    | some (a, r) =>
      match deArgFields ts r with
      | none => none
      | some (as, r') => some (a :: as, r')
end

mutual
/-- the argument value has the argument type -/
def hasTy : ArgTy → DecodeArg → Bool
  | .unit, .unit => true
  | .len t, .len _ inner => hasTy t inner
  | .each n t, .each as => as.length == n && as.all (hasTy t)
  | .arrEach n t, .arrEach as => as.length == n && as.all (hasTy t)
  | .fields ts, .fields as => hasTyFields ts as
  | _, _ => false
def hasTyFields : List ArgTy → List DecodeArg → Bool
  | [], [] => true
  | t :: ts, a :: as => hasTy t a && hasTyFields ts as
  | _, _ => false
end

mutual
/-- every vector length fits a `u64` -/
def argInRange : DecodeArg → Bool
  | .unit => true
  | .len n inner => decide (n < 256 ^ 8) && argInRange inner
  | .each as => argsInRange as
  | .arrEach as => argsInRange as
  | .fields as => argsInRange as
def argsInRange : List DecodeArg → Bool
  | [] => true
  | a :: as => argInRange a && argsInRange as
end

/-- the run arguments of the harness instructions: `{ a: u8, b: u64, c: bool, d: Vec<u8> }` -/
structure RunArgs where
  a : Nat
  b : Nat
  c : Bool
  d : List Nat
deriving Repr, DecidableEq

def RunArgs.WF (r : RunArgs) : Prop := r.a < 256 ∧ r.b < 256 ^ 8 ∧ r.d.length < 256 ^ 4 ∧ BytesWF r.d

def serRun (r : RunArgs) : List Nat :=
  r.a :: (leN 8 r.b ++ ((if r.c then 1 else 0) :: (leN 4 r.d.length ++ r.d)))

def deRun (bs : List Nat) : Option (RunArgs × List Nat) :=
  match bs with
  | [] => none
  | a :: bs =>
    if bs.length < 8 then none
    else
      let b := rdLE (bs.take 8)
      match bs.drop 8 with
      | [] => none
      | c :: bs =>
        if c ≠ 0 ∧ c ≠ 1 then none
        else if bs.length < 4 then none
        else
          let n := rdLE (bs.take 4)
          let bs := bs.drop 4
          if bs.length < n then none
          else some ({ a := a, b := b, c := (c == 1), d := bs.take n }, bs.drop n)

/-- `InstructionSet::dispatch`: read the 8 discriminant bytes, pick the instruction with that
discriminant (the `match` arms are pairwise distinct constants), hand it the rest. -/
def dispatch (table : List (List Nat)) (data : List Nat) : Option (Nat × List Nat) :=
  if data.length < 8 then none
  else
    let i := table.findIdx (· == data.take 8)
    if i < table.length then some (i, data.drop 8) else none

/-- `client::star_frame_instruction_data` / `CpiBuilder::invoke_signed`: discriminant ++ borsh. -/
def ixData (disc : List Nat) (payload : List Nat) : List Nat := disc ++ payload

inductive EntryErr
  | badData            -- discriminant / borsh failure: `InvalidInstructionData` & co.
  | decode (e : E)
deriving Repr, DecidableEq

structure RunOut where
  used : Nat
  rem : Nat
  val : SetVal
  v : Except VErr Unit
  args : RunArgs
deriving Repr

/-- The program's entry path for the harness instruction of a set: dispatch, borsh-decode
`{ d: decode arg, r: run args }`, decode the accounts, validate them. -/
def entry (table : List (List Nat)) (idx : Nat) (pid : Key) (s : SetShape) (ty : ArgTy)
    (data : List Nat) (accts : List Acct) : Except EntryErr RunOut :=
  match dispatch table data with
  | none => .error .badData
  | some (i, payload) =>
    if i ≠ idx then .error .badData
    else match deArg ty payload with
      | none => .error .badData
      | some (arg, r) =>
        match deRun r with
        | none => .error .badData
        | some (run, _) =>
          match decode pid s arg accts with
          | .error e => .error (.decode e)
          | .ok (sv, rest) =>
            .ok { used := accts.length - rest.length, rem := rest.length, val := sv,
                  v := validate s sv, args := run }

/-! ## `derive(InstructionArgs)`: which field of the instruction each phase receives

`star_frame_proc/src/instruction_args.rs`: the struct-level `#[ix_args(..)]` is handled first
(the phase gets the whole struct), then the fields in declaration order; for a field the generated
accessor is `r.<ident>` — for a tuple struct `r.<i>` with `i` the field's index among ALL fields
(`data_struct.fields.iter().enumerate()`). A phase nobody is annotated with gets `()`. -/

inductive Phase
  | decode | validate | run | cleanup
deriving Repr, DecidableEq

/-- the indices `i` of the generated `r.<i>` accessors of a phase, counting from `i₀` -/
def accessors (ph : Phase) : Nat → List (List Phase) → List Nat
  | _, [] => []
  | i, a :: as => if ph ∈ a then i :: accessors ph (i + 1) as else accessors ph (i + 1) as

/-- `InstructionArgs::split_to_args`, one phase: the values handed to it (the whole struct first if
the struct itself is annotated, then one per generated accessor). -/
def splitPhase (ph : Phase) (selfAnn : List Phase) (anns : List (List Phase)) (vals : List Nat) :
    List (List Nat) :=
  (if ph ∈ selfAnn then [vals] else []) ++
    (accessors ph 0 anns).filterMap (fun i => vals[i]?.map (fun x => [x]))

/-- borsh of a tuple struct of `n` `u8` fields -/
def deVals (n : Nat) (bs : List Nat) : Option (List Nat × List Nat) :=
  if bs.length < n then none else some (bs.take n, bs.drop n)

/-- the account set of the tuple-struct harness instructions: `{ v: Vec<AccountInfo> }` whose
length is the decode argument -/
def spyShape : SetShape := .struct [.vec (.single false false none [])]

structure TupleOut where
  used : Nat
  rem : Nat
  decoded : Nat
  validate : List (List Nat)
  run : List (List Nat)
  cleanup : List (List Nat)
deriving Repr

/-- Entry path of a tuple-struct harness instruction (`u8` fields; exactly one field annotated
`decode`, whose value is the length of the vector). -/
def entryTuple (table : List (List Nat)) (idx : Nat) (pid : Key) (selfAnn : List Phase)
    (anns : List (List Phase)) (data : List Nat) (accts : List Acct) : Except EntryErr TupleOut :=
  match dispatch table data with
  | none => .error .badData
  | some (i, payload) =>
    if i ≠ idx then .error .badData
    else match deVals anns.length payload with
      | none => .error .badData
      | some (vals, _) =>
        match splitPhase .decode selfAnn anns vals with
        | [[d]] =>
          match decode pid spyShape (.fields [.len d .unit]) accts with
          | .error e => .error (.decode e)
          | .ok (sv, rest) =>
            .ok { used := accts.length - rest.length, rem := rest.length,
                  decoded := (match sv with | .many [.many vs] => vs.length | _ => 0),
                  validate := splitPhase .validate selfAnn anns vals,
                  run := splitPhase .run selfAnn anns vals,
                  cleanup := splitPhase .cleanup selfAnn anns vals }
        | _ => .error .badData

end Account.Sets
