import Common.Bytes
/-!
# Model of the three views of an instruction's account set (C14)

* client view  — `ClientAccountSet::extend_account_metas`
  (`star_frame_proc/src/account_set/struct_impl/mod.rs` 242-262, 480-530; `impls/{option,vec,array,
  boxed,account_info}.rs`, `rest.rs`, `program.rs`, `sysvar.rs`);
* on-chain view — `AccountSetDecode::decode_accounts` (`struct_impl/decode.rs` 128-201 and the impls)
  followed by `AccountSetValidate::validate_accounts`;
* CPI view     — `CpiAccountSet::{to_cpi_accounts, write_account_metas, write_account_infos}` and
  the array length declared through `AccountLen` / `HandleCpiArray` (`cpi.rs`).

Every function recurses structurally on the *shape*; values are taken apart one level at a time.
Keys are byte lists; key comparison is list equality (`fast_32_byte_eq` = byte equality is C09's
`fastEq32_iff_eq`).
-/
namespace Account.Sets
open Common

abbrev Key := List Nat

/-- A client / CPI account meta. -/
structure Meta where
  key : Key
  signer : Bool
  writable : Bool
deriving Repr, DecidableEq

/-- What decode and validate see of a runtime `AccountInfo`. -/
structure Acct where
  key : Key
  signer : Bool
  writable : Bool
deriving Repr, DecidableEq

/-- Shapes of account sets built from the framework's building blocks. -/
inductive SetShape
  /-- a `SingleAccountSet`: `AccountInfo` under any stack of `Signer`/`Mut`, `Program<P>`, `Sysvar<S>`;
  `signer`/`writable` are its static `SingleSetMeta`; `fixedKey` is the address validation requires
  (and the client's default key for a bare `Program`/`Sysvar`). -/
  | single (signer writable : Bool) (fixedKey : Option Key)
  | opt (s : SetShape)
  | vec (s : SetShape)
  | arr (n : Nat) (s : SetShape)
  | boxed (s : SetShape)
  | struct (fs : List SetShape)
  | rest (s : SetShape)
deriving Repr

/-- What the client supplies (`ClientAccounts`). -/
inductive ClientVal
  /-- key of a single account; `none` = the default of a bare `Program`/`Sysvar` -/
  | key (k : Option Key)
  | absent
  | present (v : ClientVal)
  /-- elements of a vec / array / rest, or the fields of a struct -/
  | many (vs : List ClientVal)
deriving Repr

/-- A decoded account set (also the `CpiAccounts` made from it by `to_cpi_accounts`). -/
inductive SetVal
  | acct (a : Acct)
  | absent
  | present (v : SetVal)
  | many (vs : List SetVal)
deriving Repr

/-- Decode arguments: `()`; `(len, inner)` for a `Vec`; one per field for a struct. `Option`,
`Box`, arrays (`(arg,)` form, of which `()` is an instance) and `Rest` pass theirs through. -/
inductive DecodeArg
  | unit
  | len (n : Nat) (inner : DecodeArg)
  | fields (as : List DecodeArg)
deriving Repr

inductive E
  | notEnough              -- `try_advance_array` failed: "Not enough accounts to decode AccountInfo"
  | badArg                 -- the decode argument does not have the type the shape needs (a compile error in Rust)
  | badVal                 -- the value does not have the shape's type (a compile error in Rust)
  | diverge                -- `Rest<T>` whose `T` decodes without consuming: the `while` loop never ends
  | missingOptionalProgram -- `ErrorCode::MissingOptionalProgram`
  | tooMany                -- more than 64 accounts written into a dynamic CPI array (index panic)
  | noCpiArray             -- `AccountLen` has no `HandleCpiArray` impl (64..99, or > 100): does not compile
deriving Repr, DecidableEq

/-! ## Client view -/

def placeholder (pid : Key) : Meta := { key := pid, signer := false, writable := false }

mutual
/-- `ClientAccountSet::extend_account_metas` (the metas pushed, in order). -/
def clientMetas (pid : Key) : SetShape → ClientVal → List Meta
  | .single sg wr fk, .key k => [{ key := k.getD (fk.getD []), signer := sg, writable := wr }]
  | .opt _, .absent => [placeholder pid]
  | .opt s, .present v => clientMetas pid s v
  | .vec s, .many vs => vs.flatMap (clientMetas pid s)
  | .arr _ s, .many vs => vs.flatMap (clientMetas pid s)
  | .rest s, .many vs => vs.flatMap (clientMetas pid s)
  | .boxed s, v => clientMetas pid s v
  | .struct fs, .many vs => clientMetasFields pid fs vs
  | _, _ => []
def clientMetasFields (pid : Key) : List SetShape → List ClientVal → List Meta
  | s :: fs, v :: vs => clientMetas pid s v ++ clientMetasFields pid fs vs
  | _, _ => []
end

mutual
/-- `ClientAccountSet::MIN_LEN`. -/
def minLen : SetShape → Nat
  | .single .. => 1
  | .opt _ => 1
  | .vec _ => 0
  | .arr n s => n * minLen s
  | .boxed s => minLen s
  | .struct fs => minLenFields fs
  | .rest _ => 0
def minLenFields : List SetShape → Nat
  | [] => 0
  | s :: fs => minLen s + minLenFields fs
end

/-! ## On-chain view: decode -/

/-- `len` sequential decodes (`Vec<T>` with a length argument, `[T; N]`). -/
def iterN (f : List Acct → Except E (SetVal × List Acct)) : Nat → List Acct → Except E (List SetVal × List Acct)
  | 0, accts => .ok ([], accts)
  | n + 1, accts =>
    match f accts with
    | .error e => .error e
    | .ok (v, r) =>
      match iterN f n r with
      | .error e => .error e
      | .ok (vs, r') => .ok (v :: vs, r')

/-- `Rest<T>`: `while !accounts.is_empty() { out.push(T::decode_accounts(..)?) }`. The fuel is the
number of accounts; it runs out only if some iteration consumed nothing (the real loop then never
terminates). -/
def iterRest (f : List Acct → Except E (SetVal × List Acct)) : Nat → List Acct → Except E (List SetVal × List Acct)
  | _, [] => .ok ([], [])
  | 0, _ :: _ => .error .diverge
  | fuel + 1, a :: r =>
    match f (a :: r) with
    | .error e => .error e
    | .ok (v, r') =>
      match iterRest f fuel r' with
      | .error e => .error e
      | .ok (vs, r'') => .ok (v :: vs, r'')

mutual
/-- `AccountSetDecode::decode_accounts`: the decoded set and the accounts left over. -/
def decode (pid : Key) : SetShape → DecodeArg → List Acct → Except E (SetVal × List Acct)
  | .single .., _, accts =>
    match accts with
    | [] => .error .notEnough
    | a :: r => .ok (.acct a, r)
  | .opt s, arg, accts =>
    match accts with
    | [] => .ok (.absent, [])
    | a :: r =>
      if a.key = pid then .ok (.absent, r)
      else match decode pid s arg (a :: r) with
        | .error e => .error e
        | .ok (v, r') => .ok (.present v, r')
  | .vec s, arg, accts =>
    match arg with
    | .len n inner =>
      match iterN (decode pid s inner) n accts with
      | .error e => .error e
      | .ok (vs, r) => .ok (.many vs, r)
    | _ => .error .badArg
  | .arr n s, arg, accts =>
    match iterN (decode pid s arg) n accts with
    | .error e => .error e
    | .ok (vs, r) => .ok (.many vs, r)
  | .boxed s, arg, accts => decode pid s arg accts
  | .struct fs, arg, accts =>
    match arg with
    | .fields as =>
      match decodeFields pid fs as accts with
      | .error e => .error e
      | .ok (vs, r) => .ok (.many vs, r)
    | _ => .error .badArg
  | .rest s, arg, accts =>
    match iterRest (decode pid s arg) accts.length accts with
    | .error e => .error e
    | .ok (vs, r) => .ok (.many vs, r)
/-- the generated struct decode: fields in declaration order, each with its own argument -/
def decodeFields (pid : Key) : List SetShape → List DecodeArg → List Acct → Except E (List SetVal × List Acct)
  | [], [], accts => .ok ([], accts)
  | s :: fs, a :: as, accts =>
    match decode pid s a accts with
    | .error e => .error e
    | .ok (v, r) =>
      match decodeFields pid fs as r with
      | .error e => .error e
      | .ok (vs, r') => .ok (v :: vs, r')
  | _, _, _ => .error .badArg
end

/-! ## On-chain view: validate (only what C14 needs: flags and fixed addresses; C09 has the rest) -/

inductive VErr
  | key | signer | writable | badVal
deriving Repr, DecidableEq

def allOk {α : Type} (f : α → Except VErr Unit) : List α → Except VErr Unit
  | [] => .ok ()
  | x :: xs => match f x with
    | .error e => .error e
    | .ok () => allOk f xs

mutual
def validate : SetShape → SetVal → Except VErr Unit
  | .single sg wr fk, .acct a =>
    if fk.isSome ∧ fk ≠ some a.key then .error .key
    else if sg ∧ ¬ a.signer then .error .signer
    else if wr ∧ ¬ a.writable then .error .writable
    else .ok ()
  | .opt _, .absent => .ok ()
  | .opt s, .present v => validate s v
  | .vec s, .many vs => allOk (validate s) vs
  | .arr _ s, .many vs => allOk (validate s) vs
  | .rest s, .many vs => allOk (validate s) vs
  | .boxed s, v => validate s v
  | .struct fs, .many vs => validateFields fs vs
  | _, _ => .error .badVal
def validateFields : List SetShape → List SetVal → Except VErr Unit
  | [], [] => .ok ()
  | s :: fs, v :: vs =>
    match validate s v with
    | .error e => .error e
    | .ok () => validateFields fs vs
  | _, _ => .error .badVal
end

/-! ## CPI view -/

mutual
/-- `CpiAccountSet::write_account_metas` on `to_cpi_accounts` of a decoded set. -/
def cpiMetas (pid : Key) : SetShape → SetVal → List Meta
  | .single sg wr _, .acct a => [{ key := a.key, signer := sg, writable := wr }]
  | .opt _, .absent => [placeholder pid]
  | .opt s, .present v => cpiMetas pid s v
  | .vec s, .many vs => vs.flatMap (cpiMetas pid s)
  | .arr _ s, .many vs => vs.flatMap (cpiMetas pid s)
  | .rest s, .many vs => vs.flatMap (cpiMetas pid s)
  | .boxed s, v => cpiMetas pid s v
  | .struct fs, .many vs => cpiMetasFields pid fs vs
  | _, _ => []
def cpiMetasFields (pid : Key) : List SetShape → List SetVal → List Meta
  | s :: fs, v :: vs => cpiMetas pid s v ++ cpiMetasFields pid fs vs
  | _, _ => []
end

/-- sequential `?` over a list -/
def collectE (f : SetVal → Except E (List Acct)) : List SetVal → Except E (List Acct)
  | [] => .ok []
  | v :: vs =>
    match f v with
    | .error e => .error e
    | .ok xs =>
      match collectE f vs with
      | .error e => .error e
      | .ok ys => .ok (xs ++ ys)

mutual
/-- `CpiAccountSet::write_account_infos`; `prog` is the program `AccountInfo` handed to the builder
(`None` unless `ContainsOption = True`). -/
def cpiInfos (prog : Option Acct) : SetShape → SetVal → Except E (List Acct)
  | .single .., .acct a => .ok [a]
  | .opt _, .absent =>
    match prog with
    | some p => .ok [p]
    | none => .error .missingOptionalProgram
  | .opt s, .present v => cpiInfos prog s v
  | .vec s, .many vs => collectE (cpiInfos prog s) vs
  | .arr _ s, .many vs => collectE (cpiInfos prog s) vs
  | .rest s, .many vs => collectE (cpiInfos prog s) vs
  | .boxed s, v => cpiInfos prog s v
  | .struct fs, .many vs => cpiInfosFields prog fs vs
  | _, _ => .error .badVal
def cpiInfosFields (prog : Option Acct) : List SetShape → List SetVal → Except E (List Acct)
  | [], [] => .ok []
  | s :: fs, v :: vs =>
    match cpiInfos prog s v with
    | .error e => .error e
    | .ok xs =>
      match cpiInfosFields prog fs vs with
      | .error e => .error e
      | .ok ys => .ok (xs ++ ys)
  | _, _ => .error .badVal
end

/-- `DynamicCpiAccountSetLen = typenum::U100`, the sentinel for "dynamic". -/
def dynLen : Nat := 100

mutual
/-- `CpiAccountSet::AccountLen` (as a number). -/
def accountLen : SetShape → Nat
  | .single .. => 1
  | .opt s => if accountLen s = 1 then 1 else dynLen
  | .vec _ => dynLen
  | .arr n s => accountLen s * n
  | .boxed s => accountLen s
  | .struct fs => min (accountLenFields fs) dynLen
  | .rest _ => dynLen
def accountLenFields : List SetShape → Nat
  | [] => 0
  | s :: fs => accountLen s + accountLenFields fs
end

mutual
/-- `CpiAccountSet::ContainsOption`. NB `[T; N]` says `False` whatever `T` says (array.rs:21). -/
def containsOption : SetShape → Bool
  | .single .. => false
  | .opt _ => true
  | .vec s => containsOption s
  | .arr _ _ => false
  | .boxed s => containsOption s
  | .struct fs => containsOptionFields fs
  | .rest s => containsOption s
def containsOptionFields : List SetShape → Bool
  | [] => false
  | s :: fs => containsOption s || containsOptionFields fs
end

/-- Length of the `MaybeUninit` arrays `HandleCpiArray` allocates: exact for `U0..U63`, 64 for the
dynamic sentinel, no impl otherwise. -/
def declaredLen (s : SetShape) : Option Nat :=
  let n := accountLen s
  if n = dynLen then some 64 else if n < 64 then some n else none

/-- What `CpiBuilder::invoke_signed` hands to the runtime. -/
structure CpiView where
  metas : List Meta
  infos : List Acct
  declared : Nat
deriving Repr

/-- `CpiBuilder::invoke_signed` up to the syscall: infos first (may fail), then metas; writing past
the declared array is an index panic; a fixed-size array must be filled exactly (`assert_eq!`). -/
def cpi (pid : Key) (prog : Option Acct) (s : SetShape) (sv : SetVal) : Except E CpiView :=
  match declaredLen s with
  | none => .error .noCpiArray
  | some d =>
    match cpiInfos (if containsOption s then prog else none) s sv with
    | .error e => .error e
    | .ok infos =>
      let metas := cpiMetas pid s sv
      if d < infos.length ∨ d < metas.length then .error .tooMany
      else .ok { metas, infos, declared := d }

/-! ## Relating the views -/

mutual
/-- The client value a decoded set denotes. -/
def toClient : SetShape → SetVal → ClientVal
  | .single .., .acct a => .key (some a.key)
  | .opt _, .absent => .absent
  | .opt s, .present v => .present (toClient s v)
  | .vec s, .many vs => .many (vs.map (toClient s))
  | .arr _ s, .many vs => .many (vs.map (toClient s))
  | .rest s, .many vs => .many (vs.map (toClient s))
  | .boxed s, v => toClient s v
  | .struct fs, .many vs => .many (toClientFields fs vs)
  | _, _ => .many []
def toClientFields : List SetShape → List SetVal → List ClientVal
  | s :: fs, v :: vs => toClient s v :: toClientFields fs vs
  | _, _ => []
end

mutual
/-- The client value with default keys filled in. -/
def resolve : SetShape → ClientVal → ClientVal
  | .single _ _ fk, .key k => .key (some (k.getD (fk.getD [])))
  | .opt _, .absent => .absent
  | .opt s, .present v => .present (resolve s v)
  | .vec s, .many vs => .many (vs.map (resolve s))
  | .arr _ s, .many vs => .many (vs.map (resolve s))
  | .rest s, .many vs => .many (vs.map (resolve s))
  | .boxed s, v => resolve s v
  | .struct fs, .many vs => .many (resolveFields fs vs)
  | _, _ => .many []
def resolveFields : List SetShape → List ClientVal → List ClientVal
  | s :: fs, v :: vs => resolve s v :: resolveFields fs vs
  | _, _ => []
end

end Account.Sets
