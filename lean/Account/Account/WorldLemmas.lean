import Account.World
/-! Lemmas about `World.set`, `total` and the System-program model (used by C12 / C13). -/
namespace Account.World

@[simp] theorem set_same (w : World) (k : Key) (a : Acct) : (w.set k a) k = a := by
  simp [World.set]

theorem set_other (w : World) {k k' : Key} (a : Acct) (h : k' ≠ k) : (w.set k a) k' = w k' := by
  simp [World.set, h]

@[simp] theorem setLamports_same (w : World) (k : Key) (n : Nat) :
    (setLamports w k n) k = { w k with lamports := n } := by
  simp [setLamports]

theorem setLamports_other (w : World) {k k' : Key} (n : Nat) (h : k' ≠ k) :
    (setLamports w k n) k' = w k' := by
  simp [setLamports, set_other _ _ h]

theorem setLamports_data (w : World) (k k' : Key) (n : Nat) : ((setLamports w k n) k').data = (w k').data := by
  by_cases h : k' = k
  · subst h; simp
  · rw [setLamports_other _ _ h]

theorem setLamports_owner (w : World) (k k' : Key) (n : Nat) : ((setLamports w k n) k').owner = (w k').owner := by
  by_cases h : k' = k
  · subst h; simp
  · rw [setLamports_other _ _ h]

theorem total_set_notmem (ks : List Key) (w : World) (k : Key) (a : Acct) (h : k ∉ ks) :
    total ks (w.set k a) = total ks w := by
  induction ks with
  | nil => rfl
  | cons x xs ih =>
    have hx : x ≠ k := fun e => h (by simp [e])
    have hxs : k ∉ xs := fun e => h (by simp [e])
    simp only [total, List.map_cons, List.sum_cons] at ih ⊢
    rw [set_other _ _ hx, ih hxs]

/-- Updating one listed account changes the total by exactly its balance change. -/
theorem total_set (ks : List Key) (w : World) (k : Key) (a : Acct) (hnd : ks.Nodup) (hk : k ∈ ks) :
    total ks (w.set k a) + (w k).lamports = total ks w + a.lamports := by
  induction ks with
  | nil => simp at hk
  | cons x xs ih =>
    have hnd' := List.nodup_cons.mp hnd
    by_cases hx : x = k
    · subst hx
      have := total_set_notmem xs w x a hnd'.1
      simp only [total, List.map_cons, List.sum_cons] at this ⊢
      rw [this, set_same]; omega
    · have hk' : k ∈ xs := by
        cases List.mem_cons.mp hk with
        | inl e => exact absurd e.symm hx
        | inr m => exact m
      have := ih hnd'.2 hk'
      simp only [total, List.map_cons, List.sum_cons] at this ⊢
      rw [set_other _ _ hx]; omega

theorem total_setLamports (ks : List Key) (w : World) (k : Key) (n : Nat) (hnd : ks.Nodup)
    (hk : k ∈ ks) : total ks (setLamports w k n) + (w k).lamports = total ks w + n := by
  have := total_set ks w k { w k with lamports := n } hnd hk
  simpa [setLamports] using this

/-- An update that keeps the balance keeps the total. -/
theorem total_set_eq (ks : List Key) (w : World) (k : Key) (a : Acct) (hnd : ks.Nodup)
    (h : a.lamports = (w k).lamports) : total ks (w.set k a) = total ks w := by
  by_cases hk : k ∈ ks
  · have := total_set ks w k a hnd hk; omega
  · exact total_set_notmem ks w k a hk

/-- A listed account's balance is at most the total. -/
theorem le_total (ks : List Key) (w : World) (k : Key) (hk : k ∈ ks) : (w k).lamports ≤ total ks w := by
  induction ks with
  | nil => simp at hk
  | cons x xs ih =>
    simp only [total, List.map_cons, List.sum_cons] at ih ⊢
    cases List.mem_cons.mp hk with
    | inl e => subst e; omega
    | inr m => have := ih m; omega

/-- Two distinct listed accounts: the sum of their balances is at most the total. -/
theorem add_le_total (ks : List Key) (w : World) (a b : Key) (hnd : ks.Nodup) (ha : a ∈ ks)
    (hb : b ∈ ks) (hab : a ≠ b) : (w a).lamports + (w b).lamports ≤ total ks w := by
  induction ks with
  | nil => simp at ha
  | cons x xs ih =>
    have hnd' := List.nodup_cons.mp hnd
    simp only [total, List.map_cons, List.sum_cons] at ih ⊢
    cases List.mem_cons.mp ha with
    | inl ea =>
      cases List.mem_cons.mp hb with
      | inl eb => exact absurd (ea.trans eb.symm) hab
      | inr mb => have := le_total xs w b mb; simp only [total] at this; subst ea; omega
    | inr ma =>
      cases List.mem_cons.mp hb with
      | inl eb => have := le_total xs w a ma; simp only [total] at this; subst eb; omega
      | inr mb => have := ih hnd'.2 ma mb; omega

/-- Moving `n` lamports from `a` to `b` (debit first, then credit on the updated world). -/
def move (w : World) (a b : Key) (n : Nat) : World :=
  let w1 := setLamports w a ((w a).lamports - n)
  setLamports w1 b ((w1 b).lamports + n)

theorem total_move (ks : List Key) (w : World) (a b : Key) (n : Nat) (hnd : ks.Nodup)
    (ha : a ∈ ks) (hb : b ∈ ks) (hn : n ≤ (w a).lamports) : total ks (move w a b n) = total ks w := by
  unfold move
  have h1 := total_setLamports ks w a ((w a).lamports - n) hnd ha
  have h2 := total_setLamports ks (setLamports w a ((w a).lamports - n)) b
    (((setLamports w a ((w a).lamports - n)) b).lamports + n) hnd hb
  simp only [] at h2 ⊢
  omega

theorem move_other (w : World) {a b k : Key} (n : Nat) (ha : k ≠ a) (hb : k ≠ b) :
    (move w a b n) k = w k := by
  simp [move, setLamports_other _ _ hb, setLamports_other _ _ ha]

/-! ## The System program -/

theorem transfer_ok {sg : List Key} {w w' : World} {src dst : Key} {n : Nat}
    (h : transfer sg w src dst n = .ok w') :
    w' = move w src dst n ∧ n ≤ (w src).lamports ∧ sg.contains src = true ∧ (w src).data = [] := by
  unfold transfer at h
  split at h; · cases h
  split at h; · cases h
  split at h; · cases h
  split at h; · cases h
  simp only [] at h
  split at h; · cases h
  rename_i h1 h2 h3 h4 h5
  injection h with h
  refine ⟨by rw [← h]; rfl, by omega, by simpa using h1, by simpa using h2⟩

/-- The credit of a `Transfer` cannot wrap when the two balances together stay below `2^64`. -/
theorem transfer_no_overflow {sg : List Key} {w : World} {src dst : Key} {n : Nat} (hne : src ≠ dst)
    (hsum : (w src).lamports + (w dst).lamports < 2 ^ 64) :
    transfer sg w src dst n ≠ .error .arithmeticOverflow := by
  have hne' : dst ≠ src := fun e => hne e.symm
  unfold transfer
  split; · simp
  split; · simp
  split; · simp
  split; · simp
  simp only []
  rename_i h3 _
  rw [setLamports_other _ _ hne']
  split
  · rename_i hov; exfalso; omega
  · simp

theorem allocate_ok {sg : List Key} {w w' : World} {k : Key} {sp : Nat}
    (h : allocate sg w k sp = .ok w') :
    w' = w.set k { w k with data := List.replicate sp 0 } ∧ (w k).data = [] ∧ (w k).owner = systemId
      ∧ sg.contains k = true := by
  unfold allocate at h
  split at h; · cases h
  split at h; · cases h
  split at h; · cases h
  rename_i h1 h2 h3
  injection h with h
  have h2' : (w k).data = [] ∧ (w k).owner = systemId := by
    constructor
    · exact Classical.byContradiction fun hh => h2 (Or.inl hh)
    · exact Classical.byContradiction fun hh => h2 (Or.inr hh)
  exact ⟨h.symm, h2'.1, h2'.2, by simpa using h1⟩

theorem assign_ok {sg : List Key} {w w' : World} {k o : Key} (h : assign sg w k o = .ok w') :
    w' = w.set k { w k with owner := o } := by
  unfold assign at h
  split at h
  · rename_i he
    injection h with h
    rw [← h]
    funext k'
    by_cases hk : k' = k
    · subst hk; simp [he.symm]
    · simp [set_other _ _ hk]
  split at h; · cases h
  split at h; · cases h
  split at h; · cases h
  injection h with h
  exact h.symm

/-- Every successful System instruction conserves the total of any duplicate-free key list that
contains the instruction's accounts. -/
theorem sys_conserves (ix : SysIx) (sg : List Key) (w w' : World) (ks : List Key) (hnd : ks.Nodup)
    (hin : ∀ k ∈ ix.accounts, k ∈ ks) (h : sys ix sg w = .ok w') : total ks w' = total ks w := by
  cases ix with
  | createAccount s d l sp o =>
    simp only [sys, createAccount] at h
    split at h; · cases h
    split at h; · cases h
    rename_i w1 h1
    split at h; · cases h
    rename_i w2 h2
    have hs : s ∈ ks := hin s (by simp [SysIx.accounts])
    have hd : d ∈ ks := hin d (by simp [SysIx.accounts])
    obtain ⟨e1, -, -, -⟩ := allocate_ok h1
    have e2 := assign_ok h2
    obtain ⟨e3, hn, -, -⟩ := transfer_ok h
    rw [e3, total_move ks w2 s d l hnd hs hd hn, e2]
    have t2 := total_set ks w1 d { w1 d with owner := o } hnd hd
    have t1 := total_set ks w d { w d with data := List.replicate sp 0 } hnd hd
    rw [e1] at t2 ⊢
    simp only [set_same] at t2 t1 ⊢
    omega
  | assign k o =>
    simp only [sys] at h
    have e := assign_ok h
    rw [e]; exact total_set_eq ks w k _ hnd rfl
  | transfer s d l =>
    simp only [sys] at h
    obtain ⟨e, hn, -, -⟩ := transfer_ok h
    rw [e]
    exact total_move ks w s d l hnd (hin s (by simp [SysIx.accounts])) (hin d (by simp [SysIx.accounts])) hn
  | allocate k sp =>
    simp only [sys] at h
    obtain ⟨e, -, -, -⟩ := allocate_ok h
    rw [e]; exact total_set_eq ks w k _ hnd rfl

/-- Frame: an account that is not an instruction account is untouched. -/
theorem sys_frame (ix : SysIx) (sg : List Key) (w w' : World) (k : Key)
    (hk : k ∉ ix.accounts) (h : sys ix sg w = .ok w') : w' k = w k := by
  cases ix with
  | createAccount s d l sp o =>
    simp only [sys, createAccount] at h
    split at h; · cases h
    split at h; · cases h
    rename_i w1 h1
    split at h; · cases h
    rename_i w2 h2
    simp only [SysIx.accounts, List.mem_cons, List.not_mem_nil, or_false, not_or] at hk
    obtain ⟨e1, -, -, -⟩ := allocate_ok h1
    have e2 := assign_ok h2
    obtain ⟨e3, -, -, -⟩ := transfer_ok h
    rw [e3, move_other _ _ hk.1 hk.2, e2, set_other _ _ hk.2, e1, set_other _ _ hk.2]
  | assign a o =>
    simp only [sys] at h
    simp only [SysIx.accounts, List.mem_cons, List.not_mem_nil, or_false] at hk
    rw [assign_ok h, set_other _ _ hk]
  | transfer s d l =>
    simp only [sys] at h
    simp only [SysIx.accounts, List.mem_cons, List.not_mem_nil, or_false, not_or] at hk
    rw [(transfer_ok h).1, move_other _ _ hk.1 hk.2]
  | allocate a sp =>
    simp only [sys] at h
    simp only [SysIx.accounts, List.mem_cons, List.not_mem_nil, or_false] at hk
    rw [(allocate_ok h).1, set_other _ _ hk]

end Account.World
