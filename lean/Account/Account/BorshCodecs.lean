import Account.Borsh
/-!
# The two concrete borsh account types of the harness (`harness/hx-progacct/src/progs.rs`)

* `Fix { a: u16, b: u8 }` — fixed size (3 bytes);
* `Unit` — a unit struct, EMPTY serialization (an account of this type is exactly its discriminant);
* `Var { tag: u8, bytes: Vec<u8>, name: String }` — variable size (`u32` length prefixes; the
  `String` must be valid UTF-8, as `String::from_utf8` checks).

These instantiate the `Codec` parameter of `Account/Borsh.lean` in the model drivers; `CodecOK` is
proved for both in `BorshCodecsLemmas.lean`.
-/
namespace Account.Borsh
open Common

inductive Val
  | fix (a b : Nat)
  | var (tag : Nat) (bytes name : List Nat)
  | unit
deriving Repr, DecidableEq

def isCont (b : Nat) : Bool := decide (0x80 ≤ b) && decide (b ≤ 0xBF)
def inR (b lo hi : Nat) : Bool := decide (lo ≤ b) && decide (b ≤ hi)

/-- Well-formed UTF-8 (Unicode table 3-7), what `core::str::from_utf8` accepts. -/
def utf8Valid : List Nat → Bool
  | [] => true
  | b0 :: rest =>
    if b0 < 0x80 then utf8Valid rest
    else if inR b0 0xC2 0xDF then
      match rest with
      | b1 :: r => isCont b1 && utf8Valid r
      | _ => false
    else if inR b0 0xE0 0xEF then
      match rest with
      | b1 :: b2 :: r =>
        inR b1 (if b0 = 0xE0 then 0xA0 else 0x80) (if b0 = 0xED then 0x9F else 0xBF) &&
          isCont b2 && utf8Valid r
      | _ => false
    else if inR b0 0xF0 0xF4 then
      match rest with
      | b1 :: b2 :: b3 :: r =>
        inR b1 (if b0 = 0xF0 then 0x90 else 0x80) (if b0 = 0xF4 then 0x8F else 0xBF) &&
          isCont b2 && isCont b3 && utf8Valid r
      | _ => false
    else false

def serVal : Val → List Nat
  | .fix a b => leN 2 a ++ leN 1 b
  | .var tag bytes name => [tag] ++ (leN 4 bytes.length ++ (bytes ++ (leN 4 name.length ++ name)))
  | .unit => []

/-- `Fix::try_from_slice`. -/
def deFix (l : List Nat) : Option Val :=
  if l.length = 3 then some (.fix (rdLE (l.take 2)) (rdLE (l.drop 2))) else none

/-- `Var::try_from_slice`: every failure (short input, trailing bytes, invalid UTF-8) is a borsh
`io::Error`. -/
def deVar : List Nat → Option Val
  | [] => none
  | tag :: rest =>
    if rest.length < 4 then none else
    let n := rdLE (rest.take 4)
    let r1 := rest.drop 4
    if r1.length < n then none else
    let bytes := r1.take n
    let r2 := r1.drop n
    if r2.length < 4 then none else
    let m := rdLE (r2.take 4)
    let r3 := r2.drop 4
    if r3.length ≠ m then none else
    if utf8Valid r3 then some (.var tag bytes r3) else none

/-- `Unit` (a unit struct: empty serialization). -/
def unitCodec : Codec Val where
  ser := serVal
  de := fun l => if l = [] then some .unit else none
  objLen := fun v => (serVal v).length
  valid := fun v => v = .unit

def fixCodec : Codec Val where
  ser := serVal
  de := deFix
  objLen := fun v => (serVal v).length
  valid := fun v => match v with
    | .fix a b => a < 65536 ∧ b < 256
    | _ => False

def varCodec : Codec Val where
  ser := serVal
  de := deVar
  objLen := fun v => (serVal v).length
  valid := fun v => match v with
    | .var tag bytes name =>
      tag < 256 ∧ bytes.length < 2 ^ 32 ∧ name.length < 2 ^ 32 ∧ utf8Valid name = true
    | _ => False

end Account.Borsh
