import Common.Bytes
/-!
# The account world and the System program (C12, C13)

`World` maps a key to `{lamports, owner, data}`. `sys` is a model of the four System-program
instructions the framework issues (`CreateAccount`, `Transfer`, `Allocate`, `Assign`), written from
`solana-system-program 3.0.10` `system_processor.rs` and the `BorrowedAccount` setters of
`solana-transaction-context 3.0.10` (`set_lamports`, `set_owner`, `set_data_length`), with every
instruction account passed writable (the framework's `…CpiAccounts` are all `Mut<…>`), the System
program as the executing program, and every account distinct from the System program itself:

* `allocate`: address must sign; `data ≠ [] ∨ owner ≠ System` → `AccountAlreadyInUse` (Custom 0);
  `space > 10 MiB` → `InvalidAccountDataLength` (Custom 3); data := `space` zero bytes.
* `assign`: same owner → `Ok` (before the signer check); address must sign; `set_owner`: account
  must be owned by the System program and its data all zero, else `ModifiedProgramId`.
* `create_account`: `to.lamports > 0` → `AccountAlreadyInUse`; allocate; assign; transfer.
* `transfer`: `from` must sign; `from.data ≠ []` → `InvalidArgument`; `lamports > from.lamports` →
  `ResultWithNegativeLamports` (Custom 1); debit (`ExternalAccountLamportSpend` when `from` is not
  System-owned and the balance would decrease); credit (`ArithmeticOverflow` at 2^64).

The harness executes the REAL builtin (mollusk-svm) for every intercepted CPI; this model is diffed
against it on every case.
-/
namespace Account.World
open Common

/-- 32-byte keys as byte lists. -/
abbrev Key := List Nat

def systemId : Key := List.replicate 32 0

structure Acct where
  lamports : Nat
  owner : Key
  data : List Nat
deriving DecidableEq, Repr

def World := Key → Acct

def World.set (w : World) (k : Key) (a : Acct) : World := fun k' => if k' = k then a else w k'

/-- Sum of the balances of the listed accounts. -/
def total (ks : List Key) (w : World) : Nat := (ks.map fun k => (w k).lamports).sum

def setLamports (w : World) (k : Key) (n : Nat) : World := w.set k { w k with lamports := n }

inductive SysIx
  | createAccount (src dst : Key) (lamports space : Nat) (owner : Key)
  | assign (acct : Key) (owner : Key)
  | transfer (src dst : Key) (lamports : Nat)
  | allocate (acct : Key) (space : Nat)
deriving DecidableEq, Repr

inductive SysErr
  | missingRequiredSignature
  | accountAlreadyInUse          -- SystemError 0
  | resultWithNegativeLamports   -- SystemError 1
  | invalidAccountDataLength     -- SystemError 3
  | invalidArgument
  | externalAccountLamportSpend
  | modifiedProgramId
  | arithmeticOverflow
deriving DecidableEq, Repr

def MAX_PERMITTED_DATA_LENGTH : Nat := 10 * 1024 * 1024

def allocate (sg : List Key) (w : World) (k : Key) (space : Nat) : Except SysErr World :=
  if !sg.contains k then .error .missingRequiredSignature
  else if (w k).data ≠ [] ∨ (w k).owner ≠ systemId then .error .accountAlreadyInUse
  else if space > MAX_PERMITTED_DATA_LENGTH then .error .invalidAccountDataLength
  else .ok (w.set k { w k with data := List.replicate space 0 })

def assign (sg : List Key) (w : World) (k : Key) (owner : Key) : Except SysErr World :=
  if (w k).owner = owner then .ok w
  else if !sg.contains k then .error .missingRequiredSignature
  else if (w k).owner ≠ systemId then .error .modifiedProgramId
  else if !(w k).data.all (· == 0) then .error .modifiedProgramId
  else .ok (w.set k { w k with owner := owner })

def transfer (sg : List Key) (w : World) (src dst : Key) (n : Nat) : Except SysErr World :=
  if !sg.contains src then .error .missingRequiredSignature
  else if (w src).data ≠ [] then .error .invalidArgument
  else if n > (w src).lamports then .error .resultWithNegativeLamports
  else if (w src).owner ≠ systemId ∧ n > 0 then .error .externalAccountLamportSpend
  else
    let w1 := setLamports w src ((w src).lamports - n)
    if (w1 dst).lamports + n ≥ 2 ^ 64 then .error .arithmeticOverflow
    else .ok (setLamports w1 dst ((w1 dst).lamports + n))

def createAccount (sg : List Key) (w : World) (src dst : Key) (lamports space : Nat) (owner : Key) :
    Except SysErr World :=
  if (w dst).lamports > 0 then .error .accountAlreadyInUse
  else match allocate sg w dst space with
    | .error e => .error e
    | .ok w1 => match assign sg w1 dst owner with
      | .error e => .error e
      | .ok w2 => transfer sg w2 src dst lamports

/-- One System-program instruction under the effective signer set `sg`. -/
def sys (ix : SysIx) (sg : List Key) (w : World) : Except SysErr World :=
  match ix with
  | .createAccount s d l sp o => createAccount sg w s d l sp o
  | .assign k o => assign sg w k o
  | .transfer s d l => transfer sg w s d l
  | .allocate k sp => allocate sg w k sp

/-- The instruction accounts, in meta order. -/
def SysIx.accounts : SysIx → List Key
  | .createAccount s d _ _ _ => [s, d]
  | .assign k _ => [k]
  | .transfer s d _ => [s, d]
  | .allocate k _ => [k]

/-- Accounts whose meta is flagged `is_signer` by the framework's `…CpiAccounts` types
(`Mut<Signer>` everywhere except the transfer recipient). -/
def SysIx.metaSigners : SysIx → List Key
  | .createAccount s d _ _ _ => [s, d]
  | .assign k _ => [k]
  | .transfer s _ _ => [s]
  | .allocate k _ => [k]

end Account.World
