import Account.Modifiers
namespace Account.Modifiers
open Common

theorem split32 (a : List Nat) (h : a.length = 32) :
    a = a.take 8 ++ ((a.drop 8).take 8 ++ ((a.drop 16).take 8 ++ (a.drop 24).take 8)) := by
  have h1 : a = a.take 8 ++ a.drop 8 := (List.take_append_drop 8 a).symm
  have h2 : a.drop 8 = (a.drop 8).take 8 ++ a.drop 16 := by
    have := (List.take_append_drop 8 (a.drop 8)).symm
    simpa [List.drop_drop] using this
  have h3 : a.drop 16 = (a.drop 16).take 8 ++ a.drop 24 := by
    have := (List.take_append_drop 8 (a.drop 16)).symm
    simpa [List.drop_drop] using this
  have h4 : a.drop 24 = (a.drop 24).take 8 := by
    rw [List.take_of_length_le]; simp [h]
  conv => lhs; rw [h1, h2, h3, h4]

theorem fastEq32_iff {a b : List Nat} (ha : Key32 a) (hb : Key32 b) :
    fastEq32 a b = true ↔ a = b := by
  constructor
  · intro h
    simp only [fastEq32, words, beq_iff_eq, List.cons.injEq, and_true] at h
    obtain ⟨h0, h1, h2, h3⟩ := h
    have la := ha.1; have lb := hb.1
    have e0 := rdLE_inj (by simp [la, lb]) (BytesWF_take 8 ha.2) (BytesWF_take 8 hb.2) h0
    have e1 := rdLE_inj (by simp [la, lb]) (BytesWF_take 8 (BytesWF_drop 8 ha.2)) (BytesWF_take 8 (BytesWF_drop 8 hb.2)) h1
    have e2 := rdLE_inj (by simp [la, lb]) (BytesWF_take 8 (BytesWF_drop 16 ha.2)) (BytesWF_take 8 (BytesWF_drop 16 hb.2)) h2
    have e3 := rdLE_inj (by simp [la, lb]) (BytesWF_take 8 (BytesWF_drop 24 ha.2)) (BytesWF_take 8 (BytesWF_drop 24 hb.2)) h3
    rw [split32 a la, split32 b lb, e0, e1, e2, e3]
  · intro h; subst h; simp [fastEq32]

theorem fastEq32_false_iff {a b : List Nat} (ha : Key32 a) (hb : Key32 b) :
    fastEq32 a b = false ↔ a ≠ b := by
  have := fastEq32_iff ha hb
  cases h : fastEq32 a b <;> simp_all

theorem systemId_key32 : Key32 systemId := by
  refine ⟨by simp [systemId], ?_⟩
  exact BytesWF_replicate (by omega)

theorem validateBase_ok_iff {b : Base} {a : Acct} (hb : baseWF b) (ha : acctWF a) :
    validateBase b a = .ok () ↔ baseOk b a := by
  cases b with
  | info => simp [validateBase, baseOk]
  | sysacct =>
    simp only [validateBase, baseOk]
    rw [← fastEq32_iff ha.2 systemId_key32]
    cases fastEq32 a.owner systemId <;> simp
  | program k =>
    simp only [validateBase, baseOk]
    rw [← fastEq32_iff ha.1 hb]
    cases fastEq32 a.key k <;> simp
  | sysvar k =>
    simp only [validateBase, baseOk]
    rw [← fastEq32_iff ha.1 hb]
    cases fastEq32 a.key k <;> simp

theorem validateBase_err {b : Base} {a : Acct} {e : Err} (hb : baseWF b) (ha : acctWF a)
    (h : validateBase b a = .error e) : e = baseErr b ∧ ¬ baseOk b a := by
  have hn : ¬ baseOk b a := by
    intro hok
    rw [(validateBase_ok_iff hb ha).mpr hok] at h; cases h
  refine ⟨?_, hn⟩
  cases b with
  | info => simp [validateBase] at h
  | sysacct => simp only [validateBase] at h; split at h <;> simp_all [baseErr]
  | program k => simp only [validateBase] at h; split at h <;> simp_all [baseErr]
  | sysvar k => simp only [validateBase] at h; split at h <;> simp_all [baseErr]

end Account.Modifiers
