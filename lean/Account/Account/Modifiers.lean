import Common.Bytes
/-!
# Model of the account modifiers (C09)

`star_frame/src/account_set/modifiers/{signer,mutable}.rs`, `program.rs`, `sysvar.rs`,
`system_account.rs`, `single_set.rs` (`check_signer`, `check_writable`, `check_key`),
`impls/option.rs`, `util.rs` (`fast_32_byte_eq`), and the generated `validate_accounts`
(`star_frame_proc/src/account_set/struct_impl/validate.rs`): a field's `address` check runs first,
then the field's own validation (inner before outer), then the wrapper's `extra_validation`.
-/
namespace Account.Modifiers
open Common

structure Acct where
  key : List Nat
  owner : List Nat
  signer : Bool
  writable : Bool
deriving Repr, DecidableEq

inductive Err
  | expectedWritable      -- ErrorCode::ExpectedWritable  = Custom(1000)
  | expectedSigner        -- ErrorCode::ExpectedSigner    = Custom(1001)
  | addressMismatch       -- ErrorCode::AddressMismatch   = Custom(1002)
  | illegalOwner          -- ProgramError::IllegalOwner
  | incorrectProgramId    -- ProgramError::IncorrectProgramId
  | missingAccount        -- decode found no account for a non-optional set
deriving Repr, DecidableEq

/-- Wrapper layers, listed outer → inner. -/
inductive Layer
  | signer                -- `MaybeSigner<true, T>`  (`Signer<T>`)
  | wr                   -- `MaybeMut<true, T>`     (`Mut<T>`)
  | nsigner               -- `MaybeSigner<false, T>` (pass-through)
  | nmut                  -- `MaybeMut<false, T>`    (pass-through)
  | advw                  -- a user set advertising `writable` in its meta without checking (like `Init`)
  | advs                  -- a user set advertising `signer` in its meta without checking
  | addr (k : List Nat)   -- a field with `#[validate(address = &k)]`
deriving Repr, DecidableEq

inductive Base
  | info                      -- `AccountInfo`
  | sysacct                   -- `SystemAccount`
  | program (k : List Nat)    -- `Program<P>` with `P::ID = k`
  | sysvar (k : List Nat)     -- `Sysvar<T>` with `T::id() = k` (an `address` check on an `AccountInfo`)
deriving Repr, DecidableEq

structure Nest where
  opt : Bool                  -- wrapped in `Option<…>` (only possible outermost)
  layers : List Layer
  base : Base
deriving Repr

/-- The four little-endian `u64` words `bytemuck::cast_slice::<u8, PackedValue<u64>>` sees. -/
def words (a : List Nat) : List Nat :=
  [rdLE (a.take 8), rdLE ((a.drop 8).take 8), rdLE ((a.drop 16).take 8), rdLE ((a.drop 24).take 8)]

/-- `util::fast_32_byte_eq`: slice equality of the four words. -/
def fastEq32 (a b : List Nat) : Bool := words a == words b

def systemId : List Nat := List.replicate 32 0

def validateBase : Base → Acct → Except Err Unit
  | .info, _ => .ok ()
  | .sysacct, a => if fastEq32 a.owner systemId then .ok () else .error .illegalOwner
  | .program k, a => if fastEq32 a.key k then .ok () else .error .incorrectProgramId
  | .sysvar k, a => if fastEq32 a.key k then .ok () else .error .addressMismatch

/-- Generated `validate_accounts` of the wrappers: inner first, then the wrapper's own check;
an `address` check runs before the field's validation. -/
def validateL : List Layer → Base → Acct → Except Err Unit
  | [], b, a => validateBase b a
  | .signer :: ls, b, a =>
    match validateL ls b a with
    | .error e => .error e
    | .ok () => if a.signer then .ok () else .error .expectedSigner
  | .wr :: ls, b, a =>
    match validateL ls b a with
    | .error e => .error e
    | .ok () => if a.writable then .ok () else .error .expectedWritable
  | .nsigner :: ls, b, a => validateL ls b a
  | .nmut :: ls, b, a => validateL ls b a
  | .advw :: ls, b, a => validateL ls b a
  | .advs :: ls, b, a => validateL ls b a
  | .addr k :: ls, b, a =>
    if fastEq32 a.key k then validateL ls b a else .error .addressMismatch

/-- Decode + validate of a (possibly optional) single-account nest. `none` = no account was
supplied (or, for an optional set, the program-id placeholder). -/
def validate (n : Nest) : Option Acct → Except Err Unit
  | none => if n.opt then .ok () else .error .missingAccount
  | some a => validateL n.layers n.base a

/-! ## Declarative meaning of each layer -/

def layerOk : Layer → Acct → Prop
  | .signer, a => a.signer = true
  | .wr, a => a.writable = true
  | .nsigner, _ => True
  | .nmut, _ => True
  | .advw, _ => True
  | .advs, _ => True
  | .addr k, a => a.key = k

def baseOk : Base → Acct → Prop
  | .info, _ => True
  | .sysacct, a => a.owner = systemId
  | .program k, a => a.key = k
  | .sysvar k, a => a.key = k

/-- The error class a failing layer reports. -/
def layerErr : Layer → Err
  | .signer => .expectedSigner
  | .wr => .expectedWritable
  | .nsigner => .expectedSigner   -- never reported
  | .nmut => .expectedWritable    -- never reported
  | .advw => .expectedWritable    -- never reported
  | .advs => .expectedSigner      -- never reported
  | .addr _ => .addressMismatch

def baseErr : Base → Err
  | .info => .missingAccount      -- never reported
  | .sysacct => .illegalOwner
  | .program _ => .incorrectProgramId
  | .sysvar _ => .addressMismatch

def Key32 (k : List Nat) : Prop := k.length = 32 ∧ BytesWF k

def layerWF : Layer → Prop
  | .addr k => Key32 k
  | _ => True

def baseWF : Base → Prop
  | .program k => Key32 k
  | .sysvar k => Key32 k
  | _ => True

def acctWF (a : Acct) : Prop := Key32 a.key ∧ Key32 a.owner

end Account.Modifiers
