import Idl.Sound
/-!
# The verifier's walk = first error over the collected items, in collector order

`verify*` (direct recursion mirroring the Rust) equals `checkAll` over `items`.  This is where the
"exhaustive walk of every position" is discharged: if the walk skipped a position that the
collector lists (or vice versa), the equalities below would be unprovable.
-/
namespace Idl

/-- The local check each item stands for. -/
def checkItem (env : Env) (cur : Def) : Item → Except Rule Unit
  | .typeRef s ns a => checkTypeRef env cur s ns a
  | .setRef s t a => checkSetRef cur s t a
  | .accountRef ns s => verifyAccountId env cur ⟨ns, s⟩
  | .many mn mx => checkMany mn mx
  | .or n => checkOr n

/-- First error over a list of items. -/
def checkAll (env : Env) (cur : Def) : List Item → Except Rule Unit
  | [] => .ok ()
  | i :: is => seqE (checkItem env cur i) (checkAll env cur is)

@[simp] theorem seqE_ok (b : Except Rule Unit) : seqE (.ok ()) b = b := rfl
@[simp] theorem seqE_error (r : Rule) (b : Except Rule Unit) : seqE (.error r) b = .error r := rfl
@[simp] theorem seqE_ok_right (a : Except Rule Unit) : seqE a (.ok ()) = a := by
  cases a <;> rfl

theorem seqE_assoc (a b c : Except Rule Unit) : seqE (seqE a b) c = seqE a (seqE b c) := by
  cases a <;> rfl

theorem seqE_eq_ok {a b : Except Rule Unit} : seqE a b = .ok () ↔ a = .ok () ∧ b = .ok () := by
  cases a with
  | error r => simp [seqE]
  | ok u => cases u; simp [seqE]

theorem seqE_eq_error {a b : Except Rule Unit} {r : Rule} :
    seqE a b = .error r ↔ a = .error r ∨ (a = .ok () ∧ b = .error r) := by
  cases a with
  | error r' => simp [seqE]
  | ok u => cases u; simp [seqE]

@[simp] theorem checkAll_nil (env : Env) (cur : Def) : checkAll env cur [] = .ok () := rfl

@[simp] theorem checkAll_cons (env : Env) (cur : Def) (i : Item) (is : List Item) :
    checkAll env cur (i :: is) = seqE (checkItem env cur i) (checkAll env cur is) := rfl

theorem checkAll_append (env : Env) (cur : Def) (a b : List Item) :
    checkAll env cur (a ++ b) = seqE (checkAll env cur a) (checkAll env cur b) := by
  induction a with
  | nil => simp
  | cons i is ih => simp [ih, seqE_assoc]

theorem checkAll_eq_ok {env : Env} {cur : Def} {l : List Item} :
    checkAll env cur l = .ok () ↔ ∀ it ∈ l, checkItem env cur it = .ok () := by
  induction l with
  | nil => simp
  | cons i is ih => simp [seqE_eq_ok, ih]

theorem checkAll_eq_error {env : Env} {cur : Def} {l : List Item} {r : Rule} :
    checkAll env cur l = .error r → ∃ it ∈ l, checkItem env cur it = .error r := by
  induction l with
  | nil => simp
  | cons i is ih =>
    simp only [checkAll_cons, seqE_eq_error]
    rintro (h | ⟨_, h⟩)
    · exact ⟨i, by simp, h⟩
    · obtain ⟨it, hm, he⟩ := ih h
      exact ⟨it, by simp [hm], he⟩

/-! ## Types -/

mutual
theorem verifyTypeDef_eq (env : Env) (cur : Def) :
    ∀ t : TypeDef, verifyTypeDef env cur t = checkAll env cur t.items
  | .defined id => by simp [verifyTypeDef, TypeDef.items, verifyTypeId_eq env cur id]
  | .fixedPoint ty _ => by simp [verifyTypeDef, TypeDef.items, verifyTypeDef_eq env cur ty]
  | .option ty _ => by simp [verifyTypeDef, TypeDef.items, verifyTypeDef_eq env cur ty]
  | .list l i => by
    simp [verifyTypeDef, TypeDef.items, checkAll_append, verifyTypeDef_eq env cur l,
      verifyTypeDef_eq env cur i]
  | .unsizedList l o i => by
    simp [verifyTypeDef, TypeDef.items, checkAll_append, verifyTypeDef_eq env cur l,
      verifyTypeDef_eq env cur o, verifyTypeDef_eq env cur i]
  | .set l i => by
    simp [verifyTypeDef, TypeDef.items, checkAll_append, verifyTypeDef_eq env cur l,
      verifyTypeDef_eq env cur i]
  | .map l k v => by
    simp [verifyTypeDef, TypeDef.items, checkAll_append, verifyTypeDef_eq env cur l,
      verifyTypeDef_eq env cur k, verifyTypeDef_eq env cur v]
  | .array t _ => by simp [verifyTypeDef, TypeDef.items, verifyTypeDef_eq env cur t]
  | .struct fs => by simp [verifyTypeDef, TypeDef.items, verifyTypeDefs_eq env cur fs]
  | .enum sz vs => by
    simp [verifyTypeDef, TypeDef.items, checkAll_append, verifyTypeDef_eq env cur sz,
      verifyVariants_eq env cur vs]
  | .generic _ => by simp [verifyTypeDef, TypeDef.items]
  | .bool => by simp [verifyTypeDef, TypeDef.items]
  | .u8 => by simp [verifyTypeDef, TypeDef.items]
  | .i8 => by simp [verifyTypeDef, TypeDef.items]
  | .u16 => by simp [verifyTypeDef, TypeDef.items]
  | .i16 => by simp [verifyTypeDef, TypeDef.items]
  | .u32 => by simp [verifyTypeDef, TypeDef.items]
  | .i32 => by simp [verifyTypeDef, TypeDef.items]
  | .f32 => by simp [verifyTypeDef, TypeDef.items]
  | .u64 => by simp [verifyTypeDef, TypeDef.items]
  | .i64 => by simp [verifyTypeDef, TypeDef.items]
  | .f64 => by simp [verifyTypeDef, TypeDef.items]
  | .u128 => by simp [verifyTypeDef, TypeDef.items]
  | .i128 => by simp [verifyTypeDef, TypeDef.items]
  | .string => by simp [verifyTypeDef, TypeDef.items]
  | .pubkey => by simp [verifyTypeDef, TypeDef.items]
  | .remainingBytes => by simp [verifyTypeDef, TypeDef.items]
theorem verifyTypeId_eq (env : Env) (cur : Def) :
    ∀ id : TypeId, verifyTypeId env cur id = checkAll env cur id.items
  | .mk s ns gens => by
    simp [verifyTypeId, TypeId.items, checkItem, verifyTypeDefs_eq env cur gens]
theorem verifyTypeDefs_eq (env : Env) (cur : Def) :
    ∀ ts : List TypeDef, verifyTypeDefs env cur ts = checkAll env cur (itemsTypeDefs ts)
  | [] => by simp [verifyTypeDefs, itemsTypeDefs]
  | t :: ts => by
    simp [verifyTypeDefs, itemsTypeDefs, checkAll_append, verifyTypeDef_eq env cur t,
      verifyTypeDefs_eq env cur ts]
theorem verifyVariants_eq (env : Env) (cur : Def) :
    ∀ vs : List (Option TypeDef), verifyVariants env cur vs = checkAll env cur (itemsVariants vs)
  | [] => by simp [verifyVariants, itemsVariants]
  | none :: vs => by simp [verifyVariants, itemsVariants, verifyVariants_eq env cur vs]
  | some t :: vs => by
    simp [verifyVariants, itemsVariants, checkAll_append, verifyTypeDef_eq env cur t,
      verifyVariants_eq env cur vs]
end

/-! ## Account sets -/

theorem verifyAccountIds_eq (env : Env) (cur : Def) :
    ∀ as : List AccountId, verifyAccountIds env cur as = checkAll env cur (as.map AccountId.item)
  | [] => by simp [verifyAccountIds]
  | a :: as => by
    simp [verifyAccountIds, verifyAccountIds_eq env cur as, checkItem, AccountId.item]

mutual
theorem verifyAccountSetDef_eq (env : Env) (cur : Def) :
    ∀ a : AccountSetDef, verifyAccountSetDef env cur a = checkAll env cur a.items
  | .defined id => by
    simp [verifyAccountSetDef, AccountSetDef.items, verifyAccountSetId_eq env cur id]
  | .single accts => by
    simp [verifyAccountSetDef, AccountSetDef.items, verifyAccountIds_eq]
  | .struct fs => by
    simp [verifyAccountSetDef, AccountSetDef.items, verifyAccountSetDefs_eq env cur fs]
  | .many inner mn mx => by
    simp [verifyAccountSetDef, AccountSetDef.items, checkItem, verifyAccountSetDef_eq env cur inner]
  | .or bs => by
    simp [verifyAccountSetDef, AccountSetDef.items, checkItem, verifyAccountSetDefs_eq env cur bs]
theorem verifyAccountSetId_eq (env : Env) (cur : Def) :
    ∀ id : AccountSetId, verifyAccountSetId env cur id = checkAll env cur id.items
  | .mk s tg ag => by
    simp [verifyAccountSetId, AccountSetId.items, checkItem, checkAll_append, verifyTypeDefs_eq,
      verifyAccountSetDefs_eq env cur ag]
theorem verifyAccountSetDefs_eq (env : Env) (cur : Def) :
    ∀ as : List AccountSetDef,
      verifyAccountSetDefs env cur as = checkAll env cur (itemsAccountSetDefs as)
  | [] => by simp [verifyAccountSetDefs, itemsAccountSetDefs]
  | a :: as => by
    simp [verifyAccountSetDefs, itemsAccountSetDefs, checkAll_append,
      verifyAccountSetDef_eq env cur a, verifyAccountSetDefs_eq env cur as]
end

/-! ## Definitions -/

theorem verifyTypes_eq (env : Env) (cur : Def) :
    ∀ ts : List (Name × IdlType), verifyTypes env cur ts = checkAll env cur (itemsTypes ts)
  | [] => by simp [verifyTypes, itemsTypes]
  | (_, t) :: ts => by
    simp [verifyTypes, itemsTypes, checkAll_append, verifyTypeDef_eq, verifyTypes_eq env cur ts]

theorem verifyAccountSets_eq (env : Env) (cur : Def) :
    ∀ ss : List (Name × AccountSet),
      verifyAccountSets env cur ss = checkAll env cur (itemsAccountSets ss)
  | [] => by simp [verifyAccountSets, itemsAccountSets]
  | (_, s) :: ss => by
    simp [verifyAccountSets, itemsAccountSets, checkAll_append, verifyAccountSetDef_eq,
      verifyAccountSets_eq env cur ss]

theorem verifySeeds_eq (env : Env) (cur : Def) :
    ∀ ss : List Seed, verifySeeds env cur ss = checkAll env cur (itemsSeeds ss)
  | [] => by simp [verifySeeds, itemsSeeds]
  | .const :: ss => by simp [verifySeeds, itemsSeeds, Seed.items, verifySeeds_eq env cur ss]
  | .variable ty :: ss => by
    simp [verifySeeds, itemsSeeds, Seed.items, checkAll_append, verifyTypeDef_eq,
      verifySeeds_eq env cur ss]

theorem verifyAccount_eq (env : Env) (cur : Def) (a : Account) :
    verifyAccount env cur a = checkAll env cur a.items := by
  unfold verifyAccount Account.items
  cases h : a.seeds <;> simp [checkAll_append, verifyTypeId_eq, verifySeeds_eq]

theorem verifyAccounts_eq (env : Env) (cur : Def) :
    ∀ as : List (Name × Account), verifyAccounts env cur as = checkAll env cur (itemsAccounts as)
  | [] => by simp [verifyAccounts, itemsAccounts]
  | (_, a) :: as => by
    simp [verifyAccounts, itemsAccounts, checkAll_append, verifyAccount_eq,
      verifyAccounts_eq env cur as]

theorem verifyInstruction_eq (env : Env) (cur : Def) (i : Instruction) :
    verifyInstruction env cur i = checkAll env cur i.items := by
  simp [verifyInstruction, Instruction.items, checkAll_append, verifyTypeId_eq,
    verifyAccountSetDef_eq]

theorem verifyInstructions_eq (env : Env) (cur : Def) :
    ∀ is : List (Name × Instruction),
      verifyInstructions env cur is = checkAll env cur (itemsInstructions is)
  | [] => by simp [verifyInstructions, itemsInstructions]
  | (_, i) :: is => by
    simp [verifyInstructions, itemsInstructions, checkAll_append, verifyInstruction_eq,
      verifyInstructions_eq env cur is]

/-- `verify_definition` = first error over the definition's items. -/
theorem verifyDefinition_eq (env : Env) (d : Def) :
    verifyDefinition env d = checkAll env d d.items := by
  simp [verifyDefinition, Def.items, checkAll_append, verifyTypes_eq, verifyAccountSets_eq,
    verifyAccounts_eq, verifyInstructions_eq]

theorem verifyDefs_eq_ok {env : Env} {ds : List Def} :
    verifyDefs env ds = .ok () ↔ ∀ d ∈ ds, ∀ it ∈ d.items, checkItem env d it = .ok () := by
  induction ds with
  | nil => simp [verifyDefs]
  | cons d ds ih => simp [verifyDefs, seqE_eq_ok, ih, verifyDefinition_eq, checkAll_eq_ok]

theorem verifyDefs_eq_error {env : Env} {ds : List Def} {r : Rule} :
    verifyDefs env ds = .error r → ∃ d ∈ ds, ∃ it ∈ d.items, checkItem env d it = .error r := by
  induction ds with
  | nil => simp [verifyDefs]
  | cons d ds ih =>
    simp only [verifyDefs, seqE_eq_error, verifyDefinition_eq]
    rintro (h | ⟨_, h⟩)
    · obtain ⟨it, hm, he⟩ := checkAll_eq_error h
      exact ⟨d, by simp, it, hm, he⟩
    · obtain ⟨d', hd, it, hm, he⟩ := ih h
      exact ⟨d', by simp [hd], it, hm, he⟩

end Idl
