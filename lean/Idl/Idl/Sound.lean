import Idl.Verifier
/-!
# Declarative soundness of a definition graph (the specification side of C18)

Written independently of `verify`: a collector of every *checkable item* (reference, `Many`
bound, `Or` list) at every position of a definition, and per-item conditions stated as
propositions over the definition set (no namespace index, no traversal, no first-error order).

`Sound ds m` :=
  namespaces non-empty and pairwise distinct (after trimming, which is how the verifier keys them)
  ∧ for every definition `d ∈ ds` and every item of `d`: the item is fine under mode `m`.
-/
namespace Idl

/-- What the property speaks about: references (with their kind and provided arity), `Many`
bounds and `Or` lists. -/
inductive Item where
  | typeRef (source : Name) (ns : Option Name) (arity : Nat)
  | setRef (source : Name) (tyArity accArity : Nat)
  | accountRef (ns : Option Name) (source : Name)
  | many (min : Nat) (max : Option Nat)
  | or (branches : Nat)
deriving DecidableEq, Repr

/-! ## The collector -/

mutual
def TypeDef.items : TypeDef → List Item
  | .defined id => id.items
  | .fixedPoint ty _ => ty.items
  | .option ty _ => ty.items
  | .list lenTy itemTy => lenTy.items ++ itemTy.items
  | .unsizedList lenTy offsetTy itemTy => lenTy.items ++ (offsetTy.items ++ itemTy.items)
  | .set lenTy itemTy => lenTy.items ++ itemTy.items
  | .map lenTy keyTy valueTy => lenTy.items ++ (keyTy.items ++ valueTy.items)
  | .array inner _ => inner.items
  | .struct fields => itemsTypeDefs fields
  | .enum size variants => size.items ++ itemsVariants variants
  | .generic _ | .bool | .u8 | .i8 | .u16 | .i16 | .u32 | .i32 | .f32 | .u64 | .i64 | .f64
  | .u128 | .i128 | .string | .pubkey | .remainingBytes => []
def TypeId.items : TypeId → List Item
  | .mk s ns gens => .typeRef s ns gens.length :: itemsTypeDefs gens
def itemsTypeDefs : List TypeDef → List Item
  | [] => []
  | t :: ts => t.items ++ itemsTypeDefs ts
def itemsVariants : List (Option TypeDef) → List Item
  | [] => []
  | none :: vs => itemsVariants vs
  | some t :: vs => t.items ++ itemsVariants vs
end

def AccountId.item (a : AccountId) : Item := .accountRef a.ns a.source

mutual
def AccountSetDef.items : AccountSetDef → List Item
  | .defined id => id.items
  | .single accts => accts.map AccountId.item
  | .struct fields => itemsAccountSetDefs fields
  | .many inner min max => .many min max :: inner.items
  | .or branches => .or branches.length :: itemsAccountSetDefs branches
def AccountSetId.items : AccountSetId → List Item
  | .mk s tyGens accGens =>
    .setRef s tyGens.length accGens.length :: (itemsTypeDefs tyGens ++ itemsAccountSetDefs accGens)
def itemsAccountSetDefs : List AccountSetDef → List Item
  | [] => []
  | a :: as => a.items ++ itemsAccountSetDefs as
end

def Seed.items : Seed → List Item
  | .const => []
  | .variable ty => ty.items

def itemsSeeds : List Seed → List Item
  | [] => []
  | s :: ss => s.items ++ itemsSeeds ss

def Account.items (a : Account) : List Item :=
  a.typeId.items ++ (match a.seeds with | none => [] | some ss => itemsSeeds ss)

def Instruction.items (i : Instruction) : List Item := i.typeId.items ++ i.accountSet.items

def itemsTypes : List (Name × IdlType) → List Item
  | [] => []
  | (_, t) :: ts => t.typeDef.items ++ itemsTypes ts

def itemsAccountSets : List (Name × AccountSet) → List Item
  | [] => []
  | (_, s) :: ss => s.setDef.items ++ itemsAccountSets ss

def itemsAccounts : List (Name × Account) → List Item
  | [] => []
  | (_, a) :: as => a.items ++ itemsAccounts as

def itemsInstructions : List (Name × Instruction) → List Item
  | [] => []
  | (_, i) :: is => i.items ++ itemsInstructions is

/-- Every checkable item of a definition. -/
def Def.items (d : Def) : List Item :=
  itemsTypes (d.types ++ d.externalTypes) ++
    (itemsAccountSets d.accountSets ++ (itemsAccounts d.accounts ++ itemsInstructions d.instructions))

/-! ## Per-item conditions -/

/-- `d` is the definition the set `ds` provides for namespace `n`. -/
def Provides (ds : List Def) (n : Name) (d : Def) : Prop := d ∈ ds ∧ d.key = n

def Provided (ds : List Def) (n : Name) : Prop := ∃ d, Provides ds n d

/-- `d` defines type `s` as `t` (own types shadow embedded external types). -/
def HasType (d : Def) (s : Name) (t : IdlType) : Prop :=
  d.types.lookup s = some t ∨ (d.types.lookup s = none ∧ d.externalTypes.lookup s = some t)

def HasAccount (d : Def) (s : Name) : Prop := ∃ a, d.accounts.lookup s = some a

/-- Resolution of a type reference appearing in `cur`, per mode. -/
def ResolvesType (ds : List Def) (m : Mode) (cur : Def) (s : Name) (ns : Option Name)
    (t : IdlType) : Prop :=
  match ns, m with
  | none, _ => HasType cur s t
  | some n, .strict => ∃ d, Provides ds n d ∧ HasType d s t
  | some n, .compat =>
    HasType cur s t ∨ ((∀ t', ¬ HasType cur s t') ∧ ∃ d, Provides ds n d ∧ HasType d s t)

/-- Resolution of an account reference appearing in `cur`, per mode. -/
def ResolvesAccount (ds : List Def) (m : Mode) (cur : Def) (ns : Option Name) (s : Name) : Prop :=
  match ns, m with
  | none, _ => HasAccount cur s
  | some n, .strict => ∃ d, Provides ds n d ∧ HasAccount d s
  | some n, .compat => HasAccount cur s ∨ ∃ d, Provides ds n d ∧ HasAccount d s

/-- The item is fine. -/
def ItemOk (ds : List Def) (m : Mode) (cur : Def) : Item → Prop
  | .typeRef s ns arity => ∃ t, ResolvesType ds m cur s ns t ∧ t.generics = arity
  | .setRef s tyArity accArity =>
    ∃ st, cur.accountSets.lookup s = some st ∧ st.tyGenerics = tyArity ∧ st.accGenerics = accArity
  | .accountRef ns s => ResolvesAccount ds m cur ns s
  | .many min max => ∀ mx, max = some mx → min ≤ mx
  | .or n => 0 < n

/-- Namespaces are non-empty and pairwise distinct. -/
def NamespacesOk (ds : List Def) : Prop :=
  (∀ d ∈ ds, d.key ≠ []) ∧ (ds.map Def.key).Nodup

/-- **Structural soundness of a definition graph under a resolution mode.** -/
def Sound (ds : List Def) (m : Mode) : Prop :=
  NamespacesOk ds ∧ ∀ d ∈ ds, ∀ it ∈ d.items, ItemOk ds m d it

/-! ## What it means for a rule to be violated -/

/-- Item `it` of definition `cur` violates rule `r`. -/
def ItemViolates (ds : List Def) (m : Mode) (cur : Def) : Rule → Item → Prop
  | .missingNamespace, .typeRef s (some n) _ =>
    ¬ Provided ds n ∧ (m = .compat → ∀ t, ¬ HasType cur s t)
  | .missingNamespace, .accountRef (some n) s =>
    ¬ Provided ds n ∧ (m = .compat → ¬ HasAccount cur s)
  | .missingType, .typeRef s ns _ =>
    (¬ ∃ t, ResolvesType ds m cur s ns t) ∧ ∀ n, ns = some n → Provided ds n
  | .typeGenericArity, .typeRef s ns arity => ∃ t, ResolvesType ds m cur s ns t ∧ t.generics ≠ arity
  | .missingAccountSet, .setRef s _ _ => cur.accountSets.lookup s = none
  | .accountSetTypeArity, .setRef s tyArity _ =>
    ∃ st, cur.accountSets.lookup s = some st ∧ st.tyGenerics ≠ tyArity
  | .accountSetAccountArity, .setRef s _ accArity =>
    ∃ st, cur.accountSets.lookup s = some st ∧ st.accGenerics ≠ accArity
  | .missingAccount, .accountRef ns s =>
    ¬ ResolvesAccount ds m cur ns s ∧ ∀ n, ns = some n → Provided ds n
  | .manyBounds, .many min max => ∃ mx, max = some mx ∧ mx < min
  | .emptyOr, .or n => n = 0
  | _, _ => False

/-- Rule `r` is really violated by the definition set. -/
def Violates (r : Rule) (ds : List Def) (m : Mode) : Prop :=
  match r with
  | .emptyNamespace => ∃ d ∈ ds, d.key = []
  | .duplicateNamespace => ¬ (ds.map Def.key).Nodup
  | r => ∃ d ∈ ds, ∃ it ∈ d.items, ItemViolates ds m d r it

/-! ## Positions of the AST (for `refs_complete`) -/

/-- `Child c p`: `c` sits in a type-definition position directly under `p` — one rule per field
of `IdlTypeDef` that holds a type definition. -/
inductive TypeDef.Child : TypeDef → TypeDef → Prop
  | definedGeneric {s ns gens g} : g ∈ gens → Child g (.defined (.mk s ns gens))
  | fixedPointTy {ty frac} : Child ty (.fixedPoint ty frac)
  | optionTy {ty fixed} : Child ty (.option ty fixed)
  | listLen {l i} : Child l (.list l i)
  | listItem {l i} : Child i (.list l i)
  | unsizedListLen {l o i} : Child l (.unsizedList l o i)
  | unsizedListOffset {l o i} : Child o (.unsizedList l o i)
  | unsizedListItem {l o i} : Child i (.unsizedList l o i)
  | setLen {l i} : Child l (.set l i)
  | setItem {l i} : Child i (.set l i)
  | mapLen {l k v} : Child l (.map l k v)
  | mapKey {l k v} : Child k (.map l k v)
  | mapValue {l k v} : Child v (.map l k v)
  | arrayInner {t n} : Child t (.array t n)
  | structField {fields f} : f ∈ fields → Child f (.struct fields)
  | enumSize {sz vs} : Child sz (.enum sz vs)
  | enumVariant {sz vs t} : some t ∈ vs → Child t (.enum sz vs)

/-- `Sub x t`: `x` occurs in `t` at some depth (reflexive-transitive closure of `Child`). -/
inductive TypeDef.Sub : TypeDef → TypeDef → Prop
  | refl {t} : Sub t t
  | step {x c p} : TypeDef.Child c p → Sub x c → Sub x p

/-- The item a node contributes by itself. -/
def TypeDef.head : TypeDef → List Item
  | .defined (.mk s ns gens) => [.typeRef s ns gens.length]
  | _ => []

/-- `Child c p` for account-set definitions: one rule per field holding an account-set definition. -/
inductive AccountSetDef.Child : AccountSetDef → AccountSetDef → Prop
  | definedAccountGeneric {s tg ag g} : g ∈ ag → Child g (.defined (.mk s tg ag))
  | structField {fields f} : f ∈ fields → Child f (.struct fields)
  | manyInner {a mn mx} : Child a (.many a mn mx)
  | orBranch {bs b} : b ∈ bs → Child b (.or bs)

inductive AccountSetDef.Sub : AccountSetDef → AccountSetDef → Prop
  | refl {t} : Sub t t
  | step {x c p} : AccountSetDef.Child c p → Sub x c → Sub x p

/-- Type definitions sitting directly in an account-set node (`provided_type_generics`). -/
def AccountSetDef.typeChildren : AccountSetDef → List TypeDef
  | .defined (.mk _ tg _) => tg
  | _ => []

/-- The items an account-set node contributes by itself. -/
def AccountSetDef.head : AccountSetDef → List Item
  | .defined (.mk s tg ag) => [.setRef s tg.length ag.length]
  | .single accts => accts.map AccountId.item
  | .struct _ => []
  | .many _ mn mx => [.many mn mx]
  | .or bs => [.or bs.length]

/-- The type-definition roots of a definition: every field of `IdlDefinition` (through `IdlType`,
`IdlAccount`, `IdlSeed::Variable`, `IdlInstruction`) that holds an `IdlTypeDef`/`IdlTypeId`. -/
inductive Def.TypeRoot (d : Def) : TypeDef → Prop
  | ofType {s t} : (s, t) ∈ d.types → TypeRoot d t.typeDef
  | ofExternalType {s t} : (s, t) ∈ d.externalTypes → TypeRoot d t.typeDef
  | ofAccountTypeId {s a} : (s, a) ∈ d.accounts → TypeRoot d (.defined a.typeId)
  | ofAccountSeed {s a ss ty} : (s, a) ∈ d.accounts → a.seeds = some ss → Seed.variable ty ∈ ss →
      TypeRoot d ty
  | ofInstructionTypeId {s i} : (s, i) ∈ d.instructions → TypeRoot d (.defined i.typeId)

/-- The account-set roots of a definition. -/
inductive Def.SetRoot (d : Def) : AccountSetDef → Prop
  | ofAccountSet {s a} : (s, a) ∈ d.accountSets → SetRoot d a.setDef
  | ofInstruction {s i} : (s, i) ∈ d.instructions → SetRoot d i.accountSet

/-- `it` occurs in type definition `t`: some sub-node contributes it. -/
def TypeDef.Occurs (it : Item) (t : TypeDef) : Prop := ∃ x, TypeDef.Sub x t ∧ it ∈ x.head

/-- `it` occurs in account-set definition `a`: contributed by a sub-node, or occurring in a type
definition held by a sub-node. -/
def AccountSetDef.Occurs (it : Item) (a : AccountSetDef) : Prop :=
  ∃ x, AccountSetDef.Sub x a ∧ (it ∈ x.head ∨ ∃ t ∈ x.typeChildren, TypeDef.Occurs it t)

/-- `it` occurs somewhere in definition `d`. -/
def Def.Occurs (d : Def) (it : Item) : Prop :=
  (∃ t, d.TypeRoot t ∧ TypeDef.Occurs it t) ∨ (∃ a, d.SetRoot a ∧ AccountSetDef.Occurs it a)

end Idl
