import Idl.VerifierLemmasItems
import Idl.VerifierLemmasRefs
/-!
# Main results about `verify` (restated in `Props/C18.lean`)
-/
namespace Idl

theorem verify_ok_iff_sound' (ds : List Def) (m : Mode) : verify ds m = .ok () ↔ Sound ds m := by
  unfold verify Sound
  constructor
  · intro h
    cases hb : buildIndex ds [] with
    | error r => simp [hb] at h
    | ok idx =>
      simp only [hb] at h
      obtain ⟨hns, hs⟩ := buildIndex_spec hb
      refine ⟨hns, fun d hd it hi => ?_⟩
      exact (checkItem_ok_iff hs).1 (verifyDefs_eq_ok.1 h d hd it hi)
  · rintro ⟨hns, hit⟩
    obtain ⟨idx, hb⟩ := buildIndex_iff.2 hns
    simp only [hb]
    have hs := (buildIndex_spec hb).2
    exact verifyDefs_eq_ok.2 fun d hd it hi => (checkItem_ok_iff hs).2 (hit d hd it hi)

theorem verify_err_rule_violated' {ds : List Def} {m : Mode} {r : Rule}
    (h : verify ds m = .error r) : Violates r ds m := by
  unfold verify at h
  cases hb : buildIndex ds [] with
  | error r' =>
    simp only [hb] at h
    cases h
    rcases buildIndex_error hb with ⟨rfl, hx⟩ | ⟨rfl, hdup | ⟨x, _, hl⟩⟩
    · exact hx
    · exact hdup
    · simp at hl
  | ok idx =>
    simp only [hb] at h
    have hs := (buildIndex_spec hb).2
    obtain ⟨d, hd, it, hi, he⟩ := verifyDefs_eq_error h
    have hv := checkItem_error hs he
    cases r with
    | emptyNamespace => cases it <;> simp [ItemViolates] at hv
    | duplicateNamespace => cases it <;> simp [ItemViolates] at hv
    | _ => exact ⟨d, hd, it, hi, hv⟩

/-! ## a violated rule is incompatible with soundness -/

theorem ResolvesType.unique {ds : List Def} {idx : List (Name × Def)} (hs : IndexSpec ds idx)
    {m : Mode} {cur : Def} {s : Name} {ns : Option Name} {t t' : IdlType}
    (h : ResolvesType ds m cur s ns t) (h' : ResolvesType ds m cur s ns t') : t = t' := by
  have a := (resolveType_ok (m := m) (cur := cur) hs).2 h
  have b := (resolveType_ok (m := m) (cur := cur) hs).2 h'
  rw [a] at b; exact Except.ok.inj b

theorem ItemViolates.not_ok {ds : List Def} (hns : NamespacesOk ds) {m : Mode} {cur : Def}
    {r : Rule} {it : Item} (hv : ItemViolates ds m cur r it) : ¬ ItemOk ds m cur it := by
  obtain ⟨idx, hb⟩ := buildIndex_iff.2 hns
  have hs := (buildIndex_spec hb).2
  intro hok
  have hc := (checkItem_ok_iff (m := m) (cur := cur) hs).2 hok
  cases it with
  | typeRef s ns a =>
    obtain ⟨t, ht, ha⟩ := hok
    cases r <;> simp only [ItemViolates] at hv
    · -- missingNamespace
      cases ns with
      | none => simp at hv
      | some n =>
        simp only at hv
        obtain ⟨hnp, hloc⟩ := hv
        cases m with
        | compat =>
          rcases ht with ht | ⟨_, d, hd, _⟩
          · exact hloc rfl t ht
          · exact hnp ⟨d, hd⟩
        | strict =>
          obtain ⟨d, hd, _⟩ := ht
          exact hnp ⟨d, hd⟩
    · exact hv.1 ⟨t, ht⟩
    · obtain ⟨t', ht', hne⟩ := hv
      exact hne ((ResolvesType.unique hs ht' ht) ▸ ha)
  | setRef s ta aa =>
    obtain ⟨st, hl, h1, h2⟩ := hok
    cases r <;> simp only [ItemViolates] at hv
    · rw [hl] at hv; cases hv
    · obtain ⟨st', hl', hne⟩ := hv
      rw [hl] at hl'; cases hl'; exact hne h1
    · obtain ⟨st', hl', hne⟩ := hv
      rw [hl] at hl'; cases hl'; exact hne h2
  | accountRef ns s =>
    cases r <;> simp only [ItemViolates] at hv
    · cases ns with
      | none => simp at hv
      | some n =>
        simp only at hv
        obtain ⟨hnp, hloc⟩ := hv
        cases m with
        | compat =>
          rcases hok with h | ⟨d, hd, _⟩
          · exact hloc rfl h
          · exact hnp ⟨d, hd⟩
        | strict =>
          obtain ⟨d, hd, _⟩ := hok
          exact hnp ⟨d, hd⟩
    · exact hv.1 hok
  | many mn mx =>
    cases r <;> simp only [ItemViolates] at hv
    obtain ⟨x, hx, hlt⟩ := hv
    have := hok x hx
    omega
  | or n =>
    cases r <;> simp only [ItemViolates] at hv
    simp only [ItemOk] at hok
    omega

theorem violates_not_sound' {ds : List Def} {m : Mode} {r : Rule} (hv : Violates r ds m) :
    ¬ Sound ds m := by
  rintro ⟨hns, hit⟩
  cases r with
  | emptyNamespace =>
    obtain ⟨d, hd, hk⟩ := hv
    exact hns.1 d hd hk
  | duplicateNamespace => exact hv hns.2
  | _ =>
    obtain ⟨d, hd, it, hi, hiv⟩ := hv
    exact hiv.not_ok hns (hit d hd it hi)

/-! ## permutation invariance -/

theorem Provides_congr {ds ds' : List Def} (h : ∀ d, d ∈ ds ↔ d ∈ ds') (n : Name) (d : Def) :
    Provides ds n d ↔ Provides ds' n d := by
  simp [Provides, h]

theorem ItemOk_congr {ds ds' : List Def} (h : ∀ d, d ∈ ds ↔ d ∈ ds') (m : Mode) (cur : Def)
    (it : Item) : ItemOk ds m cur it ↔ ItemOk ds' m cur it := by
  cases it with
  | typeRef s ns a =>
    simp only [ItemOk]
    cases ns <;> cases m <;> simp [ResolvesType, Provides_congr h]
  | accountRef ns s =>
    simp only [ItemOk]
    cases ns <;> cases m <;> simp [ResolvesAccount, Provides_congr h]
  | _ => simp [ItemOk]

theorem Sound_perm {ds ds' : List Def} (hp : ds.Perm ds') (m : Mode) (h : Sound ds m) :
    Sound ds' m := by
  have hm : ∀ d, d ∈ ds ↔ d ∈ ds' := fun d => hp.mem_iff
  obtain ⟨⟨h1, h2⟩, h3⟩ := h
  refine ⟨⟨fun d hd => h1 d ((hm d).2 hd), ?_⟩, fun d hd it hi => ?_⟩
  · exact ((hp.map Def.key).nodup_iff).1 h2
  · exact (ItemOk_congr hm m d it).1 (h3 d ((hm d).2 hd) it hi)

/-! ## strict vs compatibility mode -/

/-- No namespaced type reference is shadowed by a same-named local type of a different arity. -/
def NoArityShadow (ds : List Def) : Prop :=
  ∀ d ∈ ds, ∀ s n a, Item.typeRef s (some n) a ∈ d.items → ∀ t, HasType d s t → t.generics = a

theorem strict_compat_iff_noshadow' {ds : List Def} (hst : Sound ds .strict) :
    Sound ds .compat ↔ NoArityShadow ds := by
  obtain ⟨hns, hit⟩ := hst
  obtain ⟨idx, hb⟩ := buildIndex_iff.2 hns
  have hs := (buildIndex_spec hb).2
  constructor
  · rintro ⟨_, hc⟩ d hd s n a hi t ht
    obtain ⟨t', hr, ha⟩ := hc d hd _ hi
    rcases hr with hr | ⟨hno, _⟩
    · exact (ht.unique hr) ▸ ha
    · exact absurd ht (hno t)
  · intro hsh
    refine ⟨hns, fun d hd it hi => ?_⟩
    have hok := hit d hd it hi
    cases it with
    | typeRef s ns a =>
      cases ns with
      | none => exact hok
      | some n =>
        obtain ⟨t, ⟨d', hp, ht⟩, ha⟩ := hok
        cases hg : d.getType s with
        | some t0 =>
          have h0 := getType_some.1 hg
          exact ⟨t0, Or.inl h0, hsh d hd s n a hi t0 h0⟩
        | none => exact ⟨t, Or.inr ⟨getType_none.1 hg, d', hp, ht⟩, ha⟩
    | accountRef ns s =>
      cases ns with
      | none => exact hok
      | some n => exact Or.inr hok
    | setRef s ta aa => exact hok
    | many mn mx => exact hok
    | or n => exact hok

end Idl
