import Idl.Sound
/-!
# The collector is complete and exact with respect to the AST's positions (`refs_complete`)

`it ∈ items x ↔ it occurs in x`, where "occurs" is defined from the one-rule-per-field `Child`
relations of `Sound.lean`.
-/
namespace Idl

/-! ## list collectors as membership -/

theorem mem_itemsTypeDefs {it : Item} {ts : List TypeDef} :
    it ∈ itemsTypeDefs ts ↔ ∃ t ∈ ts, it ∈ t.items := by
  induction ts with
  | nil => simp [itemsTypeDefs]
  | cons t ts ih => simp [itemsTypeDefs, ih]

theorem mem_itemsVariants {it : Item} {vs : List (Option TypeDef)} :
    it ∈ itemsVariants vs ↔ ∃ t, some t ∈ vs ∧ it ∈ t.items := by
  induction vs with
  | nil => simp [itemsVariants]
  | cons v vs ih =>
    cases v with
    | none => simp [itemsVariants, ih]
    | some t =>
      simp only [itemsVariants, List.mem_append, ih, List.mem_cons, Option.some.injEq]
      constructor
      · rintro (h | ⟨t', h1, h2⟩)
        · exact ⟨t, Or.inl rfl, h⟩
        · exact ⟨t', Or.inr h1, h2⟩
      · rintro ⟨t', rfl | h1, h2⟩
        · exact Or.inl h2
        · exact Or.inr ⟨t', h1, h2⟩

theorem mem_itemsAccountSetDefs {it : Item} {as : List AccountSetDef} :
    it ∈ itemsAccountSetDefs as ↔ ∃ a ∈ as, it ∈ a.items := by
  induction as with
  | nil => simp [itemsAccountSetDefs]
  | cons a as ih => simp [itemsAccountSetDefs, ih]

theorem mem_itemsTypes {it : Item} {ts : List (Name × IdlType)} :
    it ∈ itemsTypes ts ↔ ∃ s t, (s, t) ∈ ts ∧ it ∈ t.typeDef.items := by
  induction ts with
  | nil => simp [itemsTypes]
  | cons p ts ih =>
    obtain ⟨s0, t0⟩ := p
    simp only [itemsTypes, List.mem_append, ih, List.mem_cons, Prod.mk.injEq]
    constructor
    · rintro (h | ⟨s, t, h1, h2⟩)
      · exact ⟨s0, t0, Or.inl ⟨rfl, rfl⟩, h⟩
      · exact ⟨s, t, Or.inr h1, h2⟩
    · rintro ⟨s, t, ⟨rfl, rfl⟩ | h1, h2⟩
      · exact Or.inl h2
      · exact Or.inr ⟨s, t, h1, h2⟩

theorem mem_itemsAccountSets {it : Item} {ss : List (Name × AccountSet)} :
    it ∈ itemsAccountSets ss ↔ ∃ s a, (s, a) ∈ ss ∧ it ∈ a.setDef.items := by
  induction ss with
  | nil => simp [itemsAccountSets]
  | cons p ss ih =>
    obtain ⟨s0, a0⟩ := p
    simp only [itemsAccountSets, List.mem_append, ih, List.mem_cons, Prod.mk.injEq]
    constructor
    · rintro (h | ⟨s, a, h1, h2⟩)
      · exact ⟨s0, a0, Or.inl ⟨rfl, rfl⟩, h⟩
      · exact ⟨s, a, Or.inr h1, h2⟩
    · rintro ⟨s, a, ⟨rfl, rfl⟩ | h1, h2⟩
      · exact Or.inl h2
      · exact Or.inr ⟨s, a, h1, h2⟩

theorem mem_itemsAccounts {it : Item} {as : List (Name × Account)} :
    it ∈ itemsAccounts as ↔ ∃ s a, (s, a) ∈ as ∧ it ∈ a.items := by
  induction as with
  | nil => simp [itemsAccounts]
  | cons p as ih =>
    obtain ⟨s0, a0⟩ := p
    simp only [itemsAccounts, List.mem_append, ih, List.mem_cons, Prod.mk.injEq]
    constructor
    · rintro (h | ⟨s, a, h1, h2⟩)
      · exact ⟨s0, a0, Or.inl ⟨rfl, rfl⟩, h⟩
      · exact ⟨s, a, Or.inr h1, h2⟩
    · rintro ⟨s, a, ⟨rfl, rfl⟩ | h1, h2⟩
      · exact Or.inl h2
      · exact Or.inr ⟨s, a, h1, h2⟩

theorem mem_itemsInstructions {it : Item} {is : List (Name × Instruction)} :
    it ∈ itemsInstructions is ↔ ∃ s i, (s, i) ∈ is ∧ it ∈ i.items := by
  induction is with
  | nil => simp [itemsInstructions]
  | cons p is ih =>
    obtain ⟨s0, i0⟩ := p
    simp only [itemsInstructions, List.mem_append, ih, List.mem_cons, Prod.mk.injEq]
    constructor
    · rintro (h | ⟨s, i, h1, h2⟩)
      · exact ⟨s0, i0, Or.inl ⟨rfl, rfl⟩, h⟩
      · exact ⟨s, i, Or.inr h1, h2⟩
    · rintro ⟨s, i, ⟨rfl, rfl⟩ | h1, h2⟩
      · exact Or.inl h2
      · exact Or.inr ⟨s, i, h1, h2⟩

theorem mem_itemsSeeds {it : Item} {ss : List Seed} :
    it ∈ itemsSeeds ss ↔ ∃ ty, Seed.variable ty ∈ ss ∧ it ∈ ty.items := by
  induction ss with
  | nil => simp [itemsSeeds]
  | cons s ss ih =>
    rcases s with _ | ty0
    · simp [itemsSeeds, Seed.items, ih]
    · simp only [itemsSeeds, Seed.items, List.mem_append, ih, List.mem_cons, Seed.variable.injEq]
      constructor
      · rintro (h | ⟨ty, h1, h2⟩)
        · exact ⟨ty0, Or.inl rfl, h⟩
        · exact ⟨ty, Or.inr h1, h2⟩
      · rintro ⟨ty, rfl | h1, h2⟩
        · exact Or.inl h2
        · exact Or.inr ⟨ty, h1, h2⟩

/-! ## type definitions -/

theorem TypeDef.head_sub_items {it : Item} {t : TypeDef} (h : it ∈ t.head) : it ∈ t.items := by
  cases t with
  | defined id =>
    cases id with
    | mk s ns gens =>
      simp only [TypeDef.head, List.mem_singleton] at h
      simp [TypeDef.items, TypeId.items, h]
  | _ => simp [TypeDef.head] at h

theorem TypeDef.Child.items_sub {c p : TypeDef} (h : TypeDef.Child c p) {it : Item}
    (hi : it ∈ c.items) : it ∈ p.items := by
  cases h with
  | definedGeneric hg =>
    simp only [TypeDef.items, TypeId.items, List.mem_cons]
    exact Or.inr (mem_itemsTypeDefs.2 ⟨_, hg, hi⟩)
  | structField hf =>
    simp only [TypeDef.items]
    exact mem_itemsTypeDefs.2 ⟨_, hf, hi⟩
  | enumVariant hv =>
    simp only [TypeDef.items, List.mem_append]
    exact Or.inr (mem_itemsVariants.2 ⟨_, hv, hi⟩)
  | _ => simp [TypeDef.items, hi]

theorem TypeDef.Sub.items_sub {x t : TypeDef} (h : TypeDef.Sub x t) {it : Item}
    (hi : it ∈ x.items) : it ∈ t.items := by
  induction h with
  | refl => exact hi
  | step hc _ ih => exact hc.items_sub ih

theorem TypeDef.Sub.trans {x y z : TypeDef} (h1 : TypeDef.Sub x y) (h2 : TypeDef.Sub y z) :
    TypeDef.Sub x z := by
  induction h2 with
  | refl => exact h1
  | step hc _ ih => exact .step hc ih

theorem TypeDef.Occurs.of_child {it : Item} {c p : TypeDef} (hc : TypeDef.Child c p)
    (h : TypeDef.Occurs it c) : TypeDef.Occurs it p := by
  obtain ⟨x, hx, hh⟩ := h
  exact ⟨x, .step hc hx, hh⟩

mutual
theorem TypeDef.items_occurs (it : Item) :
    ∀ t : TypeDef, it ∈ t.items → TypeDef.Occurs it t
  | .defined id => fun h => TypeId.items_occurs it id (by simpa [TypeDef.items] using h)
  | .fixedPoint ty _ => fun h =>
    (TypeDef.items_occurs it ty (by simpa [TypeDef.items] using h)).of_child .fixedPointTy
  | .option ty _ => fun h =>
    (TypeDef.items_occurs it ty (by simpa [TypeDef.items] using h)).of_child .optionTy
  | .list l i => fun h => by
    simp only [TypeDef.items, List.mem_append] at h
    rcases h with h | h
    · exact (TypeDef.items_occurs it l h).of_child .listLen
    · exact (TypeDef.items_occurs it i h).of_child .listItem
  | .unsizedList l o i => fun h => by
    simp only [TypeDef.items, List.mem_append] at h
    rcases h with h | h | h
    · exact (TypeDef.items_occurs it l h).of_child .unsizedListLen
    · exact (TypeDef.items_occurs it o h).of_child .unsizedListOffset
    · exact (TypeDef.items_occurs it i h).of_child .unsizedListItem
  | .set l i => fun h => by
    simp only [TypeDef.items, List.mem_append] at h
    rcases h with h | h
    · exact (TypeDef.items_occurs it l h).of_child .setLen
    · exact (TypeDef.items_occurs it i h).of_child .setItem
  | .map l k v => fun h => by
    simp only [TypeDef.items, List.mem_append] at h
    rcases h with h | h | h
    · exact (TypeDef.items_occurs it l h).of_child .mapLen
    · exact (TypeDef.items_occurs it k h).of_child .mapKey
    · exact (TypeDef.items_occurs it v h).of_child .mapValue
  | .array t _ => fun h =>
    (TypeDef.items_occurs it t (by simpa [TypeDef.items] using h)).of_child .arrayInner
  | .struct fs => fun h => by
    simp only [TypeDef.items] at h
    obtain ⟨f, hf, ho⟩ := itemsTypeDefs_occurs it fs h
    exact ho.of_child (.structField hf)
  | .enum sz vs => fun h => by
    simp only [TypeDef.items, List.mem_append] at h
    rcases h with h | h
    · exact (TypeDef.items_occurs it sz h).of_child .enumSize
    · obtain ⟨t, ht, ho⟩ := itemsVariants_occurs it vs h
      exact ho.of_child (.enumVariant ht)
  | .generic _ => fun h => by simp [TypeDef.items] at h
  | .bool => fun h => by simp [TypeDef.items] at h
  | .u8 => fun h => by simp [TypeDef.items] at h
  | .i8 => fun h => by simp [TypeDef.items] at h
  | .u16 => fun h => by simp [TypeDef.items] at h
  | .i16 => fun h => by simp [TypeDef.items] at h
  | .u32 => fun h => by simp [TypeDef.items] at h
  | .i32 => fun h => by simp [TypeDef.items] at h
  | .f32 => fun h => by simp [TypeDef.items] at h
  | .u64 => fun h => by simp [TypeDef.items] at h
  | .i64 => fun h => by simp [TypeDef.items] at h
  | .f64 => fun h => by simp [TypeDef.items] at h
  | .u128 => fun h => by simp [TypeDef.items] at h
  | .i128 => fun h => by simp [TypeDef.items] at h
  | .string => fun h => by simp [TypeDef.items] at h
  | .pubkey => fun h => by simp [TypeDef.items] at h
  | .remainingBytes => fun h => by simp [TypeDef.items] at h
theorem TypeId.items_occurs (it : Item) :
    ∀ id : TypeId, it ∈ id.items → TypeDef.Occurs it (.defined id)
  | .mk s ns gens => fun h => by
    simp only [TypeId.items, List.mem_cons] at h
    rcases h with h | h
    · exact ⟨_, .refl, by simp [TypeDef.head, h]⟩
    · obtain ⟨g, hg, ho⟩ := itemsTypeDefs_occurs it gens h
      exact ho.of_child (.definedGeneric hg)
theorem itemsTypeDefs_occurs (it : Item) :
    ∀ ts : List TypeDef, it ∈ itemsTypeDefs ts → ∃ t ∈ ts, TypeDef.Occurs it t
  | [] => fun h => by simp [itemsTypeDefs] at h
  | t :: ts => fun h => by
    simp only [itemsTypeDefs, List.mem_append] at h
    rcases h with h | h
    · exact ⟨t, by simp, TypeDef.items_occurs it t h⟩
    · obtain ⟨t', ht', ho⟩ := itemsTypeDefs_occurs it ts h
      exact ⟨t', by simp [ht'], ho⟩
theorem itemsVariants_occurs (it : Item) :
    ∀ vs : List (Option TypeDef), it ∈ itemsVariants vs → ∃ t, some t ∈ vs ∧ TypeDef.Occurs it t
  | [] => fun h => by simp [itemsVariants] at h
  | none :: vs => fun h => by
    simp only [itemsVariants] at h
    obtain ⟨t', ht', ho⟩ := itemsVariants_occurs it vs h
    exact ⟨t', by simp [ht'], ho⟩
  | some t :: vs => fun h => by
    simp only [itemsVariants, List.mem_append] at h
    rcases h with h | h
    · exact ⟨t, by simp, TypeDef.items_occurs it t h⟩
    · obtain ⟨t', ht', ho⟩ := itemsVariants_occurs it vs h
      exact ⟨t', by simp [ht'], ho⟩
end

/-- **Type definitions**: the collector lists exactly the references occurring at any depth. -/
theorem TypeDef.items_complete {it : Item} {t : TypeDef} : it ∈ t.items ↔ TypeDef.Occurs it t :=
  ⟨TypeDef.items_occurs it t, fun ⟨_, hx, hh⟩ => hx.items_sub (TypeDef.head_sub_items hh)⟩

/-! ## account-set definitions -/

theorem AccountSetDef.head_sub_items {it : Item} {a : AccountSetDef} (h : it ∈ a.head) :
    it ∈ a.items := by
  cases a with
  | defined id =>
    cases id with
    | mk s tg ag =>
      simp only [AccountSetDef.head, List.mem_singleton] at h
      simp [AccountSetDef.items, AccountSetId.items, h]
  | single accts => simpa [AccountSetDef.head, AccountSetDef.items] using h
  | struct fs => simp [AccountSetDef.head] at h
  | many inner mn mx =>
    simp only [AccountSetDef.head, List.mem_singleton] at h
    simp [AccountSetDef.items, h]
  | or bs =>
    simp only [AccountSetDef.head, List.mem_singleton] at h
    simp [AccountSetDef.items, h]

theorem AccountSetDef.typeChildren_sub_items {it : Item} {a : AccountSetDef} {t : TypeDef}
    (ht : t ∈ a.typeChildren) (h : it ∈ t.items) : it ∈ a.items := by
  cases a with
  | defined id =>
    cases id with
    | mk s tg ag =>
      simp only [AccountSetDef.typeChildren] at ht
      simp only [AccountSetDef.items, AccountSetId.items, List.mem_cons, List.mem_append]
      exact Or.inr (Or.inl (mem_itemsTypeDefs.2 ⟨t, ht, h⟩))
  | _ => simp [AccountSetDef.typeChildren] at ht

theorem AccountSetDef.Child.items_sub {c p : AccountSetDef} (h : AccountSetDef.Child c p)
    {it : Item} (hi : it ∈ c.items) : it ∈ p.items := by
  cases h with
  | definedAccountGeneric hg =>
    simp only [AccountSetDef.items, AccountSetId.items, List.mem_cons, List.mem_append]
    exact Or.inr (Or.inr (mem_itemsAccountSetDefs.2 ⟨_, hg, hi⟩))
  | structField hf =>
    simp only [AccountSetDef.items]
    exact mem_itemsAccountSetDefs.2 ⟨_, hf, hi⟩
  | manyInner => simp [AccountSetDef.items, hi]
  | orBranch hb =>
    simp only [AccountSetDef.items, List.mem_cons]
    exact Or.inr (mem_itemsAccountSetDefs.2 ⟨_, hb, hi⟩)

theorem AccountSetDef.Sub.items_sub {x a : AccountSetDef} (h : AccountSetDef.Sub x a) {it : Item}
    (hi : it ∈ x.items) : it ∈ a.items := by
  induction h with
  | refl => exact hi
  | step hc _ ih => exact hc.items_sub ih

theorem AccountSetDef.Occurs.of_child {it : Item} {c p : AccountSetDef}
    (hc : AccountSetDef.Child c p) (h : AccountSetDef.Occurs it c) : AccountSetDef.Occurs it p := by
  obtain ⟨x, hx, hh⟩ := h
  exact ⟨x, .step hc hx, hh⟩

mutual
theorem AccountSetDef.items_occurs (it : Item) :
    ∀ a : AccountSetDef, it ∈ a.items → AccountSetDef.Occurs it a
  | .defined id => fun h => AccountSetId.items_occurs it id (by simpa [AccountSetDef.items] using h)
  | .single accts => fun h =>
    ⟨_, .refl, Or.inl (by simpa [AccountSetDef.items, AccountSetDef.head] using h)⟩
  | .struct fs => fun h => by
    simp only [AccountSetDef.items] at h
    obtain ⟨f, hf, ho⟩ := itemsAccountSetDefs_occurs it fs h
    exact ho.of_child (.structField hf)
  | .many inner mn mx => fun h => by
    simp only [AccountSetDef.items, List.mem_cons] at h
    rcases h with h | h
    · exact ⟨_, .refl, Or.inl (by simp [AccountSetDef.head, h])⟩
    · exact (AccountSetDef.items_occurs it inner h).of_child .manyInner
  | .or bs => fun h => by
    simp only [AccountSetDef.items, List.mem_cons] at h
    rcases h with h | h
    · exact ⟨_, .refl, Or.inl (by simp [AccountSetDef.head, h])⟩
    · obtain ⟨b, hb, ho⟩ := itemsAccountSetDefs_occurs it bs h
      exact ho.of_child (.orBranch hb)
theorem AccountSetId.items_occurs (it : Item) :
    ∀ id : AccountSetId, it ∈ id.items → AccountSetDef.Occurs it (.defined id)
  | .mk s tg ag => fun h => by
    simp only [AccountSetId.items, List.mem_cons, List.mem_append] at h
    rcases h with h | h | h
    · exact ⟨_, .refl, Or.inl (by simp [AccountSetDef.head, h])⟩
    · obtain ⟨t, ht, hi⟩ := mem_itemsTypeDefs.1 h
      exact ⟨_, .refl, Or.inr ⟨t, by simpa [AccountSetDef.typeChildren] using ht,
        TypeDef.items_complete.1 hi⟩⟩
    · obtain ⟨g, hg, ho⟩ := itemsAccountSetDefs_occurs it ag h
      exact ho.of_child (.definedAccountGeneric hg)
theorem itemsAccountSetDefs_occurs (it : Item) :
    ∀ as : List AccountSetDef, it ∈ itemsAccountSetDefs as → ∃ a ∈ as, AccountSetDef.Occurs it a
  | [] => fun h => by simp [itemsAccountSetDefs] at h
  | a :: as => fun h => by
    simp only [itemsAccountSetDefs, List.mem_append] at h
    rcases h with h | h
    · exact ⟨a, by simp, AccountSetDef.items_occurs it a h⟩
    · obtain ⟨a', ha', ho⟩ := itemsAccountSetDefs_occurs it as h
      exact ⟨a', by simp [ha'], ho⟩
end

/-- **Account-set definitions**: the collector lists exactly the items occurring at any depth. -/
theorem AccountSetDef.items_complete {it : Item} {a : AccountSetDef} :
    it ∈ a.items ↔ AccountSetDef.Occurs it a := by
  refine ⟨AccountSetDef.items_occurs it a, ?_⟩
  rintro ⟨x, hx, hh | ⟨t, ht, ho⟩⟩
  · exact hx.items_sub (AccountSetDef.head_sub_items hh)
  · exact hx.items_sub (AccountSetDef.typeChildren_sub_items ht (TypeDef.items_complete.2 ho))

/-! ## definitions -/

theorem TypeId.items_eq (id : TypeId) : id.items = (TypeDef.defined id).items := by
  simp [TypeDef.items]

/-- **Definitions**: the collector lists exactly the items occurring anywhere in the definition. -/
theorem Def.items_complete {d : Def} {it : Item} : it ∈ d.items ↔ d.Occurs it := by
  unfold Def.items Def.Occurs
  simp only [List.mem_append, mem_itemsTypes, mem_itemsAccountSets, mem_itemsAccounts,
    mem_itemsInstructions]
  constructor
  · rintro (⟨s, t, hm | hm, hi⟩ | ⟨s, a, hm, hi⟩ | ⟨s, a, hm, hi⟩ | ⟨s, i, hm, hi⟩)
    · exact Or.inl ⟨_, .ofType hm, TypeDef.items_complete.1 hi⟩
    · exact Or.inl ⟨_, .ofExternalType hm, TypeDef.items_complete.1 hi⟩
    · exact Or.inr ⟨_, .ofAccountSet hm, AccountSetDef.items_complete.1 hi⟩
    · simp only [Account.items, List.mem_append] at hi
      rcases hi with hi | hi
      · rw [TypeId.items_eq] at hi
        exact Or.inl ⟨_, .ofAccountTypeId hm, TypeDef.items_complete.1 hi⟩
      · cases hs : a.seeds with
        | none => simp [hs] at hi
        | some ss =>
          simp only [hs] at hi
          obtain ⟨ty, hty, hi⟩ := mem_itemsSeeds.1 hi
          exact Or.inl ⟨_, .ofAccountSeed hm hs hty, TypeDef.items_complete.1 hi⟩
    · simp only [Instruction.items, List.mem_append] at hi
      rcases hi with hi | hi
      · rw [TypeId.items_eq] at hi
        exact Or.inl ⟨_, .ofInstructionTypeId hm, TypeDef.items_complete.1 hi⟩
      · exact Or.inr ⟨_, .ofInstruction hm, AccountSetDef.items_complete.1 hi⟩
  · rintro (⟨t, hr, ho⟩ | ⟨a, hr, ho⟩)
    · have hi := TypeDef.items_complete.2 ho
      cases hr with
      | ofType hm => exact Or.inl ⟨_, _, Or.inl hm, hi⟩
      | ofExternalType hm => exact Or.inl ⟨_, _, Or.inr hm, hi⟩
      | ofAccountTypeId hm =>
        refine Or.inr (Or.inr (Or.inl ⟨_, _, hm, ?_⟩))
        simp only [Account.items, List.mem_append]
        exact Or.inl (by rw [TypeId.items_eq]; exact hi)
      | ofAccountSeed hm hs hty =>
        refine Or.inr (Or.inr (Or.inl ⟨_, _, hm, ?_⟩))
        simp only [Account.items, List.mem_append, hs]
        exact Or.inr (mem_itemsSeeds.2 ⟨_, hty, hi⟩)
      | ofInstructionTypeId hm =>
        refine Or.inr (Or.inr (Or.inr ⟨_, _, hm, ?_⟩))
        simp only [Instruction.items, List.mem_append]
        exact Or.inl (by rw [TypeId.items_eq]; exact hi)
    · have hi := AccountSetDef.items_complete.2 ho
      cases hr with
      | ofAccountSet hm => exact Or.inr (Or.inl ⟨_, _, hm, hi⟩)
      | ofInstruction hm =>
        refine Or.inr (Or.inr (Or.inr ⟨_, _, hm, ?_⟩))
        simp only [Instruction.items, List.mem_append]
        exact Or.inr hi

end Idl
