import Idl.Ast
/-!
# Model of `/repo/star_frame_idl/src/verifier/mod.rs`, function by function

Same traversal order and same error precedence as the Rust code, so the FIRST error (and therefore
the reported rule id) is the same.  `Except Rule Unit` is `Result<()>`; `seqE a b` is `a?; b`.
-/
namespace Idl

/-- The eleven `RULE_*` constants of `verifier/mod.rs`. -/
inductive Rule where
  | emptyNamespace | duplicateNamespace | missingNamespace | missingType | typeGenericArity
  | missingAccountSet | accountSetTypeArity | accountSetAccountArity | missingAccount
  | manyBounds | emptyOr
deriving DecidableEq, Repr

def Rule.all : List Rule :=
  [.emptyNamespace, .duplicateNamespace, .missingNamespace, .missingType, .typeGenericArity,
   .missingAccountSet, .accountSetTypeArity, .accountSetAccountArity, .missingAccount,
   .manyBounds, .emptyOr]

/-- The rule id each constructor stands for, with its documented meaning
(`docs/IDL_VERIFIER_SCOPE.md`, "Rule IDs"): SFIDL001 empty namespace, 002 duplicate namespace,
003 missing namespace reference, 004 missing type, 005 type generic arity mismatch, 006 missing
account set, 007 account-set type generic arity mismatch, 008 account-set account generic arity
mismatch, 009 missing account, 010 invalid `Many` bounds, 011 empty `Or`.
The id VALUES are compared with the source in `Props/C18.lean`; which id the code emits in which
situation is established by the correspondence run. -/
def Rule.id : Rule → String
  | .emptyNamespace => "SFIDL001"
  | .duplicateNamespace => "SFIDL002"
  | .missingNamespace => "SFIDL003"
  | .missingType => "SFIDL004"
  | .typeGenericArity => "SFIDL005"
  | .missingAccountSet => "SFIDL006"
  | .accountSetTypeArity => "SFIDL007"
  | .accountSetAccountArity => "SFIDL008"
  | .missingAccount => "SFIDL009"
  | .manyBounds => "SFIDL010"
  | .emptyOr => "SFIDL011"

/-- `a?; b` -/
@[macro_inline] def seqE (a b : Except Rule Unit) : Except Rule Unit :=
  match a with
  | .error r => .error r
  | .ok _ => b

instance : DecidableEq (Except Rule Unit)
  | .ok (), .ok () => isTrue rfl
  | .error a, .error b =>
    if h : a = b then isTrue (h ▸ rfl) else isFalse (by intro e; cases e; exact h rfl)
  | .ok _, .error _ => isFalse (by intro e; cases e)
  | .error _, .ok _ => isFalse (by intro e; cases e)

/-- `NamespaceIndex`: the map from trimmed namespace to definition (keys are unique by
construction), plus the `VerificationMode`. -/
structure Env where
  index : List (Name × Def)
  mode : Mode

/-- `NamespaceIndex::build` (the loop, with the map built so far as accumulator). -/
def buildIndex : List Def → List (Name × Def) → Except Rule (List (Name × Def))
  | [], acc => .ok acc
  | d :: ds, acc =>
    if d.key = [] then .error .emptyNamespace
    else if (acc.lookup d.key).isSome then .error .duplicateNamespace
    else buildIndex ds ((d.key, d) :: acc)

/-- `NamespaceIndex::by_namespace` (note: the *reference's* namespace is not trimmed). -/
def Env.byNamespace (env : Env) (n : Name) : Option Def := env.index.lookup n

/-- `IdlDefinition::get_type` -/
def Def.getType (d : Def) (s : Name) : Option IdlType :=
  match d.types.lookup s with
  | some t => some t
  | none => d.externalTypes.lookup s

/-- `BTreeMap::contains_key` on `accounts` -/
def Def.hasAccount (d : Def) (s : Name) : Bool := (d.accounts.lookup s).isSome

/-- The first half of `verify_type_id`: compute `resolved_type` (or the error). -/
def resolveType (env : Env) (cur : Def) (s : Name) (ns : Option Name) : Except Rule IdlType :=
  match ns with
  | none =>
    match cur.getType s with
    | some t => .ok t
    | none => .error .missingType
  | some n =>
    match env.mode with
    | .compat =>
      match cur.getType s with
      | some t => .ok t
      | none =>
        match env.byNamespace n with
        | none => .error .missingNamespace
        | some d =>
          match d.getType s with
          | some t => .ok t
          | none => .error .missingType
    | .strict =>
      match env.byNamespace n with
      | none => .error .missingNamespace
      | some d =>
        match d.getType s with
        | some t => .ok t
        | none => .error .missingType

/-- The non-recursive part of `verify_type_id` (resolution, then the arity check). -/
def checkTypeRef (env : Env) (cur : Def) (s : Name) (ns : Option Name) (arity : Nat) :
    Except Rule Unit :=
  match resolveType env cur s ns with
  | .error r => .error r
  | .ok t => if arity ≠ t.generics then .error .typeGenericArity else .ok ()

/-- The non-recursive part of `verify_account_set_id`. -/
def checkSetRef (cur : Def) (s : Name) (tyArity accArity : Nat) : Except Rule Unit :=
  match cur.accountSets.lookup s with
  | none => .error .missingAccountSet
  | some st =>
    if tyArity ≠ st.tyGenerics then .error .accountSetTypeArity
    else if accArity ≠ st.accGenerics then .error .accountSetAccountArity
    else .ok ()

/-- `verify_account_id` -/
def verifyAccountId (env : Env) (cur : Def) (a : AccountId) : Except Rule Unit :=
  match a.ns with
  | none => if cur.hasAccount a.source then .ok () else .error .missingAccount
  | some n =>
    match env.mode with
    | .compat =>
      if cur.hasAccount a.source then .ok ()
      else
        match env.byNamespace n with
        | none => .error .missingNamespace
        | some d => if d.hasAccount a.source then .ok () else .error .missingAccount
    | .strict =>
      match env.byNamespace n with
      | none => .error .missingNamespace
      | some d => if d.hasAccount a.source then .ok () else .error .missingAccount

/-- `verify_single_account_set` -/
def verifyAccountIds (env : Env) (cur : Def) : List AccountId → Except Rule Unit
  | [] => .ok ()
  | a :: as => seqE (verifyAccountId env cur a) (verifyAccountIds env cur as)

/-- The `Many` bounds check of `verify_account_set_def`. -/
def checkMany (min : Nat) (max : Option Nat) : Except Rule Unit :=
  match max with
  | some mx => if mx < min then .error .manyBounds else .ok ()
  | none => .ok ()

/-- The `Or` emptiness check of `verify_account_set_def`. -/
def checkOr (n : Nat) : Except Rule Unit :=
  if n = 0 then .error .emptyOr else .ok ()

mutual
/-- `verify_type_def` -/
def verifyTypeDef (env : Env) (cur : Def) : TypeDef → Except Rule Unit
  | .defined id => verifyTypeId env cur id
  | .fixedPoint ty _ => verifyTypeDef env cur ty
  | .option ty _ => verifyTypeDef env cur ty
  | .list lenTy itemTy => seqE (verifyTypeDef env cur lenTy) (verifyTypeDef env cur itemTy)
  | .unsizedList lenTy offsetTy itemTy =>
    seqE (verifyTypeDef env cur lenTy)
      (seqE (verifyTypeDef env cur offsetTy) (verifyTypeDef env cur itemTy))
  | .set lenTy itemTy => seqE (verifyTypeDef env cur lenTy) (verifyTypeDef env cur itemTy)
  | .map lenTy keyTy valueTy =>
    seqE (verifyTypeDef env cur lenTy)
      (seqE (verifyTypeDef env cur keyTy) (verifyTypeDef env cur valueTy))
  | .array inner _ => verifyTypeDef env cur inner
  | .struct fields => verifyTypeDefs env cur fields
  | .enum size variants => seqE (verifyTypeDef env cur size) (verifyVariants env cur variants)
  | .generic _ | .bool | .u8 | .i8 | .u16 | .i16 | .u32 | .i32 | .f32 | .u64 | .i64 | .f64
  | .u128 | .i128 | .string | .pubkey | .remainingBytes => .ok ()
/-- `verify_type_id` -/
def verifyTypeId (env : Env) (cur : Def) : TypeId → Except Rule Unit
  | .mk s ns gens => seqE (checkTypeRef env cur s ns gens.length) (verifyTypeDefs env cur gens)
/-- the `for` loops over `provided_generics` / struct fields -/
def verifyTypeDefs (env : Env) (cur : Def) : List TypeDef → Except Rule Unit
  | [] => .ok ()
  | t :: ts => seqE (verifyTypeDef env cur t) (verifyTypeDefs env cur ts)
/-- the `for` loop over enum variants -/
def verifyVariants (env : Env) (cur : Def) : List (Option TypeDef) → Except Rule Unit
  | [] => .ok ()
  | none :: vs => verifyVariants env cur vs
  | some t :: vs => seqE (verifyTypeDef env cur t) (verifyVariants env cur vs)
end

mutual
/-- `verify_account_set_def` -/
def verifyAccountSetDef (env : Env) (cur : Def) : AccountSetDef → Except Rule Unit
  | .defined id => verifyAccountSetId env cur id
  | .single accts => verifyAccountIds env cur accts
  | .struct fields => verifyAccountSetDefs env cur fields
  | .many inner min max => seqE (checkMany min max) (verifyAccountSetDef env cur inner)
  | .or branches => seqE (checkOr branches.length) (verifyAccountSetDefs env cur branches)
/-- `verify_account_set_id` -/
def verifyAccountSetId (env : Env) (cur : Def) : AccountSetId → Except Rule Unit
  | .mk s tyGens accGens =>
    seqE (checkSetRef cur s tyGens.length accGens.length)
      (seqE (verifyTypeDefs env cur tyGens) (verifyAccountSetDefs env cur accGens))
/-- the `for` loops over struct fields / branches / account generics -/
def verifyAccountSetDefs (env : Env) (cur : Def) : List AccountSetDef → Except Rule Unit
  | [] => .ok ()
  | a :: as => seqE (verifyAccountSetDef env cur a) (verifyAccountSetDefs env cur as)
end

/-- the `for` loop over `types.iter().chain(external_types.iter())` -/
def verifyTypes (env : Env) (cur : Def) : List (Name × IdlType) → Except Rule Unit
  | [] => .ok ()
  | (_, t) :: ts => seqE (verifyTypeDef env cur t.typeDef) (verifyTypes env cur ts)

/-- the `for` loop over `account_sets` -/
def verifyAccountSets (env : Env) (cur : Def) : List (Name × AccountSet) → Except Rule Unit
  | [] => .ok ()
  | (_, s) :: ss => seqE (verifyAccountSetDef env cur s.setDef) (verifyAccountSets env cur ss)

/-- the `for` loop over the seeds of one account -/
def verifySeeds (env : Env) (cur : Def) : List Seed → Except Rule Unit
  | [] => .ok ()
  | .const :: ss => verifySeeds env cur ss
  | .variable ty :: ss => seqE (verifyTypeDef env cur ty) (verifySeeds env cur ss)

def verifyAccount (env : Env) (cur : Def) (a : Account) : Except Rule Unit :=
  seqE (verifyTypeId env cur a.typeId)
    (match a.seeds with
     | none => .ok ()
     | some ss => verifySeeds env cur ss)

/-- the `for` loop over `accounts` -/
def verifyAccounts (env : Env) (cur : Def) : List (Name × Account) → Except Rule Unit
  | [] => .ok ()
  | (_, a) :: as => seqE (verifyAccount env cur a) (verifyAccounts env cur as)

def verifyInstruction (env : Env) (cur : Def) (i : Instruction) : Except Rule Unit :=
  seqE (verifyTypeId env cur i.typeId) (verifyAccountSetDef env cur i.accountSet)

/-- the `for` loop over `instructions` -/
def verifyInstructions (env : Env) (cur : Def) : List (Name × Instruction) → Except Rule Unit
  | [] => .ok ()
  | (_, i) :: is => seqE (verifyInstruction env cur i) (verifyInstructions env cur is)

/-- `verify_definition` -/
def verifyDefinition (env : Env) (d : Def) : Except Rule Unit :=
  seqE (verifyTypes env d (d.types ++ d.externalTypes))
    (seqE (verifyAccountSets env d d.accountSets)
      (seqE (verifyAccounts env d d.accounts) (verifyInstructions env d d.instructions)))

/-- the `for definition in definitions` loop -/
def verifyDefs (env : Env) : List Def → Except Rule Unit
  | [] => .ok ()
  | d :: ds => seqE (verifyDefinition env d) (verifyDefs env ds)

/-- `verify_idl_definitions_with_mode` -/
def verify (ds : List Def) (m : Mode) : Except Rule Unit :=
  match buildIndex ds [] with
  | .error r => .error r
  | .ok idx => verifyDefs ⟨idx, m⟩ ds

end Idl
