import Common.Bytes
/-!
# C17 — account sets (IDL vs client metas), discriminants, Codama lowering

* `SetShape`      — the account-set building blocks of `star_frame::account_set`.
* `setToIdl`      — their `AccountSetToIdl` emitters (`idl_impl` modules of `modifiers/{signer,mutable,
  init,seeded}.rs`, `impls/{account_info,option,vec,array,boxed}.rs`, `rest.rs`, `program.rs`,
  `sysvar.rs`, `account.rs`, `borsh_account.rs`, and the derive in
  `star_frame_proc/src/account_set/struct_impl/idl.rs`).
* `clientSlots`   — what `ClientAccountSet::extend_account_metas` pushes for the harness' canonical
  client inputs (every explicit key fresh; `Program`/`Sysvar` left at their default; optional
  accounts all present or all absent).
* `flatten`       — the flattened account list an IDL consumer derives from an `IdlAccountSetDef`.
* `discToUsize`   — `star_frame_idl::codama::discriminant_to_usize`.
* `lowerDef`      — the account part of the Codama lowering (`codama.rs` 230–330).
-/
namespace Idl.Codama
open Common

/-! ## IDL account sets (`star_frame_idl::account_set`) -/

/-- One `IdlFindSeed`: a constant, an `AccountPath` relative to the account set that holds the seeded
account (words separated by spaces for nested fields), or an `AccountPath` written `:path` that is
taken from the root of the instruction. -/
inductive SeedM where
  | const
  | rel (words : List String)
  | root (words : List String)
  deriving Repr, DecidableEq, Inhabited

structure Single where
  writable : Bool := false
  signer : Bool := false
  optional : Bool := false
  isInit : Bool := false
  hasSeeds : Bool := false
  address : Option (List Nat) := none
  /-- the find-seeds (only carried where the Codama lowering is concerned) -/
  seeds : List SeedM := []
  deriving Repr, DecidableEq, Inhabited

/-- `IdlAccountSetDef` with `Defined` references resolved (by the harness' printer). -/
inductive IdlSet where
  | single (s : Single)
  | struct (paths : List (Option String)) (fields : List IdlSet)
  | many (s : IdlSet) (min : Nat) (max : Option Nat)
  | or (alts : List IdlSet)
  deriving Repr, Inhabited

/-! ## Runtime account sets -/

inductive SetShape where
  /-- `AccountInfo`, `SystemAccount`, `Account<T>`, `BorshAccount<T>`: one account, no flags -/
  | info
  /-- `MaybeSigner<b, T>` (`Signer<T>` = `MaybeSigner<true, T>`) -/
  | signer (b : Bool) (inner : SetShape)
  /-- `MaybeMut<b, T>` (`Mut<T>` = `MaybeMut<true, T>`) -/
  | mutable (b : Bool) (inner : SetShape)
  /-- `Init<T>` -/
  | init (inner : SetShape)
  /-- `Seeded<T, S, P>` with an `#[idl(arg = Seeds(..))]` -/
  | seeded (inner : SetShape)
  /-- `Program<T>` / `Sysvar<T>`: address fixed to `T::ID` / `T::id()`, client defaults to it -/
  | fixed (addr : List Nat)
  /-- `Box<T>` -/
  | boxed (inner : SetShape)
  /-- `Option<T>` -/
  | opt (inner : SetShape)
  /-- `[T; N]` -/
  | array (inner : SetShape) (n : Nat)
  /-- `Vec<T>` / `Rest<T>` -/
  | rest (inner : SetShape)
  /-- derived struct (any number of fields; only a `#[single_account_set]` newtype wrapper is
  transparent on every side and is written as its field — `struct_impl/idl.rs`, `single_set_field`) -/
  | struct (paths : List (Option String)) (fields : List SetShape)
  deriving Repr, Inhabited

/-- `IdlAccountSetDef::single()` then mutate; a non-single set is an error in the real code
(excluded by `WF`), left unchanged here. -/
def mapSingle (f : Single → Single) : IdlSet → IdlSet
  | .single s => .single (f s)
  | other => other

mutual
def setToIdl : SetShape → IdlSet
  | .info => .single {}
  | .signer b s => if b then mapSingle (fun x => { x with signer := true }) (setToIdl s) else setToIdl s
  | .mutable b s => if b then mapSingle (fun x => { x with writable := true }) (setToIdl s) else setToIdl s
  | .init s => mapSingle (fun x => { x with writable := true, isInit := true }) (setToIdl s)
  | .seeded s => mapSingle (fun x => { x with hasSeeds := true }) (setToIdl s)
  | .fixed a => .single { address := some a }
  | .boxed s => setToIdl s
  | .opt s =>
    match setToIdl s with
    | .single x => .single { x with optional := true }
    | other => .or [other, .struct [] []]
  | .array s n => .many (setToIdl s) n (some n)
  | .rest s => .many (setToIdl s) 0 none
  | .struct paths fs => .struct paths (setToIdlAll fs)
def setToIdlAll : List SetShape → List IdlSet
  | [] => []
  | f :: fs => setToIdl f :: setToIdlAll fs
end

/-! ## Flattened account lists -/

inductive KeyKind where
  /-- a key the caller has to supply -/
  | fresh
  /-- the executing program's id (also the placeholder of an absent optional account) -/
  | self
  /-- a fixed address -/
  | fixed (a : List Nat)
  deriving Repr, DecidableEq, Inhabited

structure Slot where
  signer : Bool
  writable : Bool
  key : KeyKind
  deriving Repr, DecidableEq, Inhabited

def placeholder : Slot := ⟨false, false, .self⟩

def keyOf (prog : List Nat) : Option (List Nat) → KeyKind
  | none => .fresh
  | some a => if a = prog then .self else .fixed a

/-- How many accounts the harness passes for a `Many { min, max }`: exactly `min` when the count is
fixed, two otherwise. -/
def manyCount (min : Nat) (max : Option Nat) : Nat := if max = some min then min else 2

def replicateFlat (n : Nat) (l : List Slot) : List Slot := (List.replicate n l).flatten

mutual
/-- The account list an IDL consumer builds: singles in order; an optional account that is absent
is the program-id placeholder; `Or [set, {}]` (an optional group) likewise. `present = false`
means every optional account is absent. -/
def flatten (prog : List Nat) (present : Bool) : IdlSet → List Slot
  | .single s => if s.optional && !present then [placeholder] else [⟨s.signer, s.writable, keyOf prog s.address⟩]
  | .struct _ fs => flattenAll prog present fs
  | .many s min max => replicateFlat (manyCount min max) (flatten prog present s)
  | .or alts => if present then flattenHead prog present alts else [placeholder]
def flattenAll (prog : List Nat) (present : Bool) : List IdlSet → List Slot
  | [] => []
  | f :: fs => flatten prog present f ++ flattenAll prog present fs
def flattenHead (prog : List Nat) (present : Bool) : List IdlSet → List Slot
  | [] => []
  | f :: _ => flatten prog present f
end

/-- `SingleAccountSet::meta()` of a single-account shape: a modifier RAISES its flag, a pass-through
(`MaybeSigner<false, _>`, `MaybeMut<false, _>`) keeps the inner one
(`SingleSetMeta { signer: SIGNER || T::meta().signer, ..T::meta() }`, /repo 10a861d). -/
def metaOf : SetShape → Bool × Bool
  | .signer b s => (b || (metaOf s).1, (metaOf s).2)
  | .mutable b s => ((metaOf s).1, b || (metaOf s).2)
  | .init s => ((metaOf s).1, true)
  | .seeded s => metaOf s
  | .boxed s => metaOf s
  | _ => (false, false)

/-- One account, i.e. `T: SingleAccountSet`. -/
def isSingle : SetShape → Bool
  | .info => true
  | .signer _ s => isSingle s
  | .mutable _ s => isSingle s
  | .init s => isSingle s
  | .seeded s => isSingle s
  | .fixed _ => true
  | .boxed s => isSingle s
  | _ => false

/-- A modifier wraps the shape (then the client takes an explicit key: the derived
`ClientAccountSet` of a single-set wrapper has `ClientAccounts = Pubkey`). -/
def isWrapped : SetShape → Bool
  | .signer _ _ | .mutable _ _ | .init _ | .seeded _ => true
  | .boxed s => isWrapped s
  | _ => false

def fixedAddr : SetShape → Option (List Nat)
  | .fixed a => some a
  | .boxed s => fixedAddr s
  | _ => none

mutual
/-- The metas `extend_account_metas` pushes, for the harness' canonical client input. -/
def clientSlots (prog : List Nat) (present : Bool) : SetShape → List Slot
  | .info => [⟨false, false, .fresh⟩]
  | .signer b s => [⟨b || (metaOf s).1, (metaOf s).2, .fresh⟩]
  | .mutable b s => [⟨(metaOf s).1, b || (metaOf s).2, .fresh⟩]
  | .init s => [⟨(metaOf s).1, true, .fresh⟩]
  | .seeded s => [⟨(metaOf s).1, (metaOf s).2, .fresh⟩]
  | .fixed a => [⟨false, false, keyOf prog (some a)⟩]
  | .boxed s => clientSlots prog present s
  | .opt s => if present then clientSlots prog present s else [placeholder]
  | .array s n => replicateFlat n (clientSlots prog present s)
  | .rest s => replicateFlat 2 (clientSlots prog present s)
  | .struct _ fs => clientSlotsAll prog present fs
def clientSlotsAll (prog : List Nat) (present : Bool) : List SetShape → List Slot
  | [] => []
  | f :: fs => clientSlots prog present f ++ clientSlotsAll prog present fs
end

mutual
/-- Shapes the Rust types admit: modifiers wrap single-account sets; a fixed-address account
(`Program`/`Sysvar`) is not wrapped by a modifier (the wrapper's client takes an explicit key, there
is no default to compare). Pass-through modifiers over checking ones are INSIDE `WF`. -/
def WF : SetShape → Bool
  | .info => true
  | .signer _ s => isSingle s && WF s && (fixedAddr s).isNone
  | .mutable _ s => isSingle s && WF s && (fixedAddr s).isNone
  | .init s => isSingle s && WF s && (fixedAddr s).isNone
  | .seeded s => isSingle s && WF s && (fixedAddr s).isNone
  | .fixed _ => true
  | .boxed s => WF s
  | .opt s => WF s
  | .array s _ => WF s
  | .rest s => WF s
  | .struct _ fs => WFAll fs
def WFAll : List SetShape → Bool
  | [] => true
  | f :: fs => WF f && WFAll fs
end

/-! ## Multi-variant account sets (`#[idl(id = "…", arg = …, address = …)]`) -/

/-- One `#[idl(..)]` attribute on a field: the variant it belongs to (`none` = the un-named default
variant), whether it passes a `Seeds(..)` arg, and the address it pins. -/
structure FieldAttr where
  id : Option String
  seeds : Bool
  address : Option (List Nat)
  deriving Repr, Inhabited

structure VField where
  path : Option String
  attrs : List FieldAttr
  /-- the field's account set (for a `Seeded<T>` field: `T`; the `Seeds` arg of the chosen variant decides
  whether the IDL gets seeds) -/
  inner : SetShape
  deriving Repr, Inhabited

/-- STRICT per-id lookup (`struct_impl/idl.rs`: `f.iter().find(|f| f.id == id)`): only an attribute
carrying exactly the requested id counts; an un-named attribute never serves a named variant. -/
def lookupAttr (id : Option String) : List FieldAttr → Option FieldAttr
  | [] => none
  | a :: as => if a.id = id then some a else lookupAttr id as

/-- `IdlAccountSetDef::with_single_address`. -/
def withAddress (a : Option (List Nat)) (s : IdlSet) : IdlSet :=
  match a with
  | none => s
  | some ad => mapSingle (fun x => { x with address := some ad }) s

def fieldToIdl (id : Option String) (f : VField) : IdlSet :=
  match lookupAttr id f.attrs with
  | none => setToIdl f.inner
  | some a => withAddress a.address (setToIdl (if a.seeds then .seeded f.inner else f.inner))

/-- The IDL of variant `id` of a derived struct with these fields. -/
def variantToIdl (id : Option String) (fs : List VField) : IdlSet :=
  .struct (fs.map (·.path)) (fs.map (fieldToIdl id))

/-- The client metas do not depend on the variant. -/
def variantClient (prog : List Nat) (present : Bool) (fs : List VField) : List Slot :=
  clientSlotsAll prog present (fs.map (·.inner))

/-- fields of a multi-variant set as the harness uses them: a single account (not `Program`/`Sysvar`),
addresses other than the program's own id -/
def VFieldOk (prog : List Nat) (f : VField) : Bool :=
  isSingle f.inner && WF f.inner && (fixedAddr f.inner).isNone &&
    f.attrs.all (fun a => match a.address with | none => true | some ad => decide (ad ≠ prog))

/-! ## Comparing an IDL-derived list with actual client metas -/

/-- `idl` slot vs `client` slot: same flags; same key kind — except that a client that takes an
explicit key (no default) is compatible with an IDL that names a fixed address for it
(`#[idl(address = ..)]` on a plain account, or a wrapped `Program<T>`): there is no default on
the client side to compare. -/
def agree (idl client : Slot) : Bool :=
  idl.signer == client.signer && idl.writable == client.writable &&
    (decide (idl.key = client.key) || (match client.key, idl.key with
      | .fresh, .fixed _ => true
      | _, _ => false))

def agreeAll : List Slot → List Slot → Bool
  | [], [] => true
  | a :: as, b :: bs => agree a b && agreeAll as bs
  | _, _ => false

/-- flags only (used when every optional account is present, see the driver) -/
def flagsOf (l : List Slot) : List (Bool × Bool) := l.map (fun s => (s.signer, s.writable))

/-! ## Discriminants -/

/-- `discriminant_to_usize` (`codama.rs` 631–640) on a 64-bit host: the guard compares a BIT count
with `size_of::<usize>()` (bytes), so only lengths 0 and 1 pass. -/
def discToUsize (d : List Nat) : Except Unit Nat :=
  if d.length * 8 > 8 then .error ()
  else .ok (rdLE (d ++ List.replicate (8 - d.length) 0))

/-- `hex::encode`: two nibbles per byte (the `BytesValueNode::base16` default value of the
`discriminator` field). -/
def nibbles : List Nat → List Nat
  | [] => []
  | b :: bs => b / 16 :: b % 16 :: nibbles bs

def unNibbles : List Nat → List Nat
  | hi :: lo :: rest => (16 * hi + lo) :: unNibbles rest
  | _ => []

/-! ## Codama lowering of an instruction's account set -/

def isAlpha (c : Char) : Bool := ('a' ≤ c && c ≤ 'z') || ('A' ≤ c && c ≤ 'Z')
def isDigit (c : Char) : Bool := '0' ≤ c && c ≤ '9'
def isLower (c : Char) : Bool := 'a' ≤ c && c ≤ 'z'
def isUpper (c : Char) : Bool := 'A' ≤ c && c ≤ 'Z'
def upper (c : Char) : Char := if isLower c then Char.ofNat (c.toNat - 32) else c
def lower (c : Char) : Char := if isUpper c then Char.ofNat (c.toNat + 32) else c

/-- `codama_nodes::CamelCaseString::new` (ASCII). -/
def camelGo : List Char → Bool → List Char → List Char
  | [], _, acc => acc.reverse
  | c :: rest, newWord, acc =>
    let alnum := isAlpha c || isDigit c
    let acc' := if alnum then (if newWord && !acc.isEmpty then upper c else lower c) :: acc else acc
    let nw := if alnum then false else true
    let nw := if isDigit c then true else nw
    let nw := match rest with
      | d :: _ => if isLower c && isUpper d then true else nw
      | [] => nw
    camelGo rest nw acc'

def camel (s : String) : String := String.ofList (camelGo s.toList true [])

structure CAcc where
  name : String
  signer : Bool
  writable : Bool
  optional : Bool
  address : Option (List Nat)
  /-- names of the accounts the PDA default value looks its account seeds up in, in seed order -/
  seedAccounts : List String := []
  deriving Repr, DecidableEq, Inhabited

inductive LErr where
  | manyNotLast | remainingDefault | manyNotSingle | unsupportedSet
  deriving Repr, DecidableEq

/-- `PathInfo::name`. -/
def pathName (ps : List String) : String := camel (" ".intercalate ps)

/-- `PathInfo::create_next`. -/
def nextPath (ps : List String) (name : Option String) (index : Nat) : List String :=
  ps ++ [name.getD (toString index)]

/-- The account a seed is looked up in, given the path of the set that HOLDS the seeded account
(`seeds_to_pda_value_node`: `paths.pop()` once, then `create_next(account_path)` per relative seed;
`:`-rooted paths are taken as they are; constants look nothing up). -/
def resolveSeed (parent : List String) : SeedM → Option String
  | .const => none
  | .rel ws => some (pathName (parent ++ [" ".intercalate ws]))
  | .root ws => some (camel (" ".intercalate ws))

/-- All account seeds of one PDA are resolved against the SAME parent: the seeded account's own path
without its last component. -/
def seedAccountsOf (ps : List String) (s : Single) : List String :=
  if s.address.isSome then [] else s.seeds.filterMap (resolveSeed ps.dropLast)

/-- `single_set_to_account_node`. -/
def toCAcc (ps : List String) (s : Single) : CAcc :=
  ⟨pathName ps, s.signer, s.writable, s.optional, s.address, seedAccountsOf ps s⟩

abbrev LRes := Except LErr (List CAcc × List CAcc)

mutual
/-- `(&IdlAccountSetStructField, &PathInfo)::try_to_codama` (the path already extended). -/
def lowerField : IdlSet → List String → LRes
  | .single s, ps => .ok ([toCAcc ps s], [])
  | .many inner _ _, ps =>
    match inner with
    | .single s =>
      -- `instruction_account_to_remaining`: a default value (address or seeds) is refused
      if s.address.isSome || s.hasSeeds then .error .remainingDefault else .ok ([], [toCAcc ps s])
    | _ => .error .manyNotSingle
  | .struct paths fs, ps => lowerFields paths fs ps 0 [] []
  | .or _, _ => .error .unsupportedSet
/-- the loop of `(&IdlAccountSetDef, &PathInfo)::try_to_codama` over a `Struct` -/
def lowerFields : List (Option String) → List IdlSet → List String → Nat → List CAcc → List CAcc → LRes
  | paths, f :: fs, ps, i, accs, rems =>
    match lowerField f (nextPath ps (paths.headD none) i) with
    | .error e => .error e
    | .ok (nf, nr) =>
      if !rems.isEmpty && !nf.isEmpty then .error .manyNotLast
      else lowerFields paths.tail fs ps (i + 1) (accs ++ nf) (rems ++ nr)
  | _, [], _, _, accs, rems => .ok (accs, rems)
end

/-- Shape of an instruction's / account's own type as the lowering sees it: a struct whose first
field is named, a struct without fields, a tuple struct, anything else. -/
inductive ArgKind where
  | named | empty | tuple | other
  deriving Repr, DecidableEq

/-- `ensure_struct_node`: named structs and the empty tuple pass. -/
def argsOk : ArgKind → Bool
  | .named | .empty => true
  | _ => false

/-- `IdlAccountSetDef::try_to_codama` at the top of an instruction: only a struct is accepted. -/
def lowerDef : IdlSet → LRes
  | .struct paths fs => lowerFields paths fs [] 0 [] []
  | _ => .error .unsupportedSet

inductive PErr where
  | unsupportedType
  | set (e : LErr)
  deriving Repr, DecidableEq

/-- `IdlInstruction::try_to_codama`: the argument type first, then the account set. -/
def lowerIx (k : ArgKind) (s : IdlSet) : Except PErr (List CAcc × List CAcc) :=
  if argsOk k then
    match lowerDef s with
    | .ok r => .ok r
    | .error e => .error (.set e)
  else .error .unsupportedType

/-- `TryFrom<IdlDefinition> for ProgramNode`, as far as success/failure goes: accounts (in table
order), then instructions (in table order); the first failure is returned. -/
def lowerProgram (accts : List ArgKind) (ixs : List (ArgKind × IdlSet)) : Except PErr Unit :=
  if accts.all argsOk then
    ixs.foldl (fun acc (k, s) =>
      match acc with
      | .error e => .error e
      | .ok () =>
        match lowerIx k s with
        | .ok _ => .ok ()
        | .error e => .error e) (.ok ())
  else .error .unsupportedType

mutual
/-- The single-account leaves of a set with their paths, in order (what must survive). -/
def leaves : IdlSet → List String → List CAcc
  | .single s, ps => [toCAcc ps s]
  | .many inner _ _, ps =>
    match inner with
    | .single s => [toCAcc ps s]
    | _ => []
  | .struct paths fs, ps => leavesAll paths fs ps 0
  | .or _, _ => []
def leavesAll : List (Option String) → List IdlSet → List String → Nat → List CAcc
  | paths, f :: fs, ps, i => leaves f (nextPath ps (paths.headD none) i) ++ leavesAll paths.tail fs ps (i + 1)
  | _, [], _, _ => []
end

end Idl.Codama
