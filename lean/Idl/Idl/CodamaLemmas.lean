import Idl.Codama
/-! # C17 — lemmas behind `accounts_faithful`, `disc_to_usize_spec`, `codama_preserves` -/
namespace Idl.Codama
open Common

/-! ### single-account shapes -/

theorem single_spec : (s : SetShape) → isSingle s = true → WF s = true →
    ∃ x, setToIdl s = .single x ∧ x.signer = (metaOf s).1 ∧ x.writable = (metaOf s).2
      ∧ x.optional = false ∧ x.address = fixedAddr s
  | .info, _, _ => ⟨{}, by simp [setToIdl, metaOf, fixedAddr]⟩
  | .signer b s, hs, hw => by
    simp only [isSingle] at hs
    simp only [WF, Bool.and_eq_true, Bool.or_eq_true, Option.isNone_iff_eq_none] at hw
    obtain ⟨x, hx, h1, h2, h3, h4⟩ := single_spec s hs hw.1.1.2
    cases b
    · refine ⟨x, by simp [setToIdl, hx], ?_, by simp [metaOf, h2], h3, by simp [fixedAddr, h4, hw.2]⟩
      have := hw.1.2; simp at this; simp [metaOf, h1, this]
    · exact ⟨{ x with signer := true }, by simp [setToIdl, hx, mapSingle], by simp [metaOf],
        by simp [metaOf, h2], h3, by simp [fixedAddr, h4, hw.2]⟩
  | .mutable b s, hs, hw => by
    simp only [isSingle] at hs
    simp only [WF, Bool.and_eq_true, Bool.or_eq_true, Option.isNone_iff_eq_none] at hw
    obtain ⟨x, hx, h1, h2, h3, h4⟩ := single_spec s hs hw.1.1.2
    cases b
    · refine ⟨x, by simp [setToIdl, hx], by simp [metaOf, h1], ?_, h3, by simp [fixedAddr, h4, hw.2]⟩
      have := hw.1.2; simp at this; simp [metaOf, h2, this]
    · exact ⟨{ x with writable := true }, by simp [setToIdl, hx, mapSingle], by simp [metaOf, h1],
        by simp [metaOf], h3, by simp [fixedAddr, h4, hw.2]⟩
  | .init s, hs, hw => by
    simp only [isSingle] at hs
    simp only [WF, Bool.and_eq_true, Option.isNone_iff_eq_none] at hw
    obtain ⟨x, hx, h1, _, h3, h4⟩ := single_spec s hs hw.1.2
    exact ⟨{ x with writable := true, isInit := true }, by simp [setToIdl, hx, mapSingle], by simp [metaOf, h1],
      by simp [metaOf], h3, by simp [fixedAddr, h4, hw.2]⟩
  | .seeded s, hs, hw => by
    simp only [isSingle] at hs
    simp only [WF, Bool.and_eq_true, Option.isNone_iff_eq_none] at hw
    obtain ⟨x, hx, h1, h2, h3, h4⟩ := single_spec s hs hw.1.2
    exact ⟨{ x with hasSeeds := true }, by simp [setToIdl, hx, mapSingle], by simp [metaOf, h1],
      by simp [metaOf, h2], h3, by simp [fixedAddr, h4, hw.2]⟩
  | .fixed a, _, _ => ⟨{ address := some a }, by simp [setToIdl, metaOf, fixedAddr]⟩
  | .boxed s, hs, hw => by
    simp only [isSingle] at hs
    simp only [WF] at hw
    obtain ⟨x, hx, h1, h2, h3, h4⟩ := single_spec s hs hw
    exact ⟨x, by simp [setToIdl, hx], by simp [metaOf, h1], by simp [metaOf, h2], h3, by simp [fixedAddr, h4]⟩
  | .opt _, hs, _ | .array _ _, hs, _ | .rest _, hs, _ | .struct _ _, hs, _ => by simp [isSingle] at hs

theorem flatten_single (prog : List Nat) (present : Bool) (s : SetShape) (hs : isSingle s = true)
    (hw : WF s = true) :
    flatten prog present (setToIdl s) = [⟨(metaOf s).1, (metaOf s).2, keyOf prog (fixedAddr s)⟩] := by
  obtain ⟨x, hx, h1, h2, h3, h4⟩ := single_spec s hs hw
  simp [hx, flatten, h1, h2, h3, h4]

mutual
theorem flatten_setToIdl (prog : List Nat) (present : Bool) : (s : SetShape) → WF s = true →
    flatten prog present (setToIdl s) = clientSlots prog present s
  | .info, _ => by simp [setToIdl, flatten, clientSlots, keyOf]
  | .signer b s, hw => by
    have hw' := hw
    simp only [WF, Bool.and_eq_true, Option.isNone_iff_eq_none] at hw'
    rw [flatten_single prog present (.signer b s) (by simpa [isSingle] using hw'.1.1.1) hw]
    simp [clientSlots, metaOf, fixedAddr, keyOf]
  | .mutable b s, hw => by
    have hw' := hw
    simp only [WF, Bool.and_eq_true, Option.isNone_iff_eq_none] at hw'
    rw [flatten_single prog present (.mutable b s) (by simpa [isSingle] using hw'.1.1.1) hw]
    simp [clientSlots, metaOf, fixedAddr, keyOf]
  | .init s, hw => by
    have hw' := hw
    simp only [WF, Bool.and_eq_true, Option.isNone_iff_eq_none] at hw'
    rw [flatten_single prog present (.init s) (by simpa [isSingle] using hw'.1.1) hw]
    simp [clientSlots, metaOf, fixedAddr, keyOf]
  | .seeded s, hw => by
    have hw' := hw
    simp only [WF, Bool.and_eq_true, Option.isNone_iff_eq_none] at hw'
    rw [flatten_single prog present (.seeded s) (by simpa [isSingle] using hw'.1.1) hw]
    simp [clientSlots, metaOf, fixedAddr, keyOf]
  | .fixed a, _ => by simp [setToIdl, flatten, clientSlots]
  | .boxed s, hw => by
    simp only [WF] at hw
    simp only [setToIdl, clientSlots]; exact flatten_setToIdl prog present s hw
  | .opt s, hw => by
    simp only [WF] at hw
    have ih := flatten_setToIdl prog present s hw
    simp only [setToIdl, clientSlots]
    cases present
    · split <;> simp [flatten]
    · split
      · rename_i x hx
        rw [hx] at ih
        simp only [flatten, Bool.not_true, Bool.and_false] at ih ⊢
        simpa using ih
      · simpa [flatten, flattenHead] using ih
  | .array s n, hw => by
    simp only [WF] at hw
    simp [setToIdl, flatten, clientSlots, manyCount, flatten_setToIdl prog present s hw]
  | .rest s, hw => by
    simp only [WF] at hw
    simp [setToIdl, flatten, clientSlots, manyCount, flatten_setToIdl prog present s hw]
  | .struct paths fs, hw => by
    simp only [WF] at hw
    simp only [setToIdl, flatten, clientSlots]; exact flattenAll_setToIdl prog present fs hw
theorem flattenAll_setToIdl (prog : List Nat) (present : Bool) : (fs : List SetShape) → WFAll fs = true →
    flattenAll prog present (setToIdlAll fs) = clientSlotsAll prog present fs
  | [], _ => by simp [setToIdlAll, flattenAll, clientSlotsAll]
  | f :: fs, hw => by
    simp only [WFAll, Bool.and_eq_true] at hw
    simp only [setToIdlAll, flattenAll, clientSlotsAll, flatten_setToIdl prog present f hw.1,
      flattenAll_setToIdl prog present fs hw.2]
end

theorem agree_refl (a : Slot) : agree a a = true := by simp [agree]

theorem agreeAll_refl : (l : List Slot) → agreeAll l l = true
  | [] => rfl
  | a :: as => by simp [agreeAll, agree_refl, agreeAll_refl as]

/-! ### discriminants -/

theorem rdLE_append_zeros (d : List Nat) (k : Nat) : rdLE (d ++ List.replicate k 0) = rdLE d := by
  induction d with
  | nil => induction k with
    | zero => simp [rdLE]
    | succ k ih => simp only [List.nil_append] at ih; simp [List.replicate_succ, rdLE, ih]
  | cons b bs ih => simp [rdLE, ih]

theorem unNibbles_nibbles (d : List Nat) (h : BytesWF d) : unNibbles (nibbles d) = d := by
  induction d with
  | nil => rfl
  | cons b bs ih =>
    simp at h
    simp only [nibbles, unNibbles, ih h.2]
    congr 1; omega

/-! ### Codama lowering -/

mutual
theorem lowerField_leaves : (s : IdlSet) → (ps : List String) → (a r : List CAcc) →
    lowerField s ps = .ok (a, r) → a ++ r = leaves s ps
  | .single s, ps, a, r, h => by
    simp only [lowerField, Except.ok.injEq, Prod.mk.injEq] at h
    simp [leaves, ← h.1, ← h.2]
  | .many inner mn mx, ps, a, r, h => by
    cases inner with
    | single s =>
      simp only [lowerField] at h
      split at h
      · cases h
      · simp only [Except.ok.injEq, Prod.mk.injEq] at h; simp [leaves, ← h.1, ← h.2]
    | struct _ _ => simp [lowerField] at h
    | many _ _ _ => simp [lowerField] at h
    | or _ => simp [lowerField] at h
  | .struct paths fs, ps, a, r, h => by
    simp only [lowerField] at h
    have := lowerFields_leaves paths fs ps 0 [] [] a r h
    simpa [leaves] using this
  | .or _, _, _, _, h => by simp [lowerField] at h
theorem lowerFields_leaves : (paths : List (Option String)) → (fs : List IdlSet) → (ps : List String) →
    (i : Nat) → (accs rems a r : List CAcc) →
    lowerFields paths fs ps i accs rems = .ok (a, r) → a ++ r = accs ++ rems ++ leavesAll paths fs ps i
  | paths, [], ps, i, accs, rems, a, r, h => by
    simp only [lowerFields, Except.ok.injEq, Prod.mk.injEq] at h
    simp [leavesAll, ← h.1, ← h.2]
  | paths, f :: fs, ps, i, accs, rems, a, r, h => by
    simp only [lowerFields] at h
    split at h
    · cases h
    · rename_i nf nr hf
      have hl := lowerField_leaves f _ nf nr hf
      split at h
      · cases h
      · rename_i hc
        have ih := lowerFields_leaves paths.tail fs ps (i + 1) (accs ++ nf) (rems ++ nr) a r h
        rw [ih, leavesAll, ← hl]
        simp only [Bool.and_eq_true, Bool.not_eq_true', not_and, Bool.not_eq_false] at hc
        by_cases hr : rems.isEmpty = true
        · have : rems = [] := by simpa using hr
          subst this; simp
        · have hnf : nf = [] := by
            have := hc (by simpa using hr); simpa using this
          subst hnf; simp
end

end Idl.Codama
