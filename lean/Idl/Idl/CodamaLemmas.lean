import Idl.Codama
/-! # C17 — lemmas behind `accounts_faithful`, `disc_to_usize_spec`, `codama_preserves` -/
namespace Idl.Codama
open Common

/-! ### single-account shapes -/

theorem single_spec : (s : SetShape) → isSingle s = true → WF s = true →
    ∃ x, setToIdl s = .single x ∧ x.signer = (metaOf s).1 ∧ x.writable = (metaOf s).2
      ∧ x.optional = false ∧ x.address = fixedAddr s
  | .info, _, _ => ⟨{}, by simp [setToIdl, metaOf, fixedAddr]⟩
  | .signer b s, hs, hw => by
    simp only [isSingle] at hs
    simp only [WF, Bool.and_eq_true, Option.isNone_iff_eq_none] at hw
    obtain ⟨x, hx, h1, h2, h3, h4⟩ := single_spec s hs hw.1.2
    cases b
    · exact ⟨x, by simp [setToIdl, hx], by simp [metaOf, h1], by simp [metaOf, h2], h3, by simp [fixedAddr, h4, hw.2]⟩
    · exact ⟨{ x with signer := true }, by simp [setToIdl, hx, mapSingle], by simp [metaOf],
        by simp [metaOf, h2], h3, by simp [fixedAddr, h4, hw.2]⟩
  | .mutable b s, hs, hw => by
    simp only [isSingle] at hs
    simp only [WF, Bool.and_eq_true, Option.isNone_iff_eq_none] at hw
    obtain ⟨x, hx, h1, h2, h3, h4⟩ := single_spec s hs hw.1.2
    cases b
    · exact ⟨x, by simp [setToIdl, hx], by simp [metaOf, h1], by simp [metaOf, h2], h3, by simp [fixedAddr, h4, hw.2]⟩
    · exact ⟨{ x with writable := true }, by simp [setToIdl, hx, mapSingle], by simp [metaOf, h1],
        by simp [metaOf], h3, by simp [fixedAddr, h4, hw.2]⟩
  | .init s, hs, hw => by
    simp only [isSingle] at hs
    simp only [WF, Bool.and_eq_true, Option.isNone_iff_eq_none] at hw
    obtain ⟨x, hx, h1, _, h3, h4⟩ := single_spec s hs hw.1.2
    exact ⟨{ x with writable := true, isInit := true }, by simp [setToIdl, hx, mapSingle], by simp [metaOf, h1],
      by simp [metaOf], h3, by simp [fixedAddr, h4, hw.2]⟩
  | .seeded s, hs, hw => by
    simp only [isSingle] at hs
    simp only [WF, Bool.and_eq_true, Option.isNone_iff_eq_none] at hw
    obtain ⟨x, hx, h1, h2, h3, h4⟩ := single_spec s hs hw.1.2
    exact ⟨{ x with hasSeeds := true }, by simp [setToIdl, hx, mapSingle], by simp [metaOf, h1],
      by simp [metaOf, h2], h3, by simp [fixedAddr, h4, hw.2]⟩
  | .fixed a, _, _ => ⟨{ address := some a }, by simp [setToIdl, metaOf, fixedAddr]⟩
  | .boxed s, hs, hw => by
    simp only [isSingle] at hs
    simp only [WF] at hw
    obtain ⟨x, hx, h1, h2, h3, h4⟩ := single_spec s hs hw
    exact ⟨x, by simp [setToIdl, hx], by simp [metaOf, h1], by simp [metaOf, h2], h3, by simp [fixedAddr, h4]⟩
  | .opt _, hs, _ | .array _ _, hs, _ | .rest _, hs, _ | .struct _ _, hs, _ => by simp [isSingle] at hs

theorem flatten_single (prog : List Nat) (present : Bool) (s : SetShape) (hs : isSingle s = true)
    (hw : WF s = true) :
    flatten prog present (setToIdl s) = [⟨(metaOf s).1, (metaOf s).2, keyOf prog (fixedAddr s)⟩] := by
  obtain ⟨x, hx, h1, h2, h3, h4⟩ := single_spec s hs hw
  simp [hx, flatten, h1, h2, h3, h4]

mutual
theorem flatten_setToIdl (prog : List Nat) (present : Bool) : (s : SetShape) → WF s = true →
    flatten prog present (setToIdl s) = clientSlots prog present s
  | .info, _ => by simp [setToIdl, flatten, clientSlots, keyOf]
  | .signer b s, hw => by
    have hw' := hw
    simp only [WF, Bool.and_eq_true, Option.isNone_iff_eq_none] at hw'
    rw [flatten_single prog present (.signer b s) (by simpa [isSingle] using hw'.1.1) hw]
    simp [clientSlots, metaOf, fixedAddr, keyOf]
  | .mutable b s, hw => by
    have hw' := hw
    simp only [WF, Bool.and_eq_true, Option.isNone_iff_eq_none] at hw'
    rw [flatten_single prog present (.mutable b s) (by simpa [isSingle] using hw'.1.1) hw]
    simp [clientSlots, metaOf, fixedAddr, keyOf]
  | .init s, hw => by
    have hw' := hw
    simp only [WF, Bool.and_eq_true, Option.isNone_iff_eq_none] at hw'
    rw [flatten_single prog present (.init s) (by simpa [isSingle] using hw'.1.1) hw]
    simp [clientSlots, metaOf, fixedAddr, keyOf]
  | .seeded s, hw => by
    have hw' := hw
    simp only [WF, Bool.and_eq_true, Option.isNone_iff_eq_none] at hw'
    rw [flatten_single prog present (.seeded s) (by simpa [isSingle] using hw'.1.1) hw]
    simp [clientSlots, metaOf, fixedAddr, keyOf]
  | .fixed a, _ => by simp [setToIdl, flatten, clientSlots]
  | .boxed s, hw => by
    simp only [WF] at hw
    simp only [setToIdl, clientSlots]; exact flatten_setToIdl prog present s hw
  | .opt s, hw => by
    simp only [WF] at hw
    have ih := flatten_setToIdl prog present s hw
    simp only [setToIdl, clientSlots]
    cases present
    · split <;> simp [flatten]
    · split
      · rename_i x hx
        rw [hx] at ih
        simp only [flatten, Bool.not_true, Bool.and_false] at ih ⊢
        simpa using ih
      · simpa [flatten, flattenHead] using ih
  | .array s n, hw => by
    simp only [WF] at hw
    simp [setToIdl, flatten, clientSlots, manyCount, flatten_setToIdl prog present s hw]
  | .rest s, hw => by
    simp only [WF] at hw
    simp [setToIdl, flatten, clientSlots, manyCount, flatten_setToIdl prog present s hw]
  | .struct paths fs, hw => by
    simp only [WF] at hw
    simp only [setToIdl, flatten, clientSlots]; exact flattenAll_setToIdl prog present fs hw
theorem flattenAll_setToIdl (prog : List Nat) (present : Bool) : (fs : List SetShape) → WFAll fs = true →
    flattenAll prog present (setToIdlAll fs) = clientSlotsAll prog present fs
  | [], _ => by simp [setToIdlAll, flattenAll, clientSlotsAll]
  | f :: fs, hw => by
    simp only [WFAll, Bool.and_eq_true] at hw
    simp only [setToIdlAll, flattenAll, clientSlotsAll, flatten_setToIdl prog present f hw.1,
      flattenAll_setToIdl prog present fs hw.2]
end

theorem agree_refl (a : Slot) : agree a a = true := by simp [agree]

theorem agreeAll_refl : (l : List Slot) → agreeAll l l = true
  | [] => rfl
  | a :: as => by simp [agreeAll, agree_refl, agreeAll_refl as]

theorem agreeAll_append : (a b c d : List Slot) → agreeAll a b = true → agreeAll c d = true →
    agreeAll (a ++ c) (b ++ d) = true
  | [], [], _, _, _, h2 => by simpa using h2
  | [], _ :: _, _, _, h1, _ => by simp [agreeAll] at h1
  | _ :: _, [], _, _, h1, _ => by simp [agreeAll] at h1
  | x :: a, y :: b, c, d, h1, h2 => by
    simp only [agreeAll, Bool.and_eq_true] at h1
    simp only [List.cons_append, agreeAll, Bool.and_eq_true]
    exact ⟨h1.1, agreeAll_append a b c d h1.2 h2⟩

theorem lookupAttr_mem (id : Option String) : (as : List FieldAttr) → (a : FieldAttr) →
    lookupAttr id as = some a → a ∈ as
  | [], _, h => by simp [lookupAttr] at h
  | b :: bs, a, h => by
    simp only [lookupAttr] at h
    split at h
    · simp only [Option.some.injEq] at h; simp [h]
    · simp [lookupAttr_mem id bs a h]

/-- One field of a multi-variant set: whatever variant is requested, the flattened IDL of the field
agrees with its client meta (an address pinned by THAT variant's attribute over the explicit key). -/
theorem field_agree (prog : List Nat) (present : Bool) (id : Option String) (f : VField)
    (h : VFieldOk prog f = true) :
    agreeAll (flatten prog present (fieldToIdl id f)) (clientSlots prog present f.inner) = true := by
  simp only [VFieldOk, Bool.and_eq_true, Option.isNone_iff_eq_none, List.all_eq_true] at h
  obtain ⟨⟨⟨hs, hw⟩, hf⟩, ha⟩ := h
  have hc : clientSlots prog present f.inner = [⟨(metaOf f.inner).1, (metaOf f.inner).2, .fresh⟩] := by
    rw [← flatten_setToIdl prog present f.inner hw, flatten_single prog present f.inner hs hw, hf]; rfl
  unfold fieldToIdl
  split
  · rw [flatten_setToIdl prog present f.inner hw]; exact agreeAll_refl _
  · rename_i a hl
    have hmem := lookupAttr_mem id f.attrs a hl
    have hsh : ∀ sh, sh = (if a.seeds then SetShape.seeded f.inner else f.inner) →
        ∃ x, setToIdl sh = .single x ∧ x.signer = (metaOf f.inner).1 ∧ x.writable = (metaOf f.inner).2
          ∧ x.optional = false ∧ x.address = none := by
      intro sh he
      cases hse : a.seeds <;> simp only [hse, if_true, if_false, Bool.false_eq_true] at he <;> subst he
      · obtain ⟨x, hx, h1, h2, h3, h4⟩ := single_spec f.inner hs hw
        exact ⟨x, hx, h1, h2, h3, by rw [h4, hf]⟩
      · obtain ⟨x, hx, h1, h2, h3, h4⟩ := single_spec (.seeded f.inner) (by simpa [isSingle] using hs)
          (by simp [WF, hs, hw, hf])
        exact ⟨x, hx, by simpa [metaOf] using h1, by simpa [metaOf] using h2, h3, by simpa [fixedAddr] using h4⟩
    obtain ⟨x, hx, h1, h2, h3, h4⟩ := hsh _ rfl
    rw [hx, hc]
    cases had : a.address with
    | none => simp [withAddress, flatten, h1, h2, h3, h4, keyOf, agreeAll, agree]
    | some ad =>
      have hne : ad ≠ prog := by
        have := ha a hmem; simp only [had] at this; simpa using this
      simp [withAddress, mapSingle, flatten, h1, h2, h3, keyOf, hne, agreeAll, agree]

theorem fields_agree (prog : List Nat) (present : Bool) (id : Option String) : (fs : List VField) →
    (∀ f ∈ fs, VFieldOk prog f = true) →
    agreeAll (flattenAll prog present (fs.map (fieldToIdl id))) (clientSlotsAll prog present (fs.map (·.inner))) = true
  | [], _ => by simp [flattenAll, clientSlotsAll, agreeAll]
  | f :: fs, h => by
    simp only [List.map_cons, flattenAll, clientSlotsAll]
    exact agreeAll_append _ _ _ _ (field_agree prog present id f (h f (by simp)))
      (fields_agree prog present id fs (fun g hg => h g (by simp [hg])))

/-! ### discriminants -/

theorem rdLE_append_zeros (d : List Nat) (k : Nat) : rdLE (d ++ List.replicate k 0) = rdLE d := by
  induction d with
  | nil => induction k with
    | zero => simp [rdLE]
    | succ k ih => simp only [List.nil_append] at ih; simp [List.replicate_succ, rdLE, ih]
  | cons b bs ih => simp [rdLE, ih]

theorem unNibbles_nibbles (d : List Nat) (h : BytesWF d) : unNibbles (nibbles d) = d := by
  induction d with
  | nil => rfl
  | cons b bs ih =>
    simp at h
    simp only [nibbles, unNibbles, ih h.2]
    congr 1; omega

/-! ### Codama lowering -/

mutual
theorem lowerField_leaves : (s : IdlSet) → (ps : List String) → (a r : List CAcc) →
    lowerField s ps = .ok (a, r) → a ++ r = leaves s ps
  | .single s, ps, a, r, h => by
    simp only [lowerField, Except.ok.injEq, Prod.mk.injEq] at h
    simp [leaves, ← h.1, ← h.2]
  | .many inner mn mx, ps, a, r, h => by
    cases inner with
    | single s =>
      simp only [lowerField] at h
      split at h
      · cases h
      · simp only [Except.ok.injEq, Prod.mk.injEq] at h; simp [leaves, ← h.1, ← h.2]
    | struct _ _ => simp [lowerField] at h
    | many _ _ _ => simp [lowerField] at h
    | or _ => simp [lowerField] at h
  | .struct paths fs, ps, a, r, h => by
    simp only [lowerField] at h
    have := lowerFields_leaves paths fs ps 0 [] [] a r h
    simpa [leaves] using this
  | .or _, _, _, _, h => by simp [lowerField] at h
theorem lowerFields_leaves : (paths : List (Option String)) → (fs : List IdlSet) → (ps : List String) →
    (i : Nat) → (accs rems a r : List CAcc) →
    lowerFields paths fs ps i accs rems = .ok (a, r) → a ++ r = accs ++ rems ++ leavesAll paths fs ps i
  | paths, [], ps, i, accs, rems, a, r, h => by
    simp only [lowerFields, Except.ok.injEq, Prod.mk.injEq] at h
    simp [leavesAll, ← h.1, ← h.2]
  | paths, f :: fs, ps, i, accs, rems, a, r, h => by
    simp only [lowerFields] at h
    split at h
    · cases h
    · rename_i nf nr hf
      have hl := lowerField_leaves f _ nf nr hf
      split at h
      · cases h
      · rename_i hc
        have ih := lowerFields_leaves paths.tail fs ps (i + 1) (accs ++ nf) (rems ++ nr) a r h
        rw [ih, leavesAll, ← hl]
        simp only [Bool.and_eq_true, Bool.not_eq_true', not_and, Bool.not_eq_false] at hc
        by_cases hr : rems.isEmpty = true
        · have : rems = [] := by simpa using hr
          subst this; simp
        · have hnf : nf = [] := by
            have := hc (by simpa using hr); simpa using this
          subst hnf; simp
end

end Idl.Codama
