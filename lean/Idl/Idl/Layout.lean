import Common.Bytes
/-!
# C17 — type layouts: what the IDL says versus what the runtime serializers write

* `TyShape`   — the runtime type building blocks (what a Rust type of the framework *is*):
  primitives, `PackedValue`, fixed point, arrays, borsh `Option`/`Vec`/`BTreeMap`/`BTreeSet`/`String`,
  `List<T,L>`, `Set<T,L>`, `Map<K,V,L>`, `UnsizedString<u32>`, `UnsizedList<T>`, `UnsizedMap<K,V>`,
  `RemainingBytes`, structs (sized part and unsized fields in declaration order), `#[repr(u8)]` enums.
* `Val`       — owned values.
* `encode`    — the bytes the runtime serializer writes (borsh for instruction arguments and borsh
  accounts; `FromOwned::from_owned` / bytemuck for zero-copy and unsized account data; the two agree
  on every building block below, which is why one `TyShape` serves both).
  `UnsizedList`: `le32 unsized_size ++ le32 len ++ offset entries ++ le32 len ++ elements`
  (`unsized_list.rs` `from_owned_from_iter`), an `UnsizedMap` entry being `le32 offset ++ key`
  (`unsized_map.rs` `OrdOffset`, `repr(C)`).
* `IdlTy`     — mirror of `star_frame_idl::ty::IdlTypeDef` (layout-relevant part: `Defined`
  references are resolved by the harness' printer, names and docs are dropped).
* `typeToIdl` — what the `TypeToIdl` emitters produce (`idl/ty.rs`, the `idl_impl` modules next to
  each container, `star_frame_proc/src/idl/type_to_idl.rs`).
* `idlDecode` — a decoder driven ONLY by an `IdlTy`, written from the documented meaning of each
  `IdlTypeDef` variant (doc comments in `star_frame_idl/src/ty.rs` and the field documentation the
  Codama lowering attaches to `UnsizedList`: total unsized length, list of offset entries "for the
  start of each element", list of elements).

`LayoutLemmas.lean` proves `idlDecode (typeToIdl s) (encode s v) = some (v, |encode s v|)`.
-/
namespace Idl.Layout
open Common

/-! ## Runtime side -/

inductive TyShape where
  | bool
  | int (w : Nat) (signed : Bool)
  | float (w : Nat)
  | pubkey
  | fixedPoint (w : Nat) (signed : Bool) (frac : Nat)
  | array (elem : TyShape) (n : Nat)
  | option (elem : TyShape)
  | string
  | list (elem : TyShape) (lw : Nat)
  | set (elem : TyShape) (lw : Nat)
  | map (key val : TyShape) (lw : Nat)
  | ulist (elem : TyShape)
  | umap (key elem : TyShape)
  | remaining
  | struct (fields : List TyShape)
  | enum (discs : List Nat) (payloads : List TyShape)
  /-- payload of a unit enum variant (`type_def: None` in the IDL) -/
  | unit
  deriving Repr, Inhabited

inductive Val where
  | num (n : Nat)
  | bool (b : Bool)
  | bytes (bs : List Nat)
  | none
  | some (v : Val)
  | seq (vs : List Val)
  | pair (k v : Val)
  | variant (idx : Nat) (payload : Val)
  | unit
  deriving Repr, Inhabited

/-- Offset table of an unsized list: entry `i` is `le32 (start of element i) ++ meta i`. -/
def offsetTable : Nat → List (List Nat) → List (List Nat) → List Nat
  | off, m :: ms, c :: cs => leN 4 off ++ m ++ offsetTable (off + c.length) ms cs
  | _, _, _ => []

/-- `unsized_list.rs` `from_owned_from_iter`. -/
def ulistBytes (metas chunks : List (List Nat)) : List Nat :=
  leN 4 chunks.flatten.length ++ leN 4 chunks.length ++ offsetTable 0 metas chunks
    ++ leN 4 chunks.length ++ chunks.flatten

def pairKey : Val → Val
  | .pair k _ => k
  | _ => .unit
def pairVal : Val → Val
  | .pair _ v => v
  | _ => .unit

mutual
/-- Bytes written by the runtime serializer (`[]` for ill-typed input; `wfVal` excludes that). -/
def encode : TyShape → Val → List Nat
  | .bool, v => match v with
    | .bool b => [if b then 1 else 0]
    | _ => []
  | .int w _, v => match v with
    | .num n => leN w n
    | _ => []
  | .float w, v => match v with
    | .num n => leN w n
    | _ => []
  | .pubkey, v => match v with
    | .bytes bs => bs
    | _ => []
  | .fixedPoint w _ _, v => match v with
    | .num n => leN w n
    | _ => []
  | .array e _, v => match v with
    | .seq vs => (vs.map (encode e)).flatten
    | _ => []
  | .option e, v => match v with
    | .none => [0]
    | .some x => 1 :: encode e x
    | _ => []
  | .string, v => match v with
    | .bytes bs => leN 4 bs.length ++ bs
    | _ => []
  | .list e lw, v => match v with
    | .seq vs => leN lw vs.length ++ (vs.map (encode e)).flatten
    | _ => []
  | .set e lw, v => match v with
    | .seq vs => leN lw vs.length ++ (vs.map (encode e)).flatten
    | _ => []
  | .map k x lw, v => match v with
    | .seq ps => leN lw ps.length ++ (ps.map (fun p => encode k (pairKey p) ++ encode x (pairVal p))).flatten
    | _ => []
  | .ulist e, v => match v with
    | .seq vs => ulistBytes (vs.map (fun _ => [])) (vs.map (encode e))
    | _ => []
  | .umap k e, v => match v with
    | .seq ps => ulistBytes (ps.map (fun p => encode k (pairKey p))) (ps.map (fun p => encode e (pairVal p)))
    | _ => []
  | .remaining, v => match v with
    | .bytes bs => bs
    | _ => []
  | .struct fs, v => match v with
    | .seq vs => encodeFields fs vs
    | _ => []
  | .enum ds ps, v => match v with
    | .variant i p => encodeVariant ds ps i p
    | _ => []
  | .unit, _ => []
def encodeFields : List TyShape → List Val → List Nat
  | f :: fs, vs => match vs with
    | v :: vs => encode f v ++ encodeFields fs vs
    | [] => []
  | [], _ => []
def encodeVariant : List Nat → List TyShape → Nat → Val → List Nat
  | ds, p :: ps, i, v => match i with
    | 0 => leN 1 (ds.headD 0) ++ encode p v
    | i + 1 => encodeVariant ds.tail ps i v
  | _, [], _, _ => []
end

def isPair : Val → Bool
  | .pair _ _ => true
  | _ => false

mutual
/-- The value has the type and every integer fits its width (counts fit their prefix, sizes fit the
`u32` header fields, keys are 32 bytes, bytes are bytes). -/
def wfVal : TyShape → Val → Bool
  | .bool, v => match v with
    | .bool _ => true
    | _ => false
  | .int w _, v => match v with
    | .num n => decide (n < 256 ^ w)
    | _ => false
  | .float w, v => match v with
    | .num n => decide (n < 256 ^ w)
    | _ => false
  | .pubkey, v => match v with
    | .bytes bs => decide (bs.length = 32) && decide (BytesWF bs)
    | _ => false
  | .fixedPoint w _ _, v => match v with
    | .num n => decide (n < 256 ^ w)
    | _ => false
  | .array e n, v => match v with
    | .seq vs => decide (vs.length = n) && vs.all (wfVal e)
    | _ => false
  | .option e, v => match v with
    | .none => true
    | .some x => wfVal e x
    | _ => false
  | .string, v => match v with
    | .bytes bs => decide (bs.length < 256 ^ 4) && decide (BytesWF bs)
    | _ => false
  | .list e lw, v => match v with
    | .seq vs => decide (vs.length < 256 ^ lw) && vs.all (wfVal e)
    | _ => false
  | .set e lw, v => match v with
    | .seq vs => decide (vs.length < 256 ^ lw) && vs.all (wfVal e)
    | _ => false
  | .map k x lw, v => match v with
    | .seq ps => decide (ps.length < 256 ^ lw) && ps.all (fun p => isPair p && wfVal k (pairKey p) && wfVal x (pairVal p))
    | _ => false
  | .ulist e, v => match v with
    | .seq vs => decide (vs.length < 256 ^ 4) && vs.all (wfVal e)
        && decide (((vs.map (encode e)).flatten).length < 256 ^ 4)
    | _ => false
  | .umap k e, v => match v with
    | .seq ps => decide (ps.length < 256 ^ 4)
        && ps.all (fun p => isPair p && wfVal k (pairKey p) && wfVal e (pairVal p))
        && decide (((ps.map (fun p => encode e (pairVal p))).flatten).length < 256 ^ 4)
    | _ => false
  | .remaining, v => match v with
    | .bytes bs => decide (BytesWF bs)
    | _ => false
  | .struct fs, v => match v with
    | .seq vs => wfFields fs vs
    | _ => false
  | .enum ds ps, v => match v with
    | .variant i p => wfVariant ds ps i p
    | _ => false
  | .unit, v => match v with
    | .unit => true
    | _ => false
def wfFields : List TyShape → List Val → Bool
  | f :: fs, vs => match vs with
    | v :: vs => wfVal f v && wfFields fs vs
    | [] => false
  | [], vs => vs.isEmpty
def wfVariant : List Nat → List TyShape → Nat → Val → Bool
  | ds, p :: ps, i, v => match i with
    | 0 => wfVal p v
    | i + 1 => wfVariant ds.tail ps i v
  | _, [], _, _ => false
end

/-- No duplicates (Rust rejects duplicate enum discriminants). -/
def nodup : List Nat → Bool
  | [] => true
  | d :: ds => !ds.contains d && nodup ds

def intWidthOk (w : Nat) : Bool := w == 1 || w == 2 || w == 4 || w == 8 || w == 16
def lenWidthOk (w : Nat) : Bool := w == 1 || w == 2 || w == 4 || w == 8

mutual
/-- Self-delimiting: a decoder knows where the value ends without being told the total length.
`RemainingBytes` is not, except inside an unsized list, whose offset table delimits every element. -/
def closed : TyShape → Bool
  | .bool => true
  | .int w _ => intWidthOk w
  | .float w => w == 4 || w == 8
  | .pubkey => true
  | .fixedPoint w _ _ => intWidthOk w
  | .array e _ => closed e
  | .option e => closed e
  | .string => true
  | .list e lw => lenWidthOk lw && closed e
  | .set e lw => lenWidthOk lw && closed e
  | .map k x lw => lenWidthOk lw && closed k && closed x
  | .ulist e => tailOk e
  | .umap k e => closed k && tailOk e
  | .remaining => false
  | .struct fs => closedAll fs
  | .enum ds ps => decide (ds.length = ps.length) && ds.all (· < 256) && nodup ds && closedAll ps
  | .unit => true
def closedAll : List TyShape → Bool
  | [] => true
  | f :: fs => closed f && closedAll fs
/-- Well-formed as a top-level (or offset-delimited) type: `RemainingBytes` only in tail position. -/
def tailOk : TyShape → Bool
  | .bool => true
  | .int w _ => intWidthOk w
  | .float w => w == 4 || w == 8
  | .pubkey => true
  | .fixedPoint w _ _ => intWidthOk w
  | .array e _ => closed e
  | .option e => tailOk e
  | .string => true
  | .list e lw => lenWidthOk lw && closed e
  | .set e lw => lenWidthOk lw && closed e
  | .map k x lw => lenWidthOk lw && closed k && closed x
  | .ulist e => tailOk e
  | .umap k e => closed k && tailOk e
  | .remaining => true
  | .struct fs => tailOkFields fs
  | .enum ds ps => decide (ds.length = ps.length) && ds.all (· < 256) && nodup ds && tailOkAll ps
  | .unit => true
def tailOkFields : List TyShape → Bool
  | [] => true
  | [f] => tailOk f
  | f :: g :: fs => closed f && tailOkFields (g :: fs)
def tailOkAll : List TyShape → Bool
  | [] => true
  | f :: fs => tailOk f && tailOkAll fs
end

/-! ## IDL side -/

/-- `star_frame_idl::ty::IdlTypeDef` without names/docs; `Defined` resolved. -/
inductive IdlTy where
  | bool | u8 | i8 | u16 | i16 | u32 | i32 | f32 | u64 | i64 | f64 | u128 | i128
  | string | pubkey
  | fixedPoint (ty : IdlTy) (frac : Nat)
  | option (ty : IdlTy) (fixed : Bool)
  | remainingBytes
  | list (lenTy itemTy : IdlTy)
  | unsizedList (lenTy offsetTy itemTy : IdlTy)
  | set (lenTy itemTy : IdlTy)
  | map (lenTy keyTy valueTy : IdlTy)
  | array (ty : IdlTy) (n : Nat)
  | struct (fields : List IdlTy)
  /-- `discs[i]` are the discriminant bytes of variant `i`, `payloads[i]` its `type_def`
  (`noPayload` for `None`). -/
  | enum (size : IdlTy) (discs : List (List Nat)) (payloads : List IdlTy)
  | noPayload
  /-- `Generic(_)` or anything the printer could not resolve: no layout. -/
  | generic
  deriving Repr, Inhabited

def intTy (w : Nat) (signed : Bool) : IdlTy :=
  if w = 1 then (if signed then .i8 else .u8)
  else if w = 2 then (if signed then .i16 else .u16)
  else if w = 4 then (if signed then .i32 else .u32)
  else if w = 8 then (if signed then .i64 else .u64)
  else if w = 16 then (if signed then .i128 else .u128)
  else .generic

mutual
/-- The `TypeToIdl` emitters. -/
def typeToIdl : TyShape → IdlTy
  | .bool => .bool
  | .int w s => intTy w s
  | .float w => if w = 4 then .f32 else if w = 8 then .f64 else .generic
  | .pubkey => .pubkey
  | .fixedPoint w s frac => .fixedPoint (intTy w s) frac        -- fixed_point.rs
  | .array e n => .array (typeToIdl e) n                        -- idl/ty.rs `[T; N]`
  | .option e => .option (typeToIdl e) false                    -- idl/ty.rs `Option<T>`
  | .string => .string                                          -- `String`, `UnsizedString<u32>`
  | .list e lw => .list (intTy lw false) (typeToIdl e)          -- list.rs idl_impl, `Vec<T>` (lw = 4)
  | .set e lw => .set (intTy lw false) (typeToIdl e)            -- set.rs, `BTreeSet<T>`
  | .map k x lw => .map (intTy lw false) (typeToIdl k) (typeToIdl x)  -- map.rs, `BTreeMap<K,V>`
  | .ulist e => .unsizedList .u32 .u32 (typeToIdl e)            -- unsized_list.rs idl_impl, C = PackedValue<u32>
  | .umap k e => .unsizedList .u32 (.struct [.u32, typeToIdl k]) (typeToIdl e)  -- unsized_map.rs OrdOffset
  | .remaining => .remainingBytes
  | .struct fs => .struct (typeToIdlAll fs)                     -- derive: fields in declaration order
  | .enum ds ps => .enum .u8 (ds.map (fun d => leN 1 d)) (typeToIdlAll ps)  -- derive: repr(u8) only
  | .unit => .noPayload
def typeToIdlAll : List TyShape → List IdlTy
  | [] => []
  | f :: fs => typeToIdl f :: typeToIdlAll fs
end

/-- `#[type_to_idl(skip)]` on field number `k` of a struct: that field and every field after it
are hidden (`idl_struct_type_def`: `take_while(!is_skip)`), so the IDL describes the first `k` fields. -/
def typeToIdlSkip (fs : List TyShape) (k : Nat) : IdlTy := .struct (typeToIdlAll (fs.take k))

/-! ## IDL-driven decoder -/

/-- Byte width of the number types. -/
def numWidth : IdlTy → Option Nat
  | .u8 | .i8 => some 1
  | .u16 | .i16 => some 2
  | .u32 | .i32 | .f32 => some 4
  | .u64 | .i64 | .f64 => some 8
  | .u128 | .i128 => some 16
  | _ => none

def decNum (w : Nat) (bs : List Nat) : Option (Val × Nat) :=
  if bs.length < w then none else some (.num (rdLE (bs.take w)), w)

/-- Read a length / size / tag of number type `t`. -/
def readLen (t : IdlTy) (bs : List Nat) : Option (Nat × Nat) :=
  match numWidth t with
  | some w => if bs.length < w then none else some (rdLE (bs.take w), w)
  | none => none

/-- `n` consecutive items. -/
def decodeN (f : List Nat → Option (Val × Nat)) : Nat → List Nat → Option (List Val × Nat)
  | 0, _ => some ([], 0)
  | n + 1, bs =>
    match f bs with
    | none => none
    | some (v, k) =>
      match decodeN f n (bs.drop k) with
      | none => none
      | some (vs, m) => some (v :: vs, k + m)

def decodePair (fk fv : List Nat → Option (Val × Nat)) (bs : List Nat) : Option (Val × Nat) :=
  match fk bs with
  | none => none
  | some (k, a) =>
    match fv (bs.drop a) with
    | none => none
    | some (v, b) => some (.pair k v, a + b)

/-- The start offset stored in an offset-list entry: the entry itself, or the first field
(`offset`) when the entry is a struct carrying extra metadata. -/
def entryOffset : Val → Option Nat
  | .num n => some n
  | .seq (.num n :: _) => some n
  | _ => none

/-- Element `v` together with the extra metadata of its offset entry (none → `v`; one extra field
`k` → `pair k v`; several → `pair (seq …) v`). -/
def entryWrap : Val → Val → Val
  | .seq [_, k], v => .pair k v
  | .seq (_ :: k :: k' :: ks), v => .pair (.seq (k :: k' :: ks)) v
  | _, v => v

/-- Where an element ends: at the start of the next one, the last one at the end of the data. -/
def stopOf (data : List Nat) : List Val → Option Nat
  | [] => some data.length
  | e' :: _ => entryOffset e'

/-- Elements of an unsized list: element `i` occupies `data[off i .. off (i+1))`, the last one up to
the end of `data`; each must decode to exactly its extent. -/
def decodeSlices (f : List Nat → Option (Val × Nat)) (data : List Nat) : List Val → Option (List Val)
  | [] => some []
  | e :: es =>
    match entryOffset e with
    | none => none
    | some off =>
      match stopOf data es with
      | none => none
      | some stop =>
        if off ≤ stop ∧ stop ≤ data.length then
          match f ((data.take stop).drop off) with
          | some (v, k) =>
            if k = stop - off then
              match decodeSlices f data es with
              | some vs => some (entryWrap e v :: vs)
              | none => none
            else none
          | none => none
        else none

mutual
/-- Decode one value of IDL type `t` from the front of `bs`; returns the value and the number of
bytes it occupied. -/
def idlDecode : IdlTy → List Nat → Option (Val × Nat)
  | .bool, bs => match bs with
    | 0 :: _ => some (.bool false, 1)
    | 1 :: _ => some (.bool true, 1)
    | _ => none
  | .u8, bs => decNum 1 bs
  | .i8, bs => decNum 1 bs
  | .u16, bs => decNum 2 bs
  | .i16, bs => decNum 2 bs
  | .u32, bs => decNum 4 bs
  | .i32, bs => decNum 4 bs
  | .f32, bs => decNum 4 bs
  | .u64, bs => decNum 8 bs
  | .i64, bs => decNum 8 bs
  | .f64, bs => decNum 8 bs
  | .u128, bs => decNum 16 bs
  | .i128, bs => decNum 16 bs
  | .string, bs =>                     -- u32 byte length, then the bytes
    match readLen .u32 bs with
    | none => none
    | some (n, k) => if (bs.drop k).length < n then none else some (.bytes ((bs.drop k).take n), k + n)
  | .pubkey, bs => if bs.length < 32 then none else some (.bytes (bs.take 32), 32)
  | .fixedPoint ty _, bs => idlDecode ty bs
  | .option ty fixed, bs =>            -- one tag byte; "null will be padded with zeros" if fixed
    match bs with
    | 0 :: _ =>
      if fixed then none               -- never emitted by the framework; no layout claimed here
      else some (.none, 1)
    | 1 :: rest =>
      match idlDecode ty rest with
      | some (v, k) => some (.some v, 1 + k)
      | none => none
    | _ => none
  | .remainingBytes, bs => some (.bytes bs, bs.length)
  | .list l t, bs =>
    match readLen l bs with
    | none => none
    | some (n, k) =>
      match decodeN (idlDecode t) n (bs.drop k) with
      | none => none
      | some (vs, m) => some (.seq vs, k + m)
  | .set l t, bs =>
    match readLen l bs with
    | none => none
    | some (n, k) =>
      match decodeN (idlDecode t) n (bs.drop k) with
      | none => none
      | some (vs, m) => some (.seq vs, k + m)
  | .map l kt vt, bs =>
    match readLen l bs with
    | none => none
    | some (n, k) =>
      match decodeN (decodePair (idlDecode kt) (idlDecode vt)) n (bs.drop k) with
      | none => none
      | some (vs, m) => some (.seq vs, k + m)
  | .array t n, bs =>
    match decodeN (idlDecode t) n bs with
    | none => none
    | some (vs, m) => some (.seq vs, m)
  | .struct fs, bs =>
    match decodeFields fs bs with
    | none => none
    | some (vs, m) => some (.seq vs, m)
  | .enum size ds ps, bs =>
    match numWidth size with
    | none => none
    | some w =>
      if bs.length < w then none else
      match decodeVariant ds ps (bs.take w) 0 (bs.drop w) with
      | none => none
      | some (v, m) => some (v, w + m)
  | .noPayload, _ => some (.unit, 0)
  | .unsizedList l o t, bs =>
    -- total length of the element bytes; list of offset entries; list of elements
    match readLen l bs with
    | none => none
    | some (total, k0) =>
      match readLen l (bs.drop k0) with
      | none => none
      | some (n, k1) =>
        match decodeN (idlDecode o) n (bs.drop (k0 + k1)) with
        | none => none
        | some (entries, m) =>
          match readLen l (bs.drop (k0 + k1 + m)) with
          | none => none
          | some (n', k2) =>
            let data := bs.drop (k0 + k1 + m + k2)
            if n' = n ∧ total ≤ data.length then
              match decodeSlices (idlDecode t) (data.take total) entries with
              | none => none
              | some vs => some (.seq vs, k0 + k1 + m + k2 + total)
            else none
  | .generic, _ => none
def decodeFields : List IdlTy → List Nat → Option (List Val × Nat)
  | [], _ => some ([], 0)
  | f :: fs, bs =>
    match idlDecode f bs with
    | none => none
    | some (v, k) =>
      match decodeFields fs (bs.drop k) with
      | none => none
      | some (vs, m) => some (v :: vs, k + m)
/-- Find the variant whose discriminant bytes equal `tag` and decode its payload. -/
def decodeVariant : List (List Nat) → List IdlTy → List Nat → Nat → List Nat → Option (Val × Nat)
  | ds, p :: ps, tag, i, bs =>
    if ds.headD [] = tag then
      match idlDecode p bs with
      | some (v, k) => some (.variant i v, k)
      | none => none
    else decodeVariant ds.tail ps tag (i + 1) bs
  | _, [], _, _, _ => none
end

end Idl.Layout
