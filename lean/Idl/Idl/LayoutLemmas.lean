import Idl.Layout
/-!
# C17 — the IDL-driven decoder inverts the runtime serializer (`layout_faithful`)

Helper lemmas + the main mutual induction over `TyShape`.
-/
namespace Idl.Layout
open Common

/-! ### numbers -/

theorem take_leN_append (w n : Nat) (rest : List Nat) : (leN w n ++ rest).take w = leN w n := by
  exact List.take_left' (leN_length w n)

theorem drop_leN_append (w n : Nat) (rest : List Nat) : (leN w n ++ rest).drop w = rest := by
  exact List.drop_left' (leN_length w n)

theorem decNum_leN (w n : Nat) (rest : List Nat) (h : n < 256 ^ w) :
    decNum w (leN w n ++ rest) = some (.num n, w) := by
  unfold decNum
  have hl : ¬ (leN w n ++ rest).length < w := by simp
  simp only [hl, if_false, take_leN_append, rdLE_leN w n h]

theorem numWidth_intTy (w : Nat) (s : Bool) (h : intWidthOk w = true) : numWidth (intTy w s) = some w := by
  simp [intWidthOk] at h
  rcases h with (((h | h) | h) | h) | h <;> subst h <;> cases s <;> simp [intTy, numWidth]

theorem lenWidthOk_int {w : Nat} (h : lenWidthOk w = true) : intWidthOk w = true := by
  simp [lenWidthOk] at h; simp [intWidthOk]; omega

theorem readLen_leN (t : IdlTy) (w n : Nat) (rest : List Nat) (ht : numWidth t = some w) (h : n < 256 ^ w) :
    readLen t (leN w n ++ rest) = some (n, w) := by
  unfold readLen
  have hl : ¬ (leN w n ++ rest).length < w := by simp
  simp only [ht, hl, if_false, take_leN_append, rdLE_leN w n h]

/-- Decoding a number type reads exactly its little-endian bytes. -/
theorem idlDecode_intTy (w : Nat) (s : Bool) (n : Nat) (rest : List Nat) (hw : intWidthOk w = true)
    (h : n < 256 ^ w) : idlDecode (intTy w s) (leN w n ++ rest) = some (.num n, w) := by
  simp [intWidthOk] at hw
  rcases hw with (((hw | hw) | hw) | hw) | hw <;> subst hw <;> cases s <;>
    simp only [intTy, idlDecode] <;> first | exact decNum_leN _ _ _ h | (simp; exact decNum_leN _ _ _ h)

/-! ### sequences -/

theorem decodeN_map (f : List Nat → Option (Val × Nat)) (enc : Val → List Nat) :
    ∀ (vs : List Val) (rest : List Nat),
      (∀ v ∈ vs, ∀ r, f (enc v ++ r) = some (v, (enc v).length)) →
      decodeN f vs.length ((vs.map enc).flatten ++ rest) = some (vs, ((vs.map enc).flatten).length)
  | [], _, _ => by simp [decodeN]
  | v :: vs, rest, h => by
    have hv := h v (by simp) ((vs.map enc).flatten ++ rest)
    have ih := decodeN_map f enc vs rest (fun x hx => h x (by simp [hx]))
    simp only [List.length_cons, List.map_cons, List.flatten_cons, List.append_assoc, decodeN, hv,
      List.drop_left', ih, List.length_append]

/-- Same, when only the last item may rely on the input ending there (`rest = []`). Used for
arrays etc. is not needed: every repeated item is `closed`. -/
theorem decodeN_all (f : List Nat → Option (Val × Nat)) (enc : Val → List Nat) (p : Val → Bool)
    (vs : List Val) (rest : List Nat) (hp : vs.all p = true)
    (h : ∀ v, p v = true → ∀ r, f (enc v ++ r) = some (v, (enc v).length)) :
    decodeN f vs.length ((vs.map enc).flatten ++ rest) = some (vs, ((vs.map enc).flatten).length) :=
  decodeN_map f enc vs rest (fun v hv r => h v (List.all_eq_true.mp hp v hv) r)

end Idl.Layout

namespace Idl.Layout
open Common

theorem decodePair_spec (fk fv : List Nat → Option (Val × Nat)) (ek ev : List Nat) (k v : Val) (r : List Nat)
    (hk : fk (ek ++ (ev ++ r)) = some (k, ek.length)) (hv : fv (ev ++ r) = some (v, ev.length)) :
    decodePair fk fv (ek ++ ev ++ r) = some (.pair k v, (ek ++ ev).length) := by
  simp only [decodePair, List.append_assoc, hk, List.drop_left', hv, List.length_append]

/-! ### unsized lists -/

/-- One element of an unsized list as the proof sees it. -/
structure Item where
  entry : Val
  mta : List Nat
  chunk : List Nat
  val : Val

def OffsOk : Nat → List Item → Prop
  | _, [] => True
  | off, t :: ts => entryOffset t.entry = some off ∧ OffsOk (off + t.chunk.length) ts

theorem decodeSlices_spec (f : List Nat → Option (Val × Nat)) :
    ∀ (ts : List Item) (pre : List Nat), OffsOk pre.length ts →
      (∀ t ∈ ts, f t.chunk = some (t.val, t.chunk.length)) →
      decodeSlices f (pre ++ (ts.map (·.chunk)).flatten) (ts.map (·.entry))
        = some (ts.map (fun t => entryWrap t.entry t.val))
  | [], _, _, _ => by simp [decodeSlices]
  | t :: ts, pre, ho, hf => by
    obtain ⟨h0, ho'⟩ := ho
    have hft := hf t (by simp)
    have ih := decodeSlices_spec f ts (pre ++ t.chunk) (by simpa using ho') (fun x hx => hf x (by simp [hx]))
    have hstop : stopOf (pre ++ (t.chunk :: ts.map (·.chunk)).flatten) (ts.map (·.entry))
        = some (pre.length + t.chunk.length) := by
      cases ts with
      | nil => simp [stopOf]
      | cons t' ts' => simp only [List.map_cons, stopOf]; exact ho'.1
    simp only [List.map_cons, decodeSlices, h0, hstop]
    have hcond : pre.length ≤ pre.length + t.chunk.length ∧
        pre.length + t.chunk.length ≤ (pre ++ (t.chunk :: ts.map (·.chunk)).flatten).length := by
      simp
    have hslice : ((pre ++ (t.chunk :: ts.map (·.chunk)).flatten).take (pre.length + t.chunk.length)).drop pre.length
        = t.chunk := by
      have : pre ++ (t.chunk :: ts.map (·.chunk)).flatten = (pre ++ t.chunk) ++ (ts.map (·.chunk)).flatten := by simp
      rw [this, List.take_left' (by simp), List.drop_left' rfl]
    have ih' : decodeSlices f (pre ++ (t.chunk :: ts.map (·.chunk)).flatten) (ts.map (·.entry))
        = some (ts.map (fun t => entryWrap t.entry t.val)) := by
      have : pre ++ (t.chunk :: ts.map (·.chunk)).flatten = (pre ++ t.chunk) ++ (ts.map (·.chunk)).flatten := by simp
      rw [this]; exact ih
    simp only [hcond, and_self, if_true, hslice, hft, Nat.add_sub_cancel_left, ih']

theorem offsetTable_decode (fo : List Nat → Option (Val × Nat)) :
    ∀ (ts : List Item) (off : Nat) (rest : List Nat), OffsOk off ts →
      off + ((ts.map (·.chunk)).flatten).length < 256 ^ 4 →
      (∀ t ∈ ts, ∀ o r, entryOffset t.entry = some o → o < 256 ^ 4 →
        fo (leN 4 o ++ t.mta ++ r) = some (t.entry, 4 + t.mta.length)) →
      decodeN fo ts.length (offsetTable off (ts.map (·.mta)) (ts.map (·.chunk)) ++ rest)
        = some (ts.map (·.entry), (offsetTable off (ts.map (·.mta)) (ts.map (·.chunk))).length)
  | [], _, _, _, _, _ => by simp [decodeN, offsetTable]
  | t :: ts, off, rest, ho, hb, hf => by
    obtain ⟨h0, ho'⟩ := ho
    simp only [List.map_cons, List.flatten_cons, List.length_append] at hb
    have hft := hf t (by simp) off (offsetTable (off + t.chunk.length) (ts.map (·.mta)) (ts.map (·.chunk)) ++ rest)
      h0 (by omega)
    have ih := offsetTable_decode fo ts (off + t.chunk.length) rest ho' (by omega)
      (fun x hx => hf x (by simp [hx]))
    simp only [List.length_cons, List.map_cons, offsetTable, decodeN, List.append_assoc]
    simp only [List.append_assoc] at hft
    rw [hft]
    have hd : (leN 4 off ++ (t.mta ++ (offsetTable (off + t.chunk.length) (ts.map (·.mta)) (ts.map (·.chunk)) ++ rest))).drop
        (4 + t.mta.length) = offsetTable (off + t.chunk.length) (ts.map (·.mta)) (ts.map (·.chunk)) ++ rest := by
      rw [← List.append_assoc]; exact List.drop_left' (by simp)
    simp only [hd, ih, List.length_append, leN_length]
    simp; omega

theorem ulistBytes_decode (o t : IdlTy) (ts : List Item) (rest : List Nat)
    (ho : OffsOk 0 ts) (hn : ts.length < 256 ^ 4) (hT : ((ts.map (·.chunk)).flatten).length < 256 ^ 4)
    (hfo : ∀ x ∈ ts, ∀ o' r, entryOffset x.entry = some o' → o' < 256 ^ 4 →
        idlDecode o (leN 4 o' ++ x.mta ++ r) = some (x.entry, 4 + x.mta.length))
    (hft : ∀ x ∈ ts, idlDecode t x.chunk = some (x.val, x.chunk.length)) :
    idlDecode (.unsizedList .u32 o t) (ulistBytes (ts.map (·.mta)) (ts.map (·.chunk)) ++ rest)
      = some (.seq (ts.map (fun x => entryWrap x.entry x.val)),
          (ulistBytes (ts.map (·.mta)) (ts.map (·.chunk))).length) := by
  have hw : numWidth IdlTy.u32 = some 4 := rfl
  have hlen : (ts.map (·.chunk)).length = ts.length := by simp
  unfold ulistBytes
  simp only [idlDecode, List.append_assoc, hlen]
  rw [readLen_leN .u32 4 _ _ hw hT]
  simp only [drop_leN_append]
  rw [readLen_leN .u32 4 _ _ hw hn]
  have hdrop8 : ∀ (a b : Nat) (l : List Nat), (leN 4 a ++ (leN 4 b ++ l)).drop (4 + 4) = l := by
    intro a b l
    rw [← List.append_assoc]; exact List.drop_left' (by simp)
  simp only [hdrop8]
  have htab := offsetTable_decode (idlDecode o) ts 0
    (leN 4 ts.length ++ ((ts.map (·.chunk)).flatten ++ rest)) ho (by omega) hfo
  rw [htab]
  simp only
  have hdropT : ∀ (a b : Nat) (tab l : List Nat),
      (leN 4 a ++ (leN 4 b ++ (tab ++ l))).drop (4 + 4 + tab.length) = l := by
    intro a b tab l
    rw [← List.append_assoc, ← List.append_assoc]; exact List.drop_left' (by simp; omega)
  simp only [hdropT]
  rw [readLen_leN .u32 4 _ _ hw hn]
  have hdropT2 : ∀ (a b c : Nat) (tab l : List Nat),
      (leN 4 a ++ (leN 4 b ++ (tab ++ (leN 4 c ++ l)))).drop (4 + 4 + tab.length + 4) = l := by
    intro a b c tab l
    rw [← List.append_assoc, ← List.append_assoc, ← List.append_assoc]; exact List.drop_left' (by simp; omega)
  simp only [hdropT2]
  have hcond : ts.length = ts.length ∧
      ((ts.map (·.chunk)).flatten).length ≤ ((ts.map (·.chunk)).flatten ++ rest).length := by simp
  have htake : ((ts.map (·.chunk)).flatten ++ rest).take ((ts.map (·.chunk)).flatten).length
      = (ts.map (·.chunk)).flatten := List.take_left' rfl
  have hsl := decodeSlices_spec (idlDecode t) ts [] (by simpa using ho) hft
  simp only [List.nil_append] at hsl
  simp only [htake, hsl, List.length_append, leN_length]
  simp; omega

end Idl.Layout

namespace Idl.Layout
open Common

theorem entryWrap_num (o : Nat) (v : Val) : entryWrap (.num o) v = v := rfl
theorem entryWrap_pair (a k v : Val) : entryWrap (.seq [a, k]) v = .pair k v := rfl

/-- Items of `UnsizedList<T>`: plain `u32` offset entries. -/
def ulItems (e : TyShape) : Nat → List Val → List Item
  | _, [] => []
  | off, v :: vs => ⟨.num off, [], encode e v, v⟩ :: ulItems e (off + (encode e v).length) vs

theorem ulItems_facts (e : TyShape) : ∀ (vs : List Val) (off : Nat),
    (ulItems e off vs).map (·.mta) = vs.map (fun _ => [])
    ∧ (ulItems e off vs).map (·.chunk) = vs.map (encode e)
    ∧ (ulItems e off vs).map (fun x => entryWrap x.entry x.val) = vs
    ∧ (ulItems e off vs).length = vs.length
    ∧ OffsOk off (ulItems e off vs)
    ∧ (∀ x ∈ ulItems e off vs, x.mta = [] ∧ (∃ o, x.entry = .num o) ∧ x.val ∈ vs ∧ x.chunk = encode e x.val)
  | [], _ => by simp [ulItems, OffsOk]
  | v :: vs, off => by
    obtain ⟨h1, h2, h3, h4, h5, h6⟩ := ulItems_facts e vs (off + (encode e v).length)
    refine ⟨by simp [ulItems, h1], by simp [ulItems, h2], by simp only [ulItems, List.map_cons, h3, entryWrap_num], by simp [ulItems, h4],
      ⟨by simp [ulItems, entryOffset], h5⟩, ?_⟩
    intro x hx
    simp only [ulItems, List.mem_cons] at hx
    rcases hx with rfl | hx
    · simp
    · obtain ⟨a, b, c, d⟩ := h6 x hx
      exact ⟨a, b, by simp [c], d⟩

/-- Items of `UnsizedMap<K,V>`: entries `{offset: u32, key: K}`. -/
def umItems (k e : TyShape) : Nat → List Val → List Item
  | _, [] => []
  | off, p :: ps => ⟨.seq [.num off, pairKey p], encode k (pairKey p), encode e (pairVal p), pairVal p⟩
      :: umItems k e (off + (encode e (pairVal p)).length) ps

theorem umItems_facts (k e : TyShape) : ∀ (ps : List Val) (off : Nat), ps.all isPair = true →
    (umItems k e off ps).map (·.mta) = ps.map (fun p => encode k (pairKey p))
    ∧ (umItems k e off ps).map (·.chunk) = ps.map (fun p => encode e (pairVal p))
    ∧ (umItems k e off ps).map (fun x => entryWrap x.entry x.val) = ps
    ∧ (umItems k e off ps).length = ps.length
    ∧ OffsOk off (umItems k e off ps)
    ∧ (∀ x ∈ umItems k e off ps, ∃ p ∈ ps, ∃ o, x.entry = .seq [.num o, pairKey p] ∧ x.mta = encode k (pairKey p)
        ∧ x.val = pairVal p ∧ x.chunk = encode e (pairVal p))
  | [], _, _ => by simp [umItems, OffsOk]
  | p :: ps, off, hp => by
    simp only [List.all_cons, Bool.and_eq_true] at hp
    obtain ⟨h1, h2, h3, h4, h5, h6⟩ := umItems_facts k e ps (off + (encode e (pairVal p)).length) hp.2
    have hpp : Val.pair (pairKey p) (pairVal p) = p := by
      cases p <;> simp [isPair] at hp <;> simp [pairKey, pairVal]
    refine ⟨by simp [umItems, h1], by simp [umItems, h2], by simp only [umItems, List.map_cons, h3, entryWrap_pair, hpp], by simp [umItems, h4],
      ⟨by simp [umItems, entryOffset], h5⟩, ?_⟩
    intro x hx
    simp only [umItems, List.mem_cons] at hx
    rcases hx with rfl | hx
    · exact ⟨p, by simp, off, rfl, rfl, rfl, rfl⟩
    · obtain ⟨q, hq, r⟩ := h6 x hx
      exact ⟨q, by simp [hq], r⟩

/-! ### closed ⇒ tailOk -/

mutual
theorem closed_tailOk : (s : TyShape) → closed s = true → tailOk s = true
  | .bool, h | .int _ _, h | .float _, h | .pubkey, h | .fixedPoint _ _ _, h | .string, h
  | .list _ _, h | .set _ _, h | .map _ _ _, h | .ulist _, h | .umap _ _, h | .unit, h
  | .array _ _, h => by simpa [closed, tailOk] using h
  | .option e, h => by
    simp only [closed] at h; simp only [tailOk]; exact closed_tailOk e h
  | .remaining, h => by simp [closed] at h
  | .struct fs, h => by
    simp only [closed] at h; simp only [tailOk]; exact closedAll_tailOkFields fs h
  | .enum ds ps, h => by
    simp only [closed, Bool.and_eq_true] at h; simp only [tailOk, Bool.and_eq_true]
    exact ⟨h.1, closedAll_tailOkAll ps h.2⟩
theorem closedAll_tailOkFields : (fs : List TyShape) → closedAll fs = true → tailOkFields fs = true
  | [], _ => by simp [tailOkFields]
  | [f], h => by
    simp only [closedAll, Bool.and_true] at h; simp only [tailOkFields]; exact closed_tailOk f h
  | f :: g :: fs, h => by
    simp only [closedAll, Bool.and_eq_true] at h
    simp only [tailOkFields, Bool.and_eq_true]
    exact ⟨h.1, closedAll_tailOkFields (g :: fs) (by simp [closedAll, h.2])⟩
theorem closedAll_tailOkAll : (fs : List TyShape) → closedAll fs = true → tailOkAll fs = true
  | [], _ => by simp [tailOkAll]
  | f :: fs, h => by
    simp only [closedAll, Bool.and_eq_true] at h
    simp only [tailOkAll, Bool.and_eq_true]
    exact ⟨closed_tailOk f h.1, closedAll_tailOkAll fs h.2⟩
end

end Idl.Layout

namespace Idl.Layout
open Common

/-- The statement proved for every shape: decoding the serializer's output (followed by arbitrary
bytes `rest` when the shape is self-delimiting, by nothing when it may end in `RemainingBytes`)
with the emitted IDL type gives back the value and its exact length. -/
def Faithful (s : TyShape) : Prop :=
  ∀ (v : Val) (rest : List Nat), wfVal s v = true →
    (closed s = true ∨ (tailOk s = true ∧ rest = [])) →
    idlDecode (typeToIdl s) (encode s v ++ rest) = some (v, (encode s v).length)

def FaithfulFields (fs : List TyShape) : Prop :=
  ∀ (vs : List Val) (rest : List Nat), wfFields fs vs = true →
    (closedAll fs = true ∨ (tailOkFields fs = true ∧ rest = [])) →
    decodeFields (typeToIdlAll fs) (encodeFields fs vs ++ rest) = some (vs, (encodeFields fs vs).length)

def FaithfulVariant (ps : List TyShape) : Prop :=
  ∀ (ds : List Nat) (i : Nat) (v : Val) (rest : List Nat), ds.length = ps.length →
    ds.all (· < 256) = true → nodup ds = true → wfVariant ds ps i v = true →
    (closedAll ps = true ∨ (tailOkAll ps = true ∧ rest = [])) →
    ∃ d pay, d ∈ ds ∧ encodeVariant ds ps i v = leN 1 d ++ pay ∧
      ∀ j, decodeVariant (ds.map (fun d => leN 1 d)) (typeToIdlAll ps) (leN 1 d) j (pay ++ rest)
        = some (.variant (j + i) v, pay.length)

theorem tailOk_of {s : TyShape} {rest : List Nat} (h : closed s = true ∨ (tailOk s = true ∧ rest = [])) :
    tailOk s = true := by
  rcases h with h | h
  · exact closed_tailOk s h
  · exact h.1

theorem leN1_ne {a b : Nat} (ha : a < 256) (hb : b < 256) (h : a ≠ b) : leN 1 a ≠ leN 1 b := by
  intro he; exact h (leN_inj (w := 1) (by simpa using ha) (by simpa using hb) he)

theorem nodup_not_mem {d : Nat} {ds : List Nat} (h : nodup (d :: ds) = true) : d ∉ ds ∧ nodup ds = true := by
  simp [nodup] at h; exact ⟨by simpa using h.1, h.2⟩


mutual
theorem faithful : (s : TyShape) → Faithful s
  | .bool => by
    intro v rest hv _
    cases v <;> simp [wfVal] at hv
    rename_i b; cases b <;> simp [encode, typeToIdl, idlDecode]
  | .int w sg => by
    intro v rest hv hs
    cases v <;> simp [wfVal] at hv
    have hw : intWidthOk w = true := by simpa [tailOk] using tailOk_of hs
    simp only [encode, typeToIdl, leN_length]
    exact idlDecode_intTy w sg _ rest hw hv
  | .float w => by
    intro v rest hv hs
    cases v <;> simp [wfVal] at hv
    have hw : (w == 4 || w == 8) = true := by simpa [tailOk] using tailOk_of hs
    simp at hw
    rcases hw with hw | hw <;> subst hw <;> simp only [encode, typeToIdl, leN_length] <;>
      simp [idlDecode] <;> exact decNum_leN _ _ _ hv
  | .pubkey => by
    intro v rest hv _
    cases v <;> simp [wfVal] at hv
    rename_i bs
    simp only [encode, typeToIdl, idlDecode]
    have : ¬ (bs ++ rest).length < 32 := by simp; omega
    simp only [this, if_false, hv.1]
    rw [← hv.1, List.take_left' rfl]
  | .fixedPoint w sg frac => by
    intro v rest hv hs
    cases v <;> simp [wfVal] at hv
    have hw : intWidthOk w = true := by simpa [tailOk] using tailOk_of hs
    simp only [encode, typeToIdl, idlDecode, leN_length]
    exact idlDecode_intTy w sg _ rest hw hv
  | .array e n => by
    intro v rest hv hs
    cases v <;> simp [wfVal] at hv
    rename_i vs
    have hc : closed e = true := by
      rcases hs with h | h
      · simpa [closed] using h
      · simpa [tailOk] using h.1
    have ih := faithful e
    have := decodeN_all (idlDecode (typeToIdl e)) (encode e) (wfVal e) vs rest
      (by simpa [List.all_eq_true] using hv.2) (fun v hv r => ih v r hv (Or.inl hc))
    simp only [encode, typeToIdl, idlDecode, ← hv.1, this]
  | .option e => by
    intro v rest hv hs
    have hs' : closed e = true ∨ (tailOk e = true ∧ rest = []) := by
      simpa [closed, tailOk] using hs
    cases v <;> simp [wfVal] at hv
    · simp [encode, typeToIdl, idlDecode]
    · rename_i x
      have ih := faithful e x rest hv hs'
      simp only [encode, typeToIdl, idlDecode, List.cons_append, ih, List.length_cons]
      simp; omega
  | .string => by
    intro v rest hv _
    cases v <;> simp [wfVal] at hv
    rename_i bs
    simp only [encode, typeToIdl, idlDecode, List.append_assoc]
    rw [readLen_leN .u32 4 _ _ rfl (by simpa using hv.1)]
    simp only [drop_leN_append, List.length_append, leN_length]
    rw [if_neg (by omega), List.take_left' rfl]
  | .list e lw => by
    intro v rest hv hs
    cases v <;> simp [wfVal] at hv
    rename_i vs
    have hc : lenWidthOk lw = true ∧ closed e = true := by
      rcases hs with h | h
      · simpa [closed] using h
      · simpa [tailOk] using h.1
    have ih := faithful e
    have hn := decodeN_all (idlDecode (typeToIdl e)) (encode e) (wfVal e) vs rest
      (by simpa [List.all_eq_true] using hv.2) (fun v hv r => ih v r hv (Or.inl hc.2))
    simp only [encode, typeToIdl, idlDecode, List.append_assoc]
    rw [readLen_leN _ lw _ _ (numWidth_intTy lw false (lenWidthOk_int hc.1)) hv.1]
    simp only [drop_leN_append, hn, List.length_append, leN_length]
  | .set e lw => by
    intro v rest hv hs
    cases v <;> simp [wfVal] at hv
    rename_i vs
    have hc : lenWidthOk lw = true ∧ closed e = true := by
      rcases hs with h | h
      · simpa [closed] using h
      · simpa [tailOk] using h.1
    have ih := faithful e
    have hn := decodeN_all (idlDecode (typeToIdl e)) (encode e) (wfVal e) vs rest
      (by simpa [List.all_eq_true] using hv.2) (fun v hv r => ih v r hv (Or.inl hc.2))
    simp only [encode, typeToIdl, idlDecode, List.append_assoc]
    rw [readLen_leN _ lw _ _ (numWidth_intTy lw false (lenWidthOk_int hc.1)) hv.1]
    simp only [drop_leN_append, hn, List.length_append, leN_length]
  | .map k x lw => by
    intro v rest hv hs
    cases v <;> simp [wfVal] at hv
    rename_i ps
    have hc : (lenWidthOk lw = true ∧ closed k = true) ∧ closed x = true := by
      rcases hs with h | h
      · simpa [closed] using h
      · simpa [tailOk] using h.1
    have ihk := faithful k
    have ihx := faithful x
    have hn := decodeN_map (decodePair (idlDecode (typeToIdl k)) (idlDecode (typeToIdl x)))
      (fun p => encode k (pairKey p) ++ encode x (pairVal p)) ps rest (by
        intro p hp r
        have hpw := hv.2 p hp
        have hpp : Val.pair (pairKey p) (pairVal p) = p := by
          cases p <;> simp [isPair] at hpw <;> simp [pairKey, pairVal]
        have := decodePair_spec (idlDecode (typeToIdl k)) (idlDecode (typeToIdl x))
          (encode k (pairKey p)) (encode x (pairVal p)) (pairKey p) (pairVal p) r
          (ihk _ _ hpw.1.2 (Or.inl hc.1.2)) (ihx _ _ hpw.2 (Or.inl hc.2))
        rw [hpp] at this
        exact this)
    simp only [encode, typeToIdl, idlDecode, List.append_assoc]
    rw [readLen_leN _ lw _ _ (numWidth_intTy lw false (lenWidthOk_int hc.1.1)) hv.1]
    simp only [drop_leN_append, hn, List.length_append, leN_length]
  | .ulist e => by
    intro v rest hv hs
    cases v <;> simp [wfVal] at hv
    rename_i vs
    have hc : tailOk e = true := by
      rcases hs with h | h
      · simpa [closed] using h
      · simpa [tailOk] using h.1
    have ih := faithful e
    obtain ⟨f1, f2, f3, f4, f5, f6⟩ := ulItems_facts e vs 0
    have := ulistBytes_decode .u32 (typeToIdl e) (ulItems e 0 vs) rest f5 (by rw [f4]; exact hv.1.1)
      (by rw [f2]; simpa [List.length_flatten] using hv.2)
      (by
        intro x hx o' r ho hlt
        obtain ⟨a, ⟨o, b⟩, _, _⟩ := f6 x hx
        rw [b] at ho; simp [entryOffset] at ho; subst ho
        rw [a, b]; simp only [List.append_nil, idlDecode, List.length_nil, Nat.add_zero]
        exact decNum_leN 4 o r hlt)
      (by
        intro x hx
        obtain ⟨_, _, c, d⟩ := f6 x hx
        have := ih x.val [] (hv.1.2 _ c) (Or.inr ⟨hc, rfl⟩)
        rw [d]; simpa using this)
    rw [f1, f2, f3] at this
    simp only [encode, typeToIdl]
    exact this
  | .umap k e => by
    intro v rest hv hs
    cases v <;> simp [wfVal] at hv
    rename_i ps
    have hc : closed k = true ∧ tailOk e = true := by
      rcases hs with h | h
      · simpa [closed] using h
      · simpa [tailOk] using h.1
    have ihk := faithful k
    have ih := faithful e
    have hpair : ps.all isPair = true := by
      simp only [List.all_eq_true]; intro p hp; exact (hv.1.2 p hp).1.1
    obtain ⟨f1, f2, f3, f4, f5, f6⟩ := umItems_facts k e ps 0 hpair
    have := ulistBytes_decode (.struct [.u32, typeToIdl k]) (typeToIdl e) (umItems k e 0 ps) rest f5
      (by rw [f4]; exact hv.1.1) (by rw [f2]; simpa [List.length_flatten] using hv.2)
      (by
        intro x hx o' r ho hlt
        obtain ⟨p, hp, o, b, a, _, _⟩ := f6 x hx
        rw [b] at ho; simp [entryOffset] at ho; subst ho
        have hk := ihk (pairKey p) r (hv.1.2 p hp).1.2 (Or.inl hc.1)
        rw [a, b]
        simp only [idlDecode, decodeFields, List.append_assoc, decNum_leN 4 o _ hlt, drop_leN_append, hk]
        simp)
      (by
        intro x hx
        obtain ⟨p, hp, _, _, _, c, d⟩ := f6 x hx
        have := ih (pairVal p) [] (hv.1.2 p hp).2 (Or.inr ⟨hc.2, rfl⟩)
        rw [d, c]; simpa using this)
    rw [f1, f2, f3] at this
    simp only [encode, typeToIdl, typeToIdlAll]
    exact this
  | .remaining => by
    intro v rest hv hs
    cases v <;> simp [wfVal] at hv
    have hr : rest = [] := by
      rcases hs with h | h
      · simp [closed] at h
      · exact h.2
    subst hr
    simp [encode, typeToIdl, idlDecode]
  | .struct fs => by
    intro v rest hv hs
    cases v <;> simp [wfVal] at hv
    rename_i vs
    have hs' : closedAll fs = true ∨ (tailOkFields fs = true ∧ rest = []) := by
      simpa [closed, tailOk] using hs
    have := faithfulFields fs vs rest hv hs'
    simp only [encode, typeToIdl, idlDecode, this]
  | .enum ds ps => by
    intro v rest hv hs
    cases v <;> simp [wfVal] at hv
    rename_i i p
    have hs' : (ds.length = ps.length ∧ ds.all (· < 256) = true ∧ nodup ds = true) ∧
        (closedAll ps = true ∨ (tailOkAll ps = true ∧ rest = [])) := by
      rcases hs with h | h
      · simp only [closed, Bool.and_eq_true, decide_eq_true_eq] at h
        exact ⟨⟨h.1.1.1, h.1.1.2, h.1.2⟩, Or.inl h.2⟩
      · simp only [tailOk, Bool.and_eq_true, decide_eq_true_eq] at h
        exact ⟨⟨h.1.1.1.1, h.1.1.1.2, h.1.1.2⟩, Or.inr ⟨h.1.2, h.2⟩⟩
    obtain ⟨d, pay, _, henc, hdec⟩ := faithfulVariant ps ds i p rest hs'.1.1 hs'.1.2.1 hs'.1.2.2 hv hs'.2
    simp only [encode, typeToIdl, idlDecode, henc, numWidth, List.append_assoc]
    have hl : ¬ (leN 1 d ++ (pay ++ rest)).length < 1 := by simp
    simp only [hl, if_false, take_leN_append, drop_leN_append, hdec 0, List.length_append, leN_length]
    simp
  | .unit => by
    intro v rest hv _
    cases v <;> simp [wfVal] at hv
    simp [encode, typeToIdl, idlDecode]
theorem faithfulFields : (fs : List TyShape) → FaithfulFields fs
  | [] => by
    intro vs rest hv _
    cases vs <;> simp [wfFields] at hv
    simp [encodeFields, typeToIdlAll, decodeFields]
  | [f] => by
    intro vs rest hv hs
    cases vs with
    | nil => simp [wfFields] at hv
    | cons v vs =>
      simp only [wfFields, Bool.and_eq_true] at hv
      have hvs : vs = [] := by cases vs <;> simp_all
      subst hvs
      have hs' : closed f = true ∨ (tailOk f = true ∧ rest = []) := by
        simpa [closedAll, tailOkFields] using hs
      have ih := faithful f v rest hv.1 hs'
      simp only [encodeFields, typeToIdlAll, decodeFields, List.append_nil, ih, Nat.add_zero]
  | f :: g :: fs => by
    intro vs rest hv hs
    cases vs with
    | nil => simp [wfFields] at hv
    | cons v vs =>
      simp only [wfFields, Bool.and_eq_true] at hv
      have hs' : closed f = true ∧ (closedAll (g :: fs) = true ∨ (tailOkFields (g :: fs) = true ∧ rest = [])) := by
        rcases hs with h | h
        · simp only [closedAll, Bool.and_eq_true] at h
          exact ⟨h.1, Or.inl (by simp [closedAll, h.2])⟩
        · simp only [tailOkFields, Bool.and_eq_true] at h
          exact ⟨h.1.1, Or.inr ⟨h.1.2, h.2⟩⟩
      have ih := faithful f v (encodeFields (g :: fs) vs ++ rest) hv.1 (Or.inl hs'.1)
      have ihs := faithfulFields (g :: fs) vs rest hv.2 hs'.2
      clear hv hs hs'
      generalize g :: fs = gs at ih ihs ⊢
      simp only [encodeFields, typeToIdlAll, decodeFields, List.append_assoc, ih, List.drop_left', ihs,
        List.length_append]
theorem faithfulVariant : (ps : List TyShape) → FaithfulVariant ps
  | [] => by
    intro ds i v rest _ _ _ hv _
    simp [wfVariant] at hv
  | p :: ps => by
    intro ds i v rest hl hlt hnd hv hs
    cases ds with
    | nil => simp at hl
    | cons d ds =>
      have hs' : (closed p = true ∨ (tailOk p = true ∧ rest = [])) ∧
          (closedAll ps = true ∨ (tailOkAll ps = true ∧ rest = [])) := by
        rcases hs with h | h
        · simp only [closedAll, Bool.and_eq_true] at h; exact ⟨Or.inl h.1, Or.inl h.2⟩
        · simp only [tailOkAll, Bool.and_eq_true] at h; exact ⟨Or.inr ⟨h.1.1, h.2⟩, Or.inr ⟨h.1.2, h.2⟩⟩
      simp only [List.all_cons, Bool.and_eq_true, decide_eq_true_eq] at hlt
      obtain ⟨hnm, hnd'⟩ := nodup_not_mem hnd
      cases i with
      | zero =>
        simp only [wfVariant] at hv
        have ih := faithful p v rest hv hs'.1
        refine ⟨d, encode p v, by simp, by simp [encodeVariant], ?_⟩
        intro j
        simp only [List.map_cons, typeToIdlAll, decodeVariant, List.headD_cons, if_true, ih, Nat.add_zero]
      | succ i =>
        simp only [wfVariant, List.tail_cons] at hv
        obtain ⟨d', pay, hm, henc, hdec⟩ := faithfulVariant ps ds i v rest (by simpa using hl) hlt.2 hnd' hv hs'.2
        refine ⟨d', pay, by simp [hm], by simp [encodeVariant, henc], ?_⟩
        intro j
        have hne : leN 1 d ≠ leN 1 d' := by
          apply leN1_ne hlt.1
          · have := List.all_eq_true.mp hlt.2 d' hm; simpa using this
          · intro h; subst h; exact hnm hm
        simp only [List.map_cons, typeToIdlAll, decodeVariant, List.headD_cons, hne, if_false, List.tail_cons,
          hdec (j + 1)]
        rw [show j + 1 + i = j + (i + 1) by omega]
end

end Idl.Layout

namespace Idl.Layout
open Common

theorem encodeFields_append : (pre post : List TyShape) → (vpre vpost : List Val) →
    wfFields pre vpre = true →
    encodeFields (pre ++ post) (vpre ++ vpost) = encodeFields pre vpre ++ encodeFields post vpost
  | [], post, vpre, vpost, h => by
    cases vpre <;> simp [wfFields] at h
    simp [encodeFields]
  | f :: pre, post, vpre, vpost, h => by
    cases vpre with
    | nil => simp [wfFields] at h
    | cons v vpre =>
      simp only [wfFields, Bool.and_eq_true] at h
      simp only [List.cons_append, encodeFields, encodeFields_append pre post vpre vpost h.2, List.append_assoc]

end Idl.Layout
