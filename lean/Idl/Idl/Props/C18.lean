import Idl.VerifierLemmasMain
import Idl.Generated.Rules
/-!
# C18 — The IDL verifier accepts exactly the structurally sound definition graphs

Model: `Idl.verify` (`Idl/Verifier.lean`, function by function after `verifier/mod.rs`).
Specification: `Idl.Sound`, `Idl.Violates` (`Idl/Sound.lean`, declarative, no traversal order).
The compiled driver `c18_model` runs the same `Idl.verify`.
-/
namespace Idl.C18
open Idl

/-! ## concrete graphs used by the non-vacuity examples (names are code-point lists) -/

private def nT : Name := [84]      -- "T"
private def nS : Name := [83]      -- "S"
private def nA : Name := [65]      -- "A"
private def nX : Name := [88]      -- "X"
private def nI : Name := [73]      -- "I"
private def nM : Name := [109]     -- "m"
private def nE : Name := [101]     -- "e"

/-- A two-namespace graph using every kind of position: generic struct type, `Many` of a `Single`
with a program account, an account whose seed type lives in the other namespace, an instruction
with an `Or` of a defined account set.  The second namespace is written `" e\t"`: it is keyed `"e"`. -/
private def mainDef : Def :=
  { ns := nM
    types := [(nT, ⟨1, .struct [.generic nA, .map .u32 .pubkey (.option .u8 false)]⟩)]
    externalTypes := []
    accountSets := [(nS, ⟨0, 0, .many (.single [⟨none, nA⟩, ⟨some nM, nA⟩]) 1 (some 2)⟩)]
    accounts := [(nA, ⟨.mk nT none [.u8], some [.const, .variable (.defined (.mk nX (some nE) []))]⟩)]
    instructions := [(nI, ⟨.mk nT none [.bool], .or [.defined (.mk nS [] [])]⟩)] }

private def extDef : Def :=
  { ns := [32, 101, 9], types := [(nX, ⟨0, .u64⟩)], externalTypes := [], accountSets := [],
    accounts := [], instructions := [] }

/-- same as `mainDef` but the map key type is an unresolvable reference -/
private def badKeyDef : Def :=
  { mainDef with
    types := [(nT, ⟨1, .struct [.map .u32 (.defined (.mk nX none [])) .u8]⟩)] }

/-- strict-sound but compat-unsound: `m` refers to `e::X` (arity 0) while embedding a *different*
local `X` of arity 1 -/
private def shadowDef : Def :=
  { ns := nM, types := [], externalTypes := [(nX, ⟨1, .struct []⟩)], accountSets := [],
    accounts := [(nA, ⟨.mk nX (some nE) [], none⟩)], instructions := [] }

/-! ## acceptance ⇔ soundness -/

/-- **The verifier accepts a definition set iff it is structurally sound** (namespaces non-empty
and unique; every type / account-set / account reference at every position resolves under the mode
with matching arity; `Many` bounds `max ≥ min`; `Or` lists non-empty). -/
theorem verify_ok_iff_sound (ds : List Def) (m : Mode) : verify ds m = .ok () ↔ Sound ds m :=
  verify_ok_iff_sound' ds m

example : verify [mainDef, extDef] .strict = .ok () := by decide
example : Sound [mainDef, extDef] .strict := (verify_ok_iff_sound _ _).1 (by decide)
example : ¬ Sound [badKeyDef, extDef] .compat := fun h => by
  have := (verify_ok_iff_sound _ _).2 h; revert this; decide

/-- **A rejection carries the rule id of a rule that is really violated.** -/
theorem verify_err_rule_violated {ds : List Def} {m : Mode} {r : Rule}
    (h : verify ds m = .error r) : Violates r ds m :=
  verify_err_rule_violated' h

example : verify [badKeyDef, extDef] .compat = .error .missingType := by decide
example : verify [mainDef] .strict = .error .missingNamespace := by decide
example : verify [extDef, mainDef, extDef] .compat = .error .duplicateNamespace := by decide
example : Violates .missingType [badKeyDef, extDef] .compat := verify_err_rule_violated (by decide)

/-- `Violates` is a faithful notion: a violated rule excludes soundness … -/
theorem violates_not_sound {ds : List Def} {m : Mode} {r : Rule} (h : Violates r ds m) :
    ¬ Sound ds m :=
  violates_not_sound' h

/-- … and every unsound set is rejected with some violated rule (the rule table is complete). -/
theorem not_sound_iff_rejected (ds : List Def) (m : Mode) :
    ¬ Sound ds m ↔ ∃ r, verify ds m = .error r ∧ Violates r ds m := by
  constructor
  · intro h
    cases hv : verify ds m with
    | ok u => cases u; exact absurd ((verify_ok_iff_sound ds m).1 hv) h
    | error r => exact ⟨r, rfl, verify_err_rule_violated hv⟩
  · rintro ⟨r, _, hv⟩; exact violates_not_sound hv

example : ∃ r, verify [badKeyDef, extDef] .strict = .error r ∧ Violates r [badKeyDef, extDef] .strict :=
  (not_sound_iff_rejected _ _).1 (fun h => by
    have := (verify_ok_iff_sound _ _).2 h; revert this; decide)

/-! ## order independence -/

/-- **Acceptance does not depend on the order in which the definitions are supplied.** -/
theorem verify_perm_invariant {ds ds' : List Def} (hp : ds.Perm ds') (m : Mode) :
    verify ds m = .ok () ↔ verify ds' m = .ok () := by
  rw [verify_ok_iff_sound, verify_ok_iff_sound]
  exact ⟨Sound_perm hp m, Sound_perm hp.symm m⟩

example : verify [extDef, mainDef] .strict = .ok () :=
  (verify_perm_invariant (List.Perm.swap _ _ _) _).1 (by decide : verify [mainDef, extDef] .strict = .ok ())

/-- (the reported rule may depend on the order: only acceptance is invariant) -/
example : verify [badKeyDef, { extDef with ns := [] }] .compat = .error .emptyNamespace ∧
    verify [badKeyDef, extDef] .compat = .error .missingType := by decide

/-! ## strict vs compatibility mode

FULL STATEMENT WANTED BY THE DESIGN (`strict_implies_compat`):
  `verify ds .strict = .ok () → verify ds .compat = .ok ()`.
It is FALSE of the current code: compatibility mode resolves a namespaced type reference against
the *local* `types`/`external_types` first and checks the arity against that local copy, so a
same-named local type with a different number of generics makes compatibility mode reject
(SFIDL005) a graph that strict mode accepts.  Witness below; the exact side condition under which
the implication holds is `NoArityShadow`, and it is also necessary. -/

/-- The negation of `strict_implies_compat`, with a concrete witness. -/
theorem strict_implies_compat_witness :
    ∃ ds, verify ds .strict = .ok () ∧ verify ds .compat = .error .typeGenericArity :=
  ⟨[shadowDef, extDef], by decide⟩

/-- What does hold: strict acceptance implies compatibility acceptance when no namespaced type
reference is shadowed by a local type of another arity. -/
theorem strict_implies_compat_partial {ds : List Def} (hsh : NoArityShadow ds)
    (h : verify ds .strict = .ok ()) : verify ds .compat = .ok () := by
  rw [verify_ok_iff_sound] at h ⊢
  exact (strict_compat_iff_noshadow' h).2 hsh

/-- … and that side condition is exact. -/
theorem strict_compat_iff_noshadow {ds : List Def} (h : verify ds .strict = .ok ()) :
    verify ds .compat = .ok () ↔ NoArityShadow ds := by
  rw [verify_ok_iff_sound] at h ⊢
  exact strict_compat_iff_noshadow' h

example : verify [mainDef, extDef] .compat = .ok () := by decide

/-! ## the reference collector covers every constructor / position -/

/-- **`refs_complete`**: the items collected for a definition are exactly the items occurring at
any depth under any of its roots (types, external types, account sets, account type ids, seed
types, instruction type ids, instruction account sets), where "occurring" is generated by one
`Child` rule per AST field. -/
theorem refs_complete (d : Def) (it : Item) : it ∈ d.items ↔ d.Occurs it :=
  Def.items_complete

theorem refs_complete_typeDef (t : TypeDef) (it : Item) : it ∈ t.items ↔ TypeDef.Occurs it t :=
  TypeDef.items_complete

theorem refs_complete_accountSetDef (a : AccountSetDef) (it : Item) :
    it ∈ a.items ↔ AccountSetDef.Occurs it a :=
  AccountSetDef.items_complete

/-- a reference sitting in a map key inside a struct inside a type is found -/
example : Item.typeRef nX none 0 ∈ badKeyDef.items := by
  rw [refs_complete]
  refine Or.inl ⟨.struct [.map .u32 (.defined (.mk nX none [])) .u8], ?_,
    .defined (.mk nX none []), ?_, ?_⟩
  · exact .ofType (s := nT) (t := ⟨1, _⟩) (by simp [badKeyDef])
  · exact .step (.structField (List.mem_singleton.2 rfl)) (.step .mapKey .refl)
  · simp [TypeDef.head]

/-! ## tables of VALUES regenerated from the source

Only values are compared (rule ids, variant lists, reference-holding field counts).  Nothing here
depends on the source text of a condition or on how the walk is written: the conditions and the
reach of the walk are established behaviourally by the correspondence run (`boundary` and `variant`
families of `hx-idlver`, on every check). -/

/-- The rule-id constants of `verifier/mod.rs` are exactly the ids of the model's eleven rules. -/
theorem rule_table_matches_source :
    (∀ s ∈ Generated.ruleIds, s ∈ Rule.all.map Rule.id) ∧
    (∀ s ∈ Rule.all.map Rule.id, s ∈ Generated.ruleIds) ∧
    Generated.ruleIds.length = Rule.all.length := by decide

/-- … and exactly the ids documented in `docs/IDL_VERIFIER_SCOPE.md`. -/
theorem rule_ids_documented :
    (∀ s ∈ Generated.docRuleIds, s ∈ Rule.all.map Rule.id) ∧
    (∀ s ∈ Rule.all.map Rule.id, s ∈ Generated.docRuleIds) := by decide

theorem rule_ids_distinct : (Rule.all.map Rule.id).Nodup := by decide

/-- The model AST has the variants and reference-holding fields of the Rust AST. -/
theorem ast_matches_source :
    Generated.typeDefVariants = typeDefTable ∧
    Generated.accountSetDefVariants = accountSetDefTable ∧
    Generated.seedVariants = [("Const", 0), ("Variable", 1)] ∧
    Generated.modes = ["Compatibility", "StrictGraph"] := by decide

/-- Early static signal (tolerant extraction; on an unreadable source the translator keeps the
previous table and reports a FALLBACK): every variant is matched by an arm of `verify_type_def` /
`verify_account_set_def`, and an arm descends iff its variant holds references. -/
theorem walk_covers_variants :
    (∀ v ∈ Generated.typeDefVariants, Generated.typeDefWalk.lookup v.1 = some (decide (1 ≤ v.2))) ∧
    Generated.typeDefWalk.length = Generated.typeDefVariants.length ∧
    (∀ v ∈ Generated.accountSetDefVariants,
      Generated.accountSetDefWalk.lookup v.1 = some (decide (1 ≤ v.2))) ∧
    Generated.accountSetDefWalk.length = Generated.accountSetDefVariants.length := by decide

end Idl.C18
