import Idl.LayoutLemmas
import Idl.CodamaLemmas
/-!
# C17 — The generated IDL is structurally valid and faithful to runtime behaviour

Property theorems only. Models: `Idl/Layout.lean` (types, serializer, IDL-driven decoder),
`Idl/Codama.lean` (account sets, client metas, discriminants, Codama lowering); helper lemmas:
`Idl/LayoutLemmas.lean`, `Idl/CodamaLemmas.lean`.

What is a theorem and what is a finite differential run is spelled out in `/verif/notes/C17.md`:
the theorems below are the *building-block* part (every type shape / account-set shape, every
value); that the shipped programs are assembled from these blocks exactly as modelled is what the
correspondence run checks (real IDL fragment = `typeToIdl`/`setToIdl`, real bytes = `encode`,
`idlDecode`/`flatten` on the REAL IDL and REAL bytes = real value / real client metas).
-/
namespace Idl.C17
open Common Idl.Layout Idl.Codama

/-- **Layout faithfulness.** For every type shape in which `RemainingBytes` only occurs in tail
position (or inside an unsized list, where the offset table delimits it) and every well-typed value
whose integers fit their widths: decoding the bytes written by the runtime serializer with the
IDL type the emitters produce — by a decoder that knows nothing but the IDL — returns that value
and consumes exactly those bytes. -/
theorem layout_faithful (s : TyShape) (v : Val) (hs : tailOk s = true) (hv : wfVal s v = true) :
    idlDecode (typeToIdl s) (encode s v) = some (v, (encode s v).length) := by
  have := faithful s v [] hv (Or.inr ⟨hs, rfl⟩)
  simpa using this

/-- Self-delimiting shapes (no top-level `RemainingBytes` tail) decode correctly with anything
following them: the IDL layout composes (struct fields, list items, map entries). -/
theorem layout_faithful_prefix (s : TyShape) (v : Val) (rest : List Nat) (hs : closed s = true)
    (hv : wfVal s v = true) :
    idlDecode (typeToIdl s) (encode s v ++ rest) = some (v, (encode s v).length) :=
  faithful s v rest hv (Or.inl hs)

/-- **Hidden tail (`#[type_to_idl(skip)]`).** The IDL of a struct whose field `k` is marked `skip`
describes the first `k` fields; decoding the serializer output of the WHOLE struct with it returns
exactly the values of those fields and the length of their encoding — the IDL is a faithful
description of a prefix of the real layout (never of a layout with a hole in it). -/
theorem layout_faithful_skip (pre post : List TyShape) (vpre vpost : List Val)
    (hc : closedAll pre = true) (hw : wfFields pre vpre = true) :
    idlDecode (typeToIdlSkip (pre ++ post) pre.length) (encode (.struct (pre ++ post)) (.seq (vpre ++ vpost)))
      = some (.seq vpre, (encode (.struct pre) (.seq vpre)).length) := by
  have h := layout_faithful_prefix (.struct pre) (.seq vpre) (encodeFields post vpost)
    (by simpa [closed] using hc) (by simpa [wfVal] using hw)
  simp only [typeToIdlSkip, List.take_left', encode, encodeFields_append pre post vpre vpost hw]
  simpa [typeToIdl, encode] using h

/-- **Accounts faithfulness.** For every account-set shape built from the framework's blocks
(modifiers over single accounts, `Program`/`Sysvar`, `Option`, arrays, `Vec`/`Rest`, `Box`, nested
derived structs), the flattened account list read off the emitted IDL equals the metas the client
pushes — same order, same signer/writable flags, same fixed addresses, the program-id placeholder
exactly at absent optional accounts — with all optional accounts present and with all absent. -/
theorem accounts_faithful (prog : List Nat) (present : Bool) (sh : SetShape) (h : WF sh = true) :
    flatten prog present (setToIdl sh) = clientSlots prog present sh :=
  flatten_setToIdl prog present sh h

/-- The form the correspondence run evaluates on the REAL IDL and the REAL client metas (it also
tolerates an IDL-only fixed address over an explicit client key, see `agree`). -/
theorem accounts_agree (prog : List Nat) (present : Bool) (sh : SetShape) (h : WF sh = true) :
    agreeAll (flatten prog present (setToIdl sh)) (clientSlots prog present sh) = true := by
  rw [accounts_faithful prog present sh h]; exact agreeAll_refl _

/-- Pass-through modifiers over checking ones (`MaybeSigner<false, Signer<_>>`, `MaybeMut<false, Mut<_>>`,
any depth) are inside `WF` since /repo 10a861d (`SIGNER || T::meta().signer`): IDL and client agree and
both keep the inner flag. (Before that fix this was a counterexample, `downgrade_witness`.) -/
theorem passthrough_keeps_flags :
    flatten [7] true (setToIdl (.signer false (.mutable false (.mutable true (.signer true .info)))))
      = [⟨true, true, .fresh⟩]
    ∧ clientSlots [7] true (.signer false (.mutable false (.mutable true (.signer true .info))))
      = [⟨true, true, .fresh⟩] := by decide

/-- **Multi-variant account sets.** For every variant id (named or the un-named default) of a derived
struct whose fields carry any combination of per-variant / un-named `address` and `Seeds` attributes,
the flattened IDL of that variant agrees with the (variant-independent) client metas. -/
theorem variant_accounts_agree (prog : List Nat) (present : Bool) (id : Option String) (fs : List VField)
    (h : ∀ f ∈ fs, VFieldOk prog f = true) :
    agreeAll (flatten prog present (variantToIdl id fs)) (variantClient prog present fs) = true := by
  simp only [variantToIdl, variantClient, flatten]
  exact fields_agree prog present id fs h

/-- Strictness of the per-id lookup: a field without an attribute for the requested variant
contributes exactly its plain account set — in particular no address and no seeds borrowed from an
attribute of another (or the un-named) variant. -/
theorem variant_lookup_strict (id : Option String) (f : VField)
    (h : ∀ a ∈ f.attrs, a.id ≠ id) : fieldToIdl id f = setToIdl f.inner := by
  have key : ∀ as : List FieldAttr, (∀ a ∈ as, a.id ≠ id) → lookupAttr id as = none := by
    intro as
    induction as with
    | nil => intro _; rfl
    | cons a as ih =>
      intro h
      have hne : a.id ≠ id := h a (by simp)
      simp only [lookupAttr, hne, if_false]
      exact ih (fun b hb => h b (by simp [hb]))
  have := key f.attrs h
  simp [fieldToIdl, this]

/-- **`discriminant_to_usize`** succeeds exactly on discriminants of at most ONE byte (the guard
compares `len * 8` — bits — with `size_of::<usize>()` — bytes), and then returns the little-endian
value. Widths 2..8 are refused rather than converted; conversion never changes a value. -/
theorem disc_to_usize_spec (d : List Nat) (n : Nat) :
    discToUsize d = .ok n ↔ d.length ≤ 1 ∧ n = rdLE d := by
  unfold discToUsize
  by_cases h : d.length * 8 > 8
  · simp only [h, if_true]; constructor
    · intro h'; cases h'
    · intro ⟨h1, _⟩; omega
  · simp only [h, if_false, rdLE_append_zeros, Except.ok.injEq]
    constructor
    · intro h'; exact ⟨by omega, h'.symm⟩
    · intro ⟨_, h2⟩; exact h2.symm

/-- Enum variant discriminants (one byte, `repr(u8)`) survive the conversion unchanged. -/
theorem disc_to_usize_variant (x : Nat) (hx : x < 256) : discToUsize (leN 1 x) = .ok x := by
  rw [disc_to_usize_spec]; exact ⟨by simp, (rdLE_leN 1 x (by simpa using hx)).symm⟩

/-- Instruction / account discriminants of ANY width are carried as the hex default value of a
fixed-size `discriminator` field; reading the hex back gives the same bytes. -/
theorem disc_hex_roundtrip (d : List Nat) (h : BytesWF d) : unNibbles (nibbles d) = d :=
  unNibbles_nibbles d h

/-- **Codama lowering preserves accounts.** Whenever the lowering of an instruction's account set
succeeds, the accounts followed by the remaining-accounts are exactly the single-account leaves of
the IDL set, in IDL order, each with its name (camel-cased path), signer/writable/optional flags
and fixed address: nothing dropped, nothing reordered, nothing renamed. -/
theorem codama_preserves (s : IdlSet) (accts rems : List CAcc) (h : lowerDef s = .ok (accts, rems)) :
    accts ++ rems = leaves s [] := by
  cases s with
  | struct paths fs =>
    simp only [lowerDef] at h
    have := lowerFields_leaves paths fs [] 0 [] [] accts rems h
    simpa [leaves] using this
  | single _ => simp [lowerDef] at h
  | many _ _ _ => simp [lowerDef] at h
  | or _ => simp [lowerDef] at h

/-- The instruction-level statement: when `IdlInstruction::try_to_codama` succeeds, same conclusion. -/
theorem codama_preserves_ix (k : ArgKind) (s : IdlSet) (accts rems : List CAcc)
    (h : lowerIx k s = .ok (accts, rems)) : accts ++ rems = leaves s [] := by
  unfold lowerIx at h
  split at h
  · split at h
    · rename_i r hr; cases h; exact codama_preserves s _ _ hr
    · cases h
  · cases h

/-- **PDA seeds keep their parent.** In a successful lowering every account is `toCAcc path x` of a leaf
of the IDL set, and the accounts its PDA default value derives from are the IDL's account-path seeds
ALL resolved against one and the same parent — the path of the set holding the seeded account
(`path.dropLast`), whatever the nesting depth and however many seeds there are; `:`-rooted paths are kept. -/
theorem codama_seeds_same_parent (s : IdlSet) (accts rems : List CAcc) (h : lowerDef s = .ok (accts, rems)) :
    accts ++ rems = leaves s [] ∧
    ∀ (ps : List String) (x : Single), (toCAcc ps x).seedAccounts =
      (if x.address.isSome then [] else x.seeds.filterMap (resolveSeed ps.dropLast)) :=
  ⟨codama_preserves s accts rems h, fun _ _ => rfl⟩

/-- two relative seeds at depth 2 both resolve under `target` (the decoy top-level `mint` is not picked) -/
example : seedAccountsOf ["target", "vault"] { seeds := [.const, .rel ["market"], .rel ["mint"], .root ["payer"]] }
    = [pathName ["target", " ".intercalate ["market"]], pathName ["target", " ".intercalate ["mint"]],
       camel (" ".intercalate ["payer"])] := by
  simp [seedAccountsOf, List.filterMap, resolveSeed]

/-! ### non-vacuity -/

/-- `UnsizedList<List<u8, u8>>` holding `[[1,2],[3]]` — the bytes of DESIGN.md 2.3. -/
example : encode (.ulist (.list (.int 1 false) 1)) (.seq [.seq [.num 1, .num 2], .seq [.num 3]])
    = [5,0,0,0, 2,0,0,0, 0,0,0,0, 3,0,0,0, 2,0,0,0, 2,1,2, 1,3] := by decide
example : tailOk (.ulist (.list (.int 1 false) 1)) = true
    ∧ wfVal (.ulist (.list (.int 1 false) 1)) (.seq [.seq [.num 1, .num 2], .seq [.num 3]]) = true := by decide
/-- a struct ending in `RemainingBytes` is covered by `layout_faithful`, not by the prefix form -/
example : tailOk (.struct [.int 2 false, .remaining]) = true ∧ closed (.struct [.int 2 false, .remaining]) = false := by
  decide
example : WF (.struct [some "payer", some "prog", some "acct"]
    [.mutable true (.signer true .info), .fixed [1], .opt (.init (.signer true .info))]) = true := by decide
example : flatten [9] false (setToIdl (.struct [none, none] [.opt .info, .fixed [9]]))
    = [placeholder, ⟨false, false, .self⟩] := by decide
/-- skip in the middle: `{version: u8, #[skip] reserved: u16, limit: u32}` -/
example : typeToIdlSkip [.int 1 false, .int 2 false, .int 4 false] 1 = .struct [.u8] := by
  simp [typeToIdlSkip, typeToIdlAll, typeToIdl, intTy]
/-- `Many` followed by a plain account is refused, never reordered -/
example : lowerDef (.struct [some "vaults", some "authority"] [.many (.single { writable := true }) 2 (some 2), .single { signer := true }])
    = .error .manyNotLast := by
  simp [lowerDef, lowerFields, lowerField]
example : discToUsize [7] = .ok 7 ∧ discToUsize [1, 0] = .error () ∧ discToUsize [] = .ok 0 := by
  refine ⟨?_, ?_, ?_⟩ <;> simp [discToUsize, rdLE]
/-- a lowering that succeeds: one account, one remaining-accounts entry -/
example : ∃ a r, lowerDef (.struct [some "a", some "rest"] [.single { signer := true }, .many (.single {}) 0 none])
    = .ok ([a], [r]) ∧ a.signer = true ∧ r.signer = false :=
  ⟨_, _, rfl, rfl, rfl⟩
/-- a lowering that fails: `Many` before a plain account -/
example : lowerDef (.struct [some "rest", some "a"] [.many (.single {}) 0 none, .single {}])
    = .error .manyNotLast := by
  simp [lowerDef, lowerFields, lowerField]

end Idl.C17
