/-!
# The `star_frame_idl` AST (one-for-one with `/repo/star_frame_idl/src/{lib,ty,account_set,account,instruction,seeds}.rs`)

Mapping (Rust → Lean).  Every enum variant and every field that can hold a reference, a bound, an
alternative list or an arity is kept; inert metadata (descriptions, docs, paths, variant names,
discriminants, `writable/signer/optional/is_init` flags, find-seeds, addresses, versions) is omitted —
the verifier never looks at it, and the harness randomises it on the Rust side to show that.

* `IdlTypeDef` (27 variants)            → `TypeDef` (27 constructors, same order as `ty.rs`)
* `IdlTypeId {source, namespace, provided_generics}` → `TypeId.mk source ns gens`
* `IdlStructField.type_def`             → element of `TypeDef.struct`'s list
* `IdlEnumVariant.type_def : Option<_>` → element of `TypeDef.enum`'s list (`Option TypeDef`)
* `IdlType {generics, type_def}`        → `IdlType` (`generics` = the length of the Rust vector)
* `IdlAccountSetDef` (5 variants)       → `AccountSetDef`
* `IdlAccountSetId`                     → `AccountSetId.mk source tyGens accGens`
* `IdlSingleAccountSet.program_accounts`→ `AccountSetDef.single`
* `IdlAccountId {namespace, source}`    → `AccountId`
* `IdlAccountSet {type_generics, account_generics, account_set_def}` → `AccountSet`
* `IdlSeed::{Const, Variable{ty}}`      → `Seed`
* `IdlAccount {type_id, seeds}`         → `Account`
* `IdlInstruction.definition {account_set, type_id}` → `Instruction`
* `IdlDefinition {metadata.crate_metadata.name, instructions, account_sets, accounts, types,
  external_types}` → `Def` (the `BTreeMap`s are association lists in ascending key order; lookup is
  `List.lookup`).

Names (`String` in Rust) are lists of Unicode code points (`List Nat`), so that `decide` reduces.
-/
namespace Idl

/-- A Rust `String`: its sequence of Unicode scalar values. -/
abbrev Name := List Nat

mutual
/-- `IdlTypeDef` -/
inductive TypeDef where
  | defined (id : TypeId)
  | generic (name : Name)
  | bool | u8 | i8 | u16 | i16 | u32 | i32 | f32 | u64 | i64 | f64 | u128 | i128
  | string | pubkey
  | fixedPoint (ty : TypeDef) (frac : Nat)
  | option (ty : TypeDef) (fixed : Bool)
  | remainingBytes
  | list (lenTy itemTy : TypeDef)
  | unsizedList (lenTy offsetTy itemTy : TypeDef)
  | set (lenTy itemTy : TypeDef)
  | map (lenTy keyTy valueTy : TypeDef)
  | array (inner : TypeDef) (len : Nat)
  | struct (fields : List TypeDef)
  | enum (size : TypeDef) (variants : List (Option TypeDef))
/-- `IdlTypeId` -/
inductive TypeId where
  | mk (source : Name) (ns : Option Name) (gens : List TypeDef)
end

/-- `IdlAccountId` -/
structure AccountId where
  ns : Option Name
  source : Name
deriving DecidableEq, Repr

mutual
/-- `IdlAccountSetDef` -/
inductive AccountSetDef where
  | defined (id : AccountSetId)
  | single (programAccounts : List AccountId)
  | struct (fields : List AccountSetDef)
  | many (inner : AccountSetDef) (min : Nat) (max : Option Nat)
  | or (branches : List AccountSetDef)
/-- `IdlAccountSetId` -/
inductive AccountSetId where
  | mk (source : Name) (tyGens : List TypeDef) (accGens : List AccountSetDef)
end

/-- `IdlType` -/
structure IdlType where
  generics : Nat
  typeDef : TypeDef

/-- `IdlAccountSet` -/
structure AccountSet where
  tyGenerics : Nat
  accGenerics : Nat
  setDef : AccountSetDef

/-- `IdlSeed` -/
inductive Seed where
  | const
  | variable (ty : TypeDef)

/-- `IdlAccount` -/
structure Account where
  typeId : TypeId
  seeds : Option (List Seed)

/-- `IdlInstruction` (its `IdlInstructionDef`) -/
structure Instruction where
  typeId : TypeId
  accountSet : AccountSetDef

/-- `IdlDefinition` -/
structure Def where
  ns : Name
  types : List (Name × IdlType)
  externalTypes : List (Name × IdlType)
  accountSets : List (Name × AccountSet)
  accounts : List (Name × Account)
  instructions : List (Name × Instruction)

/-- `VerificationMode` -/
inductive Mode where
  | compat
  | strict
deriving DecidableEq, Repr

/-- Unicode `White_Space` (what Rust's `char::is_whitespace`, hence `str::trim`, uses). -/
def isWs (c : Nat) : Bool :=
  (9 ≤ c && c ≤ 13) || c == 0x20 || c == 0x85 || c == 0xA0 || c == 0x1680 ||
  (0x2000 ≤ c && c ≤ 0x200A) || c == 0x2028 || c == 0x2029 || c == 0x202F || c == 0x205F ||
  c == 0x3000

def trimStart : Name → Name
  | [] => []
  | c :: cs => if isWs c then trimStart cs else c :: cs

/-- `str::trim` -/
def trim (n : Name) : Name := (trimStart (trimStart n).reverse).reverse

/-- The namespace key under which the verifier indexes a definition. -/
def Def.key (d : Def) : Name := trim d.ns

/-- The names of the `IdlTypeDef` variants in declaration order, and for each the number of fields
that hold type definitions (directly, or through `IdlTypeId`, `Vec<IdlStructField>`,
`Vec<IdlEnumVariant>`).  Compared with the table extracted from `ty.rs` in `Props/C18.lean`, so a
variant or field added to the Rust AST breaks the proof stage until the model follows. -/
def typeDefTable : List (String × Nat) :=
  [("Defined", 1), ("Generic", 0), ("Bool", 0), ("U8", 0), ("I8", 0), ("U16", 0), ("I16", 0),
   ("U32", 0), ("I32", 0), ("F32", 0), ("U64", 0), ("I64", 0), ("F64", 0), ("U128", 0), ("I128", 0),
   ("String", 0), ("Pubkey", 0), ("FixedPoint", 1), ("Option", 1), ("RemainingBytes", 0),
   ("List", 2), ("UnsizedList", 3), ("Set", 2), ("Map", 3), ("Array", 1), ("Struct", 1), ("Enum", 2)]

/-- Same for `IdlAccountSetDef`: (variant, number of fields holding references / nested sets). -/
def accountSetDefTable : List (String × Nat) :=
  [("Defined", 1), ("Single", 1), ("Struct", 1), ("Many", 1), ("Or", 1)]

end Idl
