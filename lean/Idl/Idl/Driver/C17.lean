import Idl.Layout
import Idl.Codama
import Common.Proto
/-!
Model driver for C17: answers the op lines of `harness/hx-idl/src/c17.rs` (grammar documented
there and in `/verif/notes/C17.md`). Parsing/printing only; every answer is computed by the
definitions the theorems of `Idl/Props/C17.lean` are about.
-/
open Common Common.Proto

namespace Idl.Driver.C17
open Idl.Layout Idl.Codama

/-! ### s-expressions -/

inductive Sexp where
  | atom (s : String)
  | list (xs : List Sexp)
  deriving Inhabited

def lex (s : String) : List String :=
  let rec go (cs : List Char) (cur : List Char) (acc : List String) : List String :=
    let flush (cur : List Char) (acc : List String) : List String :=
      if cur.isEmpty then acc else String.ofList cur.reverse :: acc
    match cs with
    | [] => (flush cur acc).reverse
    | c :: rest =>
      if c = '(' then go rest [] ("(" :: flush cur acc)
      else if c = ')' then go rest [] (")" :: flush cur acc)
      else if c = ' ' then go rest [] (flush cur acc)
      else go rest (c :: cur) acc
  go s.toList [] []

mutual
partial def parseOne : List String → Option (Sexp × List String)
  | [] => none
  | "(" :: rest => do
    let (xs, rest') ← parseMany rest
    pure (.list xs, rest')
  | ")" :: _ => none
  | a :: rest => some (.atom a, rest)
partial def parseMany : List String → Option (List Sexp × List String)
  | [] => none
  | ")" :: rest => some ([], rest)
  | toks => do
    let (x, rest) ← parseOne toks
    let (xs, rest') ← parseMany rest
    pure (x :: xs, rest')
end

partial def parseTop (toks : List String) : Option (List Sexp) :=
  match toks with
  | [] => some []
  | _ => do
    let (x, rest) ← parseOne toks
    let xs ← parseTop rest
    pure (x :: xs)

def parseNat (s : String) : Option Nat := if s.isEmpty then none else s.toNat?

/-! ### shapes, values, IDL types -/

partial def parseShape : Sexp → Option TyShape
  | .atom "bool" => some .bool
  | .atom "pubkey" => some .pubkey
  | .atom "str" => some .string
  | .atom "rem" => some .remaining
  | .atom "unit" => some .unit
  | .list [.atom "u", .atom w] => (parseNat w).map (fun w => .int w false)
  | .list [.atom "i", .atom w] => (parseNat w).map (fun w => .int w true)
  | .list [.atom "f", .atom w] => (parseNat w).map .float
  | .list [.atom "fxu", .atom w, .atom fr] => do pure (.fixedPoint (← parseNat w) false (← parseNat fr))
  | .list [.atom "fxi", .atom w, .atom fr] => do pure (.fixedPoint (← parseNat w) true (← parseNat fr))
  | .list [.atom "arr", e, .atom n] => do pure (.array (← parseShape e) (← parseNat n))
  | .list [.atom "opt", e] => do pure (.option (← parseShape e))
  | .list [.atom "list", e, .atom lw] => do pure (.list (← parseShape e) (← parseNat lw))
  | .list [.atom "set", e, .atom lw] => do pure (.set (← parseShape e) (← parseNat lw))
  | .list [.atom "map", k, v, .atom lw] => do pure (.map (← parseShape k) (← parseShape v) (← parseNat lw))
  | .list [.atom "ulist", e] => do pure (.ulist (← parseShape e))
  | .list [.atom "umap", k, e] => do pure (.umap (← parseShape k) (← parseShape e))
  | .list (.atom "struct" :: fs) => do pure (.struct (← fs.mapM parseShape))
  | .list (.atom "enum" :: vs) => do
    let ps ← vs.mapM (fun v => match v with
      | .list [.atom d, p] => do pure ((← parseNat d), (← parseShape p))
      | _ => none)
    pure (.enum (ps.map (·.1)) (ps.map (·.2)))
  | _ => none

partial def parseVal : Sexp → Option Val
  | .atom "t" => some (.bool true)
  | .atom "f" => some (.bool false)
  | .atom "N" => some .none
  | .atom "U" => some .unit
  | .atom a =>
    if a.startsWith "x" then (parseHex (a.drop 1).toString).map .bytes
    else (parseNat a).map .num
  | .list [.atom "S", v] => (parseVal v).map .some
  | .list (.atom "L" :: vs) => (vs.mapM parseVal).map .seq
  | .list [.atom "P", k, v] => do pure (.pair (← parseVal k) (← parseVal v))
  | .list [.atom "V", .atom i, p] => do pure (.variant (← parseNat i) (← parseVal p))
  | _ => none

partial def showVal : Val → String
  | .num n => toString n
  | .bool b => if b then "t" else "f"
  | .bytes bs => "x" ++ toHex bs
  | .none => "N"
  | .some v => "(S " ++ showVal v ++ ")"
  | .seq vs => "(" ++ " ".intercalate ("L" :: vs.map showVal) ++ ")"
  | .pair k v => "(P " ++ showVal k ++ " " ++ showVal v ++ ")"
  | .variant i p => "(V " ++ toString i ++ " " ++ showVal p ++ ")"
  | .unit => "U"

partial def parseIdlTy : Sexp → Option IdlTy
  | .atom "bool" => some .bool
  | .atom "u8" => some .u8 | .atom "i8" => some .i8
  | .atom "u16" => some .u16 | .atom "i16" => some .i16
  | .atom "u32" => some .u32 | .atom "i32" => some .i32 | .atom "f32" => some .f32
  | .atom "u64" => some .u64 | .atom "i64" => some .i64 | .atom "f64" => some .f64
  | .atom "u128" => some .u128 | .atom "i128" => some .i128
  | .atom "string" => some .string
  | .atom "pubkey" => some .pubkey
  | .atom "rem" => some .remainingBytes
  | .atom "none" => some .noPayload
  | .atom "generic" => some .generic
  | .list [.atom "fixed", t, .atom fr] => do pure (.fixedPoint (← parseIdlTy t) (← parseNat fr))
  | .list [.atom "option", t, .atom fx] => do pure (.option (← parseIdlTy t) (← parseBool fx))
  | .list [.atom "list", l, t] => do pure (.list (← parseIdlTy l) (← parseIdlTy t))
  | .list [.atom "ulist", l, o, t] => do pure (.unsizedList (← parseIdlTy l) (← parseIdlTy o) (← parseIdlTy t))
  | .list [.atom "set", l, t] => do pure (.set (← parseIdlTy l) (← parseIdlTy t))
  | .list [.atom "map", l, k, v] => do pure (.map (← parseIdlTy l) (← parseIdlTy k) (← parseIdlTy v))
  | .list [.atom "array", t, .atom n] => do pure (.array (← parseIdlTy t) (← parseNat n))
  | .list (.atom "struct" :: fs) => do pure (.struct (← fs.mapM parseIdlTy))
  | .list (.atom "enum" :: size :: vs) => do
    let ps ← vs.mapM (fun v => match v with
      | .list [.atom d, p] => do pure ((← parseHex d), (← parseIdlTy p))
      | _ => none)
    pure (.enum (← parseIdlTy size) (ps.map (·.1)) (ps.map (·.2)))
  | _ => none

partial def showIdlTy : IdlTy → String
  | .bool => "bool" | .u8 => "u8" | .i8 => "i8" | .u16 => "u16" | .i16 => "i16" | .u32 => "u32"
  | .i32 => "i32" | .f32 => "f32" | .u64 => "u64" | .i64 => "i64" | .f64 => "f64" | .u128 => "u128"
  | .i128 => "i128" | .string => "string" | .pubkey => "pubkey" | .remainingBytes => "rem"
  | .noPayload => "none" | .generic => "generic"
  | .fixedPoint t fr => s!"(fixed {showIdlTy t} {fr})"
  | .option t fx => s!"(option {showIdlTy t} {showBool fx})"
  | .list l t => s!"(list {showIdlTy l} {showIdlTy t})"
  | .unsizedList l o t => s!"(ulist {showIdlTy l} {showIdlTy o} {showIdlTy t})"
  | .set l t => s!"(set {showIdlTy l} {showIdlTy t})"
  | .map l k v => s!"(map {showIdlTy l} {showIdlTy k} {showIdlTy v})"
  | .array t n => s!"(array {showIdlTy t} {n})"
  | .struct fs => "(" ++ " ".intercalate ("struct" :: fs.map showIdlTy) ++ ")"
  | .enum size ds ps =>
    "(" ++ " ".intercalate ("enum" :: showIdlTy size ::
      (ds.zip ps).map (fun (d, p) => s!"({toHex d} {showIdlTy p})")) ++ ")"

/-! ### account sets -/

def parseName (s : String) : Option String := if s = "#" then none else some s
def showName : Option String → String
  | none => "#"
  | some s => s

partial def parseSetShape : Sexp → Option SetShape
  | .atom "info" => some .info
  | .list [.atom "signer", .atom b, s] => do pure (.signer (← parseBool b) (← parseSetShape s))
  | .list [.atom "mut", .atom b, s] => do pure (.mutable (← parseBool b) (← parseSetShape s))
  | .list [.atom "init", s] => (parseSetShape s).map .init
  | .list [.atom "seeded", s] => (parseSetShape s).map .seeded
  | .list [.atom "fixed", .atom a] => (parseHex a).map .fixed
  | .list [.atom "box", s] => (parseSetShape s).map .boxed
  | .list [.atom "opt", s] => (parseSetShape s).map .opt
  | .list [.atom "array", s, .atom n] => do pure (.array (← parseSetShape s) (← parseNat n))
  | .list [.atom "rest", s] => (parseSetShape s).map .rest
  | .list (.atom "struct" :: fs) => do
    let ps ← fs.mapM (fun f => match f with
      | .list [.atom n, s] => do pure (parseName n, (← parseSetShape s))
      | _ => none)
    pure (.struct (ps.map (·.1)) (ps.map (·.2)))
  | _ => none

def parseFlags (s : String) : Option Single :=
  if s = "-" then some {} else
  s.toList.foldlM (fun (x : Single) c =>
    if c = 'w' then some { x with writable := true }
    else if c = 's' then some { x with signer := true }
    else if c = 'o' then some { x with optional := true }
    else if c = 'i' then some { x with isInit := true }
    else if c = 'S' then some { x with hasSeeds := true }
    else none) {}

def showFlags (x : Single) : String :=
  let s := (if x.writable then "w" else "") ++ (if x.signer then "s" else "") ++ (if x.optional then "o" else "")
    ++ (if x.isInit then "i" else "") ++ (if x.hasSeeds then "S" else "")
  if s.isEmpty then "-" else s

def parseAddr (s : String) : Option (Option (List Nat)) :=
  if s = "-" then some none else (parseHex s).map some
def showAddr : Option (List Nat) → String
  | none => "-"
  | some a => toHex a

def atoms : List Sexp → Option (List String)
  | [] => some []
  | .atom a :: rest => (atoms rest).map (a :: ·)
  | _ => none

def parseSeed : Sexp → Option SeedM
  | .list [.atom "c"] => some .const
  | .list (.atom "r" :: ws) => (atoms ws).map .rel
  | .list (.atom "a" :: ws) => (atoms ws).map .root
  | _ => none

partial def parseIdlSet : Sexp → Option IdlSet
  | .list [.atom "single", .atom fl, .atom a, .list seeds] => do
    let x ← parseFlags fl
    let a ← parseAddr a
    let sd ← seeds.mapM parseSeed
    pure (.single { x with address := a, seeds := sd })
  | .list [.atom "single", .atom fl, .atom a] => do
    let x ← parseFlags fl
    let a ← parseAddr a
    pure (.single { x with address := a })
  | .list (.atom "struct" :: fs) => do
    let ps ← fs.mapM (fun f => match f with
      | .list [.atom n, s] => do pure (parseName n, (← parseIdlSet s))
      | _ => none)
    pure (.struct (ps.map (·.1)) (ps.map (·.2)))
  | .list [.atom "many", s, .atom mn, .atom mx] => do
    let mx ← if mx = "*" then some none else (parseNat mx).map some
    pure (.many (← parseIdlSet s) (← parseNat mn) mx)
  | .list (.atom "or" :: alts) => (alts.mapM parseIdlSet).map .or
  | _ => none

partial def showIdlSet : IdlSet → String
  | .single x => s!"(single {showFlags x} {showAddr x.address})"
  | .struct paths fs =>
    "(" ++ " ".intercalate ("struct" :: (paths.zip fs).map (fun (n, f) => s!"({showName n} {showIdlSet f})")) ++ ")"
  | .many s mn mx => s!"(many {showIdlSet s} {mn} {match mx with | none => "*" | some m => toString m})"
  | .or alts => "(" ++ " ".intercalate ("or" :: alts.map showIdlSet) ++ ")"

def showSlot (s : Slot) : String :=
  showBool s.signer ++ showBool s.writable ++ ":" ++ (match s.key with
    | .fresh => "f" | .self => "p" | .fixed a => toHex a)

/-- With every optional account ABSENT the harness leaves `Program`/`Sysvar` at their defaults and
the whole slot (flags + key kind) is compared; with every optional account PRESENT the harness has
to pass `Some(key)` for every `Option<Pubkey>` client input — which also overrides the defaults
(`Program<T>` and `Option<AccountInfo>` have the same client type) — so only flags are compared. -/
def showSlots (present : Bool) (l : List Slot) : String :=
  if l.isEmpty then "-"
  else " ".intercalate (l.map (fun s => if present then showBool s.signer ++ showBool s.writable else showSlot s))

def showCAcc (a : CAcc) : String :=
  a.name ++ ":" ++ showBool a.signer ++ showBool a.writable ++ showBool a.optional ++ ":" ++ showAddr a.address
    ++ (if a.seedAccounts.isEmpty then "" else ":" ++ ",".intercalate a.seedAccounts)

def showCAccs (l : List CAcc) : String := if l.isEmpty then "-" else " ".intercalate (l.map showCAcc)

def showLErr : LErr → String
  | .manyNotLast => "err:ManyAccountSetsMustComeLast"
  | .remainingDefault => "err:RemainingAccountsCannotHaveDefaults"
  | .manyNotSingle => "err:ManySetsMustBeSingle"
  | .unsupportedSet => "err:UnsupportedAccountSetType"

/-- `(NAME ((ID|- 0|1 ADDR|-) …) SETSHAPE)` -/
def parseVField : Sexp → Option VField
  | .list [.atom n, .list attrs, sh] => do
    let attrs ← attrs.mapM (fun a => match a with
      | .list [.atom id, .atom sd, .atom ad] => do
        pure ({ id := parseName' id, seeds := (← parseBool sd), address := (← parseAddr ad) } : FieldAttr)
      | _ => none)
    pure { path := parseName n, attrs := attrs, inner := (← parseSetShape sh) }
  | _ => none
where parseName' (s : String) : Option String := if s = "-" then none else some s

def showPErr : PErr → String
  | .unsupportedType => "err:UnsupportedAccountType"
  | .set e => showLErr e

def parseArgKind (s : String) : Option ArgKind :=
  if s = "named" then some .named else if s = "empty" then some .empty
  else if s = "tuple" then some .tuple else if s = "other" then some .other else none

/-- `<s><w>:<f|p|hex>` -/
def parseSlot (s : String) : Option Slot :=
  match s.splitOn ":" with
  | [fl, k] =>
    match fl.toList with
    | [a, b] => do
      let sg ← parseBool (String.ofList [a])
      let w ← parseBool (String.ofList [b])
      let key ← if k = "f" then some KeyKind.fresh else if k = "p" then some KeyKind.self else (parseHex k).map KeyKind.fixed
      pure ⟨sg, w, key⟩
    | _ => none
  | _ => none

def sortedNames (ns : List String) : List String := (ns.map camel).mergeSort (fun a b => decide (a ≤ b))

/-! ### the ops -/

def answer (xs : List Sexp) : String :=
  match xs with
  -- type fragment emitted for a shape
  -- a struct with `#[type_to_idl(skip)]` on field K: `(skipstruct K F1 … Fn)`
  | [.atom "ty", .atom _, .list (.atom "skipstruct" :: .atom k :: fs)] =>
    match parseNat k, fs.mapM parseShape with
    | some k, some fs => "ok " ++ showIdlTy (typeToIdlSkip fs k)
    | _, _ => "bad-op"
  | [.atom "ty", .atom _, sh] =>
    match parseShape sh with
    | some s => "ok " ++ showIdlTy (typeToIdl s)
    | none => "bad-op"
  -- field names of a struct type: the model's answer is the declaration order carried by the op
  | [.atom "fields", .atom _, .atom k, .list ns] =>
    match atoms ns, parseNat k with
    | some ns, some k => "ok " ++ (if (ns.take k).isEmpty then "-" else " ".intercalate (ns.take k))
    | _, _ => "bad-op"
  -- bytes the serializer writes
  | [.atom "enc", .atom _, sh, v] =>
    match parseShape sh, parseVal v with
    | some s, some v => if tailOk s && wfVal s v then "ok " ++ toHex (encode s v) else "bad-op"
    | _, _ => "bad-op"
  -- IDL-driven decode of real bytes with the real IDL fragment
  | [.atom "dec", ty, .atom h] =>
    match parseIdlTy ty, parseHex h with
    | some t, some bs =>
      match idlDecode t bs with
      | some (v, n) => s!"ok {showVal v} {n}"
      | none => "err"
    | _, _ => "bad-op"
  | [.atom "set", .atom _, sh] =>
    match parseSetShape sh with
    | some s => "ok " ++ showIdlSet (setToIdl s)
    | none => "bad-op"
  -- one variant of a multi-variant account set: `vset <name> <id|-> (<vfield> …)`
  | [.atom "vset", .atom _, .atom id, .list fs] =>
    match fs.mapM parseVField with
    | some fs => "ok " ++ showIdlSet (variantToIdl (if id = "-" then none else some id) fs)
    | none => "bad-op"
  | [.atom "metas", .atom _, sh, .atom prog, .atom present] =>
    match parseSetShape sh, parseHex prog, parseBool present with
    | some s, some prog, some p => "ok " ++ showSlots p (clientSlots prog p s)
    | _, _, _ => "bad-op"
  -- `flat <prog> <ix> <progid> <present> <idlset> (<client slots>)`: the REAL IDL set flattened by the
  -- model, compared (`agreeAll` / flags) with the REAL client metas carried in the op line
  | [.atom "vflat", .atom _, .atom _, .atom prog, .atom present, set, .list client]
  | [.atom "flat", .atom _, .atom _, .atom prog, .atom present, set, .list client] =>
    match parseIdlSet set, parseHex prog, parseBool present, (atoms client).bind (fun l => l.mapM parseSlot) with
    | some s, some prog, some p, some cl =>
      let idl := flatten prog p s
      let same := if p then decide (flagsOf idl = flagsOf cl) else agreeAll idl cl
      (if same then "ok " else "mismatch ") ++ showSlots p idl
    | _, _, _, _ => "bad-op"
  -- the IDL's discriminant is the runtime constant: the model's answer is what the IDL says
  | [.atom "disc", .atom _, .atom _, .atom _, .atom h] =>
    match parseHex h with
    | some d => "ok " ++ toHex d
    | none => "bad-op"
  | [.atom "lower", .atom _, .atom _, .atom h, .atom k, set] =>
    match parseHex h, parseArgKind k, parseIdlSet set with
    | some d, some k, some s =>
      match lowerIx k s with
      | .ok (a, r) => s!"ok {toHex (unNibbles (nibbles d))} {d.length} | {showCAccs a} | {showCAccs r}"
      | .error e => showPErr e
    | _, _, _ => "bad-op"
  -- whole-program conversion: `codama <prog> (<acct kinds>) ((<argkind> <set>) ...)`
  | [.atom "codama", .atom _, .list accts, .list ixs] =>
    match (atoms accts).bind (fun l => l.mapM parseArgKind),
          ixs.mapM (fun x => match x with
            | .list [.atom k, s] => do pure ((← parseArgKind k), (← parseIdlSet s))
            | _ => none) with
    | some accts, some ixs =>
      match lowerProgram accts ixs with
      | .ok () => "ok"
      | .error e => showPErr e
    | _, _ => "bad-op"
  | [.atom "usize", .atom h] =>
    match parseHex h with
    | some d =>
      match discToUsize d with
      | .ok n => s!"ok {n}"
      | .error _ => "err:DiscriminantTooLarge"
    | none => "bad-op"
  | [.atom "cnames", .atom _, .atom _kind, .list ns] =>
    match atoms ns with
    | some ns => "ok " ++ (if ns.isEmpty then "-" else " ".intercalate (sortedNames ns))
    | none => "bad-op"
  | [.atom "cnames-inorder", .atom _, .atom _kind, .list ns] =>
    match atoms ns with
    | some ns => "ok " ++ (if ns.isEmpty then "-" else " ".intercalate (ns.map camel))
    | none => "bad-op"
  -- program-level checks whose expected answer is fixed by the property
  | [.atom "det", .atom _] => "ok"
  | [.atom "verify", .atom _] => "ok"
  | [.atom "verify-strict", .atom _] => "ok"
  | [.atom "accrefs", .atom _] => "ok"
  | [.atom "sameidl", .atom _, .atom _] => "ok"
  | [.atom "count", .atom _, .atom a, .atom b] => s!"ok {a} {b}"
  | _ => "bad-op"

def step (_ : Unit) (toks : List String) : Unit × String :=
  match parseTop (lex (" ".intercalate toks)) with
  | some xs => ((), answer xs)
  | none => ((), "bad-op")

end Idl.Driver.C17

def main : IO Unit := Common.Proto.run () Idl.Driver.C17.step
