import Common.Proto
import Idl.Verifier
/-!
# `c18_model`: op-line interpreter around `Idl.verify`

A case builds a definition set line by line and verifies it:

```
def <name>                          start a new definition with that namespace        -> ok
ty  <src> <arity> <typedef>         insert into the current definition's `types`        -> ok
xty <src> <arity> <typedef>         ... `external_types`                                -> ok
set <src> <tyArity> <accArity> <setdef>   ... `account_sets`                            -> ok
acct <src> <typeid> <seeds>         ... `accounts`   (seeds: `-` | `(seeds c (v <typedef>) …)`) -> ok
ix  <src> <typeid> <setdef>         ... `instructions`                                  -> ok
verify c|s [i,j,…]                  verify (Compatibility | StrictGraph), optionally in the
                                    given order (a permutation of the definition indices)
                                                                        -> ok | err SFIDLnnn
trim <name>                         `str::trim`                                        -> ok <name>
```
Insertion has `BTreeMap::insert` semantics (ascending key order, replace on equal key).  Anything
unparseable or inapplicable answers `bad-op` and leaves the state unchanged.

Names: `'` followed by `[A-Za-z0-9:]` literally, `_` for a space, `%<hex>;` for any other scalar.
typedef: atoms `bool u8 i8 u16 i16 u32 i32 f32 u64 i64 f64 u128 i128 string pubkey rest`,
`(gen <name>)`, typeid `(id <src> <ns|-> <typedef>*)`, `(fp <td> <frac>)`, `(opt <td> 0|1)`,
`(list <td> <td>)`, `(ulist <td> <td> <td>)`, `(set <td> <td>)`, `(map <td> <td> <td>)`,
`(arr <td> <n>)`, `(struct <td>*)`, `(enum <td> (<td>|-)*)`.
setdef: `(sid <src> (<td>*) (<setdef>*))`, `(single (a <src> <ns|->)*)`, `(struct <setdef>*)`,
`(many <setdef> <min> <max|->)`, `(or <setdef>*)`.
-/
namespace Idl.Driver.C18
open Idl Common.Proto

inductive Sexp where
  | atom (s : String)
  | list (xs : List Sexp)
deriving Inhabited

/-- split into `(`, `)` and atoms -/
def lexChars : List Char → List Char → List String → List String
  | [], cur, acc => (if cur.isEmpty then acc else String.ofList cur.reverse :: acc).reverse
  | c :: cs, cur, acc =>
    let flush := if cur.isEmpty then acc else String.ofList cur.reverse :: acc
    if c = '(' then lexChars cs [] ("(" :: flush)
    else if c = ')' then lexChars cs [] (")" :: flush)
    else if c = ' ' then lexChars cs [] flush
    else lexChars cs (c :: cur) acc

mutual
partial def parseSexp : List String → Option (Sexp × List String)
  | [] => none
  | "(" :: rest => do
    let (xs, rest') ← parseSexps rest
    pure (.list xs, rest')
  | ")" :: _ => none
  | a :: rest => some (.atom a, rest)
partial def parseSexps : List String → Option (List Sexp × List String)
  | [] => none
  | ")" :: rest => some ([], rest)
  | toks => do
    let (x, rest) ← parseSexp toks
    let (xs, rest') ← parseSexps rest
    pure (x :: xs, rest')
end

/-- all top-level s-expressions of a token list -/
partial def parseAll (toks : List String) : Option (List Sexp) :=
  match toks with
  | [] => some []
  | _ => do
    let (x, rest) ← parseSexp toks
    let xs ← parseAll rest
    pure (x :: xs)

def isScalar (c : Nat) : Bool := c < 0xD800 || (0xE000 ≤ c && c ≤ 0x10FFFF)

def hexVal : List Char → Option Nat
  | [] => none
  | cs => cs.foldl (fun acc c => do
      let a ← acc
      let d ← hexDigit c
      if a > 0x10FFFF then none else pure (a * 16 + d)) (some 0)

partial def parseNameChars : List Char → Option Name
  | [] => some []
  | '_' :: cs => do let r ← parseNameChars cs; pure (32 :: r)
  | '%' :: cs =>
    let hex := cs.takeWhile (· ≠ ';')
    match cs.dropWhile (· ≠ ';') with
    | ';' :: rest => do
      let v ← hexVal hex
      if isScalar v then do let r ← parseNameChars rest; pure (v :: r) else none
    | _ => none
  | c :: cs =>
    if c.isAlphanum || c = ':' then do let r ← parseNameChars cs; pure (c.toNat :: r) else none

def parseName (s : String) : Option Name :=
  match s.toList with
  | '\'' :: cs => parseNameChars cs
  | _ => none

def hexOf (n : Nat) : List Char :=
  let rec go (fuel : Nat) (n : Nat) (acc : List Char) : List Char :=
    match fuel with
    | 0 => acc
    | fuel + 1 => if n < 16 then hexChar n :: acc else go fuel (n / 16) (hexChar (n % 16) :: acc)
  go 8 n []

def showName (n : Name) : String :=
  String.ofList ('\'' :: n.foldr (fun c acc =>
    if c = 32 then '_' :: acc
    else if c < 128 && ((Char.ofNat c).isAlphanum || c = 58) then Char.ofNat c :: acc
    else ('%' :: hexOf c) ++ (';' :: acc)) [])

def parseOptName (x : Sexp) : Option (Option Name) :=
  match x with
  | .atom "-" => some none
  | .atom s => (parseName s).map some
  | _ => none

def parseNat (s : String) (max : Nat) : Option Nat :=
  if s.isEmpty || !s.toList.all Char.isDigit || s.length > 20 then none
  else
    let v := s.toList.foldl (fun a c => a * 10 + (c.toNat - '0'.toNat)) 0
    if v ≤ max then some v else none

def usizeMax : Nat := 18446744073709551615

def atomTypeDef : String → Option TypeDef
  | "bool" => some .bool | "u8" => some .u8 | "i8" => some .i8 | "u16" => some .u16
  | "i16" => some .i16 | "u32" => some .u32 | "i32" => some .i32 | "f32" => some .f32
  | "u64" => some .u64 | "i64" => some .i64 | "f64" => some .f64 | "u128" => some .u128
  | "i128" => some .i128 | "string" => some .string | "pubkey" => some .pubkey
  | "rest" => some .remainingBytes
  | _ => none

mutual
partial def toTypeDef : Sexp → Option TypeDef
  | .atom a => atomTypeDef a
  | .list [.atom "gen", .atom n] => do pure (.generic (← parseName n))
  | .list (.atom "id" :: rest) => do pure (.defined (← toTypeId (.list (.atom "id" :: rest))))
  | .list [.atom "fp", t, .atom f] => do pure (.fixedPoint (← toTypeDef t) (← parseNat f 255))
  | .list [.atom "opt", t, .atom b] => do
    let fixed ← (if b = "1" then some true else if b = "0" then some false else none)
    pure (.option (← toTypeDef t) fixed)
  | .list [.atom "list", l, i] => do pure (.list (← toTypeDef l) (← toTypeDef i))
  | .list [.atom "ulist", l, o, i] => do
    pure (.unsizedList (← toTypeDef l) (← toTypeDef o) (← toTypeDef i))
  | .list [.atom "set", l, i] => do pure (.set (← toTypeDef l) (← toTypeDef i))
  | .list [.atom "map", l, k, v] => do pure (.map (← toTypeDef l) (← toTypeDef k) (← toTypeDef v))
  | .list [.atom "arr", t, .atom n] => do pure (.array (← toTypeDef t) (← parseNat n usizeMax))
  | .list (.atom "struct" :: fs) => do pure (.struct (← fs.mapM toTypeDef))
  | .list (.atom "enum" :: sz :: vs) => do
    let vs' ← vs.mapM (fun v => match v with
      | .atom "-" => some none
      | v => (toTypeDef v).map some)
    pure (.enum (← toTypeDef sz) vs')
  | _ => none
partial def toTypeId : Sexp → Option TypeId
  | .list (.atom "id" :: .atom s :: ns :: gens) => do
    pure (.mk (← parseName s) (← parseOptName ns) (← gens.mapM toTypeDef))
  | _ => none
end

def toAccountId : Sexp → Option AccountId
  | .list [.atom "a", .atom s, ns] => do pure ⟨← parseOptName ns, ← parseName s⟩
  | _ => none

partial def toSetDef : Sexp → Option AccountSetDef
  | .list [.atom "sid", .atom s, .list tg, .list ag] => do
    pure (.defined (.mk (← parseName s) (← tg.mapM toTypeDef) (← ag.mapM toSetDef)))
  | .list (.atom "single" :: as) => do pure (.single (← as.mapM toAccountId))
  | .list (.atom "struct" :: fs) => do pure (.struct (← fs.mapM toSetDef))
  | .list [.atom "many", a, .atom mn, .atom mx] => do
    let mx' ← (if mx = "-" then some none else (parseNat mx usizeMax).map some)
    pure (.many (← toSetDef a) (← parseNat mn usizeMax) mx')
  | .list (.atom "or" :: bs) => do pure (.or (← bs.mapM toSetDef))
  | _ => none

def toSeeds : Sexp → Option (Option (List Seed))
  | .atom "-" => some none
  | .list (.atom "seeds" :: ss) => do
    let ss' ← ss.mapM (fun s => match s with
      | .atom "c" => some Seed.const
      | .list [.atom "v", t] => (toTypeDef t).map Seed.variable
      | _ => none)
    pure (some ss')
  | _ => none

/-- lexicographic order on code points = Rust's `String` order -/
def nameLt : Name → Name → Bool
  | [], [] => false
  | [], _ :: _ => true
  | _ :: _, [] => false
  | a :: as, b :: bs => if a < b then true else if b < a then false else nameLt as bs

/-- `BTreeMap::insert` on an association list kept in ascending key order -/
def mapInsert {α : Type} (k : Name) (v : α) : List (Name × α) → List (Name × α)
  | [] => [(k, v)]
  | (k', v') :: rest =>
    if k = k' then (k, v) :: rest
    else if nameLt k k' then (k, v) :: (k', v') :: rest
    else (k', v') :: mapInsert k v rest

def maxArity : Nat := 255

def parsePerm (s : String) (n : Nat) : Option (List Nat) := do
  let idx ← (s.splitOn ",").mapM (fun t => parseNat t 1000000)
  if idx.length = n ∧ (List.range n).all (fun i => idx.contains i) then some idx else none

/-- state: the definitions, most recent first -/
abbrev St := List Def

def emptyDef (ns : Name) : Def := ⟨ns, [], [], [], [], []⟩

def showResult : Except Rule Unit → String
  | .ok _ => "ok"
  | .error r => "err " ++ r.id

def step (st : St) (toks : List String) : St × String :=
  let bad := (st, "bad-op")
  match parseAll (lexChars (" ".intercalate toks).toList [] []) with
  | none => bad
  | some xs =>
    match xs with
    | [.atom "def", .atom n] =>
      match parseName n with
      | some ns => (emptyDef ns :: st, "ok")
      | none => bad
    | [.atom "trim", .atom n] =>
      match parseName n with
      | some nm => (st, "ok " ++ showName (trim nm))
      | none => bad
    | [.atom "verify", .atom m] =>
      match (if m = "c" then some Mode.compat else if m = "s" then some Mode.strict else none) with
      | some mode => (st, showResult (verify st.reverse mode))
      | none => bad
    | [.atom "verify", .atom m, .atom p] =>
      match (if m = "c" then some Mode.compat else if m = "s" then some Mode.strict else none),
            parsePerm p st.length with
      | some mode, some perm =>
        let ds := st.reverse
        (st, showResult (verify (perm.filterMap (fun i => ds[i]?)) mode))
      | _, _ => bad
    | [.atom kind, .atom s, .atom ar, td] =>
      match st, parseName s, parseNat ar maxArity, toTypeDef td with
      | d :: rest, some src, some arity, some t =>
        if kind = "ty" then ({ d with types := mapInsert src ⟨arity, t⟩ d.types } :: rest, "ok")
        else if kind = "xty" then
          ({ d with externalTypes := mapInsert src ⟨arity, t⟩ d.externalTypes } :: rest, "ok")
        else bad
      | _, _, _, _ => bad
    | [.atom "set", .atom s, .atom ta, .atom aa, sd] =>
      match st, parseName s, parseNat ta maxArity, parseNat aa maxArity, toSetDef sd with
      | d :: rest, some src, some t, some a, some sdef =>
        ({ d with accountSets := mapInsert src ⟨t, a, sdef⟩ d.accountSets } :: rest, "ok")
      | _, _, _, _, _ => bad
    | [.atom "acct", .atom s, tid, seeds] =>
      match st, parseName s, toTypeId tid, toSeeds seeds with
      | d :: rest, some src, some id, some sd =>
        ({ d with accounts := mapInsert src ⟨id, sd⟩ d.accounts } :: rest, "ok")
      | _, _, _, _ => bad
    | [.atom "ix", .atom s, tid, sd] =>
      match st, parseName s, toTypeId tid, toSetDef sd with
      | d :: rest, some src, some id, some sdef =>
        ({ d with instructions := mapInsert src ⟨id, sdef⟩ d.instructions } :: rest, "ok")
      | _, _, _, _ => bad
    | _ => bad

end Idl.Driver.C18

def main : IO Unit := Common.Proto.run ([] : Idl.Driver.C18.St) Idl.Driver.C18.step
