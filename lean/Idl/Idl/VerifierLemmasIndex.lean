import Idl.VerifierLemmas
/-!
# The namespace index, and the local checks against their declarative meaning
-/
namespace Idl

theorem lookup_cons_some {α : Type} {k n : Name} {v d : α} {l : List (Name × α)} :
    ((k, v) :: l).lookup n = some d ↔ (n = k ∧ d = v) ∨ (n ≠ k ∧ l.lookup n = some d) := by
  rw [List.lookup_cons]
  by_cases h : n = k
  · subst h; simp [eq_comm]
  · have hb : (n == k) = false := by simp [h]
    rw [hb]; simp only [h, false_and, false_or, ne_eq, not_false_eq_true, true_and]

theorem lookup_cons_none {α : Type} {k n : Name} {v : α} {l : List (Name × α)} :
    ((k, v) :: l).lookup n = none ↔ n ≠ k ∧ l.lookup n = none := by
  rw [List.lookup_cons]
  by_cases h : n = k
  · subst h; simp
  · have hb : (n == k) = false := by simp [h]
    rw [hb]; simp only [ne_eq, h, not_false_eq_true, true_and]

/-- What a successful `NamespaceIndex::build` guarantees (accumulator-generalised). -/
theorem buildIndex_ok {ds : List Def} {acc idx : List (Name × Def)}
    (h : buildIndex ds acc = .ok idx) :
    (∀ d ∈ ds, d.key ≠ []) ∧ (ds.map Def.key).Nodup ∧ (∀ d ∈ ds, acc.lookup d.key = none) ∧
    (∀ n d', idx.lookup n = some d' ↔ (d' ∈ ds ∧ d'.key = n) ∨ acc.lookup n = some d') := by
  induction ds generalizing acc with
  | nil =>
    simp only [buildIndex, Except.ok.injEq] at h
    subst h
    simp
  | cons d ds ih =>
    unfold buildIndex at h
    split at h
    · cases h
    · rename_i hne
      split at h
      · cases h
      · rename_i hnew
        have hnone : acc.lookup d.key = none := by
          cases hl : acc.lookup d.key with
          | none => rfl
          | some x => simp [hl] at hnew
        obtain ⟨h1, h2, h3, h4⟩ := ih h
        refine ⟨?_, ?_, ?_, ?_⟩
        · intro x hx
          rcases List.mem_cons.1 hx with rfl | hx
          · exact hne
          · exact h1 x hx
        · simp only [List.map_cons, List.nodup_cons]
          refine ⟨?_, h2⟩
          intro hmem
          obtain ⟨x, hx, hk⟩ := List.mem_map.1 hmem
          have := (lookup_cons_none.1 (h3 x hx)).1
          exact this hk
        · intro x hx
          rcases List.mem_cons.1 hx with rfl | hx
          · exact hnone
          · exact (lookup_cons_none.1 (h3 x hx)).2
        · intro n d'
          rw [h4 n d', lookup_cons_some]
          constructor
          · rintro (⟨hm, hk⟩ | ⟨rfl, rfl⟩ | ⟨_, hl⟩)
            · exact Or.inl ⟨List.mem_cons_of_mem _ hm, hk⟩
            · exact Or.inl ⟨by simp, rfl⟩
            · exact Or.inr hl
          · rintro (⟨hm, hk⟩ | hl)
            · rcases List.mem_cons.1 hm with rfl | hm
              · exact Or.inr (Or.inl ⟨hk.symm, rfl⟩)
              · exact Or.inl ⟨hm, hk⟩
            · by_cases hn : n = d.key
              · subst hn; rw [hnone] at hl; cases hl
              · exact Or.inr (Or.inr ⟨hn, hl⟩)

/-- Conversely, the build succeeds whenever the namespaces are fine. -/
theorem buildIndex_of_ok {ds : List Def} {acc : List (Name × Def)}
    (h1 : ∀ d ∈ ds, d.key ≠ []) (h2 : (ds.map Def.key).Nodup)
    (h3 : ∀ d ∈ ds, acc.lookup d.key = none) : ∃ idx, buildIndex ds acc = .ok idx := by
  induction ds generalizing acc with
  | nil => exact ⟨acc, rfl⟩
  | cons d ds ih =>
    unfold buildIndex
    have hne : d.key ≠ [] := h1 d (by simp)
    have hnone : acc.lookup d.key = none := h3 d (by simp)
    simp only [hne, if_false, hnone, Option.isSome_none, Bool.false_eq_true]
    simp only [List.map_cons, List.nodup_cons] at h2
    apply ih
    · intro x hx; exact h1 x (List.mem_cons_of_mem _ hx)
    · exact h2.2
    · intro x hx
      rw [lookup_cons_none]
      refine ⟨?_, h3 x (List.mem_cons_of_mem _ hx)⟩
      intro hk
      exact h2.1 (List.mem_map.2 ⟨x, hx, hk⟩)

/-- A failing build names a namespace rule that is violated. -/
theorem buildIndex_error {ds : List Def} {acc : List (Name × Def)} {r : Rule}
    (h : buildIndex ds acc = .error r) :
    (r = .emptyNamespace ∧ ∃ d ∈ ds, d.key = []) ∨
    (r = .duplicateNamespace ∧
      (¬ (ds.map Def.key).Nodup ∨ ∃ d ∈ ds, acc.lookup d.key ≠ none)) := by
  induction ds generalizing acc with
  | nil => simp [buildIndex] at h
  | cons d ds ih =>
    unfold buildIndex at h
    split at h
    · rename_i he
      cases h
      exact Or.inl ⟨rfl, d, by simp, he⟩
    · split at h
      · rename_i hsome
        cases h
        refine Or.inr ⟨rfl, Or.inr ⟨d, by simp, ?_⟩⟩
        intro hn; simp [hn] at hsome
      · rcases ih h with ⟨hr, x, hx, hk⟩ | ⟨hr, hdup | ⟨x, hx, hl⟩⟩
        · exact Or.inl ⟨hr, x, List.mem_cons_of_mem _ hx, hk⟩
        · refine Or.inr ⟨hr, Or.inl ?_⟩
          simp only [List.map_cons, List.nodup_cons]
          intro hh; exact hdup hh.2
        · by_cases hk : x.key = d.key
          · refine Or.inr ⟨hr, Or.inl ?_⟩
            simp only [List.map_cons, List.nodup_cons]
            intro hh; exact hh.1 (List.mem_map.2 ⟨x, hx, hk⟩)
          · refine Or.inr ⟨hr, Or.inr ⟨x, List.mem_cons_of_mem _ hx, ?_⟩⟩
            intro hn
            exact hl (lookup_cons_none.2 ⟨hk, hn⟩)

/-- The index answers exactly "the definition the set provides for this namespace". -/
def IndexSpec (ds : List Def) (idx : List (Name × Def)) : Prop :=
  ∀ n d, idx.lookup n = some d ↔ Provides ds n d

theorem buildIndex_spec {ds : List Def} {idx : List (Name × Def)}
    (h : buildIndex ds [] = .ok idx) : NamespacesOk ds ∧ IndexSpec ds idx := by
  obtain ⟨h1, h2, _, h4⟩ := buildIndex_ok h
  refine ⟨⟨h1, h2⟩, ?_⟩
  intro n d
  rw [h4 n d]
  simp [Provides]

theorem buildIndex_iff {ds : List Def} :
    (∃ idx, buildIndex ds [] = .ok idx) ↔ NamespacesOk ds := by
  constructor
  · rintro ⟨idx, h⟩; exact (buildIndex_spec h).1
  · rintro ⟨h1, h2⟩; exact buildIndex_of_ok h1 h2 (by simp)

/-! ## Lookups -/

theorem byNamespace_some {ds : List Def} {idx : List (Name × Def)} {m : Mode} {n : Name} {d : Def}
    (hs : IndexSpec ds idx) : (Env.mk idx m).byNamespace n = some d ↔ Provides ds n d := hs n d

theorem byNamespace_none {ds : List Def} {idx : List (Name × Def)} {m : Mode} {n : Name}
    (hs : IndexSpec ds idx) : (Env.mk idx m).byNamespace n = none ↔ ¬ Provided ds n := by
  unfold Env.byNamespace Provided
  constructor
  · rintro h ⟨d, hd⟩
    rw [(hs n d).2 hd] at h; cases h
  · intro h
    cases hl : idx.lookup n with
    | none => rfl
    | some d => exact absurd ⟨d, (hs n d).1 hl⟩ h

theorem getType_some {d : Def} {s : Name} {t : IdlType} : d.getType s = some t ↔ HasType d s t := by
  unfold Def.getType HasType
  cases h : d.types.lookup s <;> simp

theorem getType_none {d : Def} {s : Name} : d.getType s = none ↔ ∀ t, ¬ HasType d s t := by
  constructor
  · intro h t ht; rw [getType_some.2 ht] at h; cases h
  · intro h
    cases hg : d.getType s with
    | none => rfl
    | some t => exact absurd (getType_some.1 hg) (h t)

theorem hasAccount_true {d : Def} {s : Name} : d.hasAccount s = true ↔ HasAccount d s := by
  unfold Def.hasAccount HasAccount
  cases h : d.accounts.lookup s <;> simp

theorem hasAccount_false {d : Def} {s : Name} : d.hasAccount s = false ↔ ¬ HasAccount d s := by
  rw [← hasAccount_true]; simp

theorem HasType.unique {d : Def} {s : Name} {t t' : IdlType} (h : HasType d s t)
    (h' : HasType d s t') : t = t' := by
  have a := getType_some.2 h
  have b := getType_some.2 h'
  rw [a] at b; exact Option.some.inj b

theorem Provides.unique {ds : List Def} {idx : List (Name × Def)} (hs : IndexSpec ds idx)
    {n : Name} {d d' : Def} (h : Provides ds n d) (h' : Provides ds n d') : d = d' := by
  have a := (hs n d).2 h
  have b := (hs n d').2 h'
  rw [a] at b; exact Option.some.inj b

end Idl
