import Idl.VerifierLemmasIndex
/-!
# Each local check decides its item's declarative condition, and a failing check names a rule the
item really violates
-/
namespace Idl

variable {ds : List Def} {idx : List (Name × Def)} {m : Mode} {cur : Def}

/-! ## Type references -/

theorem resolveType_ok (hs : IndexSpec ds idx) {s : Name} {ns : Option Name} {t : IdlType} :
    resolveType ⟨idx, m⟩ cur s ns = .ok t ↔ ResolvesType ds m cur s ns t := by
  unfold resolveType ResolvesType
  cases ns with
  | none =>
    cases hg : cur.getType s with
    | none => simp [getType_none.1 hg]
    | some t0 =>
      simp only [Except.ok.injEq]
      constructor
      · rintro rfl; exact getType_some.1 hg
      · intro h; exact (getType_some.1 hg).unique h
  | some n =>
    cases m with
    | compat =>
      simp only
      cases hg : cur.getType s with
      | some t0 =>
        simp only [Except.ok.injEq]
        constructor
        · rintro rfl; exact Or.inl (getType_some.1 hg)
        · rintro (h | ⟨h, _⟩)
          · exact (getType_some.1 hg).unique h
          · exact absurd (getType_some.1 hg) (h t0)
      | none =>
        have hno := getType_none.1 hg
        cases hb : (Env.mk idx Mode.compat).byNamespace n with
        | none =>
          have := (byNamespace_none hs).1 hb
          simp only [reduceCtorEq, false_iff]
          rintro (h | ⟨_, d, hd, _⟩)
          · exact hno t h
          · exact this ⟨d, hd⟩
        | some d =>
          have hp := (byNamespace_some hs).1 hb
          simp only
          cases hd : d.getType s with
          | none =>
            simp only [reduceCtorEq, false_iff]
            rintro (h | ⟨_, d', hd', ht⟩)
            · exact hno t h
            · have := Provides.unique hs hp hd'
              subst this
              exact getType_none.1 hd t ht
          | some t0 =>
            simp only [Except.ok.injEq]
            constructor
            · rintro rfl; exact Or.inr ⟨hno, d, hp, getType_some.1 hd⟩
            · rintro (h | ⟨_, d', hd', ht⟩)
              · exact absurd h (hno t)
              · have := Provides.unique hs hp hd'
                subst this
                exact (getType_some.1 hd).unique ht
    | strict =>
      simp only
      cases hb : (Env.mk idx Mode.strict).byNamespace n with
      | none =>
        have := (byNamespace_none hs).1 hb
        simp only [reduceCtorEq, false_iff]
        rintro ⟨d, hd, _⟩
        exact this ⟨d, hd⟩
      | some d =>
        have hp := (byNamespace_some hs).1 hb
        simp only
        cases hd : d.getType s with
        | none =>
          simp only [reduceCtorEq, false_iff]
          rintro ⟨d', hd', ht⟩
          have := Provides.unique hs hp hd'
          subst this
          exact getType_none.1 hd t ht
        | some t0 =>
          simp only [Except.ok.injEq]
          constructor
          · rintro rfl; exact ⟨d, hp, getType_some.1 hd⟩
          · rintro ⟨d', hd', ht⟩
            have := Provides.unique hs hp hd'
            subst this
            exact (getType_some.1 hd).unique ht

/-- `resolveType` only ever fails with one of two rules. -/
theorem resolveType_error_rule {env : Env} {s : Name} {ns : Option Name} {r : Rule}
    (h : resolveType env cur s ns = .error r) : r = .missingNamespace ∨ r = .missingType := by
  unfold resolveType at h
  repeat' split at h
  all_goals first | (cases h; simp) | cases h

/-- `missingNamespace` from `resolveType` means: namespaced, namespace not provided, and (in
compatibility mode) no local copy either. -/
theorem resolveType_missingNamespace (hs : IndexSpec ds idx) {s : Name} {ns : Option Name}
    (h : resolveType ⟨idx, m⟩ cur s ns = .error .missingNamespace) :
    ∃ n, ns = some n ∧ ¬ Provided ds n ∧ (m = .compat → ∀ t, ¬ HasType cur s t) := by
  unfold resolveType at h
  cases ns with
  | none =>
    simp only at h
    split at h <;> cases h
  | some n =>
    refine ⟨n, rfl, ?_⟩
    cases m with
    | compat =>
      simp only at h
      cases hg : cur.getType s with
      | some t0 => simp [hg] at h
      | none =>
        simp only [hg] at h
        cases hb : (Env.mk idx Mode.compat).byNamespace n with
        | none => exact ⟨(byNamespace_none hs).1 hb, fun _ => getType_none.1 hg⟩
        | some d =>
          simp only [hb] at h
          split at h <;> cases h
    | strict =>
      simp only at h
      cases hb : (Env.mk idx Mode.strict).byNamespace n with
      | none => exact ⟨(byNamespace_none hs).1 hb, fun hm => by cases hm⟩
      | some d =>
        simp only [hb] at h
        split at h <;> cases h

/-- `missingType` from `resolveType` means: any namespace named is provided (so it is not a
missing-namespace case). -/
theorem resolveType_missingType (hs : IndexSpec ds idx) {s : Name} {ns : Option Name}
    (h : resolveType ⟨idx, m⟩ cur s ns = .error .missingType) :
    ∀ n, ns = some n → Provided ds n := by
  intro n hn
  subst hn
  unfold resolveType at h
  cases m with
  | compat =>
    simp only at h
    cases hg : cur.getType s with
    | some t0 => simp [hg] at h
    | none =>
      simp only [hg] at h
      cases hb : (Env.mk idx Mode.compat).byNamespace n with
      | none => simp [hb] at h
      | some d => exact ⟨d, (byNamespace_some hs).1 hb⟩
  | strict =>
    simp only at h
    cases hb : (Env.mk idx Mode.strict).byNamespace n with
    | none => simp [hb] at h
    | some d => exact ⟨d, (byNamespace_some hs).1 hb⟩

theorem resolveType_error_unresolved (hs : IndexSpec ds idx) {s : Name} {ns : Option Name}
    {r : Rule} (h : resolveType ⟨idx, m⟩ cur s ns = .error r) :
    ¬ ∃ t, ResolvesType ds m cur s ns t := by
  rintro ⟨t, ht⟩
  rw [(resolveType_ok hs).2 ht] at h
  cases h

theorem checkTypeRef_ok_iff (hs : IndexSpec ds idx) {s : Name} {ns : Option Name} {a : Nat} :
    checkTypeRef ⟨idx, m⟩ cur s ns a = .ok () ↔ ItemOk ds m cur (.typeRef s ns a) := by
  simp only [ItemOk]
  unfold checkTypeRef
  cases hr : resolveType ⟨idx, m⟩ cur s ns with
  | error r =>
    simp only [reduceCtorEq, false_iff]
    rintro ⟨t, ht, _⟩
    exact resolveType_error_unresolved hs hr ⟨t, ht⟩
  | ok t =>
    have ht := (resolveType_ok hs).1 hr
    simp only
    constructor
    · intro h
      split at h
      · cases h
      · rename_i hne
        exact ⟨t, ht, by simpa using Eq.symm (Decidable.not_not.1 hne)⟩
    · rintro ⟨t', ht', ha⟩
      have : t' = t := by
        have := (resolveType_ok (m := m) (cur := cur) hs).2 ht'
        rw [hr] at this
        exact (Except.ok.inj this).symm
      subst this
      simp [ha]

theorem checkTypeRef_error (hs : IndexSpec ds idx) {s : Name} {ns : Option Name} {a : Nat}
    {r : Rule} (h : checkTypeRef ⟨idx, m⟩ cur s ns a = .error r) :
    ItemViolates ds m cur r (.typeRef s ns a) := by
  unfold checkTypeRef at h
  cases hr : resolveType ⟨idx, m⟩ cur s ns with
  | error r' =>
    simp only [hr] at h
    cases h
    rcases resolveType_error_rule hr with rfl | rfl
    · obtain ⟨n, rfl, h1, h2⟩ := resolveType_missingNamespace hs hr
      exact ⟨h1, h2⟩
    · exact ⟨resolveType_error_unresolved hs hr, resolveType_missingType hs hr⟩
  | ok t =>
    simp only [hr] at h
    split at h
    · rename_i hne
      cases h
      exact ⟨t, (resolveType_ok hs).1 hr, fun he => hne he.symm⟩
    · cases h

/-! ## Account-set references -/

theorem checkSetRef_ok_iff {s : Name} {ta aa : Nat} :
    checkSetRef cur s ta aa = .ok () ↔ ItemOk ds m cur (.setRef s ta aa) := by
  simp only [ItemOk]
  unfold checkSetRef
  cases hl : cur.accountSets.lookup s with
  | none => simp
  | some st =>
    simp only [Option.some.injEq, exists_eq_left']
    constructor
    · intro h
      split at h
      · cases h
      · split at h
        · cases h
        · rename_i h1 h2
          exact ⟨(Decidable.not_not.1 h1).symm, (Decidable.not_not.1 h2).symm⟩
    · rintro ⟨h1, h2⟩
      simp [h1, h2]

theorem checkSetRef_error {s : Name} {ta aa : Nat} {r : Rule}
    (h : checkSetRef cur s ta aa = .error r) : ItemViolates ds m cur r (.setRef s ta aa) := by
  unfold checkSetRef at h
  cases hl : cur.accountSets.lookup s with
  | none =>
    simp only [hl] at h
    cases h
    exact hl
  | some st =>
    simp only [hl] at h
    split at h
    · rename_i h1
      cases h
      exact ⟨st, hl, fun he => h1 he.symm⟩
    · split at h
      · rename_i h2
        cases h
        exact ⟨st, hl, fun he => h2 he.symm⟩
      · cases h

/-! ## Account references -/

theorem verifyAccountId_ok_iff (hs : IndexSpec ds idx) {ns : Option Name} {s : Name} :
    verifyAccountId ⟨idx, m⟩ cur ⟨ns, s⟩ = .ok () ↔ ItemOk ds m cur (.accountRef ns s) := by
  simp only [ItemOk]
  unfold verifyAccountId ResolvesAccount
  cases ns with
  | none =>
    simp only
    cases hh : cur.hasAccount s with
    | true => simp [hasAccount_true.1 hh]
    | false => simp [hasAccount_false.1 hh]
  | some n =>
    cases m with
    | compat =>
      simp only
      cases hh : cur.hasAccount s with
      | true => simp [hasAccount_true.1 hh]
      | false =>
        have hno := hasAccount_false.1 hh
        simp only [Bool.false_eq_true, if_false]
        cases hb : (Env.mk idx Mode.compat).byNamespace n with
        | none =>
          have := (byNamespace_none hs).1 hb
          simp only [reduceCtorEq, false_iff]
          rintro (h | ⟨d, hd, _⟩)
          · exact hno h
          · exact this ⟨d, hd⟩
        | some d =>
          have hp := (byNamespace_some hs).1 hb
          simp only
          cases hd : d.hasAccount s with
          | true =>
            simp only [if_true, true_iff]
            exact Or.inr ⟨d, hp, hasAccount_true.1 hd⟩
          | false =>
            simp only [Bool.false_eq_true, if_false, reduceCtorEq, false_iff]
            rintro (h | ⟨d', hd', ha⟩)
            · exact hno h
            · have := Provides.unique hs hp hd'
              subst this
              exact hasAccount_false.1 hd ha
    | strict =>
      simp only
      cases hb : (Env.mk idx Mode.strict).byNamespace n with
      | none =>
        have := (byNamespace_none hs).1 hb
        simp only [reduceCtorEq, false_iff]
        rintro ⟨d, hd, _⟩
        exact this ⟨d, hd⟩
      | some d =>
        have hp := (byNamespace_some hs).1 hb
        simp only
        cases hd : d.hasAccount s with
        | true =>
          simp only [if_true, true_iff]
          exact ⟨d, hp, hasAccount_true.1 hd⟩
        | false =>
          simp only [Bool.false_eq_true, if_false, reduceCtorEq, false_iff]
          rintro ⟨d', hd', ha⟩
          have := Provides.unique hs hp hd'
          subst this
          exact hasAccount_false.1 hd ha

theorem verifyAccountId_error (hs : IndexSpec ds idx) {ns : Option Name} {s : Name} {r : Rule}
    (h : verifyAccountId ⟨idx, m⟩ cur ⟨ns, s⟩ = .error r) :
    ItemViolates ds m cur r (.accountRef ns s) := by
  have hnot : ¬ ResolvesAccount ds m cur ns s := by
    intro hok
    have := (verifyAccountId_ok_iff (m := m) (cur := cur) hs).2 hok
    rw [this] at h; cases h
  unfold verifyAccountId at h
  cases ns with
  | none =>
    simp only at h
    split at h
    · cases h
    · cases h
      exact ⟨hnot, fun n hn => by cases hn⟩
  | some n =>
    cases m with
    | compat =>
      simp only at h
      split at h
      · cases h
      · rename_i hh
        cases hb : (Env.mk idx Mode.compat).byNamespace n with
        | none =>
          simp only [hb] at h
          cases h
          exact ⟨(byNamespace_none hs).1 hb, fun _ => hasAccount_false.1 (by simpa using hh)⟩
        | some d =>
          simp only [hb] at h
          split at h
          · cases h
          · cases h
            refine ⟨hnot, fun n' hn' => ?_⟩
            cases hn'
            exact ⟨d, (byNamespace_some hs).1 hb⟩
    | strict =>
      simp only at h
      cases hb : (Env.mk idx Mode.strict).byNamespace n with
      | none =>
        simp only [hb] at h
        cases h
        exact ⟨(byNamespace_none hs).1 hb, fun hm => by cases hm⟩
      | some d =>
        simp only [hb] at h
        split at h
        · cases h
        · cases h
          refine ⟨hnot, fun n' hn' => ?_⟩
          cases hn'
          exact ⟨d, (byNamespace_some hs).1 hb⟩

/-! ## Shape rules -/

theorem checkMany_ok_iff {mn : Nat} {mx : Option Nat} :
    checkMany mn mx = .ok () ↔ ItemOk ds m cur (.many mn mx) := by
  simp only [ItemOk]
  unfold checkMany
  cases mx with
  | none => simp
  | some x =>
    simp only [Option.some.injEq, forall_eq']
    by_cases h : x < mn
    · simp only [h, if_true, reduceCtorEq, false_iff]; omega
    · simp only [h, if_false, true_iff]; omega

theorem checkMany_error {mn : Nat} {mx : Option Nat} {r : Rule}
    (h : checkMany mn mx = .error r) : ItemViolates ds m cur r (.many mn mx) := by
  unfold checkMany at h
  cases mx with
  | none => cases h
  | some x =>
    simp only at h
    split at h
    · rename_i hlt
      cases h
      exact ⟨x, rfl, hlt⟩
    · cases h

theorem checkOr_ok_iff {n : Nat} : checkOr n = .ok () ↔ ItemOk ds m cur (.or n) := by
  simp only [ItemOk]
  unfold checkOr
  by_cases h : n = 0
  · simp [h]
  · simp only [h, if_false, true_iff]; omega

theorem checkOr_error {n : Nat} {r : Rule} (h : checkOr n = .error r) :
    ItemViolates ds m cur r (.or n) := by
  unfold checkOr at h
  split at h
  · rename_i h0
    cases h
    exact h0
  · cases h

/-! ## All items -/

/-- The local check of an item succeeds exactly when the item is fine. -/
theorem checkItem_ok_iff (hs : IndexSpec ds idx) {it : Item} :
    checkItem ⟨idx, m⟩ cur it = .ok () ↔ ItemOk ds m cur it := by
  cases it with
  | typeRef s ns a => exact checkTypeRef_ok_iff hs
  | setRef s ta aa => exact checkSetRef_ok_iff
  | accountRef ns s => exact verifyAccountId_ok_iff hs
  | many mn mx => exact checkMany_ok_iff
  | or n => exact checkOr_ok_iff

/-- A failing local check names a rule the item really violates. -/
theorem checkItem_error (hs : IndexSpec ds idx) {it : Item} {r : Rule}
    (h : checkItem ⟨idx, m⟩ cur it = .error r) : ItemViolates ds m cur r it := by
  cases it with
  | typeRef s ns a => exact checkTypeRef_error hs h
  | setRef s ta aa => exact checkSetRef_error h
  | accountRef ns s => exact verifyAccountId_error hs h
  | many mn mx => exact checkMany_error h
  | or n => exact checkOr_error h

end Idl
