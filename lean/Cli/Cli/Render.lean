import Cli.Name
import Cli.Generated.Templates
/-!
# Model of `render_template` (new_project.rs 224–234) and `TemplateValues::new` (371–381)

`render_template` is a chain of `str::replace(pattern, value)` calls; `str::replace` replaces all
non-overlapping matches, leftmost first, and does not rescan the inserted text.
-/
namespace Cli

/-- `str::replace` for a non-empty pattern. The `Nat` is the number of characters of the match just
replaced that are still to be skipped. -/
def replaceGo (pat rep : List Char) : Nat → List Char → List Char
  | _, [] => []
  | k + 1, _ :: cs => replaceGo pat rep k cs
  | 0, c :: cs =>
    if pat.isPrefixOf (c :: cs) then rep ++ replaceGo pat rep (pat.length - 1) cs
    else c :: replaceGo pat rep 0 cs

def replaceAll (pat rep s : List Char) : List Char := replaceGo pat rep 0 s

/-- `TemplateValues::new(project_name, pubkey)`: the five values a placeholder can be replaced by. Which
placeholder gets which value is in the generated table (`Generated.placeholderValues`, chosen by the role of
the source expression); that the real program computes exactly these values is observed on every run by
comparing every generated file byte for byte (`project` op lines), not by comparing source text. -/
def TemplateValues.new (projectName pubkey : List Char) : TemplateValues where
  name_lowercase := projectName
  name_lowercase_underscore := normalize projectName
  name_uppercase := upper projectName
  name_pascalcase := pascal projectName
  pubkey := pubkey

/-- The `.replace(..)` chain as (pattern, replacement) pairs, in source order. -/
def placeholders (v : TemplateValues) : List (List Char × List Char) :=
  Generated.placeholderPatterns.zip (Generated.placeholderValues v)

def renderWith (ps : List (List Char × List Char)) (template : List Char) : List Char :=
  ps.foldl (fun acc pr => replaceAll pr.1 pr.2 acc) template

/-- `render_template(template, values)`. -/
def render (v : TemplateValues) (template : List Char) : List Char :=
  renderWith (placeholders v) template

end Cli
