import Cli.NameSpec
import Cli.Render
/-!
# Lemmas relating the scanner `validateName` to the specification `Spec.NameOk` / `Spec.RegexOk`
-/
namespace Cli
open Spec

/-! ## character classes -/

theorem isSep_iff (c : Char) : isSep c = true ↔ c = '-' ∨ c = '_' := by
  simp [isSep]

theorem toNat_dash : ('-' : Char).toNat = 45 := by decide
theorem toNat_underscore : ('_' : Char).toNat = 95 := by decide

theorem sep_not_lower {c : Char} (h : isSep c = true) : isLower c = false := by
  rcases (isSep_iff c).1 h with rfl | rfl <;> decide

theorem sep_not_digit {c : Char} (h : isSep c = true) : isDigit c = false := by
  rcases (isSep_iff c).1 h with rfl | rfl <;> decide

theorem sep_not_alnum {c : Char} (h : isSep c = true) : isAlnum c = false := by
  simp [isAlnum, sep_not_lower h, sep_not_digit h]

theorem alnum_not_sep {c : Char} (h : isAlnum c = true) : isSep c = false := by
  cases hs : isSep c with
  | false => rfl
  | true => rw [sep_not_alnum hs] at h; cases h

theorem lower_not_sep {c : Char} (h : isLower c = true) : isSep c = false :=
  alnum_not_sep (by simp [isAlnum, h])

theorem lower_not_digit {c : Char} (h : isLower c = true) : isDigit c = false := by
  simp only [isLower, isDigit, Bool.and_eq_true, decide_eq_true_eq] at *
  simp only [Bool.and_eq_false_iff, decide_eq_false_iff_not]
  omega

/-! ## the loop -/

/-- Exact characterisation of the loop: started after character `p` (state `isSep p`) it ends in
`.ok b` iff the rest is in the charset, `p :: cs` has no adjacent separators, and `b` says whether
the last character is a separator. -/
theorem scanTail_ok_iff (p : Char) (cs : List Char) (b : Bool) :
    scanTail (isSep p) cs = .ok b ↔
      (∀ c ∈ cs, isAlnum c = true ∨ isSep c = true) ∧ NoAdjSep (p :: cs) ∧ b = isSep (cs.getLastD p) := by
  induction cs generalizing p with
  | nil =>
    simp only [scanTail, NoAdjSep, List.getLastD_nil]
    constructor
    · intro h; cases h; simp
    · rintro ⟨-, -, rfl⟩; rfl
  | cons c cs ih =>
    simp only [scanTail, List.getLastD_cons]
    by_cases ha : isAlnum c = true
    · have hs : isSep c = false := alnum_not_sep ha
      have ha' : (isLower c || isDigit c) = true := ha
      rw [if_pos ha']
      have := ih c
      rw [hs] at this
      rw [this]
      simp only [List.mem_cons, forall_eq_or_imp, NoAdjSep, hs, ha]
      simp
    · have ha' : (isLower c || isDigit c) = false := by
        simpa [isAlnum] using ha
      rw [ha']
      simp only [Bool.false_eq_true, if_false]
      by_cases hs : isSep c = true
      · rw [if_pos hs]
        cases hp : isSep p with
        | true =>
          simp only [if_true]
          constructor
          · intro h; cases h
          · rintro ⟨-, hn, -⟩
            simp only [NoAdjSep] at hn
            exact absurd ⟨hp, hs⟩ hn.1
        | false =>
          simp only [Bool.false_eq_true, if_false]
          have := ih c
          rw [hs] at this
          rw [this]
          simp only [List.mem_cons, forall_eq_or_imp, NoAdjSep, hs, hp]
          simp
      · rw [if_neg hs]
        constructor
        · intro h; cases h
        · rintro ⟨hc, -, -⟩
          have := hc c (List.mem_cons_self ..)
          rcases this with h | h
          · exact absurd h ha
          · exact absurd h hs

/-- The loop accepts with `previous_separator = false` exactly the strings of
`([a-z0-9]|[-_][a-z0-9])*`. -/
theorem scanTail_tail_aux (cs : List Char) :
    (scanTail false cs = .ok false → Tail cs) ∧
    (scanTail true cs = .ok false → ∃ d cs', cs = d :: cs' ∧ isAlnum d = true ∧ Tail cs') := by
  induction cs with
  | nil => simp [scanTail, Tail.nil]
  | cons c cs ih =>
    by_cases ha : (isLower c || isDigit c) = true
    · simp only [scanTail, ha, if_true]
      exact ⟨fun h => Tail.alnum ha (ih.1 h), fun h => ⟨c, cs, rfl, ha, ih.1 h⟩⟩
    · by_cases hs : isSep c = true
      · simp only [scanTail, ha, hs, Bool.false_eq_true, ↓reduceIte]
        refine ⟨fun h => ?_, fun h => (by cases h)⟩
        obtain ⟨d, cs', rfl, hd, ht⟩ := ih.2 h
        exact Tail.sep hs hd ht
      · simp only [scanTail, ha, hs, Bool.false_eq_true, ↓reduceIte]
        exact ⟨fun h => (by cases h), fun h => (by cases h)⟩

theorem tail_scanTail {cs : List Char} (h : Tail cs) : scanTail false cs = .ok false := by
  induction h with
  | nil => rfl
  | alnum ha _ ih =>
    have ha' : (isLower _ || isDigit _) = true := ha
    simp only [scanTail, ha', if_true, ih]
  | sep hs hd _ ih =>
    have hn := sep_not_alnum hs
    have hn' : (isLower _ || isDigit _) = false := hn
    have hd' : (isLower _ || isDigit _) = true := hd
    simp only [scanTail, hn', hs, hd', if_true, Bool.false_eq_true, if_false, ih]

theorem scanTail_false_iff_tail (cs : List Char) : scanTail false cs = .ok false ↔ Tail cs :=
  ⟨(scanTail_tail_aux cs).1, tail_scanTail⟩

/-! ## keywords -/

theorem keywords_agree_bool :
    (Generated.keywords.all (fun k => Spec.rustKeywords.contains k) &&
     Spec.rustKeywords.all (fun k => Generated.keywords.contains k)) = true := by
  decide +kernel

/-- The keyword list extracted from `is_rust_keyword` has exactly the members of the specification's list. -/
theorem keywords_agree (k : List Char) : k ∈ Generated.keywords ↔ k ∈ Spec.rustKeywords := by
  have h := keywords_agree_bool
  simp only [Bool.and_eq_true, List.all_eq_true, List.contains_iff_mem] at h
  exact ⟨fun hk => h.1 k hk, fun hk => h.2 k hk⟩

theorem isKeyword_iff (s : Name) : isKeyword s = true ↔ s ∈ Spec.rustKeywords := by
  simp [isKeyword, keywords_agree]

/-! ## the whole function -/

theorem validateName_ok_self {s r : Name} (h : validateName s = .ok r) : r = s := by
  unfold validateName at h
  split at h
  · cases h
  · split at h
    · cases h
    · split at h
      · cases h
      · cases h
      · split at h
        · cases h
        · cases h; rfl

theorem validateName_ok_iff_scan (c : Char) (cs : List Char) :
    accepted (validateName (c :: cs)) = true ↔
      isLower c = true ∧ scanTail false cs = .ok false ∧ isKeyword (normalize (c :: cs)) = false := by
  cases hl : isLower c with
  | false => simp [validateName, accepted, hl]
  | true =>
    cases hsc : scanTail false cs with
    | error e => simp [validateName, accepted, hl, hsc]
    | ok b =>
      cases b with
      | true => simp [validateName, accepted, hl, hsc]
      | false =>
        cases hk : isKeyword (normalize (c :: cs)) <;> simp [validateName, accepted, hl, hsc, hk]

theorem getLast?_cons_getLastD (a : Char) (l : List Char) : (a :: l).getLast? = some (l.getLastD a) := by
  induction l generalizing a with
  | nil => rfl
  | cons b l ih => rw [List.getLast?_cons_cons, ih b, List.getLastD_cons]

/-! ## derived names -/

/-- Characters that may occur in the derived names. -/
def safeCh (c : Char) : Prop := isLower c = true ∨ isUpperAZ c = true ∨ isDigit c = true ∨ isSep c = true

theorem safeCh_not_brace {x : List Char} (h : ∀ c ∈ x, safeCh c) : (∀ c ∈ x, c ≠ '{') ∧ '}' ∉ x := by
  constructor
  · intro c hc hcb
    subst hcb
    rcases h _ hc with h | h | h | h <;> revert h <;> decide
  · intro hc
    rcases h _ hc with h | h | h | h <;> revert h <;> decide

theorem upper_range : ∀ n, n < 123 → 97 ≤ n →
    (65 ≤ (Char.ofNat (n - 32)).toNat ∧ (Char.ofNat (n - 32)).toNat ≤ 90) := by decide

theorem upperChar_upper {c : Char} (h : isLower c = true) : isUpperAZ (upperChar c) = true := by
  simp only [upperChar, h, if_true]
  simp only [isLower, Bool.and_eq_true, decide_eq_true_eq] at h
  have := upper_range c.toNat (by omega) h.1
  simp only [isUpperAZ, Bool.and_eq_true, decide_eq_true_eq]
  exact this

theorem upperChar_safe {c : Char} (h : safeCh c) : safeCh (upperChar c) := by
  by_cases hl : isLower c = true
  · exact Or.inr (Or.inl (upperChar_upper hl))
  · simp only [upperChar, hl, Bool.false_eq_true, if_false]; exact h

theorem lower_ne_dash {c : Char} (h : isLower c = true) : c ≠ '-' := by
  rintro rfl; revert h; decide

theorem normalize_chars {s : Name} (h : ∀ c ∈ s, isLower c = true ∨ isDigit c = true ∨ isSep c = true) :
    ∀ x ∈ normalize s, isLower x = true ∨ isUpperAZ x = true ∨ isDigit x = true ∨ x = '_' := by
  intro x hx
  simp only [normalize, List.mem_map] at hx
  obtain ⟨y, hy, rfl⟩ := hx
  by_cases hd : y = '-'
  · simp [hd]
  · rw [if_neg hd]
    rcases h y hy with h' | h' | h'
    · exact Or.inl h'
    · exact Or.inr (Or.inr (Or.inl h'))
    · rcases (isSep_iff y).1 h' with h'' | h''
      · exact absurd h'' hd
      · exact Or.inr (Or.inr (Or.inr h''))

theorem pascalGo_chars (s : Name) (h : ∀ c ∈ s, isLower c = true ∨ isDigit c = true ∨ isSep c = true) :
    ∀ up, ∀ x ∈ pascalGo up s, isLower x = true ∨ isUpperAZ x = true ∨ isDigit x = true := by
  induction s with
  | nil => intro up x hx; simp [pascalGo] at hx
  | cons c cs ih =>
    intro up x hx
    have ih' := ih (fun y hy => h y (List.mem_cons_of_mem _ hy))
    have hc := h c (List.mem_cons_self ..)
    simp only [pascalGo] at hx
    by_cases hs : isSep c = true
    · rw [if_pos hs] at hx; exact ih' _ x hx
    · rw [if_neg hs] at hx
      by_cases hd : isDigit c = true
      · rw [if_pos hd] at hx
        rcases List.mem_cons.1 hx with rfl | hx
        · exact Or.inr (Or.inr hd)
        · exact ih' _ x hx
      · rw [if_neg hd] at hx
        have hl : isLower c = true := by
          rcases hc with h' | h' | h'
          · exact h'
          · exact absurd h' hd
          · exact absurd h' hs
        rcases List.mem_cons.1 hx with rfl | hx
        · cases up
          · simp only [Bool.false_eq_true, if_false]; exact Or.inl hl
          · simp only [if_true]; exact Or.inr (Or.inl (upperChar_upper hl))
        · exact ih' _ x hx

theorem suffix_ok : ('/' ∉ Generated.keypairSuffix ∧ Char.ofNat 0 ∉ Generated.keypairSuffix) := by decide

/-- See `Cli.C20.accepted_names_consistent`. -/
theorem names_consistent {s : Name} (h : NameOk s) (pubkey : List Char) :
    let v := TemplateValues.new s pubkey
    v.name_lowercase = s ∧ CargoPackageName v.name_lowercase ∧ PathComponent s ∧
    v.name_lowercase_underscore = normalize s ∧ RustIdent v.name_lowercase_underscore ∧
    keypairFileName Generated.keypairSuffix s = v.name_lowercase_underscore ++ Generated.keypairSuffix ∧
    PathComponent (keypairFileName Generated.keypairSuffix s) ∧
    (∃ c cs, v.name_pascalcase = c :: cs ∧ isUpperAZ c = true) ∧
    (∀ c ∈ v.name_pascalcase, isLower c = true ∨ isUpperAZ c = true ∨ isDigit c = true) ∧
    (∀ x ∈ [v.name_lowercase, v.name_lowercase_underscore, v.name_uppercase, v.name_pascalcase],
      (∀ c ∈ x, c ≠ '{') ∧ '}' ∉ x) := by
  obtain ⟨c, cs, rfl, hl⟩ := h.first
  have hcs := h.charset
  have hnorm := normalize_chars hcs
  have hfirstNorm : normalize (c :: cs) = c :: normalize cs := by
    simp [normalize, lower_ne_dash hl]
  have hsafe_s : ∀ x ∈ c :: cs, safeCh x := by
    intro x hx
    rcases hcs x hx with h' | h' | h'
    · exact Or.inl h'
    · exact Or.inr (Or.inr (Or.inl h'))
    · exact Or.inr (Or.inr (Or.inr h'))
  have hsafe_n : ∀ x ∈ normalize (c :: cs), safeCh x := by
    intro x hx
    rcases hnorm x hx with h' | h' | h' | h'
    · exact Or.inl h'
    · exact Or.inr (Or.inl h')
    · exact Or.inr (Or.inr (Or.inl h'))
    · exact Or.inr (Or.inr (Or.inr (by rw [h']; decide)))
  have hpas := pascalGo_chars (c :: cs) hcs true
  have hnot : ∀ (d : Char), isLower d = false → isDigit d = false → isSep d = false → d ∉ c :: cs := by
    intro d h1 h2 h3 hd
    rcases hcs d hd with h' | h' | h'
    · rw [h1] at h'; cases h'
    · rw [h2] at h'; cases h'
    · rw [h3] at h'; cases h'
  have hnotN : ∀ (d : Char), isLower d = false → isUpperAZ d = false → isDigit d = false → d ≠ '_' →
      d ∉ normalize (c :: cs) := by
    intro d h1 h2 h3 h4 hd
    rcases hnorm d hd with h' | h' | h' | h'
    · rw [h1] at h'; cases h'
    · rw [h2] at h'; cases h'
    · rw [h3] at h'; cases h'
    · exact h4 h'
  refine ⟨rfl, ⟨⟨c, cs, rfl, lower_not_digit hl⟩, ?_⟩, ⟨by simp, ?_, ?_, ?_, ?_⟩, rfl,
    ⟨⟨c, normalize cs, hfirstNorm, Or.inl hl⟩, hnorm, h.notKeyword⟩, rfl, ⟨?_, ?_, ?_, ?_, ?_⟩, ?_, ?_, ?_⟩
  · intro x hx
    rcases hcs x hx with h' | h' | h'
    · exact Or.inl h'
    · exact Or.inr (Or.inr (Or.inl h'))
    · exact Or.inr (Or.inr (Or.inr h'))
  · exact hnot '/' (by decide) (by decide) (by decide)
  · exact hnot (Char.ofNat 0) (by decide) (by decide) (by decide)
  · intro heq; injection heq with h1 _; rw [h1] at hl; revert hl; decide
  · intro heq; injection heq with h1 _; rw [h1] at hl; revert hl; decide
  · simp [keypairFileName, hfirstNorm]
  · simp only [keypairFileName, List.mem_append, not_or]
    exact ⟨hnotN '/' (by decide) (by decide) (by decide) (by decide), suffix_ok.1⟩
  · simp only [keypairFileName, List.mem_append, not_or]
    exact ⟨hnotN (Char.ofNat 0) (by decide) (by decide) (by decide) (by decide), suffix_ok.2⟩
  · simp only [keypairFileName, hfirstNorm, List.cons_append]
    intro heq; injection heq with h1 _; rw [h1] at hl; revert hl; decide
  · simp only [keypairFileName, hfirstNorm, List.cons_append]
    intro heq; injection heq with h1 _; rw [h1] at hl; revert hl; decide
  · refine ⟨upperChar c, pascalGo false cs, ?_, upperChar_upper hl⟩
    simp [TemplateValues.new, pascal, pascalGo, lower_not_sep hl, lower_not_digit hl]
  · exact hpas
  · intro x hx
    simp only [TemplateValues.new, List.mem_cons, List.not_mem_nil, or_false] at hx
    rcases hx with rfl | rfl | rfl | rfl
    · exact safeCh_not_brace hsafe_s
    · exact safeCh_not_brace hsafe_n
    · apply safeCh_not_brace
      intro y hy
      simp only [upper, List.mem_map] at hy
      obtain ⟨z, hz, rfl⟩ := hy
      exact upperChar_safe (hsafe_s z hz)
    · apply safeCh_not_brace
      intro y hy
      rcases hpas y hy with h' | h' | h'
      · exact Or.inl h'
      · exact Or.inr (Or.inl h')
      · exact Or.inr (Or.inr (Or.inl h'))

end Cli
