import Cli.NameSpec
/-!
# Lemmas relating the scanner `validateName` to the specification `Spec.NameOk` / `Spec.RegexOk`
-/
namespace Cli
open Spec

/-! ## character classes -/

theorem isSep_iff (c : Char) : isSep c = true ↔ c = '-' ∨ c = '_' := by
  simp [isSep]

theorem toNat_dash : ('-' : Char).toNat = 45 := by decide
theorem toNat_underscore : ('_' : Char).toNat = 95 := by decide

theorem sep_not_lower {c : Char} (h : isSep c = true) : isLower c = false := by
  rcases (isSep_iff c).1 h with rfl | rfl <;> decide

theorem sep_not_digit {c : Char} (h : isSep c = true) : isDigit c = false := by
  rcases (isSep_iff c).1 h with rfl | rfl <;> decide

theorem sep_not_alnum {c : Char} (h : isSep c = true) : isAlnum c = false := by
  simp [isAlnum, sep_not_lower h, sep_not_digit h]

theorem alnum_not_sep {c : Char} (h : isAlnum c = true) : isSep c = false := by
  cases hs : isSep c with
  | false => rfl
  | true => rw [sep_not_alnum hs] at h; cases h

theorem lower_not_sep {c : Char} (h : isLower c = true) : isSep c = false :=
  alnum_not_sep (by simp [isAlnum, h])

theorem lower_not_digit {c : Char} (h : isLower c = true) : isDigit c = false := by
  simp only [isLower, isDigit, Bool.and_eq_true, decide_eq_true_eq] at *
  simp only [Bool.and_eq_false_iff, decide_eq_false_iff_not]
  omega

/-! ## the loop -/

/-- Exact characterisation of the loop: started after character `p` (state `isSep p`) it ends in
`.ok b` iff the rest is in the charset, `p :: cs` has no adjacent separators, and `b` says whether
the last character is a separator. -/
theorem scanTail_ok_iff (p : Char) (cs : List Char) (b : Bool) :
    scanTail (isSep p) cs = .ok b ↔
      (∀ c ∈ cs, isAlnum c = true ∨ isSep c = true) ∧ NoAdjSep (p :: cs) ∧ b = isSep (cs.getLastD p) := by
  induction cs generalizing p with
  | nil =>
    simp only [scanTail, NoAdjSep, List.getLastD_nil]
    constructor
    · intro h; cases h; simp
    · rintro ⟨-, -, rfl⟩; rfl
  | cons c cs ih =>
    simp only [scanTail, List.getLastD_cons]
    by_cases ha : isAlnum c = true
    · have hs : isSep c = false := alnum_not_sep ha
      have ha' : (isLower c || isDigit c) = true := ha
      rw [if_pos ha']
      have := ih c
      rw [hs] at this
      rw [this]
      simp only [List.mem_cons, forall_eq_or_imp, NoAdjSep, hs, ha]
      simp
    · have ha' : (isLower c || isDigit c) = false := by
        simpa [isAlnum] using ha
      rw [ha']
      simp only [Bool.false_eq_true, if_false]
      by_cases hs : isSep c = true
      · rw [if_pos hs]
        cases hp : isSep p with
        | true =>
          simp only [if_true]
          constructor
          · intro h; cases h
          · rintro ⟨-, hn, -⟩
            simp only [NoAdjSep] at hn
            exact absurd ⟨hp, hs⟩ hn.1
        | false =>
          simp only [Bool.false_eq_true, if_false]
          have := ih c
          rw [hs] at this
          rw [this]
          simp only [List.mem_cons, forall_eq_or_imp, NoAdjSep, hs, hp]
          simp
      · rw [if_neg hs]
        constructor
        · intro h; cases h
        · rintro ⟨hc, -, -⟩
          have := hc c (List.mem_cons_self ..)
          rcases this with h | h
          · exact absurd h ha
          · exact absurd h hs

/-- The loop accepts with `previous_separator = false` exactly the strings of
`([a-z0-9]|[-_][a-z0-9])*`. -/
theorem scanTail_tail_aux (cs : List Char) :
    (scanTail false cs = .ok false → Tail cs) ∧
    (scanTail true cs = .ok false → ∃ d cs', cs = d :: cs' ∧ isAlnum d = true ∧ Tail cs') := by
  induction cs with
  | nil => simp [scanTail, Tail.nil]
  | cons c cs ih =>
    by_cases ha : (isLower c || isDigit c) = true
    · simp only [scanTail, ha, if_true]
      exact ⟨fun h => Tail.alnum ha (ih.1 h), fun h => ⟨c, cs, rfl, ha, ih.1 h⟩⟩
    · by_cases hs : isSep c = true
      · simp only [scanTail, ha, hs, Bool.false_eq_true, ↓reduceIte]
        refine ⟨fun h => ?_, fun h => (by cases h)⟩
        obtain ⟨d, cs', rfl, hd, ht⟩ := ih.2 h
        exact Tail.sep hs hd ht
      · simp only [scanTail, ha, hs, Bool.false_eq_true, ↓reduceIte]
        exact ⟨fun h => (by cases h), fun h => (by cases h)⟩

theorem tail_scanTail {cs : List Char} (h : Tail cs) : scanTail false cs = .ok false := by
  induction h with
  | nil => rfl
  | alnum ha _ ih =>
    have ha' : (isLower _ || isDigit _) = true := ha
    simp only [scanTail, ha', if_true, ih]
  | sep hs hd _ ih =>
    have hn := sep_not_alnum hs
    have hn' : (isLower _ || isDigit _) = false := hn
    have hd' : (isLower _ || isDigit _) = true := hd
    simp only [scanTail, hn', hs, hd', if_true, Bool.false_eq_true, if_false, ih]

theorem scanTail_false_iff_tail (cs : List Char) : scanTail false cs = .ok false ↔ Tail cs :=
  ⟨(scanTail_tail_aux cs).1, tail_scanTail⟩

/-! ## keywords -/

theorem keywords_agree_bool :
    (Generated.keywords.all (fun k => Spec.rustKeywords.contains k) &&
     Spec.rustKeywords.all (fun k => Generated.keywords.contains k)) = true := by
  decide +kernel

/-- The keyword list extracted from `is_rust_keyword` has exactly the members of the specification's list. -/
theorem keywords_agree (k : List Char) : k ∈ Generated.keywords ↔ k ∈ Spec.rustKeywords := by
  have h := keywords_agree_bool
  simp only [Bool.and_eq_true, List.all_eq_true, List.contains_iff_mem] at h
  exact ⟨fun hk => h.1 k hk, fun hk => h.2 k hk⟩

theorem isKeyword_iff (s : Name) : isKeyword s = true ↔ s ∈ Spec.rustKeywords := by
  simp [isKeyword, keywords_agree]

/-! ## the whole function -/

theorem validateName_ok_self {s r : Name} (h : validateName s = .ok r) : r = s := by
  unfold validateName at h
  split at h
  · cases h
  · split at h
    · cases h
    · split at h
      · cases h
      · cases h
      · split at h
        · cases h
        · cases h; rfl

theorem validateName_ok_iff_scan (c : Char) (cs : List Char) :
    accepted (validateName (c :: cs)) = true ↔
      isLower c = true ∧ scanTail false cs = .ok false ∧ isKeyword (normalize (c :: cs)) = false := by
  cases hl : isLower c with
  | false => simp [validateName, accepted, hl]
  | true =>
    cases hsc : scanTail false cs with
    | error e => simp [validateName, accepted, hl, hsc]
    | ok b =>
      cases b with
      | true => simp [validateName, accepted, hl, hsc]
      | false =>
        cases hk : isKeyword (normalize (c :: cs)) <;> simp [validateName, accepted, hl, hsc, hk]

end Cli
