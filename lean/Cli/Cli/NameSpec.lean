import Cli.Name
/-!
# Specification of accepted program names (written from the documentation, not from the scanner)

Doc comment of `validate_program_name` and property C20: *a lowercase letter followed by lowercase
letters, digits and single `-` or `_` separators, not ending in a separator, and not a Rust keyword
once `-` is read as `_`*.  Two equivalent renderings are given: a positional one (`NameOk`) and the
regular expression `[a-z]([a-z0-9]|[-_][a-z0-9])*` (`RegexOk`).

The keyword list here is hand-written from the Rust Reference and is independent of the list in the
source (`Cli.Generated.keywords` is regenerated from `is_rust_keyword`); `Cli.keywords_agree`
proves that they have the same members.
-/
namespace Cli.Spec

/-- Keywords of the 2021 edition (the edition of the generated project): strict and reserved. -/
def rustKeywords : List (List Char) := [
  -- strict keywords, alphabetical (Rust Reference §Keywords, editions 2018–2021; `Self` listed with `self`)
  ['a', 's'],  -- as
  ['a', 's', 'y', 'n', 'c'],  -- async
  ['a', 'w', 'a', 'i', 't'],  -- await
  ['b', 'r', 'e', 'a', 'k'],  -- break
  ['c', 'o', 'n', 's', 't'],  -- const
  ['c', 'o', 'n', 't', 'i', 'n', 'u', 'e'],  -- continue
  ['c', 'r', 'a', 't', 'e'],  -- crate
  ['d', 'y', 'n'],  -- dyn
  ['e', 'l', 's', 'e'],  -- else
  ['e', 'n', 'u', 'm'],  -- enum
  ['e', 'x', 't', 'e', 'r', 'n'],  -- extern
  ['f', 'a', 'l', 's', 'e'],  -- false
  ['f', 'n'],  -- fn
  ['f', 'o', 'r'],  -- for
  ['i', 'f'],  -- if
  ['i', 'm', 'p', 'l'],  -- impl
  ['i', 'n'],  -- in
  ['l', 'e', 't'],  -- let
  ['l', 'o', 'o', 'p'],  -- loop
  ['m', 'a', 't', 'c', 'h'],  -- match
  ['m', 'o', 'd'],  -- mod
  ['m', 'o', 'v', 'e'],  -- move
  ['m', 'u', 't'],  -- mut
  ['p', 'u', 'b'],  -- pub
  ['r', 'e', 'f'],  -- ref
  ['r', 'e', 't', 'u', 'r', 'n'],  -- return
  ['s', 'e', 'l', 'f'],  -- self
  ['S', 'e', 'l', 'f'],  -- Self
  ['s', 't', 'a', 't', 'i', 'c'],  -- static
  ['s', 't', 'r', 'u', 'c', 't'],  -- struct
  ['s', 'u', 'p', 'e', 'r'],  -- super
  ['t', 'r', 'a', 'i', 't'],  -- trait
  ['t', 'r', 'u', 'e'],  -- true
  ['t', 'y', 'p', 'e'],  -- type
  ['u', 'n', 's', 'a', 'f', 'e'],  -- unsafe
  ['u', 's', 'e'],  -- use
  ['w', 'h', 'e', 'r', 'e'],  -- where
  ['w', 'h', 'i', 'l', 'e'],  -- while
  -- reserved keywords, alphabetical (`try` reserved since the 2018 edition)
  ['a', 'b', 's', 't', 'r', 'a', 'c', 't'],  -- abstract
  ['b', 'e', 'c', 'o', 'm', 'e'],  -- become
  ['b', 'o', 'x'],  -- box
  ['d', 'o'],  -- do
  ['f', 'i', 'n', 'a', 'l'],  -- final
  ['m', 'a', 'c', 'r', 'o'],  -- macro
  ['o', 'v', 'e', 'r', 'r', 'i', 'd', 'e'],  -- override
  ['p', 'r', 'i', 'v'],  -- priv
  ['t', 'r', 'y'],  -- try
  ['t', 'y', 'p', 'e', 'o', 'f'],  -- typeof
  ['u', 'n', 's', 'i', 'z', 'e', 'd'],  -- unsized
  ['v', 'i', 'r', 't', 'u', 'a', 'l'],  -- virtual
  ['y', 'i', 'e', 'l', 'd']  -- yield
]

/-- No two adjacent characters are both separators. -/
def NoAdjSep : List Char → Prop
  | [] => True
  | [_] => True
  | a :: b :: r => ¬ (isSep a = true ∧ isSep b = true) ∧ NoAdjSep (b :: r)

/-- Positional form of the documented grammar. -/
structure NameOk (s : Name) : Prop where
  /-- non-empty and starts with a lowercase ASCII letter -/
  first : ∃ c cs, s = c :: cs ∧ isLower c = true
  /-- only lowercase letters, digits, `-`, `_` -/
  charset : ∀ c ∈ s, isLower c = true ∨ isDigit c = true ∨ isSep c = true
  /-- separators are single -/
  single : NoAdjSep s
  /-- does not end in a separator -/
  noTrail : ∀ c, s.getLast? = some c → isSep c = false
  /-- not a Rust keyword once `-` is read as `_` -/
  notKeyword : normalize s ∉ rustKeywords

/-- `([a-z0-9]|[-_][a-z0-9])*` -/
inductive Tail : List Char → Prop
  | nil : Tail []
  | alnum {c cs} : isAlnum c = true → Tail cs → Tail (c :: cs)
  | sep {c d cs} : isSep c = true → isAlnum d = true → Tail cs → Tail (c :: d :: cs)

/-- Regular-expression form: `[a-z]([a-z0-9]|[-_][a-z0-9])*`, not a keyword after `-` → `_`. -/
def RegexOk (s : Name) : Prop :=
  ∃ c cs, s = c :: cs ∧ isLower c = true ∧ Tail cs ∧ normalize s ∉ rustKeywords

/-! Consistency targets for an accepted name (what Cargo and rustc require of the generated names). -/

/-- A Cargo package name: non-empty, ASCII alphanumerics / `-` / `_`, not starting with a digit. -/
def CargoPackageName (s : Name) : Prop :=
  (∃ c cs, s = c :: cs ∧ isDigit c = false) ∧
  ∀ c ∈ s, isLower c = true ∨ isUpperAZ c = true ∨ isDigit c = true ∨ isSep c = true

/-- A Rust identifier over ASCII (`[A-Za-z_][A-Za-z0-9_]*`, not just `_`) that is not a keyword. -/
def RustIdent (s : Name) : Prop :=
  (∃ c cs, s = c :: cs ∧ (isLower c = true ∨ isUpperAZ c = true)) ∧
  (∀ c ∈ s, isLower c = true ∨ isUpperAZ c = true ∨ isDigit c = true ∨ c = '_') ∧
  s ∉ rustKeywords

/-- Usable as one path component: non-empty, no `/`, no NUL, not `.` / `..` (it starts with a letter). -/
def PathComponent (s : Name) : Prop :=
  s ≠ [] ∧ '/' ∉ s ∧ Char.ofNat 0 ∉ s ∧ s ≠ ['.'] ∧ s ≠ ['.', '.']

end Cli.Spec
