import Cli.Generated.Keywords
/-!
# Model of `validate_program_name` (star_frame_cli/src/new_project.rs 239–290) and of the
# `TemplateValues::new` name derivations (371–381)

Strings are `List Char` (Unicode scalar values), exactly what `str::chars()` iterates over.
The scanner has the same branch order and the same error precedence as the Rust function;
the error kind is kept (it is not compared by the correspondence check, only counted).
-/
namespace Cli

abbrev Name := List Char

/-- `char::is_ascii_lowercase` / the pattern `'a'..='z'`. -/
def isLower (c : Char) : Bool := decide (97 ≤ c.toNat) && decide (c.toNat ≤ 122)
/-- the pattern `'0'..='9'`. -/
def isDigit (c : Char) : Bool := decide (48 ≤ c.toNat) && decide (c.toNat ≤ 57)
/-- the pattern `'-' | '_'`. -/
def isSep (c : Char) : Bool := c == '-' || c == '_'
def isAlnum (c : Char) : Bool := isLower c || isDigit c

/-- Rust `char::is_whitespace` (Unicode `White_Space`), used by `str::trim`. -/
def isWhitespace (c : Char) : Bool :=
  let n := c.toNat
  (decide (9 ≤ n) && decide (n ≤ 13)) || n == 32 || n == 0x85 || n == 0xA0 || n == 0x1680 ||
  (decide (0x2000 ≤ n) && decide (n ≤ 0x200A)) || n == 0x2028 || n == 0x2029 || n == 0x202F ||
  n == 0x205F || n == 0x3000

/-- `str::trim`. -/
def trim (s : List Char) : List Char :=
  ((s.dropWhile isWhitespace).reverse.dropWhile isWhitespace).reverse

inductive NameErr
  | empty | first | consecutive | charset | trailing | keyword
  deriving DecidableEq, Repr

/-- The `for character in chars` loop; the state is `previous_separator`. -/
def scanTail : Bool → List Char → Except NameErr Bool
  | ps, [] => .ok ps
  | ps, c :: cs =>
    if isLower c || isDigit c then scanTail false cs
    else if isSep c then (if ps then .error .consecutive else scanTail true cs)
    else .error .charset

/-- `name.replace('-', "_")`. -/
def normalize (s : Name) : Name := s.map (fun c => if c = '-' then '_' else c)

/-- `is_rust_keyword` (list regenerated from the source). -/
def isKeyword (s : Name) : Bool := Generated.keywords.contains s

/-- `validate_program_name`. -/
def validateName (s : Name) : Except NameErr Name :=
  match s with
  | [] => .error .empty
  | c :: cs =>
    if !isLower c then .error .first
    else match scanTail false cs with
      | .error e => .error e
      | .ok true => .error .trailing
      | .ok false => if isKeyword (normalize s) then .error .keyword else .ok s

def accepted : Except NameErr Name → Bool
  | .ok _ => true
  | .error _ => false

/-- What `new_project_in` does with the command-line argument: `validate_program_name(args.name.trim())`. -/
def validateArg (raw : List Char) : Except NameErr Name := validateName (trim raw)

/-! ## Derived names (`TemplateValues::new`, `program_keypair_relative_path`) -/

def upperChar (c : Char) : Char := if isLower c then Char.ofNat (c.toNat - 32) else c
/-- `to_ascii_uppercase`. -/
def upper (s : Name) : Name := s.map upperChar

def isUpperAZ (c : Char) : Bool := decide (65 ≤ c.toNat) && decide (c.toNat ≤ 90)

/-- `to_case(Case::Pascal)` of convert_case 0.8 restricted to accepted names: the default boundaries that
can fire on `[a-z0-9_-]` are `_`, `-` (removed) and letter|digit / digit|letter; every word gets its first
character upper-cased (digits are unchanged). `up` = "the next letter starts a word". -/
def pascalGo : Bool → List Char → List Char
  | _, [] => []
  | up, c :: cs =>
    if isSep c then pascalGo true cs
    else if isDigit c then c :: pascalGo true cs
    else (if up then upperChar c else c) :: pascalGo false cs
def pascal (s : Name) : Name := pascalGo true s

/-- file name of the program keypair below `target/deploy`. -/
def keypairFileName (suffix : List Char) (s : Name) : Name := normalize s ++ suffix

end Cli
