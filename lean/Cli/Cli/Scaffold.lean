import Cli.Render
/-!
# Filesystem model and the operation sequence of `sf new` (new_project.rs 26–218)

* A filesystem is a map from paths (component lists, relative to the working directory) to nodes.
* Every *fallible* system call the code issues is a primitive here, tagged with its syscall class
  (`mkdir`, `openat`, `write`, `rename`); a fault plan `Fault` may make the n-th call of a class fail
  with a chosen `errno` instead of executing (this is exactly `strace -e inject=<class>:error=<E>:when=<n>`).
  A fault plan is an arbitrary function, so any number of faults at any positions is covered.
* Cleanup (`remove_dir_all`) is not faulted (single-failure assumption of the property; recorded in
  `checks/C20.json`).
* `std::fs::create_dir_all` is modelled from the std implementation (mkdir; on `NotFound` create the
  parent and retry; any other error is forgiven when the path is a directory), `fs::write` as
  `open(O_CREAT|O_TRUNC)` + one `write` (none for empty contents), `fs::create_dir` as one `mkdir`.
-/
namespace Cli

abbrev Path := List Name

inductive Node
  | file (content : List Char)
  | dir
  /-- a symbolic link; `resolves` = its target exists (false: dangling) -/
  | symlink (resolves : Bool)
  deriving DecidableEq, Repr

/-- Paths are relative to the working directory, which is `[]` and always a directory. -/
def FS := Path → Option Node

inductive Cls | mkdir | openat | write | rename
  deriving DecidableEq, Repr

/-- The error VALUE of a failing call. `EEXIST`, `ENOENT` and `EINTR` are the ones the code paths (of std) branch on;
every other errno is `other code` (code = the errno number), so a fault plan ranges over every error kind. -/
inductive Errno | eexist | enoent | eintr | other (code : Nat)
  deriving DecidableEq, Repr

/-- `flt cls n = some e`: the n-th (1-based) call of class `cls` fails with `e` without executing. -/
def Fault := Cls → Nat → Option Errno

structure World where
  fs : FS
  nMkdir : Nat := 0
  nOpenat : Nat := 0
  nWrite : Nat := 0
  nRename : Nat := 0

def upd (fs : FS) (p : Path) (n : Node) : FS := fun q => if q = p then some n else fs q

/-- `Path::is_dir` (the working directory itself always is). -/
def isDir (fs : FS) (p : Path) : Bool := p.isEmpty || fs p == some Node.dir

/-- `Path::exists`: follows symbolic links, so a dangling link does not "exist". -/
def pathExists (fs : FS) (p : Path) : Bool :=
  match fs p with
  | none => false
  | some (.symlink r) => r
  | some _ => true

/-- Count one call of the class; returns the new world and the call's 1-based index. -/
def tick (c : Cls) (w : World) : World × Nat :=
  match c with
  | .mkdir => ({ w with nMkdir := w.nMkdir + 1 }, w.nMkdir + 1)
  | .openat => ({ w with nOpenat := w.nOpenat + 1 }, w.nOpenat + 1)
  | .write => ({ w with nWrite := w.nWrite + 1 }, w.nWrite + 1)
  | .rename => ({ w with nRename := w.nRename + 1 }, w.nRename + 1)

/-- `mkdir(2)`. -/
def sysMkdir (flt : Fault) (w : World) (p : Path) : World × Option Errno :=
  let (w1, k) := tick .mkdir w
  match flt .mkdir k with
  | some e => (w1, some e)
  | none =>
    if p.isEmpty || (w1.fs p).isSome then (w1, some .eexist)
    else if !isDir w1.fs p.dropLast then (w1, some .enoent)
    else ({ w1 with fs := upd w1.fs p .dir }, none)

/-- `openat(path, O_WRONLY|O_CREAT|O_TRUNC)`. -/
def sysOpenCreate (flt : Fault) (w : World) (p : Path) : World × Option Errno :=
  let (w1, k) := tick .openat w
  match flt .openat k with
  | some e => (w1, some e)
  | none =>
    if p.isEmpty then (w1, some (.other 21))
    else if !isDir w1.fs p.dropLast then (w1, some .enoent)
    else match w1.fs p with
      | some .dir => (w1, some (.other 21))
      | some (.symlink _) => (w1, some (.other 40))
      | _ => ({ w1 with fs := upd w1.fs p (.file []) }, none)

/-- `write(fd, content)` on the file just opened at `p` (all bytes in one call). -/
def sysWrite (flt : Fault) (w : World) (p : Path) (content : List Char) : World × Option Errno :=
  let (w1, k) := tick .write w
  match flt .write k with
  | some e => (w1, some e)
  | none => ({ w1 with fs := upd w1.fs p (.file content) }, none)

/-- How many consecutive `EINTR`s are retried before the model gives up (std retries for ever; a plan that
interrupts more often than this is treated as a failure, which only makes the theorems stronger). -/
def retryFuel : Nat := 64

/-- `File::create` / `OpenOptions::open`: std's `cvt_r` re-issues the `openat` when it fails with `EINTR`. -/
def openRetry (flt : Fault) : Nat → World → Path → World × Option Errno
  | 0, w, p => sysOpenCreate flt w p
  | fuel + 1, w, p =>
    match sysOpenCreate flt w p with
    | (w1, some .eintr) => openRetry flt fuel w1 p
    | r => r

/-- `write_all`: an `EINTR` (`ErrorKind::Interrupted`) is ignored and the `write` re-issued. -/
def writeRetry (flt : Fault) : Nat → World → Path → List Char → World × Option Errno
  | 0, w, p, c => sysWrite flt w p c
  | fuel + 1, w, p, c =>
    match sysWrite flt w p c with
    | (w1, some .eintr) => writeRetry flt fuel w1 p c
    | r => r

/-- `std::fs::write(path, content)`. -/
def writeFile (flt : Fault) (w : World) (p : Path) (content : List Char) : World × Option Errno :=
  let (w1, r) := openRetry flt retryFuel w p
  match r with
  | some e => (w1, some e)
  | none => if content.isEmpty then (w1, none) else writeRetry flt retryFuel w1 p content

/-- `std::fs::create_dir_all(path)`; the path is given REVERSED (innermost component first) so that
the recursion on the parent is structural. `[]` is the working directory `"."`, whose parent `""`
is accepted without a call. -/
def createDirAll (flt : Fault) : World → List Name → World × Option Errno
  | w, [] =>
    let (w1, r) := sysMkdir flt w []
    match r with
    | some .enoent => ((sysMkdir flt w1 []).1, none)
    | _ => (w1, none)
  | w, c :: rest =>
    let p := (c :: rest).reverse
    let (w1, r) := sysMkdir flt w p
    match r with
    | none => (w1, none)
    | some .enoent =>
      let (w2, r2) := createDirAll flt w1 rest
      match r2 with
      | some e => (w2, some e)
      | none =>
        let (w3, r3) := sysMkdir flt w2 p
        match r3 with
        | none => (w3, none)
        | some e => if isDir w3.fs p then (w3, none) else (w3, some e)
    | some e => if isDir w1.fs p then (w1, none) else (w1, some e)

/-- One step of the staging closure. Paths are relative to the staging directory. -/
inductive Act
  | mkdirAll (rel : Path)
  | write (rel : Path) (content : List Char)

def Act.rel : Act → Path
  | .mkdirAll r => r
  | .write r _ => r

def runAct (flt : Fault) (base : Path) (w : World) : Act → World × Option Errno
  | .mkdirAll rel => createDirAll flt w (base ++ rel).reverse
  | .write rel content => writeFile flt w (base ++ rel) content

/-- Run the steps in order, stopping at the first error (`?`). -/
def runActs (flt : Fault) (base : Path) : World → List Act → World × Option Errno
  | w, [] => (w, none)
  | w, a :: rest =>
    let (w1, r) := runAct flt base w a
    match r with
    | some e => (w1, some e)
    | none => runActs flt base w1 rest

/-- The program keypair: its base58 public key and the JSON text of the keypair file
(`Keypair::new()` is outside the model; whatever it returns, both uses come from this one value). -/
structure Keys where
  pubkey : List Char
  json : List Char

def keypairRel (name : Name) : Path :=
  Generated.keypairDir ++ [keypairFileName Generated.keypairSuffix name]

/-- The body of the closure in `scaffold_project`: `create_project_directories`, `write_project_files`,
`write_program_keypair` (whose `write_keypair_file` calls `create_dir_all` on the parent once more). -/
def projectActs (name : Name) (keys : Keys) : List Act :=
  Generated.projectDirs.map Act.mkdirAll ++
  Generated.projectFiles.map (fun f => Act.write f.1 (render (TemplateValues.new name keys.pubkey) f.2)) ++
  [Act.mkdirAll Generated.keypairDir, Act.mkdirAll Generated.keypairDir,
   Act.write (keypairRel name) keys.json]

/-- `remove_dir_all` of a top-level directory (not faulted). -/
def removeTop (fs : FS) (s : Name) : FS := fun q =>
  match q with
  | c :: _ => if c = s then none else fs q
  | [] => fs q

/-- `rename(2)` of the top-level directory `s` to the top-level name `t` (same parent, as in the code).
Renaming onto an existing non-directory fails (`ENOTDIR`); onto an existing directory it is modelled
as failing too (the kernel would replace an *empty* directory, but `scaffold_project` never gets here
with a directory at `t` because `exists()` is checked first). -/
def sysRename (flt : Fault) (w : World) (s t : Name) : World × Option Errno :=
  let (w1, k) := tick .rename w
  match flt .rename k with
  | some e => (w1, some e)
  | none =>
    if w1.fs [s] != some Node.dir then (w1, some .enoent)
    else match w1.fs [t] with
      | some _ => (w1, some (.other 20))
      | none =>
        ({ w1 with fs := fun q =>
            match q with
            | c :: r => if c = t then w1.fs (s :: r) else if c = s then none else w1.fs q
            | [] => w1.fs q }, none)

/-- `staging_directory_for`: up to `fuel` candidates; `AlreadyExists` moves on to the next one, any
other error is returned. `stg k` is the k-th candidate name (`.{name}.sf-new-{pid}-{nanos+k}`). -/
def allocStaging (flt : Fault) (stg : Nat → Name) : Nat → Nat → World → World × Option Name
  | 0, _, w => (w, none)
  | fuel + 1, k, w =>
    let (w1, r) := sysMkdir flt w [stg k]
    match r with
    | none => (w1, some (stg k))
    | some .eexist => allocStaging flt stg fuel (k + 1) w1
    | some _ => (w1, none)

inductive Status | ok | err | panic
  deriving DecidableEq, Repr

/-- `scaffold_project(destination = ./name, project_name = name)`. -/
def scaffoldProject (flt : Fault) (keys : Keys) (stg : Nat → Name) (name : Name) (w : World) :
    World × Status :=
  if pathExists w.fs [name] then (w, .err)
  else
    match allocStaging flt stg Generated.stagingAttempts 0 w with
    | (w1, none) => (w1, .err)
    | (w1, some s) =>
      match runActs flt [s] w1 (projectActs name keys) with
      | (w2, some _) => ({ w2 with fs := removeTop w2.fs s }, .err)
      | (w2, none) =>
        match sysRename flt w2 s name with
        | (w3, some _) => ({ w3 with fs := removeTop w3.fs s }, .err)
        | (w3, none) => (w3, .ok)

/-- The `println!` lines after a successful scaffold: each is one `write(1, …)` (re-issued on `EINTR`); a failing one makes
`println!` panic (exit status 101) — after the project is already in place. -/
def printOne (flt : Fault) : Nat → World → World × Bool
  | 0, w =>
    let (w1, k) := tick .write w
    (w1, (flt .write k).isNone)
  | fuel + 1, w =>
    let (w1, k) := tick .write w
    match flt .write k with
    | none => (w1, true)
    | some .eintr => printOne flt fuel w1
    | some _ => (w1, false)

def printLines (flt : Fault) : Nat → World → World × Status
  | 0, w => (w, .ok)
  | n + 1, w =>
    match printOne flt retryFuel w with
    | (w1, false) => (w1, .panic)
    | (w1, true) => printLines flt n w1

/-- `new_project(args)` in the working directory. -/
def newProject (flt : Fault) (keys : Keys) (stg : Name → Nat → Name) (arg : List Char) (w : World) :
    World × Status :=
  match validateArg arg with
  | .error _ => (w, .err)
  | .ok name =>
    match scaffoldProject flt keys (stg name) name w with
    | (w1, .ok) => printLines flt Generated.printlnCount w1
    | (w1, st) => (w1, st)

/-! ## What "the complete project" is -/

/-- Content written at `q` by a step, if it is a write to `q`. -/
def Act.writes (q : Path) : Act → Option (List Char)
  | .write r c => if r = q then some c else none
  | .mkdirAll _ => none

/-- The tree a list of steps describes: a file at every written path, a directory at every non-empty
prefix of a step's path that is not itself written, and the root directory; nothing else. -/
def treeOf (acts : List Act) (q : Path) : Option Node :=
  if q = [] then some .dir
  else match acts.findSome? (Act.writes q) with
    | some c => some (.file c)
    | none => if acts.any (fun a => q.isPrefixOf a.rel) then some .dir else none

/-- The complete project directory for `name` (relative to the project root). -/
def projectTree (name : Name) (keys : Keys) : Path → Option Node := treeOf (projectActs name keys)

/-- `fs` with the subtree `t` placed at the top-level name `n`. -/
def graft (fs : FS) (n : Name) (t : Path → Option Node) : FS := fun q =>
  match q with
  | c :: r => if c = n then t r else fs q
  | [] => fs q

/-- Every node other than the working directory has a directory as parent. -/
def WF (fs : FS) : Prop := ∀ p, p ≠ [] → fs p ≠ none → isDir fs p.dropLast = true

end Cli
