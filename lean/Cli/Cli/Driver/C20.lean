import Common.Proto
import Cli.Scaffold
/-!
# Model driver for C20 (`c20_model`): answers the op lines of `hx-cli C20`

Op lines (strings are given as dot-separated hexadecimal code points, `-` = empty):

* `name <arg>`                          → `ok <lower> <underscore> <upper> <pascal> <keypair-file>` | `err`
* `render <template> <name> <pubkey>`   → `ok <len> <hash>`   (name must be an accepted name, else `bad-op`)
* `rendertpl <file> <name> <pubkey>`    → same, for a template of the generated table
* `scaffold <arg> pre=<none|file|dir|emptydir|symlink|symlinkdir|dangling> fault=<none|cls:k:ERRNO>`
                                        → `<ok|err|panic> <complete n=<entries> h=<listing hash>|clean|dirty>`

Everything is computed by the definitions the theorems of `Cli.Props.C20` are about.
-/
open Common.Proto
namespace Cli.Driver

def parseCps (s : String) : Option (List Char) :=
  if s = "-" then some [] else
  (s.splitOn ".").mapM (fun t =>
    if t.isEmpty || t.length > 6 then none else
    match parseHexChars (if t.length % 2 = 1 then '0' :: t.toList else t.toList) with
    | some bs =>
      let n := bs.foldl (fun a b => a * 256 + b) 0
      if n.isValidChar then some (Char.ofNat n) else none
    | none => none)

def modulus : Nat := 2305843009213693951

def hashChars (cs : List Char) : Nat :=
  cs.foldl (fun h c => (h * 1000003 + c.toNat + 1) % modulus) 7

def str (cs : List Char) : String := String.ofList cs

/-- Listing entry hash of a path below the project root: `d:<a/b>` or `f:<a/b>`. -/
def entryHash (isDirNode : Bool) (q : Path) : Nat :=
  hashChars ((if isDirNode then ['d', ':'] else ['f', ':']) ++ List.intercalate ['/'] q)

def okErrnos : List String :=
  ["EACCES", "ENOSPC", "EIO", "EXDEV", "EROFS", "EMFILE", "EPERM", "EDQUOT", "ENOTDIR", "EISDIR", "ENAMETOOLONG", "ELOOP", "ENOMEM", "EBUSY", "ENOTEMPTY"]

def parseFault (s : String) : Option Fault :=
  if s = "none" then some (fun _ _ => none) else
  match s.splitOn ":" with
  | [c, k, e] =>
    let cls : Option Cls :=
      if c = "mkdir" then some .mkdir else if c = "openat" then some .openat
      else if c = "write" then some .write else if c = "rename" then some .rename else none
    let err : Option Errno :=
      if e = "EEXIST" then some .eexist else if e = "ENOENT" then some .enoent
      else if okErrnos.contains e then some .other else none
    match cls, (if !k.isEmpty && k.all Char.isDigit then k.toNat? else none), err with
    | some cls, some k, some err =>
      if k = 0 then none else some (fun c n => if c = cls ∧ n = k then some err else none)
    | _, _, _ => none
  | _ => none

def stagingName (name : Name) (k : Nat) : Name :=
  '.' :: name ++ ".sf-new-".toList ++ (toString k).toList

def keepName : Name := "keep".toList

def driverKeys : Keys := { pubkey := "PUBKEY".toList, json := "[JSON]".toList }

/-- Relative paths that can be populated by the scaffold: all non-empty prefixes of step paths. -/
def prefixes (p : Path) : List Path := (List.range p.length).map (fun i => p.take (i + 1))

def candidates (name : Name) : List Path :=
  ((projectActs name driverKeys).flatMap (fun a => prefixes a.rel)).eraseDups

def validComponent (t : List Char) : Bool :=
  !t.isEmpty && !t.contains '/' && !t.contains (Char.ofNat 0) && t != ['.'] && t != ['.', '.']

def scaffoldOp (arg : List Char) (pre : String) (flt : Fault) : String :=
  let t := trim arg
  if arg.contains (Char.ofNat 0) || arg.length > 64 then "bad-op" else
  let base : FS := fun _ => none
  let fs0? : Option FS :=
    if pre = "none" then some base
    else if !validComponent t then none
    else if pre = "file" then some (upd base [t] (.file ['x']))
    else if pre = "dir" then some (upd (upd base [t] .dir) [t, keepName] (.file ['x']))
    else if pre = "emptydir" then some (upd base [t] .dir)
    else if pre = "symlink" ∨ pre = "symlinkdir" then some (upd base [t] (.symlink true))
    else if pre = "dangling" then some (upd base [t] (.symlink false))
    else none
  match fs0? with
  | none => "bad-op"
  | some fs0 =>
    let (w, st) := newProject flt driverKeys stagingName arg { fs := fs0 }
    let uni := candidates t
    let stagings := (List.range 3).map (stagingName t)
    let watched : List Path :=
      [[t], [t, keepName]] ++ uni.map (t :: ·) ++ stagings.flatMap (fun s => [s] :: uni.map (s :: ·))
    let clean := watched.all (fun p => w.fs p == fs0 p)
    let complete :=
      fs0 [t] == none && w.fs [t] == some .dir &&
      uni.all (fun q => w.fs (t :: q) == projectTree t driverKeys q) &&
      w.fs [t, keepName] == none &&
      stagings.all (fun s => w.fs [s] == none && uni.all (fun q => w.fs (s :: q) == none))
    let stS := match st with | .ok => "ok" | .err => "err" | .panic => "panic"
    if complete then
      let entries := uni.filterMap (fun q => match w.fs (t :: q) with
        | some .dir => some (entryHash true q)
        | some (.file _) => some (entryHash false q)
        | _ => none)
      s!"{stS} complete n={entries.length} h={entries.foldl (fun a b => (a + b) % modulus) 0}"
    else if clean then s!"{stS} clean"
    else s!"{stS} dirty"

def renderOp (tpl name pubkey : List Char) : String :=
  match validateName name with
  | .error _ => "bad-op"
  | .ok n =>
    let out := render (TemplateValues.new n pubkey) tpl
    s!"ok {out.length} {hashChars out}"

def step (_ : Unit) (toks : List String) : Unit × String :=
  let ans : String :=
    match toks with
    | ["name", a] =>
      match parseCps a with
      | none => "bad-op"
      | some raw =>
        match validateArg raw with
        | .error _ => "err"
        | .ok n =>
          let v := TemplateValues.new n []
          s!"ok {str v.name_lowercase} {str v.name_lowercase_underscore} {str v.name_uppercase} {str v.name_pascalcase} {str (keypairFileName Generated.keypairSuffix n)}"
    | ["render", t, n, k] =>
      match parseCps t, parseCps n, parseCps k with
      | some t, some n, some k => renderOp t n k
      | _, _, _ => "bad-op"
    | ["rendertpl", f, n, k] =>
      match (Generated.templateNames.zip Generated.projectFiles).find? (fun x => x.1 == f), parseCps n, parseCps k with
      | some (_, (_, t)), some n, some k => renderOp t n k
      | _, _, _ => "bad-op"
    | ["scaffold", a, pre, flt] =>
      match parseCps a, pre.dropPrefix? "pre=", flt.dropPrefix? "fault=" with
      | some raw, some pre, some flt =>
        match parseFault flt.toString with
        | some f => scaffoldOp raw pre.toString f
        | none => "bad-op"
      | _, _, _ => "bad-op"
    | _ => "bad-op"
  ((), ans)

end Cli.Driver

def main : IO Unit := Common.Proto.run () Cli.Driver.step
