import Common.Proto
import Cli.Scaffold
/-!
# Model driver for C20 (`c20_model`): answers the op lines of `hx-cli C20`

Op lines (strings are given as dot-separated hexadecimal code points, `-` = empty):

* `name <arg>`            → `ok <package> <lib> <Pascal> <keypair-file>` | `err`
* `project <arg>`         → `ok <entry> <entry> …` | `err` — the whole generated tree, sorted by path: `<path>/` for a
                            directory, `<path>=<hex of the UTF-8 content>` for a file (public key shown as `<<PUBKEY>>`,
                            the keypair file's content as `KEYPAIR`)
* `replace <pat> <rep> <text>` → `ok <result>` (model of `str::replace`; `pat` non-empty)
* `race <arg> kind=<file|emptydir|dir|symlink|dangling>` → `race kept` | `race replaced` (a competitor creates the target
  between the exists() probe and the rename)
* `scaffold <arg> pre=<none|file|dir|emptydir|symlink|symlinkdir|dangling> fault=<none|cls:k:ERRNO|cls:a..b:ERRNO> [at=raw]`
                          → `<ok|err|panic> <complete n=<entries> h=<listing hash>|clean|dirty>`
  (the pre-existing entry sits at the trimmed name, or with `at=raw` at the raw argument; `a..b` = every call
  from the a-th to the b-th fails)

Everything is computed by the definitions the theorems of `Cli.Props.C20` are about.
-/
open Common.Proto
namespace Cli.Driver

def parseCps (s : String) : Option (List Char) :=
  if s = "-" then some [] else
  (s.splitOn ".").mapM (fun t =>
    if t.isEmpty || t.length > 6 then none else
    match parseHexChars (if t.length % 2 = 1 then '0' :: t.toList else t.toList) with
    | some bs =>
      let n := bs.foldl (fun a b => a * 256 + b) 0
      if n.isValidChar then some (Char.ofNat n) else none
    | none => none)

def modulus : Nat := 2305843009213693951

def hashChars (cs : List Char) : Nat :=
  cs.foldl (fun h c => (h * 1000003 + c.toNat + 1) % modulus) 7

def str (cs : List Char) : String := String.ofList cs

/-- Listing entry hash of a path below the project root: `d:<a/b>` or `f:<a/b>`. -/
def entryHash (isDirNode : Bool) (q : Path) : Nat :=
  hashChars ((if isDirNode then ['d', ':'] else ['f', ':']) ++ List.intercalate ['/'] q)

/-- errno names accepted in fault tokens (Linux numbers); `EEXIST`, `ENOENT`, `EINTR` have constructors of their own. -/
def okErrnos : List (String × Nat) :=
  [("EPERM", 1), ("EIO", 5), ("ENOMEM", 12), ("EACCES", 13), ("EBUSY", 16), ("EXDEV", 18), ("ENOTDIR", 20), ("EISDIR", 21),
   ("EMFILE", 24), ("ENOSPC", 28), ("EROFS", 30), ("ENAMETOOLONG", 36), ("ENOTEMPTY", 39), ("ELOOP", 40), ("EDQUOT", 122)]

def parseNat (k : String) : Option Nat :=
  if !k.isEmpty && k.all Char.isDigit then k.toNat? else none

def parseFault (s : String) : Option Fault :=
  if s = "none" then some (fun _ _ => none) else
  match s.splitOn ":" with
  | [c, k, e] =>
    let cls : Option Cls :=
      if c = "mkdir" then some .mkdir else if c = "openat" then some .openat
      else if c = "write" then some .write else if c = "rename" then some .rename else none
    let err : Option Errno :=
      if e = "EEXIST" then some .eexist else if e = "ENOENT" then some .enoent
      else if e = "EINTR" then some .eintr
      else (okErrnos.find? (·.1 == e)).map (fun x => Errno.other x.2)
    let range : Option (Nat × Nat) :=
      match k.splitOn ".." with
      | [a] => (parseNat a).map (fun a => (a, a))
      | [a, b] => match parseNat a, parseNat b with
        | some a, some b => some (a, b)
        | _, _ => none
      | _ => none
    match cls, range, err with
    | some cls, some (a, b), some err =>
      if a = 0 || b < a then none else some (fun c n => if c = cls ∧ a ≤ n ∧ n ≤ b then some err else none)
    | _, _, _ => none
  | _ => none

def stagingName (name : Name) (k : Nat) : Name :=
  '.' :: name ++ ".sf-new-".toList ++ (toString k).toList

def keepName : Name := "keep".toList

def driverKeys : Keys := { pubkey := "<<PUBKEY>>".toList, json := "KEYPAIR".toList }

/-- Relative paths that can be populated by the scaffold: all non-empty prefixes of step paths. -/
def prefixes (p : Path) : List Path := (List.range p.length).map (fun i => p.take (i + 1))

def candidates (name : Name) : List Path :=
  ((projectActs name driverKeys).flatMap (fun a => prefixes a.rel)).eraseDups

def validComponent (t : List Char) : Bool :=
  !t.isEmpty && !t.contains '/' && !t.contains (Char.ofNat 0) && t != ['.'] && t != ['.', '.']

/-- `atRaw`: the pre-existing entry is placed at the raw (untrimmed) argument, not at the trimmed name. -/
def scaffoldOp (arg : List Char) (pre : String) (flt : Fault) (atRaw : Bool) : String :=
  let t := trim arg
  if arg.contains (Char.ofNat 0) || arg.length > 64 then "bad-op" else
  let base : FS := fun _ => none
  let pl : List Char := if atRaw then arg else t
  let fs0? : Option FS :=
    if atRaw && (pre = "none" || arg == t || !validComponent arg) then none
    else if pre = "none" then some base
    else if !validComponent t then none
    else if pre = "file" then some (upd base [pl] (.file ['x']))
    else if pre = "dir" then some (upd (upd base [pl] .dir) [pl, keepName] (.file ['x']))
    else if pre = "emptydir" then some (upd base [pl] .dir)
    else if pre = "symlink" ∨ pre = "symlinkdir" then some (upd base [pl] (.symlink true))
    else if pre = "dangling" then some (upd base [pl] (.symlink false))
    else none
  match fs0? with
  | none => "bad-op"
  | some fs0 =>
    let (w, st) := newProject flt driverKeys stagingName arg { fs := fs0 }
    let uni := candidates t
    let stagings := (List.range 3).map (stagingName t)
    let watched : List Path :=
      [[t], [t, keepName], [arg], [arg, keepName]] ++ uni.map (t :: ·) ++ uni.map (arg :: ·) ++
        stagings.flatMap (fun s => [s] :: uni.map (s :: ·))
    let clean := watched.all (fun p => w.fs p == fs0 p)
    let complete :=
      fs0 [t] == none && w.fs [t] == some .dir &&
      uni.all (fun q => w.fs (t :: q) == projectTree t driverKeys q) &&
      w.fs [t, keepName] == none &&
      (arg == t || (w.fs [arg] == fs0 [arg] && w.fs [arg, keepName] == fs0 [arg, keepName] &&
        uni.all (fun q => w.fs (arg :: q) == none))) &&
      stagings.all (fun s => w.fs [s] == none && uni.all (fun q => w.fs (s :: q) == none))
    let stS := match st with | .ok => "ok" | .err => "err" | .panic => "panic"
    if complete then
      let entries := uni.filterMap (fun q => match w.fs (t :: q) with
        | some .dir => some (entryHash true q)
        | some (.file _) => some (entryHash false q)
        | _ => none)
      s!"{stS} complete n={entries.length} h={entries.foldl (fun a b => (a + b) % modulus) 0}"
    else if clean then s!"{stS} clean"
    else s!"{stS} dirty"

def hexOfString (cs : List Char) : String :=
  let bytes := (String.ofList cs).toUTF8
  if bytes.size = 0 then "-" else
  String.ofList (bytes.toList.foldr (fun b acc => hexChar (b.toNat / 16) :: hexChar (b.toNat % 16) :: acc) [])

/-- Insertion sort by the string order of the joined path (lists are short). -/
def insertBy (x : String × String) : List (String × String) → List (String × String)
  | [] => [x]
  | y :: ys => if x.1 < y.1 then x :: y :: ys else y :: insertBy x ys

def projectOp (arg : List Char) : String :=
  if arg.contains (Char.ofNat 0) || arg.length > 64 then "bad-op" else
  let (w, st) := newProject (fun _ _ => none) driverKeys stagingName arg { fs := fun _ => none }
  let t := trim arg
  match st with
  | .ok =>
    let entries := (candidates t).filterMap (fun q =>
      let path := str (List.intercalate ['/'] q)
      match w.fs (t :: q) with
      | some .dir => some (path, path ++ "/")
      | some (.file c) => some (path, path ++ "=" ++ (if c = driverKeys.json then "KEYPAIR" else hexOfString c))
      | _ => none)
    let sorted := entries.foldl (fun acc e => insertBy e acc) []
    "ok " ++ " ".intercalate (sorted.map (·.2))
  | _ => "err"

def replaceOp (pat rep text : List Char) : String :=
  if pat.isEmpty then "bad-op" else s!"ok {hexOfString (replaceAll pat rep text)}"

def step (_ : Unit) (toks : List String) : Unit × String :=
  let ans : String :=
    match toks with
    | ["name", a] =>
      match parseCps a with
      | none => "bad-op"
      | some raw =>
        if raw.length > 64 then "bad-op" else
        match validateArg raw with
        | .error _ => "err"
        | .ok n =>
          let v := TemplateValues.new n []
          s!"ok {str v.name_lowercase} {str v.name_lowercase_underscore} {str v.name_pascalcase} {str (keypairFileName Generated.keypairSuffix n)}"
    | ["project", a] =>
      match parseCps a with
      | some raw => projectOp raw
      | none => "bad-op"
    | ["race", a, kind] =>
      -- a competitor creates the target after the exists() probe and before the rename (outside the model's
      -- no-concurrency assumption). For a file / non-empty dir / symlink the model's view is exactly the
      -- "invisible to exists(), present at rename" pre-state: rename fails, cleanup runs, the entry is kept.
      -- An EMPTY directory is replaced by rename(2) — kernel semantics the model's rename does not have;
      -- the answer for it is the constant the harness tolerates.
      match parseCps a, kind.dropPrefix? "kind=" with
      | some raw, some k =>
        let k := k.toString
        if raw.contains (Char.ofNat 0) || raw.length > 64 || !(accepted (validateArg raw)) then "bad-op"
        else if k = "emptydir" then "race replaced"
        else if k = "file" ∨ k = "dir" ∨ k = "symlink" ∨ k = "dangling" then
          (if scaffoldOp raw "dangling" (fun _ _ => none) false = "err clean" then "race kept" else "race violation")
        else "bad-op"
      | _, _ => "bad-op"
    | ["replace", p, r, t] =>
      match parseCps p, parseCps r, parseCps t with
      | some p, some r, some t => replaceOp p r t
      | _, _, _ => "bad-op"
    | ["scaffold", a, pre, flt] =>
      match parseCps a, pre.dropPrefix? "pre=", flt.dropPrefix? "fault=" with
      | some raw, some pre, some flt =>
        match parseFault flt.toString with
        | some f => scaffoldOp raw pre.toString f false
        | none => "bad-op"
      | _, _, _ => "bad-op"
    | ["scaffold", a, pre, flt, "at=raw"] =>
      match parseCps a, pre.dropPrefix? "pre=", flt.dropPrefix? "fault=" with
      | some raw, some pre, some flt =>
        match parseFault flt.toString with
        | some f => scaffoldOp raw pre.toString f true
        | none => "bad-op"
      | _, _, _ => "bad-op"
    | _ => "bad-op"
  ((), ans)

end Cli.Driver

def main : IO Unit := Common.Proto.run () Cli.Driver.step
