import Cli.Render
/-!
# Why no placeholder survives `render_template`

Every placeholder has the shape `{` ident* `}` (ident = `[a-z_]`). Call the *core* of an occurrence of
`{` the text after it up to and including the first non-identifier character. A template is
*shielded* when every `{` has a core that ends in a character other than `{` (i.e. no `{` is followed by
identifier characters and then another `{` or the end of the text) — checked on the real templates by
evaluation. For a shielded text and a replacement value without `{`:

* a placeholder `{w` matches at a `{` iff the core there is `w`;
* replacing it removes exactly the cores equal to `w`, keeps all other cores unchanged, and keeps the
  text shielded (`replaceGo_cores`).

So after the whole chain the set of cores is the original one minus the five placeholder bodies, and
no placeholder occurs (`renderWith_no_placeholder`).
-/
namespace Cli

def identCh (c : Char) : Bool := isLower c || c == '_'

/-- No `{` in the text. -/
def NoOb (a : List Char) : Prop := ∀ x ∈ a, x ≠ '{'

/-- Text after a `{` up to and including the first non-identifier character. -/
def coreOf (r : List Char) : List Char := r.takeWhile identCh ++ (r.dropWhile identCh).take 1

def cores : List Char → List (List Char)
  | [] => []
  | c :: cs => if c = '{' then coreOf cs :: cores cs else cores cs

def shieldedAt (cs : List Char) : Bool :=
  match cs.dropWhile identCh with
  | x :: _ => x != '{'
  | [] => false

def shielded : List Char → Bool
  | [] => true
  | c :: cs => (if c = '{' then shieldedAt cs else true) && shielded cs

/-- Body of a placeholder: identifier characters followed by `}`. -/
def PatBody (w : List Char) : Prop := ∃ u, w = u ++ ['}'] ∧ ∀ x ∈ u, identCh x = true

def patOkB (p : List Char) : Bool :=
  match p with
  | c :: w => c == '{' && (match w.reverse with
      | d :: ru => d == '}' && ru.all identCh
      | [] => false)
  | [] => false

theorem patOkB_iff {p : List Char} (h : patOkB p = true) : ∃ w, p = '{' :: w ∧ PatBody w := by
  unfold patOkB at h
  split at h
  · rename_i c w
    simp only [Bool.and_eq_true, beq_iff_eq] at h
    obtain ⟨rfl, h2⟩ := h
    split at h2
    · rename_i d ru hr
      simp only [Bool.and_eq_true, beq_iff_eq, List.all_eq_true] at h2
      obtain ⟨rfl, h3⟩ := h2
      refine ⟨w, rfl, ru.reverse, ?_, ?_⟩
      · have : w = (w.reverse).reverse := by simp
        rw [this, hr]; simp
      · intro x hx; exact h3 x (by simpa using hx)
    · cases h2
  · cases h

theorem identCh_ob : identCh '{' = false := by decide
theorem identCh_cb : identCh '}' = false := by decide

theorem ident_ne_ob {y : Char} (h : identCh y = true) : y ≠ '{' := by
  rintro rfl; rw [identCh_ob] at h; cases h

theorem PatBody.noOb {w : List Char} (h : PatBody w) : NoOb w := by
  obtain ⟨u, rfl, hu⟩ := h
  intro x hx
  simp only [List.mem_append, List.mem_singleton] at hx
  rcases hx with hx | rfl
  · exact ident_ne_ob (hu x hx)
  · decide

/-! ## takeWhile / dropWhile over `ident* x …` -/

theorem takeWhile_ident (u : List Char) (x : Char) (r : List Char)
    (hu : ∀ y ∈ u, identCh y = true) (hx : identCh x = false) :
    (u ++ x :: r).takeWhile identCh = u ∧ (u ++ x :: r).dropWhile identCh = x :: r := by
  induction u with
  | nil => simp [hx]
  | cons a u ih =>
    have ha := hu a (List.mem_cons_self ..)
    have ih' := ih (fun y hy => hu y (List.mem_cons_of_mem _ hy))
    simp [ha, ih'.1, ih'.2]

theorem coreOf_ident (u : List Char) (x : Char) (r : List Char)
    (hu : ∀ y ∈ u, identCh y = true) (hx : identCh x = false) :
    coreOf (u ++ x :: r) = u ++ [x] := by
  obtain ⟨h1, h2⟩ := takeWhile_ident u x r hu hx
  simp [coreOf, h1, h2]

theorem coreOf_pat {w : List Char} (hw : PatBody w) (r : List Char) : coreOf (w ++ r) = w := by
  obtain ⟨u, rfl, hu⟩ := hw
  have := coreOf_ident u '}' r hu identCh_cb
  simpa using this

theorem coreOf_prefix (cs : List Char) : coreOf cs <+: cs := by
  unfold coreOf
  conv => rhs; rw [← List.takeWhile_append_dropWhile (p := identCh) (l := cs)]
  exact (List.prefix_append_right_inj _).2 (List.take_prefix _ _)

theorem isPrefixOf_iff_core {w : List Char} (hw : PatBody w) (cs : List Char) :
    w.isPrefixOf cs = true ↔ coreOf cs = w := by
  rw [List.isPrefixOf_iff_prefix]
  constructor
  · rintro ⟨r, rfl⟩; exact coreOf_pat hw r
  · intro h; rw [← h]; exact coreOf_prefix cs

theorem takeWhile_all (p : Char → Bool) (cs : List Char) : ∀ y ∈ cs.takeWhile p, p y = true := by
  induction cs with
  | nil => simp
  | cons c cs ih =>
    intro y hy
    by_cases hc : p c = true
    · simp only [List.takeWhile, hc, List.mem_cons] at hy
      rcases hy with rfl | hy
      · exact hc
      · exact ih y hy
    · simp [List.takeWhile, hc] at hy

theorem dropWhile_head (p : Char → Bool) (cs : List Char) (x : Char) (r : List Char)
    (h : cs.dropWhile p = x :: r) : p x = false := by
  induction cs with
  | nil => simp at h
  | cons c cs ih =>
    by_cases hc : p c = true
    · simp only [List.dropWhile, hc] at h; exact ih h
    · simp only [List.dropWhile, hc] at h
      injection h with h1 _
      subst h1; simpa using hc

/-- Decomposition of the text after a shielded `{`. -/
theorem shieldedAt_decomp {cs : List Char} (h : shieldedAt cs = true) :
    ∃ u x r, cs = u ++ x :: r ∧ (∀ y ∈ u, identCh y = true) ∧ identCh x = false ∧ x ≠ '{' := by
  unfold shieldedAt at h
  split at h
  · rename_i x r hd
    refine ⟨cs.takeWhile identCh, x, r, ?_, ?_, ?_, ?_⟩
    · rw [← hd, List.takeWhile_append_dropWhile]
    · exact takeWhile_all identCh cs
    · exact dropWhile_head identCh cs x r hd
    · simpa using h
  · cases h

/-! ## texts without `{` are transparent -/

theorem cores_append_noOb {a : List Char} (ha : NoOb a) (r : List Char) : cores (a ++ r) = cores r := by
  induction a with
  | nil => rfl
  | cons c a ih =>
    have hc : c ≠ '{' := ha c (List.mem_cons_self ..)
    simp only [List.cons_append, cores, hc, if_false]
    exact ih (fun x hx => ha x (List.mem_cons_of_mem _ hx))

theorem shielded_append_noOb {a : List Char} (ha : NoOb a) (r : List Char) :
    shielded (a ++ r) = shielded r := by
  induction a with
  | nil => rfl
  | cons c a ih =>
    have hc : c ≠ '{' := ha c (List.mem_cons_self ..)
    simp only [List.cons_append, shielded, hc, if_false, Bool.true_and]
    exact ih (fun x hx => ha x (List.mem_cons_of_mem _ hx))

theorem shielded_tail {c : Char} {cs : List Char} (h : shielded (c :: cs) = true) : shielded cs = true := by
  simp only [shielded, Bool.and_eq_true] at h; exact h.2

theorem shielded_drop {s : List Char} (h : shielded s = true) (n : Nat) : shielded (s.drop n) = true := by
  induction n generalizing s with
  | zero => simpa using h
  | succ n ih =>
    cases s with
    | nil => simp [shielded]
    | cons c cs => simpa using ih (shielded_tail h)

theorem replaceGo_noOb_prefix (w rep : List Char) {a : List Char} (ha : NoOb a) (r : List Char) :
    replaceGo ('{' :: w) rep 0 (a ++ r) = a ++ replaceGo ('{' :: w) rep 0 r := by
  induction a with
  | nil => rfl
  | cons c a ih =>
    have hc : c ≠ '{' := ha c (List.mem_cons_self ..)
    have hne : ('{' == c) = false := by
      simp only [beq_eq_false_iff_ne, ne_eq]; exact fun h => hc h.symm
    simp only [List.cons_append, replaceGo, List.isPrefixOf, hne, Bool.false_and, Bool.false_eq_true, if_false]
    rw [ih (fun x hx => ha x (List.mem_cons_of_mem _ hx))]

/-! ## one replacement -/

theorem replaceGo_cores (w v : List Char) (hw : PatBody w) (hv : NoOb v) :
    ∀ (s : List Char) (k : Nat), shielded (s.drop k) = true →
      cores (replaceGo ('{' :: w) v k s) = (cores (s.drop k)).filter (fun c => decide (c ≠ w)) ∧
      shielded (replaceGo ('{' :: w) v k s) = true := by
  intro s
  induction s with
  | nil => intro k _; simp [replaceGo, cores, shielded]
  | cons c cs ih =>
    intro k hsh
    cases k with
    | succ k =>
      simp only [replaceGo, List.drop_succ_cons] at hsh ⊢
      exact ih k hsh
    | zero =>
      simp only [List.drop_zero] at hsh ⊢
      by_cases hc : c = '{'
      · subst hc
        have hsh' : shieldedAt cs = true ∧ shielded cs = true := by
          simpa [shielded] using hsh
        obtain ⟨u, x, r, hcs, hu, hx, hxo⟩ := shieldedAt_decomp hsh'.1
        have hcore : coreOf cs = u ++ [x] := by rw [hcs]; exact coreOf_ident u x r hu hx
        simp only [replaceGo, List.isPrefixOf, beq_self_eq_true, Bool.true_and, List.length_cons,
          Nat.add_sub_cancel]
        by_cases hm : w.isPrefixOf cs = true
        · -- the placeholder matches here
          rw [if_pos hm]
          have hcw : coreOf cs = w := (isPrefixOf_iff_core hw cs).1 hm
          obtain ⟨r', hr'⟩ := List.isPrefixOf_iff_prefix.1 hm
          have hdrop : cs.drop w.length = r' := by rw [← hr']; simp
          have ih' := ih w.length (shielded_drop hsh'.2 _)
          rw [cores_append_noOb hv, shielded_append_noOb hv, ih'.1, ih'.2]
          refine ⟨?_, rfl⟩
          simp only [cores, if_true, hcw, List.filter_cons, ne_eq, not_true_eq_false, decide_false,
            Bool.false_eq_true, if_false]
          rw [hdrop, ← hr', cores_append_noOb hw.noOb]
        · -- no match: the `{` stays and so does its core
          rw [if_neg hm]
          have hne : coreOf cs ≠ w := fun h => hm ((isPrefixOf_iff_core hw cs).2 h)
          have ih' := ih 0 (by simpa using hsh'.2)
          simp only [List.drop_zero] at ih'
          have hux : NoOb (u ++ [x]) := by
            intro y hy
            simp only [List.mem_append, List.mem_singleton] at hy
            rcases hy with hy | rfl
            · exact ident_ne_ob (hu y hy)
            · exact hxo
          have hout : replaceGo ('{' :: w) v 0 cs = (u ++ [x]) ++ replaceGo ('{' :: w) v 0 r := by
            rw [hcs]
            have : u ++ x :: r = (u ++ [x]) ++ r := by simp
            rw [this, replaceGo_noOb_prefix w v hux]
          have hcore' : coreOf (replaceGo ('{' :: w) v 0 cs) = coreOf cs := by
            rw [hout, hcore]
            have : (u ++ [x]) ++ replaceGo ('{' :: w) v 0 r = u ++ x :: replaceGo ('{' :: w) v 0 r := by simp
            rw [this]; exact coreOf_ident u x _ hu hx
          have hshAt : shieldedAt (replaceGo ('{' :: w) v 0 cs) = true := by
            rw [hout]
            have : (u ++ [x]) ++ replaceGo ('{' :: w) v 0 r = u ++ x :: replaceGo ('{' :: w) v 0 r := by simp
            rw [this]
            unfold shieldedAt
            rw [(takeWhile_ident u x _ hu hx).2]
            simpa using hxo
          constructor
          · simp only [cores, if_true, hcore', ih'.1, List.filter_cons, ne_eq, hne, not_false_eq_true,
              decide_true]
          · simp only [shielded, if_true, hshAt, ih'.2, Bool.and_self]
      · have hne : ('{' == c) = false := by
          simp only [beq_eq_false_iff_ne, ne_eq]; exact fun h => hc h.symm
        have hsh' : shielded cs = true := shielded_tail hsh
        have ih' := ih 0 (by simpa using hsh')
        simp only [List.drop_zero] at ih'
        simp only [replaceGo, List.isPrefixOf, hne, Bool.false_and, Bool.false_eq_true, if_false, cores, hc,
          shielded, Bool.true_and]
        exact ih'

theorem replaceAll_cores {w v s : List Char} (hw : PatBody w) (hv : NoOb v) (hs : shielded s = true) :
    cores (replaceAll ('{' :: w) v s) = (cores s).filter (fun c => decide (c ≠ w)) ∧
    shielded (replaceAll ('{' :: w) v s) = true := by
  have := replaceGo_cores w v hw hv s 0 (by simpa using hs)
  simpa [replaceAll] using this

/-! ## occurrences are cores -/

theorem infix_mem_cores {w s : List Char} (hw : PatBody w) (h : ('{' :: w) <:+: s) : w ∈ cores s := by
  obtain ⟨l, r, rfl⟩ := h
  induction l with
  | nil => simp [cores, coreOf_pat hw]
  | cons c l ih =>
    simp only [List.cons_append, List.append_assoc, cores] at ih ⊢
    split
    · exact List.mem_cons_of_mem _ ih
    · exact ih

/-! ## the chain -/

theorem renderWith_cores (ps : List (List Char × List Char))
    (hps : ∀ p ∈ ps, (∃ w, p.1 = '{' :: w ∧ PatBody w) ∧ NoOb p.2) :
    ∀ t, shielded t = true →
      shielded (renderWith ps t) = true ∧
      ∀ c ∈ cores (renderWith ps t), c ∈ cores t ∧ ∀ p ∈ ps, p.1 ≠ '{' :: c := by
  induction ps with
  | nil => intro t ht; exact ⟨ht, fun c hc => ⟨hc, fun p hp => by cases hp⟩⟩
  | cons p ps ih =>
    intro t ht
    obtain ⟨⟨w, hpw, hw⟩, hv⟩ := hps p (List.mem_cons_self ..)
    have h1 := replaceAll_cores hw hv ht
    have ih' := ih (fun q hq => hps q (List.mem_cons_of_mem _ hq)) (replaceAll p.1 p.2 t) (by rw [hpw]; exact h1.2)
    have hfold : renderWith (p :: ps) t = renderWith ps (replaceAll p.1 p.2 t) := rfl
    rw [hfold]
    refine ⟨ih'.1, fun c hc => ?_⟩
    obtain ⟨hc1, hc2⟩ := ih'.2 c hc
    rw [hpw, h1.1, List.mem_filter] at hc1
    refine ⟨hc1.1, fun q hq => ?_⟩
    rcases List.mem_cons.1 hq with rfl | hq
    · rw [hpw]; intro h
      have : w = c := by injection h
      have hne : c ≠ w := by simpa using hc1.2
      exact hne this.symm
    · exact hc2 q hq

/-- After the whole chain no pattern of the chain occurs in the output. -/
theorem renderWith_no_placeholder (ps : List (List Char × List Char))
    (hps : ∀ p ∈ ps, (∃ w, p.1 = '{' :: w ∧ PatBody w) ∧ NoOb p.2)
    (t : List Char) (ht : shielded t = true) :
    ∀ p ∈ ps, ¬ (p.1 <:+: renderWith ps t) := by
  intro p hp hin
  obtain ⟨⟨w, hpw, hw⟩, _⟩ := hps p hp
  rw [hpw] at hin
  have hmem := infix_mem_cores hw hin
  exact ((renderWith_cores ps hps t ht).2 w hmem).2 p hp hpw

/-! ## the real tables -/

theorem patterns_ok : Generated.placeholderPatterns.all patOkB = true := by decide +kernel

theorem templates_shielded : Generated.projectFiles.all (fun f => shielded f.2) = true := by decide +kernel

theorem exists_mem_zip {α β : Type} : ∀ (l1 : List α) (l2 : List β) (a : α), a ∈ l1 → l1.length = l2.length →
    ∃ b, (a, b) ∈ l1.zip l2 := by
  intro l1
  induction l1 with
  | nil => intro l2 a h; cases h
  | cons x l1 ih =>
    intro l2 a h hl
    cases l2 with
    | nil => simp at hl
    | cons y l2 =>
      rcases List.mem_cons.1 h with rfl | h
      · exact ⟨y, by simp⟩
      · obtain ⟨b, hb⟩ := ih l2 a h (by simpa using hl)
        exact ⟨b, by simp [hb]⟩

/-- See `Cli.C20.render_total`. -/
theorem render_no_placeholder (v : TemplateValues) (t : List Char) (ht : shielded t = true)
    (hv : ∀ x ∈ Generated.placeholderValues v, NoOb x) :
    ∀ p ∈ Generated.placeholderPatterns, ¬ (p <:+: render v t) := by
  have hps : ∀ pr ∈ placeholders v, (∃ w, pr.1 = '{' :: w ∧ PatBody w) ∧ NoOb pr.2 := by
    intro pr hpr
    obtain ⟨h1, h2⟩ := List.of_mem_zip (a := pr.1) (b := pr.2) hpr
    have hok := patterns_ok
    rw [List.all_eq_true] at hok
    exact ⟨patOkB_iff (hok _ h1), hv _ h2⟩
  intro p hp
  obtain ⟨b, hb⟩ := exists_mem_zip Generated.placeholderPatterns (Generated.placeholderValues v) p hp rfl
  exact renderWith_no_placeholder (placeholders v) hps t ht (p, b) hb

end Cli
