/-!
# `TemplateValues` (star_frame_cli/src/new_project.rs 363–369)

Kept in a file of its own so that the generated table `Cli.Generated.placeholders` can refer to the
fields by name: a field that `render_template` uses but this structure lacks is a compile error of
the generated file, i.e. a broken proof obligation.
-/
namespace Cli

structure TemplateValues where
  name_lowercase : List Char
  name_lowercase_underscore : List Char
  name_uppercase : List Char
  name_pascalcase : List Char
  pubkey : List Char

end Cli
