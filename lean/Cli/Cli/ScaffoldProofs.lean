import Cli.Scaffold
/-!
# Lemmas about the filesystem model and the scaffold sequence

Structure of the argument for `scaffold_spec` (all-or-nothing):

* every primitive that runs inside the staging closure changes only paths below the staging
  directory, never turns a directory into something else, and keeps the filesystem well-formed;
* so on any error `remove_dir_all(staging)` restores the original filesystem exactly;
* when every step succeeded — whatever faults were injected and forgiven on the way — the staging
  directory holds exactly `treeOf steps`, and the final `rename` moves it to the target.
-/
namespace Cli

/-! ## small facts about paths -/

theorem dropLast_reverse_cons (c : Name) (rest : List Name) :
    ((c :: rest).reverse).dropLast = rest.reverse := by
  simp [List.reverse_cons]

theorem reverse_cons_ne_nil (c : Name) (rest : List Name) : (c :: rest).reverse ≠ [] := by
  simp

theorem isDir_nil (fs : FS) : isDir fs [] = true := by simp [isDir]

theorem isDir_cons {fs : FS} {c : Name} {r : List Name} : isDir fs (c :: r) = true ↔ fs (c :: r) = some .dir := by
  simp [isDir]

theorem isDir_of_ne_nil {fs : FS} {p : Path} (hp : p ≠ []) : isDir fs p = true ↔ fs p = some .dir := by
  cases p with
  | nil => exact absurd rfl hp
  | cons c r => exact isDir_cons

@[simp] theorem tick_fs (c : Cls) (w : World) : (tick c w).1.fs = w.fs := by
  cases c <;> rfl

theorem upd_same (fs : FS) (p : Path) (n : Node) : upd fs p n p = some n := by simp [upd]
theorem upd_other (fs : FS) {p q : Path} (n : Node) (h : q ≠ p) : upd fs p n q = fs q := by simp [upd, h]

/-! ## well-formedness -/

theorem isDir_upd_dir_mono {fs : FS} {p x : Path} (h : isDir fs x = true) : isDir (upd fs p .dir) x = true := by
  cases x with
  | nil => exact isDir_nil _
  | cons c r =>
    rw [isDir_cons] at h ⊢
    by_cases hx : c :: r = p
    · rw [hx]; exact upd_same ..
    · rw [upd_other _ _ hx]; exact h

theorem wf_upd_dir {fs : FS} {p : Path} (hwf : WF fs) (hpar : isDir fs p.dropLast = true) :
    WF (upd fs p .dir) := by
  intro q hq hne
  by_cases hqp : q = p
  · subst hqp; exact isDir_upd_dir_mono hpar
  · rw [upd_other _ _ hqp] at hne
    exact isDir_upd_dir_mono (hwf q hq hne)

theorem dropLast_ne_self {p : Path} (hp : p ≠ []) : p.dropLast ≠ p := by
  intro h
  have := congrArg List.length h
  simp at this
  have : p.length ≠ 0 := by simpa using hp
  omega

theorem wf_upd_file {fs : FS} {p : Path} {c : List Char} (hwf : WF fs) (hp : p ≠ [])
    (hpar : isDir fs p.dropLast = true) (hold : fs p ≠ some .dir) : WF (upd fs p (.file c)) := by
  intro q hq hne
  have key : ∀ x : Path, x ≠ p → isDir fs x = true → isDir (upd fs p (.file c)) x = true := by
    intro x hx h
    cases x with
    | nil => exact isDir_nil _
    | cons a r => rw [isDir_cons] at h ⊢; rw [upd_other _ _ hx]; exact h
  by_cases hqp : q = p
  · subst hqp
    exact key _ (dropLast_ne_self hq) hpar
  · rw [upd_other _ _ hqp] at hne
    have h1 := hwf q hq hne
    by_cases hx : q.dropLast = p
    · rw [hx, isDir_of_ne_nil hp] at h1
      exact absurd h1 hold
    · exact key _ hx h1

/-- In a well-formed filesystem every non-empty proper prefix of an existing path is a directory. -/
theorem wf_prefix_dir {fs : FS} (hwf : WF fs) (q : Path) (hq : q ≠ []) :
    ∀ (n : Nat) (t : List Name), t.length = n → t ≠ [] → fs (q ++ t) ≠ none → fs q = some .dir := by
  intro n
  induction n with
  | zero => intro t ht hne; simp at ht; exact absurd ht hne
  | succ n ih =>
    intro t ht hne hex
    have hsplit : t = t.dropLast ++ [t.getLast hne] := (List.dropLast_concat_getLast hne).symm
    have hpne : q ++ t ≠ [] := by simp [hq]
    have hpar := hwf (q ++ t) hpne hex
    have hdl : (q ++ t).dropLast = q ++ t.dropLast := by
      rw [List.dropLast_append_of_ne_nil hne]
    rw [hdl] at hpar
    by_cases ht' : t.dropLast = []
    · rw [ht', List.append_nil, isDir_of_ne_nil hq] at hpar; exact hpar
    · have hne' : q ++ t.dropLast ≠ [] := by simp [hq]
      rw [isDir_of_ne_nil hne'] at hpar
      have hl : t.dropLast.length = n := by simp [ht]
      exact ih t.dropLast hl ht' (by rw [hpar]; simp)

theorem wf_absent {fs : FS} (hwf : WF fs) {s : Name} (hs : fs [s] = none) : ∀ r, fs (s :: r) = none := by
  intro r
  cases r with
  | nil => exact hs
  | cons a r =>
    cases h : fs (s :: a :: r) with
    | none => rfl
    | some n =>
      have := wf_prefix_dir hwf [s] (by simp) (a :: r).length (a :: r) rfl (by simp)
        (by simpa using (by rw [h]; simp : fs (s :: a :: r) ≠ none))
      rw [hs] at this; cases this

/-! ## mkdir -/

theorem sysMkdir_spec (flt : Fault) (w : World) (p : Path) :
    ((sysMkdir flt w p).2 ≠ none ∧ (sysMkdir flt w p).1.fs = w.fs) ∨
    ((sysMkdir flt w p).2 = none ∧ p ≠ [] ∧ w.fs p = none ∧ isDir w.fs p.dropLast = true ∧
      (sysMkdir flt w p).1.fs = upd w.fs p .dir) := by
  unfold sysMkdir
  simp only
  cases hf : flt .mkdir (tick .mkdir w).2 with
  | some e => left; simp
  | none =>
    simp only [tick_fs]
    by_cases h1 : (p.isEmpty || (w.fs p).isSome) = true
    · left; simp [h1]
    · by_cases h2 : (!isDir w.fs p.dropLast) = true
      · left; simp [h1, h2]
      · right
        simp only [Bool.or_eq_true, not_or, Bool.not_eq_true] at h1
        have hp : p ≠ [] := by
          intro h; rw [h] at h1; simp at h1
        have hnone : w.fs p = none := by
          cases h : w.fs p with
          | none => rfl
          | some n => rw [h] at h1; simp at h1
        have hd : isDir w.fs p.dropLast = true := by
          cases h : isDir w.fs p.dropLast with
          | true => rfl
          | false => rw [h] at h2; exact absurd rfl h2
        simp [h1.1, hnone, hd, hp]

/-- Only `none → dir` changes, only at non-empty prefixes of `p`. -/
def Grow (p : Path) (fs fs' : FS) : Prop :=
  ∀ q, fs' q = fs q ∨ (fs q = none ∧ fs' q = some .dir ∧ q ≠ [] ∧ q <+: p)

theorem Grow.refl (p : Path) (fs : FS) : Grow p fs fs := fun _ => Or.inl rfl

theorem Grow.of_eq {p : Path} {fs fs' : FS} (h : fs' = fs) : Grow p fs fs' := by
  subst h; exact Grow.refl _ _

theorem Grow.trans {p : Path} {a b c : FS} (h1 : Grow p a b) (h2 : Grow p b c) : Grow p a c := by
  intro q
  rcases h2 q with h | ⟨hn, hd, hq, hp⟩
  · rcases h1 q with h' | h'
    · left; rw [h, h']
    · right; rw [h]; exact h'
  · rcases h1 q with h' | ⟨hn', hd', _, _⟩
    · right; exact ⟨by rw [← h']; exact hn, hd, hq, hp⟩
    · rw [hd'] at hn; cases hn

theorem Grow.mono {p p' : Path} {a b : FS} (h : Grow p' a b) (hp : p' <+: p) : Grow p a b := by
  intro q
  rcases h q with h | ⟨hn, hd, hq, hpre⟩
  · exact Or.inl h
  · exact Or.inr ⟨hn, hd, hq, hpre.trans hp⟩

theorem sysMkdir_grow (flt : Fault) (w : World) (p : Path) : Grow p w.fs (sysMkdir flt w p).1.fs := by
  rcases sysMkdir_spec flt w p with ⟨_, h⟩ | ⟨_, hp, hn, _, h⟩
  · exact Grow.of_eq h
  · intro q
    rw [h]
    by_cases hq : q = p
    · subst hq; right; exact ⟨hn, upd_same .., hp, List.prefix_refl _⟩
    · left; exact upd_other _ _ hq

theorem sysMkdir_wf (flt : Fault) (w : World) (p : Path) (hwf : WF w.fs) : WF (sysMkdir flt w p).1.fs := by
  rcases sysMkdir_spec flt w p with ⟨_, h⟩ | ⟨_, _, _, hd, h⟩
  · rw [h]; exact hwf
  · rw [h]; exact wf_upd_dir hwf hd

theorem sysMkdir_ok_isDir (flt : Fault) (w : World) (p : Path) (h : (sysMkdir flt w p).2 = none) :
    isDir (sysMkdir flt w p).1.fs p = true := by
  rcases sysMkdir_spec flt w p with ⟨h', _⟩ | ⟨_, hp, _, _, hfs⟩
  · exact absurd h h'
  · rw [hfs, isDir_of_ne_nil hp]; exact upd_same ..

/-! ## create_dir_all -/

theorem createDirAll_spec (flt : Fault) : ∀ (rp : List Name) (w : World),
    Grow rp.reverse w.fs (createDirAll flt w rp).1.fs ∧
    (WF w.fs → WF (createDirAll flt w rp).1.fs) ∧
    ((createDirAll flt w rp).2 = none → isDir (createDirAll flt w rp).1.fs rp.reverse = true) := by
  intro rp
  induction rp with
  | nil =>
    intro w
    have g1 := sysMkdir_grow flt w []
    have g2 := sysMkdir_grow flt (sysMkdir flt w []).1 []
    have w1 := sysMkdir_wf flt w []
    have w2 := sysMkdir_wf flt (sysMkdir flt w []).1 []
    unfold createDirAll
    simp only [List.reverse_nil]
    rcases hr : sysMkdir flt w [] with ⟨w1', r⟩
    rw [hr] at g1 g2 w1 w2
    simp only at g1 g2 w1 w2 ⊢
    cases r with
    | none => exact ⟨g1, w1, fun _ => isDir_nil _⟩
    | some e =>
      cases e with
      | enoent => exact ⟨g1.trans g2, fun h => w2 (w1 h), fun _ => isDir_nil _⟩
      | eexist => exact ⟨g1, w1, fun _ => isDir_nil _⟩
      | eintr => exact ⟨g1, w1, fun _ => isDir_nil _⟩
      | other c => exact ⟨g1, w1, fun _ => isDir_nil _⟩
  | cons c rest ih =>
    intro w
    have hpar : rest.reverse <+: (c :: rest).reverse := by
      rw [List.reverse_cons]; exact List.prefix_append _ _
    have g1 := sysMkdir_grow flt w (c :: rest).reverse
    have wf1 := sysMkdir_wf flt w (c :: rest).reverse
    have ok1 := sysMkdir_ok_isDir flt w (c :: rest).reverse
    unfold createDirAll
    simp only
    rcases hr : sysMkdir flt w (c :: rest).reverse with ⟨w1, r⟩
    rw [hr] at g1 wf1 ok1
    simp only at g1 wf1 ok1 ⊢
    cases r with
    | none => exact ⟨g1, wf1, fun _ => ok1 rfl⟩
    | some e =>
      cases e with
      | enoent =>
        simp only
        have ih1 := ih w1
        rcases hr2 : createDirAll flt w1 rest with ⟨w2, r2⟩
        rw [hr2] at ih1
        simp only at ih1 ⊢
        have g2 : Grow (c :: rest).reverse w.fs w2.fs := g1.trans (ih1.1.mono hpar)
        cases r2 with
        | some e2 => exact ⟨g2, fun h => ih1.2.1 (wf1 h), fun h => by cases h⟩
        | none =>
          simp only
          have g3 := sysMkdir_grow flt w2 (c :: rest).reverse
          have wf3 := sysMkdir_wf flt w2 (c :: rest).reverse
          have ok3 := sysMkdir_ok_isDir flt w2 (c :: rest).reverse
          rcases hr3 : sysMkdir flt w2 (c :: rest).reverse with ⟨w3, r3⟩
          rw [hr3] at g3 wf3 ok3
          simp only at g3 wf3 ok3 ⊢
          cases r3 with
          | none => exact ⟨g2.trans g3, fun h => wf3 (ih1.2.1 (wf1 h)), fun _ => ok3 rfl⟩
          | some e3 =>
            simp only
            by_cases hd : isDir w3.fs (c :: rest).reverse = true
            · rw [if_pos hd]; exact ⟨g2.trans g3, fun h => wf3 (ih1.2.1 (wf1 h)), fun _ => hd⟩
            · rw [if_neg hd]; exact ⟨g2.trans g3, fun h => wf3 (ih1.2.1 (wf1 h)), fun h => by cases h⟩
      | eexist =>
        simp only
        by_cases hd : isDir w1.fs (c :: rest).reverse = true
        · rw [if_pos hd]; exact ⟨g1, wf1, fun _ => hd⟩
        · rw [if_neg hd]; exact ⟨g1, wf1, fun h => by cases h⟩
      | eintr =>
        simp only
        by_cases hd : isDir w1.fs (c :: rest).reverse = true
        · rw [if_pos hd]; exact ⟨g1, wf1, fun _ => hd⟩
        · rw [if_neg hd]; exact ⟨g1, wf1, fun h => by cases h⟩
      | other code =>
        simp only
        by_cases hd : isDir w1.fs (c :: rest).reverse = true
        · rw [if_pos hd]; exact ⟨g1, wf1, fun _ => hd⟩
        · rw [if_neg hd]; exact ⟨g1, wf1, fun h => by cases h⟩

/-! ## fs::write -/

theorem sysOpenCreate_spec (flt : Fault) (w : World) (p : Path) :
    ((sysOpenCreate flt w p).2 ≠ none ∧ (sysOpenCreate flt w p).1.fs = w.fs) ∨
    ((sysOpenCreate flt w p).2 = none ∧ p ≠ [] ∧ isDir w.fs p.dropLast = true ∧ w.fs p ≠ some .dir ∧
      (sysOpenCreate flt w p).1.fs = upd w.fs p (.file [])) := by
  unfold sysOpenCreate
  simp only
  cases hf : flt .openat (tick .openat w).2 with
  | some e => left; simp
  | none =>
    simp only [tick_fs]
    by_cases h1 : p.isEmpty = true
    · left; simp [h1]
    · by_cases h2 : (!isDir w.fs p.dropLast) = true
      · left; simp [h1, h2]
      · have hp : p ≠ [] := by intro h; rw [h] at h1; simp at h1
        have hd : isDir w.fs p.dropLast = true := by
          cases h : isDir w.fs p.dropLast with
          | true => rfl
          | false => rw [h] at h2; exact absurd rfl h2
        simp only [h1, Bool.false_eq_true, if_false, hd, Bool.not_true]
        cases hn : w.fs p with
        | none => right; simp [hp]
        | some n =>
          cases n with
          | dir => left; simp
          | symlink r => left; simp
          | file c => right; simp [hp]

theorem sysWrite_spec (flt : Fault) (w : World) (p : Path) (c : List Char) :
    ((sysWrite flt w p c).2 ≠ none ∧ (sysWrite flt w p c).1.fs = w.fs) ∨
    ((sysWrite flt w p c).2 = none ∧ (sysWrite flt w p c).1.fs = upd w.fs p (.file c)) := by
  unfold sysWrite
  simp only
  cases hf : flt .write (tick .write w).2 with
  | some e => left; simp
  | none => right; simp

theorem openRetry_spec (flt : Fault) (p : Path) : ∀ (fuel : Nat) (w : World),
    ((openRetry flt fuel w p).2 ≠ none ∧ (openRetry flt fuel w p).1.fs = w.fs) ∨
    ((openRetry flt fuel w p).2 = none ∧ p ≠ [] ∧ isDir w.fs p.dropLast = true ∧ w.fs p ≠ some .dir ∧
      (openRetry flt fuel w p).1.fs = upd w.fs p (.file [])) := by
  intro fuel
  induction fuel with
  | zero => intro w; exact sysOpenCreate_spec flt w p
  | succ fuel ih =>
    intro w
    have h := sysOpenCreate_spec flt w p
    unfold openRetry
    rcases hr : sysOpenCreate flt w p with ⟨w1, r⟩
    rw [hr] at h
    cases r with
    | none => simpa using h
    | some e =>
      have hfs : w1.fs = w.fs := by
        rcases h with ⟨_, h⟩ | ⟨h, _⟩
        · exact h
        · cases h
      cases e with
      | eintr =>
        simp only
        have := ih w1
        rw [hfs] at this
        exact this
      | eexist => simpa using h
      | enoent => simpa using h
      | other c => simpa using h

theorem writeRetry_spec (flt : Fault) (p : Path) (c : List Char) : ∀ (fuel : Nat) (w : World),
    ((writeRetry flt fuel w p c).2 ≠ none ∧ (writeRetry flt fuel w p c).1.fs = w.fs) ∨
    ((writeRetry flt fuel w p c).2 = none ∧ (writeRetry flt fuel w p c).1.fs = upd w.fs p (.file c)) := by
  intro fuel
  induction fuel with
  | zero => intro w; exact sysWrite_spec flt w p c
  | succ fuel ih =>
    intro w
    have h := sysWrite_spec flt w p c
    unfold writeRetry
    rcases hr : sysWrite flt w p c with ⟨w1, r⟩
    rw [hr] at h
    cases r with
    | none => simpa using h
    | some e =>
      have hfs : w1.fs = w.fs := by
        rcases h with ⟨_, h⟩ | ⟨h, _⟩
        · exact h
        · cases h
      cases e with
      | eintr =>
        simp only
        have := ih w1
        rw [hfs] at this
        exact this
      | eexist => simpa using h
      | enoent => simpa using h
      | other c => simpa using h

/-- What `fs::write(p, c)` can do: nothing; create/truncate `p`; or create/truncate and fill it. A
directory at `p` is never replaced; on success `p` holds `c`. -/
theorem writeFile_spec (flt : Fault) (w : World) (p : Path) (c : List Char) :
    (∀ q, q ≠ p → (writeFile flt w p c).1.fs q = w.fs q) ∧
    (WF w.fs → WF (writeFile flt w p c).1.fs) ∧
    ((writeFile flt w p c).2 = none → (writeFile flt w p c).1.fs p = some (.file c)) ∧
    (w.fs p = some .dir → (writeFile flt w p c).1.fs p = some .dir) ∧
    ((writeFile flt w p c).1.fs p ≠ w.fs p → p ≠ []) := by
  have ho := openRetry_spec flt p retryFuel w
  unfold writeFile
  simp only
  rcases hr : openRetry flt retryFuel w p with ⟨w1, r⟩
  rw [hr] at ho
  simp only at ho ⊢
  rcases ho with ⟨hne, hfs⟩ | ⟨hnone, hp, hd, hnd, hfs⟩
  · cases r with
    | none => exact absurd rfl hne
    | some e =>
      exact ⟨fun q _ => by rw [hfs], fun h => by rw [hfs]; exact h, fun h => (by cases h),
        fun h => by rw [hfs]; exact h, fun h => absurd (by rw [hfs]) h⟩
  · subst hnone
    simp only
    have wf1 : WF w.fs → WF w1.fs := fun h => by rw [hfs]; exact wf_upd_file h hp hd hnd
    by_cases hc : c.isEmpty = true
    · rw [if_pos hc]
      have hc' : c = [] := by simpa using hc
      subst hc'
      refine ⟨fun q hq => by rw [hfs]; exact upd_other _ _ hq, wf1, fun _ => by rw [hfs]; exact upd_same ..,
        fun h => absurd h hnd, fun _ => hp⟩
    · rw [if_neg hc]
      have hw := writeRetry_spec flt p c retryFuel w1
      rcases hr2 : writeRetry flt retryFuel w1 p c with ⟨w2, r2⟩
      rw [hr2] at hw
      simp only at hw ⊢
      rcases hw with ⟨hne2, hfs2⟩ | ⟨hnone2, hfs2⟩
      · refine ⟨fun q hq => by rw [hfs2, hfs]; exact upd_other _ _ hq, fun h => by rw [hfs2]; exact wf1 h,
          fun h => absurd h hne2, fun h => absurd h hnd, fun _ => hp⟩
      · refine ⟨fun q hq => by rw [hfs2, upd_other _ _ hq, hfs]; exact upd_other _ _ hq, ?_,
          fun _ => by rw [hfs2]; exact upd_same .., fun h => absurd h hnd, fun _ => hp⟩
        intro h
        rw [hfs2]
        have h1 := wf1 h
        refine wf_upd_file h1 hp ?_ ?_
        · have : p.dropLast ≠ p := dropLast_ne_self hp
          cases hdl : p.dropLast with
          | nil => exact isDir_nil _
          | cons a r =>
            rw [hdl] at hd this
            rw [isDir_cons] at hd ⊢
            rw [hfs, upd_other _ _ this]; exact hd
        · rw [hfs, upd_same]; simp

/-! ## one step, all steps -/

def Act.isWrite : Act → Bool
  | .write _ _ => true
  | .mkdirAll _ => false

/-- What a successful step guarantees. -/
def Act.post (base : Path) (fs : FS) : Act → Prop
  | .mkdirAll rel => isDir fs (base ++ rel) = true
  | .write rel c => fs (base ++ rel) = some (.file c)

theorem runAct_spec (flt : Fault) (base : Path) (w : World) (a : Act) :
    (∀ q, (runAct flt base w a).1.fs q = w.fs q ∨ (q ≠ [] ∧ q <+: base ++ a.rel)) ∧
    (∀ q, w.fs q = some .dir → (runAct flt base w a).1.fs q = some .dir) ∧
    (∀ q c, w.fs q = some (.file c) → (a.isWrite = true → q ≠ base ++ a.rel) →
        (runAct flt base w a).1.fs q = some (.file c)) ∧
    (WF w.fs → WF (runAct flt base w a).1.fs) ∧
    ((runAct flt base w a).2 = none → a.post base (runAct flt base w a).1.fs) := by
  cases a with
  | mkdirAll rel =>
    have h := createDirAll_spec flt (base ++ rel).reverse w
    simp only [List.reverse_reverse] at h
    simp only [runAct, Act.rel, Act.post, Act.isWrite]
    refine ⟨fun q => ?_, fun q hq => ?_, fun q c hq _ => ?_, h.2.1, h.2.2⟩
    · rcases h.1 q with h' | ⟨_, _, h3, h4⟩
      · exact Or.inl h'
      · exact Or.inr ⟨h3, h4⟩
    · rcases h.1 q with h' | ⟨h1, _, _, _⟩
      · rw [h']; exact hq
      · rw [hq] at h1; cases h1
    · rcases h.1 q with h' | ⟨h1, _, _, _⟩
      · rw [h']; exact hq
      · rw [hq] at h1; cases h1
  | write rel c =>
    have h := writeFile_spec flt w (base ++ rel) c
    simp only [runAct, Act.rel, Act.post, Act.isWrite]
    refine ⟨fun q => ?_, fun q hq => ?_, fun q c' hq hne => ?_, h.2.1, h.2.2.1⟩
    · by_cases hq : q = base ++ rel
      · by_cases hch : (writeFile flt w (base ++ rel) c).1.fs (base ++ rel) = w.fs (base ++ rel)
        · left; rw [hq]; exact hch
        · right; rw [hq]; exact ⟨h.2.2.2.2 hch, List.prefix_refl _⟩
      · exact Or.inl (h.1 q hq)
    · by_cases hq' : q = base ++ rel
      · rw [hq'] at hq ⊢; exact h.2.2.2.1 hq
      · rw [h.1 q hq']; exact hq
    · rw [h.1 q (hne trivial)]; exact hq

def writeRels (acts : List Act) : List Path :=
  acts.filterMap (fun a => match a with | .write r _ => some r | .mkdirAll _ => none)

theorem mem_writeRels {acts : List Act} {r : Path} {c : List Char} (h : Act.write r c ∈ acts) :
    r ∈ writeRels acts := by
  simp only [writeRels, List.mem_filterMap]
  exact ⟨_, h, rfl⟩

theorem runActs_spec (flt : Fault) (base : Path) : ∀ (acts : List Act) (w : World),
    (∀ q, (runActs flt base w acts).1.fs q = w.fs q ∨ (q ≠ [] ∧ ∃ a ∈ acts, q <+: base ++ a.rel)) ∧
    (∀ q, w.fs q = some .dir → (runActs flt base w acts).1.fs q = some .dir) ∧
    (∀ q c, w.fs q = some (.file c) → (∀ r, r ∈ writeRels acts → q ≠ base ++ r) →
        (runActs flt base w acts).1.fs q = some (.file c)) ∧
    (WF w.fs → WF (runActs flt base w acts).1.fs) ∧
    ((runActs flt base w acts).2 = none → (writeRels acts).Nodup →
        ∀ a ∈ acts, a.post base (runActs flt base w acts).1.fs) := by
  intro acts
  induction acts with
  | nil =>
    intro w
    exact ⟨fun _ => Or.inl rfl, fun _ h => h, fun _ _ h _ => h, id, fun _ _ a ha => (by cases ha)⟩
  | cons a rest ih =>
    intro w
    have h1 := runAct_spec flt base w a
    unfold runActs
    simp only
    rcases hr : runAct flt base w a with ⟨w1, r⟩
    rw [hr] at h1
    simp only at h1 ⊢
    obtain ⟨f1, d1, k1, wf1, p1⟩ := h1
    cases r with
    | some e =>
      simp only
      refine ⟨fun q => ?_, d1, fun q c hq hne => ?_, wf1, fun h => by cases h⟩
      · rcases f1 q with h | ⟨h2, h3⟩
        · exact Or.inl h
        · exact Or.inr ⟨h2, a, List.mem_cons_self .., h3⟩
      · apply k1 q c hq
        intro hw
        cases a with
        | mkdirAll _ => cases hw
        | write r c' => exact hne r (mem_writeRels (List.mem_cons_self ..))
    | none =>
      simp only
      obtain ⟨f2, d2, k2, wf2, p2⟩ := ih w1
      refine ⟨fun q => ?_, fun q hq => d2 q (d1 q hq), fun q c hq hne => ?_, fun h => wf2 (wf1 h), ?_⟩
      · rcases f2 q with h | ⟨h2, b, hb, h3⟩
        · rcases f1 q with h' | ⟨h2', h3'⟩
          · left; rw [h, h']
          · right; exact ⟨h2', a, List.mem_cons_self .., h3'⟩
        · right; exact ⟨h2, b, List.mem_cons_of_mem _ hb, h3⟩
      · apply k2 q c
        · apply k1 q c hq
          intro hw
          cases a with
          | mkdirAll _ => cases hw
          | write r c' => exact hne r (mem_writeRels (List.mem_cons_self ..))
        · intro r hr'
          apply hne r
          simp only [writeRels, List.filterMap_cons] at hr' ⊢
          cases a with
          | mkdirAll _ => exact hr'
          | write r0 c0 => exact List.mem_cons_of_mem _ hr'
      · intro hok hnd b hb
        have hnd' : (writeRels rest).Nodup := by
          simp only [writeRels, List.filterMap_cons] at hnd ⊢
          cases a with
          | mkdirAll _ => exact hnd
          | write r0 c0 => exact (List.nodup_cons.1 hnd).2
        rcases List.mem_cons.1 hb with rfl | hb'
        · have pa := p1 rfl
          cases b with
          | mkdirAll rel =>
            simp only [Act.post] at pa ⊢
            cases hbr : base ++ rel with
            | nil => exact isDir_nil _
            | cons x y =>
              rw [hbr] at pa
              rw [isDir_cons] at pa ⊢
              exact d2 _ pa
          | write rel c =>
            simp only [Act.post] at pa ⊢
            apply k2 _ c pa
            intro r hr' heq
            have : rel = r := List.append_cancel_left heq
            subst this
            simp only [writeRels, List.filterMap_cons] at hnd
            exact (List.nodup_cons.1 hnd).1 hr'
        · exact p2 hok hnd' b hb'

/-! ## after a successful run the staging directory holds exactly `treeOf` -/

theorem treeOf_exact (flt : Fault) (s : Name) (acts : List Act) (w : World)
    (hroot : w.fs [s] = some .dir) (hfresh : ∀ q, q ≠ [] → w.fs (s :: q) = none) (hwf : WF w.fs)
    (hnd : (writeRels acts).Nodup) (hok : (runActs flt [s] w acts).2 = none) :
    ∀ q, (runActs flt [s] w acts).1.fs (s :: q) = treeOf acts q := by
  obtain ⟨f, d, _, wf, p⟩ := runActs_spec flt [s] acts w
  have post := p hok hnd
  have wf' := wf hwf
  intro q
  unfold treeOf
  by_cases hq : q = []
  · subst hq; simp only [if_true]; exact d _ hroot
  · rw [if_neg hq]
    cases hfind : acts.findSome? (Act.writes q) with
    | some c =>
      simp only
      obtain ⟨a, ha, hfa⟩ := List.exists_of_findSome?_eq_some hfind
      cases a with
      | mkdirAll _ => cases hfa
      | write r c' =>
        simp only [Act.writes] at hfa
        by_cases hr : r = q
        · rw [if_pos hr] at hfa
          injection hfa with hc
          subst hr; subst hc
          have := post _ ha
          simpa [Act.post] using this
        · rw [if_neg hr] at hfa; cases hfa
    | none =>
      simp only
      rw [List.findSome?_eq_none_iff] at hfind
      by_cases hany : acts.any (fun a => q.isPrefixOf a.rel) = true
      · rw [if_pos hany]
        rw [List.any_eq_true] at hany
        obtain ⟨a, ha, hpre⟩ := hany
        rw [List.isPrefixOf_iff_prefix] at hpre
        obtain ⟨t, ht⟩ := hpre
        have hpa := post a ha
        have hsq : s :: q ≠ [] := by simp
        cases a with
        | mkdirAll rel =>
          simp only [Act.rel] at ht
          simp only [Act.post, List.singleton_append, isDir_cons] at hpa
          by_cases ht0 : t = []
          · subst ht0; rw [List.append_nil] at ht; rw [ht]; exact hpa
          · refine wf_prefix_dir wf' (s :: q) hsq t.length t rfl ht0 ?_
            rw [List.cons_append, ht, hpa]; simp
        | write rel c =>
          simp only [Act.rel] at ht
          simp only [Act.post, List.singleton_append] at hpa
          have ht0 : t ≠ [] := by
            intro h0; subst h0
            rw [List.append_nil] at ht
            have := hfind _ ha
            simp only [Act.writes, ht, if_true] at this
            cases this
          refine wf_prefix_dir wf' (s :: q) hsq t.length t rfl ht0 ?_
          rw [List.cons_append, ht, hpa]; simp
      · rw [if_neg hany]
        rcases f (s :: q) with h | ⟨_, a, ha, hpre⟩
        · rw [h]; exact hfresh q hq
        · exfalso; apply hany
          rw [List.any_eq_true]
          refine ⟨a, ha, ?_⟩
          rw [List.isPrefixOf_iff_prefix]
          have : s :: q <+: s :: a.rel := by simpa using hpre
          exact (List.cons_prefix_cons.1 this).2

/-! ## staging directory allocation, rename -/

theorem allocStaging_spec (flt : Fault) (stg : Nat → Name) : ∀ (fuel k : Nat) (w : World),
    ((allocStaging flt stg fuel k w).2 = none ∧ (allocStaging flt stg fuel k w).1.fs = w.fs) ∨
    (∃ s, (allocStaging flt stg fuel k w).2 = some s ∧ (∃ k', s = stg k') ∧ w.fs [s] = none ∧
      (allocStaging flt stg fuel k w).1.fs = upd w.fs [s] .dir) := by
  intro fuel
  induction fuel with
  | zero => intro k w; left; exact ⟨rfl, rfl⟩
  | succ fuel ih =>
    intro k w
    have hm := sysMkdir_spec flt w [stg k]
    unfold allocStaging
    simp only
    rcases hr : sysMkdir flt w [stg k] with ⟨w1, r⟩
    rw [hr] at hm
    simp only at hm ⊢
    cases r with
    | none =>
      rcases hm with ⟨h, _⟩ | ⟨_, _, hn, _, hfs⟩
      · exact absurd rfl h
      · right; exact ⟨stg k, rfl, ⟨k, rfl⟩, hn, hfs⟩
    | some e =>
      have hfs : w1.fs = w.fs := by
        rcases hm with ⟨_, h⟩ | ⟨h, _⟩
        · exact h
        · cases h
      cases e with
      | eexist =>
        simp only
        have := ih (k + 1) w1
        rw [hfs] at this
        exact this
      | enoent => left; exact ⟨rfl, hfs⟩
      | eintr => left; exact ⟨rfl, hfs⟩
      | other c => left; exact ⟨rfl, hfs⟩

def movedFs (fs : FS) (s t : Name) : FS := fun q =>
  match q with
  | c :: r => if c = t then fs (s :: r) else if c = s then none else fs q
  | [] => fs q

theorem sysRename_spec (flt : Fault) (w : World) (s t : Name) :
    ((sysRename flt w s t).2 ≠ none ∧ (sysRename flt w s t).1.fs = w.fs) ∨
    ((sysRename flt w s t).2 = none ∧ w.fs [t] = none ∧ (sysRename flt w s t).1.fs = movedFs w.fs s t) := by
  unfold sysRename
  simp only
  cases hf : flt .rename (tick .rename w).2 with
  | some e => left; simp
  | none =>
    simp only [tick_fs]
    by_cases h1 : (w.fs [s] != some Node.dir) = true
    · left; simp [h1]
    · simp only [h1, Bool.false_eq_true, if_false]
      cases ht : w.fs [t] with
      | some n => left; simp
      | none => right; exact ⟨rfl, rfl, rfl⟩

/-! ## the tables -/

theorem writeRels_map_mkdirAll (l : List Path) : writeRels (l.map Act.mkdirAll) = [] := by
  induction l with
  | nil => rfl
  | cons a l ih => simp [writeRels]

theorem writeRels_map_write {α : Type} (l : List α) (g : α → Path) (h : α → List Char) :
    writeRels (l.map (fun f => Act.write (g f) (h f))) = l.map g := by
  induction l with
  | nil => rfl
  | cons a l ih =>
    simp only [writeRels, List.map_cons, List.filterMap_cons] at ih ⊢
    rw [ih]

theorem writeRels_append (a b : List Act) : writeRels (a ++ b) = writeRels a ++ writeRels b := by
  simp [writeRels, List.filterMap_append]

theorem projectActs_writeRels (name : Name) (keys : Keys) :
    writeRels (projectActs name keys) = Generated.projectFiles.map (·.1) ++ [keypairRel name] := by
  unfold projectActs
  rw [writeRels_append, writeRels_append, writeRels_map_mkdirAll, writeRels_map_write]
  simp [writeRels]

theorem projectFiles_paths_ok :
    (decide (Generated.projectFiles.map (·.1)).Nodup &&
     (Generated.projectFiles.map (·.1)).all (fun p => !Generated.keypairDir.isPrefixOf p)) = true := by
  decide +kernel

theorem projectActs_nodup (name : Name) (keys : Keys) : (writeRels (projectActs name keys)).Nodup := by
  rw [projectActs_writeRels]
  have h := projectFiles_paths_ok
  simp only [Bool.and_eq_true, decide_eq_true_eq, List.all_eq_true, Bool.not_eq_true'] at h
  rw [List.nodup_append]
  refine ⟨h.1, by simp, ?_⟩
  intro a ha b hb
  simp only [List.mem_singleton] at hb
  subst hb
  intro heq
  subst heq
  have := h.2 _ ha
  have hp : Generated.keypairDir.isPrefixOf (keypairRel name) = true := by
    rw [List.isPrefixOf_iff_prefix]; exact List.prefix_append _ _
  rw [hp] at this; cases this

/-! ## scaffold_project -/

theorem removeTop_restore {fs fs2 : FS} {s : Name} (habs : ∀ r, fs (s :: r) = none)
    (hframe : ∀ q, q.head? ≠ some s → fs2 q = fs q) : removeTop fs2 s = fs := by
  funext q
  cases q with
  | nil => simp only [removeTop]; exact hframe [] (by simp)
  | cons c r =>
    simp only [removeTop]
    by_cases hc : c = s
    · subst hc; simp [habs r]
    · rw [if_neg hc]; exact hframe _ (by simpa using hc)

/-- All-or-nothing for `scaffold_project`, for every fault plan. -/
theorem scaffold_spec (flt : Fault) (keys : Keys) (stg : Nat → Name) (name : Name) (w : World)
    (hwf : WF w.fs) (hstg : ∀ k, stg k ≠ name) :
    ((scaffoldProject flt keys stg name w).2 = .ok ∧ w.fs [name] = none ∧
      (scaffoldProject flt keys stg name w).1.fs = graft w.fs name (projectTree name keys)) ∨
    ((scaffoldProject flt keys stg name w).2 = .err ∧ (scaffoldProject flt keys stg name w).1.fs = w.fs) := by
  unfold scaffoldProject
  by_cases hex : pathExists w.fs [name] = true
  · rw [if_pos hex]; right; exact ⟨rfl, rfl⟩
  · rw [if_neg hex]
    have ha := allocStaging_spec flt stg Generated.stagingAttempts 0 w
    rcases hr : allocStaging flt stg Generated.stagingAttempts 0 w with ⟨w1, r⟩
    rw [hr] at ha
    simp only at ha ⊢
    cases r with
    | none =>
      right
      rcases ha with ⟨_, h⟩ | ⟨s, h, _⟩
      · exact ⟨rfl, h⟩
      · cases h
    | some s =>
      simp only
      rcases ha with ⟨h, _⟩ | ⟨s', hs', ⟨k', hk'⟩, hnone, hfs1⟩
      · cases h
      · injection hs' with hs'
        subst hs'
        have hsn : s ≠ name := by rw [hk']; exact hstg k'
        have habs := wf_absent hwf hnone
        have wf1 : WF w1.fs := by rw [hfs1]; exact wf_upd_dir hwf (isDir_nil _)
        have hroot : w1.fs [s] = some .dir := by rw [hfs1]; exact upd_same ..
        have hfresh : ∀ q, q ≠ [] → w1.fs (s :: q) = none := by
          intro q hq
          rw [hfs1, upd_other _ _ (by simpa using hq)]
          exact habs q
        have hspec := runActs_spec flt [s] (projectActs name keys) w1
        have hexact := treeOf_exact flt s (projectActs name keys) w1 hroot hfresh wf1 (projectActs_nodup name keys)
        rcases hr2 : runActs flt [s] w1 (projectActs name keys) with ⟨w2, r2⟩
        rw [hr2] at hspec hexact
        simp only at hspec hexact ⊢
        obtain ⟨f, d, _, _, _⟩ := hspec
        have hframe : ∀ q, q.head? ≠ some s → w2.fs q = w.fs q := by
          intro q hq
          rcases f q with h | ⟨hne, a, _, hpre⟩
          · rw [h, hfs1]
            apply upd_other
            intro h'; rw [h'] at hq; simp at hq
          · exfalso
            cases q with
            | nil => exact hne rfl
            | cons c r =>
              have : c :: r <+: s :: a.rel := by simpa using hpre
              have := (List.cons_prefix_cons.1 this).1
              subst this; simp at hq
        cases r2 with
        | some e =>
          simp only
          right; exact ⟨trivial, removeTop_restore habs hframe⟩
        | none =>
          simp only
          have hrn := sysRename_spec flt w2 s name
          rcases hr3 : sysRename flt w2 s name with ⟨w3, r3⟩
          rw [hr3] at hrn
          simp only at hrn ⊢
          cases r3 with
          | some e =>
            simp only
            right
            rcases hrn with ⟨_, h⟩ | ⟨h, _⟩
            · refine ⟨trivial, removeTop_restore habs ?_⟩
              intro q hq; rw [h]; exact hframe q hq
            · cases h
          | none =>
            simp only
            left
            rcases hrn with ⟨h, _⟩ | ⟨_, htn, hmoved⟩
            · exact absurd rfl h
            · have hname : w.fs [name] = none := by
                rw [← hframe [name] (by simpa using fun h => hsn h.symm)]; exact htn
              refine ⟨trivial, hname, ?_⟩
              rw [hmoved]
              funext q
              cases q with
              | nil => simp only [movedFs, graft]; exact hframe [] (by simp)
              | cons c r =>
                simp only [movedFs, graft]
                by_cases hc : c = name
                · subst hc; simp only [if_true]; exact hexact rfl r
                · rw [if_neg hc, if_neg hc]
                  by_cases hcs : c = s
                  · subst hcs; simp only [if_true]; exact (habs r).symm
                  · rw [if_neg hcs]; exact hframe _ (by simpa using hcs)

theorem printOne_fs (flt : Fault) : ∀ (fuel : Nat) (w : World), (printOne flt fuel w).1.fs = w.fs := by
  intro fuel
  induction fuel with
  | zero => intro w; simp [printOne]
  | succ fuel ih =>
    intro w
    unfold printOne
    simp only
    cases hf : flt .write (tick .write w).2 with
    | none => simp
    | some e =>
      cases e with
      | eintr => simp only; rw [ih]; simp
      | eexist => simp
      | enoent => simp
      | other c => simp

theorem printLines_fs (flt : Fault) : ∀ (n : Nat) (w : World), (printLines flt n w).1.fs = w.fs := by
  intro n
  induction n with
  | zero => intro w; rfl
  | succ n ih =>
    intro w
    have h1 := printOne_fs flt retryFuel w
    unfold printLines
    rcases hr : printOne flt retryFuel w with ⟨w1, b⟩
    rw [hr] at h1
    cases b with
    | false => simpa using h1
    | true => simp only; rw [ih]; exact h1

theorem printLines_status (flt : Fault) : ∀ (n : Nat) (w : World), (printLines flt n w).2 ≠ .err := by
  intro n
  induction n with
  | zero => intro w; simp [printLines]
  | succ n ih =>
    intro w
    unfold printLines
    rcases hr : printOne flt retryFuel w with ⟨w1, b⟩
    cases b with
    | false => simp
    | true => simp only; exact ih _

/-! ## contents of the complete tree -/

theorem writeRels_unique : ∀ (acts : List Act) (r : Path) (c c' : List Char), (writeRels acts).Nodup →
    Act.write r c ∈ acts → Act.write r c' ∈ acts → c = c' := by
  intro acts
  induction acts with
  | nil => intro r c c' _ h; cases h
  | cons a rest ih =>
    intro r c c' hnd h1 h2
    have hnd' : (writeRels rest).Nodup := by
      simp only [writeRels, List.filterMap_cons] at hnd ⊢
      cases a with
      | mkdirAll _ => exact hnd
      | write r0 c0 => exact (List.nodup_cons.1 hnd).2
    have hnotin : ∀ c0 c1, a = Act.write r c0 → Act.write r c1 ∈ rest → False := by
      intro c0 c1 ha hm
      subst ha
      simp only [writeRels, List.filterMap_cons] at hnd
      exact (List.nodup_cons.1 hnd).1 (mem_writeRels hm)
    rcases List.mem_cons.1 h1 with e1 | m1
    · rcases List.mem_cons.1 h2 with e2 | m2
      · rw [← e1] at e2; injection e2 with _ h; exact h.symm
      · exact (hnotin c c' e1.symm m2).elim
    · rcases List.mem_cons.1 h2 with e2 | m2
      · exact (hnotin c' c e2.symm m1).elim
      · exact ih r c c' hnd' m1 m2

theorem treeOf_write {acts : List Act} {r : Path} {c : List Char} (hnd : (writeRels acts).Nodup)
    (hm : Act.write r c ∈ acts) (hr : r ≠ []) : treeOf acts r = some (.file c) := by
  unfold treeOf
  rw [if_neg hr]
  cases hfind : acts.findSome? (Act.writes r) with
  | none =>
    rw [List.findSome?_eq_none_iff] at hfind
    have := hfind _ hm
    simp [Act.writes] at this
  | some c' =>
    simp only
    obtain ⟨a, ha, hfa⟩ := List.exists_of_findSome?_eq_some hfind
    cases a with
    | mkdirAll _ => cases hfa
    | write r' c'' =>
      simp only [Act.writes] at hfa
      by_cases hrr : r' = r
      · rw [if_pos hrr] at hfa
        injection hfa with hc
        subst hrr; subst hc
        rw [writeRels_unique acts r' c c'' hnd hm ha]
      · rw [if_neg hrr] at hfa; cases hfa

theorem treeOf_dir {acts : List Act} {d : Path} (hm : Act.mkdirAll d ∈ acts) (hd : d ≠ [])
    (hnw : d ∉ writeRels acts) : treeOf acts d = some .dir := by
  unfold treeOf
  rw [if_neg hd]
  have hnone : acts.findSome? (Act.writes d) = none := by
    rw [List.findSome?_eq_none_iff]
    intro a ha
    cases a with
    | mkdirAll _ => rfl
    | write r' c =>
      simp only [Act.writes]
      by_cases hrr : r' = d
      · subst hrr; exact absurd (mem_writeRels ha) hnw
      · rw [if_neg hrr]
  rw [hnone]
  simp only
  have : acts.any (fun a => d.isPrefixOf a.rel) = true := by
    rw [List.any_eq_true]
    exact ⟨_, hm, by simp [Act.rel]⟩
  rw [if_pos this]

theorem tables_shape :
    ((Generated.projectFiles.map (·.1)).all (fun p => !p.isEmpty) &&
     Generated.projectDirs.all (fun d => !d.isEmpty && !(Generated.projectFiles.map (·.1)).contains d &&
        !Generated.keypairDir.isPrefixOf d)) = true := by
  decide +kernel

/-- See `Cli.C20.complete_tree_contents`. -/
theorem projectTree_contents (name : Name) (keys : Keys) :
    projectTree name keys [] = some .dir ∧
    projectTree name keys (keypairRel name) = some (.file keys.json) ∧
    (∀ f ∈ Generated.projectFiles,
      projectTree name keys f.1 = some (.file (render (TemplateValues.new name keys.pubkey) f.2))) ∧
    (∀ d ∈ Generated.projectDirs, projectTree name keys d = some .dir) := by
  have hnd := projectActs_nodup name keys
  have hshape := tables_shape
  simp only [Bool.and_eq_true, List.all_eq_true, Bool.not_eq_true', List.isEmpty_eq_false_iff] at hshape
  refine ⟨by simp [projectTree, treeOf], ?_, ?_, ?_⟩
  · apply treeOf_write hnd
    · simp [projectActs]
    · simp [keypairRel]
  · intro f hf
    apply treeOf_write hnd
    · simp only [projectActs, List.mem_append, List.mem_map]
      left; right; exact ⟨f, hf, rfl⟩
    · exact hshape.1 _ (List.mem_map.2 ⟨f, hf, rfl⟩)
  · intro d hd
    obtain ⟨⟨h1, h2⟩, h3⟩ := hshape.2 d hd
    apply treeOf_dir
    · simp only [projectActs, List.mem_append, List.mem_map]
      left; left; exact ⟨d, hd, rfl⟩
    · exact h1
    · rw [projectActs_writeRels, List.mem_append, List.mem_singleton]
      rintro (hm | hm)
      · have : (Generated.projectFiles.map (·.1)).contains d = true := List.contains_iff_mem.2 hm
        rw [this] at h2; cases h2
      · have hp : Generated.keypairDir.isPrefixOf d = true := by
          rw [hm, List.isPrefixOf_iff_prefix]; exact List.prefix_append _ _
        rw [hp] at h3; cases h3

/-! ## new_project -/

/-- See `Cli.C20.new_project_all_or_nothing`. -/
theorem newProject_spec (flt : Fault) (keys : Keys) (stg : Name → Nat → Name) (arg : List Char)
    (w : World) (hwf : WF w.fs) (hstg : ∀ n k, stg n k ≠ n) :
    (∃ n, validateArg arg = .ok n ∧ w.fs [n] = none ∧ (newProject flt keys stg arg w).2 ≠ .err ∧
      (newProject flt keys stg arg w).1.fs = graft w.fs n (projectTree n keys)) ∨
    ((newProject flt keys stg arg w).2 = .err ∧ (newProject flt keys stg arg w).1.fs = w.fs) := by
  unfold newProject
  cases hv : validateArg arg with
  | error e => right; exact ⟨rfl, rfl⟩
  | ok n =>
    simp only
    have hs := scaffold_spec flt keys (stg n) n w hwf (hstg n)
    rcases hr : scaffoldProject flt keys (stg n) n w with ⟨w1, st⟩
    rw [hr] at hs
    simp only at hs ⊢
    rcases hs with ⟨hok, hnone, hfs⟩ | ⟨herr, hfs⟩
    · subst hok
      simp only
      left
      refine ⟨n, rfl, hnone, printLines_status flt _ w1, ?_⟩
      rw [printLines_fs]; exact hfs
    · subst herr
      simp only
      right; exact ⟨trivial, hfs⟩

end Cli
