import Cli.NameProofs
import Cli.RenderProofs
import Cli.ScaffoldProofs
/-!
# C20 — Project scaffolding is all-or-nothing and accepts only crate-safe names

Only the property theorems (and their non-vacuity examples). Models: `Cli/Name.lean`,
`Cli/Render.lean`, `Cli/Scaffold.lean`; specification of names: `Cli/NameSpec.lean`; tables
regenerated from the source: `Cli/Generated/*.lean`.
-/
namespace Cli.C20
open Cli Cli.Spec

/-! ## names -/

/-- The scanner accepts exactly the documented grammar — for ALL strings. -/
theorem name_accept_iff (s : Name) : accepted (validateName s) = true ↔ NameOk s := by
  cases s with
  | nil =>
    constructor
    · intro h; cases h
    · intro h; obtain ⟨c, cs, h', _⟩ := h.first; cases h'
  | cons c cs =>
    rw [validateName_ok_iff_scan]
    constructor
    · rintro ⟨hl, hscan, hk⟩
      have hsep : isSep c = false := lower_not_sep hl
      rw [← hsep, scanTail_ok_iff] at hscan
      obtain ⟨hcs, hadj, hlast⟩ := hscan
      refine ⟨⟨c, cs, rfl, hl⟩, ?_, hadj, ?_, ?_⟩
      · intro x hx
        rcases List.mem_cons.1 hx with rfl | hx
        · exact Or.inl hl
        · rcases hcs x hx with h | h
          · simp only [isAlnum, Bool.or_eq_true] at h
            rcases h with h | h
            · exact Or.inl h
            · exact Or.inr (Or.inl h)
          · exact Or.inr (Or.inr h)
      · intro x hx
        rw [getLast?_cons_getLastD] at hx
        injection hx with hx
        rw [← hx, ← hlast]; exact hsep
      · intro hmem
        rw [← isKeyword_iff, hk] at hmem; cases hmem
    · intro h
      obtain ⟨c', cs', hcc, hl⟩ := h.first
      injection hcc with h1 h2
      subst h1; subst h2
      have hsep : isSep c = false := lower_not_sep hl
      refine ⟨hl, ?_, ?_⟩
      · rw [← hsep, scanTail_ok_iff]
        refine ⟨?_, h.single, ?_⟩
        · intro x hx
          rcases h.charset x (List.mem_cons_of_mem _ hx) with h' | h' | h'
          · left; simp [isAlnum, h']
          · left; simp [isAlnum, h']
          · right; exact h'
        · have := h.noTrail (cs.getLastD c) (getLast?_cons_getLastD c cs)
          rw [this, hsep]
      · cases hk : isKeyword (normalize (c :: cs)) with
        | false => rfl
        | true => exact absurd ((isKeyword_iff _).1 hk) h.notKeyword

/-- The same in regular-expression form: `[a-z]([a-z0-9]|[-_][a-z0-9])*`, not a keyword after `-` → `_`. -/
theorem name_accept_iff_regex (s : Name) : accepted (validateName s) = true ↔ RegexOk s := by
  cases s with
  | nil =>
    constructor
    · intro h; cases h
    · rintro ⟨c, cs, h, _⟩; cases h
  | cons c cs =>
    rw [validateName_ok_iff_scan, scanTail_false_iff_tail]
    constructor
    · rintro ⟨hl, ht, hk⟩
      refine ⟨c, cs, rfl, hl, ht, ?_⟩
      intro hmem; rw [← isKeyword_iff, hk] at hmem; cases hmem
    · rintro ⟨c', cs', hcc, hl, ht, hk⟩
      injection hcc with h1 h2
      subst h1; subst h2
      refine ⟨hl, ht, ?_⟩
      cases hk' : isKeyword (normalize (c :: cs)) with
      | false => rfl
      | true => exact absurd ((isKeyword_iff _).1 hk') hk

/-- What `sf new <arg>` accepts: the argument is trimmed first, the name used is the trimmed one. -/
theorem arg_accept_iff (raw : List Char) :
    (∃ n, validateArg raw = .ok n) ↔ NameOk (trim raw) := by
  rw [← name_accept_iff]
  unfold validateArg
  cases h : validateName (trim raw) with
  | ok n => simp [accepted]
  | error e => simp [accepted]

theorem arg_accepted_name {raw : List Char} {n : Name} (h : validateArg raw = .ok n) : n = trim raw :=
  validateName_ok_self h

/-- The keyword list in the source has exactly the members of the Rust-2021 keyword list of the spec. -/
theorem keyword_table_complete (k : List Char) : k ∈ Generated.keywords ↔ k ∈ Spec.rustKeywords :=
  keywords_agree k

/-- Everything derived from an accepted name is a function of it and is well-formed where it is used:
the package name is a Cargo package name, the `[lib]` name (and the module name) is a Rust identifier
that is not a keyword, the keypair file is `<lib name>-keypair.json` — one path component —, the
Pascal-case name is an identifier starting with an upper-case letter, the directory name is one path
component; none of them contains a brace (so rendering cannot re-introduce a placeholder). -/
theorem accepted_names_consistent {s : Name} (h : accepted (validateName s) = true) (pubkey : List Char) :
    let v := TemplateValues.new s pubkey
    v.name_lowercase = s ∧ CargoPackageName v.name_lowercase ∧ PathComponent s ∧
    v.name_lowercase_underscore = normalize s ∧ RustIdent v.name_lowercase_underscore ∧
    keypairFileName Generated.keypairSuffix s = v.name_lowercase_underscore ++ Generated.keypairSuffix ∧
    PathComponent (keypairFileName Generated.keypairSuffix s) ∧
    (∃ c cs, v.name_pascalcase = c :: cs ∧ isUpperAZ c = true) ∧
    (∀ c ∈ v.name_pascalcase, isLower c = true ∨ isUpperAZ c = true ∨ isDigit c = true) ∧
    (∀ x ∈ [v.name_lowercase, v.name_lowercase_underscore, v.name_uppercase, v.name_pascalcase],
      NoOb x ∧ '}' ∉ x) :=
  names_consistent ((name_accept_iff s).1 h) pubkey

/-! ## rendering -/

/-- `render_template` leaves none of its placeholders behind, for any shielded template and any values
without `{` — in particular … -/
theorem render_total (v : TemplateValues) (t : List Char) (ht : shielded t = true)
    (hv : ∀ x ∈ Generated.placeholderValues v, NoOb x) :
    ∀ p ∈ Generated.placeholderPatterns, ¬ (p <:+: render v t) :=
  render_no_placeholder v t ht hv

/-- … for every template of the project, every accepted name and every public key without `{`
(base58 has none): no placeholder is left in any generated file. -/
theorem no_placeholder_left {s : Name} (h : accepted (validateName s) = true) (pubkey : List Char)
    (hpk : NoOb pubkey) :
    ∀ f ∈ Generated.projectFiles, ∀ p ∈ Generated.placeholderPatterns,
      ¬ (p <:+: render (TemplateValues.new s pubkey) f.2) := by
  intro f hf
  have hsh : shielded f.2 = true := by
    have := templates_shielded
    rw [List.all_eq_true] at this
    exact this f hf
  apply render_total _ _ hsh
  have hc := (accepted_names_consistent h pubkey).2.2.2.2.2.2.2.2.2
  intro x hx
  simp only [Generated.placeholderValues, List.mem_cons, List.not_mem_nil, or_false] at hx
  rcases hx with h1 | h1 | h1 | h1 | h1
  · rw [h1]; exact (hc _ (by simp)).1
  · rw [h1]; exact (hc _ (by simp)).1
  · rw [h1]; exact (hc _ (by simp)).1
  · rw [h1]; exact (hc _ (by simp)).1
  · rw [h1]; exact hpk

/-! ## scaffolding -/

/-- **All-or-nothing.** For every well-formed filesystem, every fault plan `flt : Cls → Nat → Option Errno` — any
number of failing `mkdir`/`openat`/`write`/`rename` calls, at any positions, each with ANY error value
(`Errno` = `EEXIST`, `ENOENT`, `EINTR` or `other code` for every other errno number: the error value is a
parameter of every step failure, so this is "for every step and every error kind") —, every keypair and every
staging-name sequence distinct from the target: `scaffold_project` either returns `Ok`, the target was
absent and now holds exactly the complete project tree and nothing else changed (so no staging
directory remains) — or it returns `Err` and the filesystem is exactly what it was. -/
theorem scaffold_all_or_nothing (flt : Fault) (keys : Keys) (stg : Nat → Name) (name : Name) (w : World)
    (hwf : WF w.fs) (hstg : ∀ k, stg k ≠ name) :
    ((scaffoldProject flt keys stg name w).2 = .ok ∧ w.fs [name] = none ∧
      (scaffoldProject flt keys stg name w).1.fs = graft w.fs name (projectTree name keys)) ∨
    ((scaffoldProject flt keys stg name w).2 = .err ∧ (scaffoldProject flt keys stg name w).1.fs = w.fs) :=
  scaffold_spec flt keys stg name w hwf hstg

/-- An existing target — file, directory (empty or not), symlink, dangling symlink — is never modified, and
neither is anything else, under any fault plan (`scaffold_project` level: `name` is the validated name). -/
theorem existing_target_untouched_scaffold (flt : Fault) (keys : Keys) (stg : Nat → Name) (name : Name) (w : World)
    (hwf : WF w.fs) (hstg : ∀ k, stg k ≠ name) (hex : w.fs [name] ≠ none) :
    (scaffoldProject flt keys stg name w).2 = .err ∧ (scaffoldProject flt keys stg name w).1.fs = w.fs := by
  rcases scaffold_spec flt keys stg name w hwf hstg with ⟨_, h, _⟩ | h
  · exact absurd h hex
  · exact h

/-- The same for the whole command, over the RAW argument: the existence test, the staging name and the
final rename all concern the TRIMMED name. Whatever the spelling of the argument (padding included), if
anything exists at `trim raw` the command fails and the working directory is exactly what it was. -/
theorem existing_target_untouched (flt : Fault) (keys : Keys) (stg : Name → Nat → Name) (raw : List Char)
    (w : World) (hwf : WF w.fs) (hstg : ∀ n k, stg n k ≠ n) (hex : w.fs [trim raw] ≠ none) :
    (newProject flt keys stg raw w).2 = .err ∧ (newProject flt keys stg raw w).1.fs = w.fs := by
  rcases newProject_spec flt keys stg raw w hwf hstg with ⟨n, hv, hnone, _, _⟩ | h
  · rw [arg_accepted_name hv] at hnone; exact absurd hnone hex
  · exact h

/-- Conversely an entry at the raw, untrimmed spelling is none of the command's business: the only paths
that can change are those below the trimmed name. -/
theorem raw_spelling_irrelevant (flt : Fault) (keys : Keys) (stg : Name → Nat → Name) (raw : List Char)
    (w : World) (hwf : WF w.fs) (hstg : ∀ n k, stg n k ≠ n) (q : Path) (hq : q.head? ≠ some (trim raw)) :
    (newProject flt keys stg raw w).1.fs q = w.fs q := by
  rcases newProject_spec flt keys stg raw w hwf hstg with ⟨n, hv, _, _, hfs⟩ | ⟨_, hfs⟩
  · rw [hfs, arg_accepted_name hv]
    cases q with
    | nil => rfl
    | cons c r =>
      have hc : c ≠ trim raw := by simpa using hq
      simp [graft, hc]
  · rw [hfs]

/-- The complete tree: the declared program id and the keypair file come from the same keypair; every
template is rendered at its path with the values of the name; directories are the ancestors. -/
theorem complete_tree_contents (name : Name) (keys : Keys) :
    projectTree name keys [] = some .dir ∧
    projectTree name keys (keypairRel name) = some (.file keys.json) ∧
    (∀ f ∈ Generated.projectFiles,
      projectTree name keys f.1 = some (.file (render (TemplateValues.new name keys.pubkey) f.2))) ∧
    (∀ d ∈ Generated.projectDirs, projectTree name keys d = some .dir) :=
  projectTree_contents name keys

/-- The whole command: whatever happens, the working directory is either untouched (exit status 1) or
holds the complete project under the trimmed, accepted name; status `ok` implies the latter. A
panicking `println!` after the rename (status `panic`) is the only way to get a non-zero status with
the project in place. -/
theorem new_project_all_or_nothing (flt : Fault) (keys : Keys) (stg : Name → Nat → Name) (arg : List Char)
    (w : World) (hwf : WF w.fs) (hstg : ∀ n k, stg n k ≠ n) :
    (∃ n, validateArg arg = .ok n ∧ w.fs [n] = none ∧ (newProject flt keys stg arg w).2 ≠ .err ∧
      (newProject flt keys stg arg w).1.fs = graft w.fs n (projectTree n keys)) ∨
    ((newProject flt keys stg arg w).2 = .err ∧ (newProject flt keys stg arg w).1.fs = w.fs) :=
  newProject_spec flt keys stg arg w hwf hstg

/-! ## non-vacuity -/

example : accepted (validateName "counter-program".toList) = true := by decide
example : accepted (validateName "counter--program".toList) = false := by decide
example : accepted (validateName "counter_".toList) = false := by decide
example : accepted (validateName "fn".toList) = false := by decide
example : accepted (validateName "Counter".toList) = false := by decide
example : validateArg " a-b2\t".toList = .ok "a-b2".toList := by rfl
example : NameOk "a1-b".toList := (name_accept_iff _).1 (by decide)
example : ¬ NameOk "a-".toList := fun h => by
  have := (name_accept_iff _).2 h; revert this; decide
example : (TemplateValues.new "a2b-cd_e".toList []).name_pascalcase = "A2BCdE".toList := by decide
example : render (TemplateValues.new "ab".toList "PK".toList) "x {name_lowercase}/{pubkey} {name_pascalcase}Error {}".toList
    = "x ab/PK AbError {}".toList := by decide
-- a template that is NOT shielded really can keep a placeholder (the hypothesis of `render_total` is needed)
example : render (TemplateValues.new "name".toList "PK".toList) "{{name_lowercase}_lowercase}".toList
    = "{name_lowercase}".toList := by decide
example : shielded "{{name_lowercase}_lowercase}".toList = false := by decide

/-- A clean run on an empty directory succeeds (the `ok` branch of the theorem is inhabited) … -/
example : (scaffoldProject (fun _ _ => none) ⟨"PK".toList, "[1]".toList⟩ (fun k => '.' :: (toString k).toList)
    "ab".toList { fs := fun _ => none }).2 = .ok := by decide +kernel
/-- … a failing 5th `openat` gives `err` (the `err` branch is inhabited), and so does a dangling symlink. -/
example : (scaffoldProject (fun c k => if c = .openat ∧ k = 5 then some (.other 28) else none) ⟨"PK".toList, "[1]".toList⟩
    (fun k => '.' :: (toString k).toList) "ab".toList { fs := fun _ => none }).2 = .err := by decide +kernel
example : (scaffoldProject (fun _ _ => none) ⟨"PK".toList, "[1]".toList⟩ (fun k => '.' :: (toString k).toList)
    "ab".toList { fs := upd (fun _ => none) ["ab".toList] (.symlink false) }).2 = .err := by decide +kernel
/-- An injected `EEXIST` on the first staging `mkdir` is retried with the next candidate and still succeeds. -/
example : (scaffoldProject (fun c k => if c = .mkdir ∧ k = 1 then some .eexist else none) ⟨"PK".toList, "[1]".toList⟩
    (fun k => '.' :: (toString k).toList) "ab".toList { fs := fun _ => none }).2 = .ok := by decide +kernel
example : WF (fun _ => none) := fun _ _ h => absurd rfl h
/-- `EEXIST` / `ENOTEMPTY` (39) at the final rename: still `err`, still cleaned up (the round-5 seeded change broke this). -/
example : (scaffoldProject (fun c k => if c = .rename ∧ k = 1 then some .eexist else none) ⟨"PK".toList, "[1]".toList⟩
    (fun k => '.' :: (toString k).toList) "ab".toList { fs := fun _ => none }).2 = .err := by decide +kernel
example : (scaffoldProject (fun c k => if c = .rename ∧ k = 1 then some (.other 39) else none) ⟨"PK".toList, "[1]".toList⟩
    (fun k => '.' :: (toString k).toList) "ab".toList { fs := fun _ => none }).2 = .err := by decide +kernel
/-- An `EINTR` on an `openat` or a `write` is retried by std and the scaffold still succeeds. -/
example : (scaffoldProject (fun c k => if (c = .openat ∧ k = 3) ∨ (c = .write ∧ k = 7) then some .eintr else none)
    ⟨"PK".toList, "[1]".toList⟩ (fun k => '.' :: (toString k).toList) "ab".toList { fs := fun _ => none }).2 = .ok := by
  decide +kernel
/-- Padded argument, EMPTY directory at the trimmed name: refused (hypothesis of `existing_target_untouched` inhabited). -/
example : (newProject (fun _ _ => none) ⟨"PK".toList, "[1]".toList⟩ (fun n k => '.' :: n ++ (toString k).toList)
    " ab\t".toList { fs := upd (fun _ => none) ["ab".toList] .dir }).2 = .err := by decide +kernel
/-- Padded argument, directory at the RAW spelling only: the project is created under the trimmed name. -/
example : (newProject (fun _ _ => none) ⟨"PK".toList, "[1]".toList⟩ (fun n k => '.' :: n ++ (toString k).toList)
    " ab".toList { fs := upd (fun _ => none) [" ab".toList] .dir }).2 = .ok := by decide +kernel

end Cli.C20
