import Derive.ReprLemmas
import Derive.ZeroCopy
/-!
# Helper lemmas for the C19 property theorems
-/
namespace Derive

theorem maxl_le {l : List Nat} {k : Nat} (h : ∀ a ∈ l, a ≤ k) : maxl l ≤ k := by
  induction l with
  | nil => simp [maxl]
  | cons a t ih =>
    simp only [maxl]
    have h1 := h a (by simp)
    have h2 := ih (fun x hx => h x (by simp [hx]))
    omega

theorem rustcRepr_fields {hs : List Hint} {rr : RRepr} (h : rustcRepr hs = some rr) :
    rr.c = hasC hs ∧ rr.transparent = hasTransparent hs ∧ rr.int = (intsOf hs).head? ∧
    rr.pack = (packsOf hs).head? ∧ rr.align = max 1 (maxl (alignsOf hs)) ∧
    (hasTransparent hs = true → hs.length ≤ 1) := by
  unfold rustcRepr at h
  split at h; · cases h
  split at h; · cases h
  split at h; · cases h
  split at h; · cases h
  split at h; · cases h
  split at h; · cases h
  rename_i h1 _ _ _ _ _
  injection h with h
  subst h
  refine ⟨rfl, rfl, rfl, rfl, rfl, ?_⟩
  intro ht
  simp [ht] at h1
  exact h1

theorem transparent_no_pack {hs : List Hint} (ht : hasTransparent hs = true) (hl : hs.length ≤ 1) :
    packsOf hs = [] := by
  match hs, hl with
  | [], _ => rfl
  | [h], _ =>
    cases h <;> simp [hasTransparent] at ht <;> simp [packsOf]

/-- no `align(N > 1)` in the macro's view ⇒ rustc's alignment request is 1 -/
theorem align_eq_one_of_not_gt1 {r : Representation} {hs : List Hint} {rr : RRepr}
    (inv : Inv r hs) (hr : rustcRepr hs = some rr) (hgt : r.alignGt1 = false) : rr.align = 1 := by
  obtain ⟨_, _, _, _, ha, _⟩ := rustcRepr_fields hr
  rw [ha]
  have : maxl (alignsOf hs) ≤ 1 := by
    apply maxl_le
    obtain ⟨repr, modifier⟩ := r
    rcases modifier with _ | (n | n)
    · have := (inv.nomod rfl).2; simp [this]
    · have := (inv.packed n rfl).2.2; simp [this]
    · have h2 := (inv.align n rfl).2
      simp [Representation.alignGt1] at hgt
      intro a ha; have := h2 a ha; omega
  omega

/-- the macro's "is packed" ⇒ rustc packs to 1 -/
theorem pack_one_of_isPacked {r : Representation} {hs : List Hint} {rr : RRepr}
    (inv : Inv r hs) (hr : rustcRepr hs = some rr) (hp : r.isPacked = true) : rr.pack = some 1 := by
  obtain ⟨_, _, _, hpk, _, _⟩ := rustcRepr_fields hr
  rw [hpk]
  simp [Representation.isPacked] at hp
  obtain ⟨hne, hall, _⟩ := inv.packed 1 hp
  cases hps : packsOf hs with
  | nil => exact absurd hps hne
  | cons p ps => simp; exact hall p (by simp [hps])

theorem fieldsAlign_pack_one (fs : List FTy) : fieldsAlign (some 1) fs = 1 := by
  unfold fieldsAlign
  have : maxl (fs.map (fun f => effAlign (some 1) f.align)) ≤ 1 := by
    apply maxl_le
    intro a ha
    simp [effAlign] at ha
    obtain ⟨f, _, rfl⟩ := ha
    omega
  omega

theorem fieldsAlign_all_one {pack : Option Nat} {fs : List FTy} (h : ∀ f ∈ fs, f.align = 1) :
    fieldsAlign pack fs = 1 := by
  unfold fieldsAlign
  have : maxl (fs.map (fun f => effAlign pack f.align)) ≤ 1 := by
    apply maxl_le
    intro a ha
    simp at ha
    obtain ⟨f, hf, rfl⟩ := ha
    have := h f hf
    cases pack <;> simp [effAlign, this]
    omega
  omega

theorem Field.inst_sound {f : Field} {x : FTy} (hf : ∀ t, f = .conc t → t.Sound) (hx : x.Sound)
    (hb : f.boundHolds x = true) : (f.inst x).align = 1 := by
  cases f with
  | conc t => exact hf t rfl (by simpa [Field.boundHolds] using hb)
  | param => exact hx (by simpa [Field.boundHolds] using hb)
  | arr n => simp [Field.inst, FTy.array]; exact hx (by simpa [Field.boundHolds] using hb)
  | phantomT => rfl

theorem Field.inst_noparam {f : Field} (x y : FTy) (h : f.usesParam = false) : f.inst x = f.inst y := by
  cases f <;> simp_all [Field.usesParam, Field.inst]

theorem Decl.inst_noparam (d : Decl) (x y : FTy) (h : d.usesParam = false) : d.inst x = d.inst y := by
  simp only [Decl.usesParam, Decl.allFields, List.any_eq_false, List.mem_append,
    List.mem_flatten] at h
  have h1 : ∀ f ∈ d.fields, f.usesParam = false := fun f hf => by
    have := h f (Or.inl hf); simpa using this
  have h2 : ∀ v ∈ d.variants, ∀ f ∈ v, f.usesParam = false := fun v hv f hf => by
    have := h f (Or.inr ⟨v, hv, hf⟩); simpa using this
  simp only [Decl.inst, CDecl.mk.injEq, true_and]
  constructor
  · apply List.map_congr_left
    intro f hf; exact Field.inst_noparam x y (h1 f hf)
  · apply List.map_congr_left
    intro v hv
    apply List.map_congr_left
    intro f hf; exact Field.inst_noparam x y (h2 v hv f hf)

theorem structLayout_align {rr : RRepr} {fs : List FTy} {l : Layout}
    (hl : structLayout rr fs = some l) (ha : rr.align = 1)
    (h : (rr.pack = some 1 ∧ rr.transparent = false) ∨ (∀ f ∈ fs, f.align = 1)) : l.align = 1 := by
  unfold structLayout at hl
  split at hl; · cases hl
  split at hl; · cases hl
  split at hl
  · rename_i htr
    rcases h with ⟨_, h⟩ | h
    · simp [h] at htr
    · split at hl
      · injection hl with hl; subst hl; rfl
      · rename_i f hfil
        injection hl with hl; subst hl
        have : f ∈ fs.filter FTy.nonTrivial := by simp [hfil]
        exact h f (List.mem_filter.mp this).1
      · cases hl
  · injection hl with hl; subst hl
    have : fieldsAlign rr.pack fs = 1 := by
      rcases h with ⟨h, _⟩ | h
      · rw [h]; exact fieldsAlign_pack_one fs
      · exact fieldsAlign_all_one h
    simp [this, ha]

theorem unionLayout_align {rr : RRepr} {fs : List FTy} {l : Layout}
    (hl : unionLayout rr fs = some l) (ha : rr.align = 1)
    (h : rr.pack = some 1 ∨ (∀ f ∈ fs, f.align = 1)) : l.align = 1 := by
  unfold unionLayout at hl
  split at hl; · cases hl
  split at hl; · cases hl
  split at hl; · cases hl
  split at hl; · cases hl
  injection hl with hl; subst hl
  have : fieldsAlign rr.pack fs = 1 := by
    rcases h with h | h
    · rw [h]; exact fieldsAlign_pack_one fs
    · exact fieldsAlign_all_one h
  simp [this, ha]

/-- `derive_align1_for_struct` is sound. -/
theorem align1_sound_struct (d : Decl) (x : FTy) (l : Layout) (hk : d.kind ≠ .enum)
    (hf : ∀ f ∈ d.fields, ∀ t, f = .conc t → t.Sound) (hx : x.Sound)
    (hacc : deriveAlign1Struct d = .accept) (himpl : align1Holds d x = true)
    (hl : rustcLayout (d.inst x) = some l) : l.align = 1 := by
  unfold deriveAlign1Struct at hacc
  cases hg : getRepr d.attrs with
  | none => simp [hg] at hacc
  | some r =>
    simp only [hg] at hacc
    have inv := Inv.getRepr hg
    have hgt : r.alignGt1 = false := by
      cases h : r.alignGt1 <;> simp [h] at hacc ⊢
    unfold rustcLayout at hl
    simp only [Decl.inst] at hl
    cases hr : rustcRepr d.attrs.flatten with
    | none => simp [hr] at hl
    | some rr =>
      simp only [hr] at hl
      have hal := align_eq_one_of_not_gt1 inv hr hgt
      -- either packed(1), or every instantiated field has alignment 1
      have hcase : (rr.pack = some 1 ∧ rr.transparent = false) ∨
          (∀ f ∈ d.fields.map (Field.inst x), f.align = 1) := by
        cases hp : r.isPacked with
        | true =>
          left
          have hpk := pack_one_of_isPacked inv hr hp
          refine ⟨hpk, ?_⟩
          obtain ⟨_, htr, _, hpk', _, hlen⟩ := rustcRepr_fields hr
          cases ht : hasTransparent d.attrs.flatten with
          | false => rw [htr, ht]
          | true =>
            have := transparent_no_pack ht (hlen ht)
            rw [hpk', this] at hpk
            simp at hpk
        | false =>
          right
          have hall : d.fields.all (Field.boundHolds x) = true := by
            have : align1Holds d x = true := himpl
            unfold align1Holds at this
            cases hkk : d.kind <;> simp [hkk, hg, hp] at this hk ⊢ <;> exact this
          intro f hfm
          obtain ⟨g, hg1, rfl⟩ := List.mem_map.mp hfm
          exact Field.inst_sound (hf g hg1) hx (List.all_eq_true.mp hall g hg1)
      cases hkk : d.kind with
      | enum => exact absurd hkk hk
      | struct =>
        simp only [hkk] at hl
        exact structLayout_align hl hal hcase
      | tuple =>
        simp only [hkk] at hl
        exact structLayout_align hl hal hcase
      | union =>
        simp only [hkk] at hl
        exact unionLayout_align hl hal (hcase.imp (·.1) id)

/-- `derive_align1_for_enum` is sound. -/
theorem align1_sound_enum (d : Decl) (x : FTy) (l : Layout) (hk : d.kind = .enum) (hwf : d.WF)
    (hacc : deriveAlign1Enum d = .accept) (hl : rustcLayout (d.inst x) = some l) : l.align = 1 := by
  unfold deriveAlign1Enum at hacc
  cases hg : getRepr d.attrs with
  | none => simp [hg] at hacc
  | some r =>
    simp only [hg] at hacc
    have inv := Inv.getRepr hg
    by_cases hrep : r.repr = .int .u8
    case neg => simp [hrep] at hacc
    simp only [hrep, ne_eq, not_true_eq_false, ↓reduceIte] at hacc
    have hgt : r.alignGt1 = false := by
      cases h : r.alignGt1 <;> simp [h] at hacc ⊢
    simp only [hgt, Bool.false_eq_true, ↓reduceIte] at hacc
    cases hdata : d.variants.any (fun v => !v.isEmpty) with
    | true =>
      -- the static assertion decides
      simp only [hdata, ↓reduceIte] at hacc
      cases hgen : d.generic with
      | true => simp [hgen] at hacc
      | false =>
        simp only [hgen, Bool.false_eq_true, ↓reduceIte] at hacc
        have hnp := hwf hgen
        rw [Decl.inst_noparam d x .opaque hnp] at hl
        rw [hl] at hacc
        by_cases h1 : l.align = 1
        · exact h1
        · simp [h1] at hacc
    | false =>
      -- unit-only enum with repr(u8)
      unfold rustcLayout at hl
      simp only [Decl.inst, hk] at hl
      cases hr : rustcRepr d.attrs.flatten with
      | none => simp [hr] at hl
      | some rr =>
        simp only [hr] at hl
        have hal := align_eq_one_of_not_gt1 inv hr hgt
        obtain ⟨hc, htr, hint, _, _, _⟩ := rustcRepr_fields hr
        have hints := inv.ints
        have hcc := inv.c
        have htt := inv.transparent
        simp only [hrep] at hints hcc htt
        rw [hints] at hint
        rw [hcc] at hc
        rw [htt] at htr
        have hunit : ∀ v ∈ d.variants, v = [] := by
          intro v hv
          have := List.any_eq_false.mp hdata v hv
          simpa using this
        unfold enumLayout at hl
        split at hl; · cases hl
        split at hl
        · split at hl
          · cases hl
          · injection hl with hl; subst hl; rfl
        · split at hl; · cases hl
          simp only [hint, List.head?_cons, hc, Bool.false_and, Bool.false_eq_true, ↓reduceIte] at hl
          injection hl with hl; subst hl
          have : maxl ((d.variants.map (fun v => v.map (Field.inst x))).map
              (fun v => fieldsAlign none (tagTy .u8 :: v))) ≤ 1 := by
            apply maxl_le
            intro a ha
            simp only [List.map_map, List.mem_map, Function.comp] at ha
            obtain ⟨v, hv, rfl⟩ := ha
            rw [hunit v hv]
            simp [fieldsAlign, maxl, effAlign, tagTy, IntTy.size]
          simp only
          omega

/-! ## padding -/

theorem roundUp_one (n : Nat) : roundUp n 1 = n := by simp [roundUp]

def AlignPos (fs : List FTy) : Prop := ∀ f ∈ fs, 0 < f.align

theorem cEnd_pack_one {fs : List FTy} (hp : AlignPos fs) (off : Nat) :
    cEnd (some 1) fs off = off + sumSizes fs := by
  induction fs generalizing off with
  | nil => simp [cEnd, sumSizes]
  | cons f t ih =>
    have h1 : 0 < f.align := hp f (by simp)
    have h2 : AlignPos t := fun g hg => hp g (by simp [hg])
    have : effAlign (some 1) f.align = 1 := by simp [effAlign]; omega
    simp only [cEnd, this, roundUp_one, ih h2]
    simp [sumSizes]; omega

theorem cOffsets_pack_one {fs : List FTy} (hp : AlignPos fs) (off : Nat) :
    cOffsets (some 1) fs off = (List.range fs.length).map (fun i => off + sumSizes (fs.take i)) := by
  induction fs generalizing off with
  | nil => simp [cOffsets]
  | cons f t ih =>
    have h1 : 0 < f.align := hp f (by simp)
    have h2 : AlignPos t := fun g hg => hp g (by simp [hg])
    have : effAlign (some 1) f.align = 1 := by simp [effAlign]; omega
    simp only [cOffsets, this, roundUp_one, ih h2, List.length_cons, List.range_succ_eq_map,
      List.map_cons, List.map_map]
    refine List.cons_eq_cons.mpr ⟨?_, ?_⟩
    · simp [sumSizes]
    · apply List.map_congr_left
      intro i _
      simp [sumSizes]; omega

/-- packed(1), not transparent, no alignment request: size = Σ field sizes. -/
theorem structLayout_packed_pad {rr : RRepr} {fs : List FTy} {l : Layout}
    (hl : structLayout rr fs = some l) (hp : AlignPos fs) (hpk : rr.pack = some 1)
    (htr : rr.transparent = false) (hal : rr.align = 1) :
    l.pad = 0 ∧ l.align = 1 ∧ l.size = sumSizes fs := by
  unfold structLayout at hl
  split at hl; · cases hl
  split at hl; · cases hl
  simp only [htr, Bool.false_eq_true, ↓reduceIte] at hl
  injection hl with hl; subst hl
  have h1 : fieldsAlign rr.pack fs = 1 := by rw [hpk]; exact fieldsAlign_pack_one fs
  have h2 : (if rr.c = true then cEnd rr.pack fs 0 else sumSizes fs) = sumSizes fs := by
    split
    · rw [hpk, cEnd_pack_one hp]; simp
    · rfl
  simp [h1, hal, h2, roundUp_one]

/-! ## `get_repr` keeps a leading / trailing `#[repr(C, packed)]` -/

theorem getReprFrom_keeps_packed {as : List (List Hint)} :
    ∀ {acc r : Representation} {n : Nat}, getReprFrom acc as = some r →
      acc.modifier = some (.packed n) → acc.repr = .c →
      r.modifier = some (.packed n) ∧ r.repr = .c := by
  induction as with
  | nil => intro acc r n h hm hb; simp [getReprFrom] at h; subst h; exact ⟨hm, hb⟩
  | cons a t ih =>
    intro acc r n h hm hb
    simp only [getReprFrom] at h
    cases hp : parseAttr a with
    | none => simp [hp] at h
    | some ra =>
      simp only [hp] at h
      cases hc : combine acc ra with
      | none => simp [hc] at h
      | some acc' =>
        simp only [hc] at h
        have : acc'.modifier = some (.packed n) ∧ acc'.repr = .c := by
          obtain ⟨b1, m1⟩ := acc
          obtain ⟨b2, m2⟩ := ra
          simp only at hm hb
          subst hm hb
          simp only [combine] at hc
          cases b2 <;> simp [combineBase] at hc
          rcases m2 with _ | (b | b)
          · simp [combineMod] at hc; subst hc; exact ⟨rfl, rfl⟩
          · by_cases hnb : n = b
            · simp [combineMod, hnb] at hc; subst hc; subst hnb; exact ⟨rfl, rfl⟩
            · simp [combineMod, hnb] at hc
          · simp [combineMod] at hc
        exact ih h this.1 this.2

theorem parseAttr_c_packed : parseAttr [.c, .packed 1] = some ⟨.c, some (.packed 1)⟩ := by
  decide

theorem parseAttr_c : parseAttr [.c] = some ⟨.c, none⟩ := by decide

theorem getRepr_leading_packed {as : List (List Hint)} {r : Representation}
    (h : getRepr ([.c, .packed 1] :: as) = some r) : r.modifier = some (.packed 1) ∧ r.repr = .c := by
  simp only [getRepr, getReprFrom, parseAttr_c_packed] at h
  have hc : combine Representation.default ⟨.c, some (.packed 1)⟩ = some ⟨.c, some (.packed 1)⟩ := by
    decide
  simp only [hc] at h
  exact getReprFrom_keeps_packed h rfl rfl

theorem getReprFrom_append {as : List (List Hint)} {b : List Hint} :
    ∀ {acc r : Representation}, getReprFrom acc (as ++ [b]) = some r →
      ∃ r1 rb, getReprFrom acc as = some r1 ∧ parseAttr b = some rb ∧ combine r1 rb = some r := by
  induction as with
  | nil =>
    intro acc r h
    simp only [List.nil_append, getReprFrom] at h
    cases hp : parseAttr b with
    | none => simp [hp] at h
    | some rb =>
      simp only [hp] at h
      cases hc : combine acc rb with
      | none => simp [hc] at h
      | some acc' =>
        simp [hc] at h; subst h
        exact ⟨acc, rb, rfl, rfl, hc⟩
  | cons a t ih =>
    intro acc r h
    simp only [List.cons_append, getReprFrom] at h ⊢
    cases hp : parseAttr a with
    | none => simp [hp] at h
    | some ra =>
      simp only [hp] at h ⊢
      cases hc : combine acc ra with
      | none => simp [hc] at h
      | some acc' =>
        simp only [hc] at h ⊢
        exact ih h

theorem getRepr_trailing_packed {as : List (List Hint)} {r : Representation}
    (h : getRepr (as ++ [[.c, .packed 1]]) = some r) : r.modifier = some (.packed 1) ∧ r.repr = .c := by
  obtain ⟨r1, rb, _, hp, hc⟩ := getReprFrom_append h
  rw [parseAttr_c_packed] at hp
  injection hp with hp; subst hp
  obtain ⟨b1, m1⟩ := r1
  simp only [combine] at hc
  cases b1 <;> simp [combineBase] at hc
  rcases m1 with _ | (a | a)
  · simp [combineMod] at hc; subst hc; exact ⟨rfl, rfl⟩
  · by_cases ha : a = 1
    · simp [combineMod, ha] at hc; subst hc; exact ⟨rfl, rfl⟩
    · simp [combineMod, ha] at hc
  · simp [combineMod] at hc

/-- Consequence for rustc's view: packs to 1, not transparent, no alignment request. -/
theorem rustc_view_of_c_packed {attrs : List (List Hint)} {r : Representation} {rr : RRepr}
    (hg : getRepr attrs = some r) (hm : r.modifier = some (.packed 1)) (hb : r.repr = .c)
    (hr : rustcRepr attrs.flatten = some rr) :
    rr.pack = some 1 ∧ rr.transparent = false ∧ rr.align = 1 := by
  have inv := Inv.getRepr hg
  have hp : r.isPacked = true := by simp [Representation.isPacked, hm]
  have hgt : r.alignGt1 = false := by simp [Representation.alignGt1, hm]
  refine ⟨pack_one_of_isPacked inv hr hp, ?_, align_eq_one_of_not_gt1 inv hr hgt⟩
  obtain ⟨_, htr, _⟩ := rustcRepr_fields hr
  rw [htr, inv.transparent, hb]

end Derive
