import Derive.Repr
/-!
# C19 — `#[derive(Align1)]` (`star_frame_proc/src/align1.rs`)

`deriveAlign1` decides exactly as `derive_align1_impl` + the compiler's check of the generated code:
the macro's own `abort!`s, the `where` clause `FieldTy: Align1` it adds for every field unless the
repr is exactly `packed(1)` (a bound on a concrete type that does not hold is a compile error; a bound
mentioning the type parameter is deferred to the use site), and `assert_eq_align!(T, u8)` for enums
with data.
-/
namespace Derive

inductive Verdict
  | accept | reject
  deriving DecidableEq, Repr

/-- The generated bound `ty: Align1` as checked where the impl is *defined*. -/
def Field.boundOkAtDef : Field → Bool
  | .conc t => t.a1
  | _ => true

/-- The generated bound `ty: Align1` for the instantiation `T := x`
(`[T; N]: Align1 where T: Align1`, `PhantomData<T>: Align1`). -/
def Field.boundHolds (x : FTy) : Field → Bool
  | .conc t => t.a1
  | .param => x.a1
  | .arr _ => x.a1
  | .phantomT => true

/-- `derive_align1_for_struct` (structs, tuple structs and — via `Fields::Named` — unions). -/
def deriveAlign1Struct (d : Decl) : Verdict :=
  match getRepr d.attrs with
  | none => .reject
  | some r =>
    if r.alignGt1 then .reject                       -- "Align1 cannot be derived with repr(align(N))"
    else if r.isPacked then .accept                  -- unconditional impl
    else if d.fields.all Field.boundOkAtDef then .accept else .reject

/-- `derive_align1_for_enum`. -/
def deriveAlign1Enum (d : Decl) : Verdict :=
  match getRepr d.attrs with
  | none => .reject
  | some r =>
    if r.repr ≠ .int .u8 then .reject                -- "Align1 requires repr(u8) for enums"
    else if r.alignGt1 then .reject
    else if d.variants.any (fun v => !v.isEmpty) then
      if d.generic then .reject                      -- "Align1 does not support generic enums with data"
      else
        -- `assert_eq_align!(T, u8)`
        match rustcLayout (d.inst .opaque) with
        | some l => if l.align = 1 then .accept else .reject
        | none => .reject
    else .accept

def deriveAlign1 (d : Decl) : Verdict :=
  match d.kind with
  | .enum => deriveAlign1Enum d
  | _ => deriveAlign1Struct d

/-- Given that the derive was accepted: does `D<x>: Align1` hold? -/
def align1Holds (d : Decl) (x : FTy) : Bool :=
  match d.kind with
  | .enum => true
  | _ =>
    match getRepr d.attrs with
    | none => false
    | some r => r.isPacked || d.fields.all (Field.boundHolds x)

/-- The whole module compiles: the derive and the compiler's own rules for the declaration. -/
def acceptAlign1 (d : Decl) : Bool :=
  deriveAlign1 d == .accept && rustcDefOk d

end Derive
