import Derive.Repr
/-!
# Agreement of the two readers of `#[repr]`

If the macro's `get_repr` succeeds with `r`, the flattened hint list that rustc sees is described by
`r` (`Inv`): which `packed` / `align` / base hints occur.
-/
namespace Derive

theorem packsOf_append (a b : List Hint) : packsOf (a ++ b) = packsOf a ++ packsOf b := by
  induction a with
  | nil => rfl
  | cons h t ih => cases h <;> simp [packsOf, ih]

theorem alignsOf_append (a b : List Hint) : alignsOf (a ++ b) = alignsOf a ++ alignsOf b := by
  induction a with
  | nil => rfl
  | cons h t ih => cases h <;> simp [alignsOf, ih]

theorem intsOf_append (a b : List Hint) : intsOf (a ++ b) = intsOf a ++ intsOf b := by
  induction a with
  | nil => rfl
  | cons h t ih => cases h <;> simp [intsOf, ih]

theorem hasC_append (a b : List Hint) : hasC (a ++ b) = (hasC a || hasC b) := by
  simp [hasC]

theorem hasTransparent_append (a b : List Hint) :
    hasTransparent (a ++ b) = (hasTransparent a || hasTransparent b) := by
  simp [hasTransparent]

/-- What a successful parse says about the hints seen so far. -/
structure Inv (r : Representation) (hs : List Hint) : Prop where
  packed : ∀ n, r.modifier = some (.packed n) →
    packsOf hs ≠ [] ∧ (∀ p ∈ packsOf hs, p = n) ∧ alignsOf hs = []
  align : ∀ n, r.modifier = some (.align n) → packsOf hs = [] ∧ ∀ a ∈ alignsOf hs, a ≤ n
  nomod : r.modifier = none → packsOf hs = [] ∧ alignsOf hs = []
  ints : intsOf hs = (match r.repr with | .int t => [t] | _ => [])
  c : hasC hs = (match r.repr with | .c => true | _ => false)
  transparent : hasTransparent hs = (match r.repr with | .transparent => true | _ => false)

theorem Inv.default : Inv Representation.default [] := by
  constructor <;> simp [Representation.default, packsOf, alignsOf, intsOf, hasC, hasTransparent]

macro "inv_close" : tactic =>
  `(tactic| (constructor <;>
      (try simp_all [packsOf_append, alignsOf_append, intsOf_append, hasC_append,
        hasTransparent_append, packsOf, alignsOf, intsOf, hasC, hasTransparent]) <;>
      (try grind)))

theorem Inv.step {r r' : Representation} {hs : List Hint} {h : Hint}
    (inv : Inv r hs) (hp : parseStep r h = some r') : Inv r' (hs ++ [h]) := by
  obtain ⟨ip, ia, inn, ii, ic, it⟩ := inv
  obtain ⟨repr, modifier⟩ := r
  cases h with
  | packed n =>
    simp only [parseStep] at hp
    cases modifier with
    | none =>
      simp at hp; subst hp
      have := inn rfl
      inv_close
    | some m =>
      cases m with
      | align a => simp at hp
      | packed s =>
        simp at hp
        obtain ⟨hs1, hs2⟩ := hp
        subst hs2
        have := ip s rfl
        inv_close
  | align n =>
    simp only [parseStep] at hp
    cases modifier with
    | none =>
      simp at hp; subst hp
      have := inn rfl
      inv_close
    | some m =>
      cases m with
      | packed s => simp at hp
      | align a =>
        simp at hp; subst hp
        have := ia a rfl
        inv_close
  | c =>
    simp only [parseStep] at hp
    cases repr <;> simp at hp
    subst hp
    inv_close
  | transparent =>
    simp only [parseStep] at hp
    cases repr <;> simp at hp
    subst hp
    inv_close
  | int t =>
    simp only [parseStep] at hp
    cases repr <;> simp at hp
    subst hp
    inv_close
  | rust => simp [parseStep] at hp

theorem Inv.parseFrom {l : List Hint} : ∀ {r r' : Representation} {hs : List Hint},
    Inv r hs → parseFrom r l = some r' → Inv r' (hs ++ l) := by
  induction l with
  | nil => intro r r' hs inv h; simp [Derive.parseFrom] at h; subst h; simpa using inv
  | cons a t ih =>
    intro r r' hs inv h
    simp only [Derive.parseFrom] at h
    cases hstep : parseStep r a with
    | none => simp [hstep] at h
    | some r1 =>
      simp [hstep] at h
      have := ih (inv.step hstep) h
      simpa using this

theorem Inv.parseAttr {l : List Hint} {r : Representation} (h : parseAttr l = some r) : Inv r l := by
  have := Inv.parseFrom Inv.default h
  simpa using this

theorem Inv.combine {r1 r2 r : Representation} {h1 h2 : List Hint}
    (i1 : Inv r1 h1) (i2 : Inv r2 h2) (hc : combine r1 r2 = some r) : Inv r (h1 ++ h2) := by
  obtain ⟨ip1, ia1, in1, ii1, ic1, it1⟩ := i1
  obtain ⟨ip2, ia2, in2, ii2, ic2, it2⟩ := i2
  obtain ⟨b1, m1⟩ := r1
  obtain ⟨b2, m2⟩ := r2
  simp only [Derive.combine] at hc
  cases hb : combineBase b1 b2 with
  | none => simp [hb] at hc
  | some rb =>
    cases hm : combineMod m1 m2 with
    | none => simp [hb, hm] at hc
    | some rm =>
      simp [hb, hm] at hc
      subst hc
      refine ⟨?_, ?_, ?_, ?_, ?_, ?_⟩
      · intro n hn
        simp only at hn ip1 ip2 ia1 ia2 in1 in2
        subst hn
        rcases m1 with _ | (a | a) <;> rcases m2 with _ | (b | b) <;>
          simp [combineMod] at hm <;> simp [packsOf_append, alignsOf_append] <;> grind
      · intro n hn
        simp only at hn ip1 ip2 ia1 ia2 in1 in2
        subst hn
        rcases m1 with _ | (a | a) <;> rcases m2 with _ | (b | b) <;>
          simp [combineMod] at hm <;> simp [packsOf_append, alignsOf_append] <;> grind
      · intro hn
        simp only at hn ip1 ip2 ia1 ia2 in1 in2
        subst hn
        rcases m1 with _ | (a | a) <;> rcases m2 with _ | (b | b) <;>
          simp [combineMod] at hm <;> simp [packsOf_append, alignsOf_append] <;> grind
      · simp only at ii1 ii2 ⊢
        cases b1 <;> cases b2 <;> simp [combineBase] at hb <;> subst hb <;>
          simp_all [intsOf_append]
      · simp only at ic1 ic2 ⊢
        cases b1 <;> cases b2 <;> simp [combineBase] at hb <;> subst hb <;>
          simp_all [hasC_append]
      · simp only at it1 it2 ⊢
        cases b1 <;> cases b2 <;> simp [combineBase] at hb <;> subst hb <;>
          simp_all [hasTransparent_append]

theorem Inv.getReprFrom {as : List (List Hint)} : ∀ {acc r : Representation} {hs : List Hint},
    Inv acc hs → getReprFrom acc as = some r → Inv r (hs ++ as.flatten) := by
  induction as with
  | nil => intro acc r hs inv h; simp [Derive.getReprFrom] at h; subst h; simpa using inv
  | cons a t ih =>
    intro acc r hs inv h
    simp only [Derive.getReprFrom] at h
    cases hp : Derive.parseAttr a with
    | none => simp [hp] at h
    | some ra =>
      simp only [hp] at h
      cases hc : Derive.combine acc ra with
      | none => simp [hc] at h
      | some acc' =>
        simp only [hc] at h
        have := ih (inv.combine (Inv.parseAttr hp) hc) h
        simpa using this

/-- **Agreement**: a successful `get_repr` describes the hint list rustc sees. -/
theorem Inv.getRepr {attrs : List (List Hint)} {r : Representation} (h : getRepr attrs = some r) :
    Inv r attrs.flatten := by
  have := Inv.getReprFrom Inv.default h
  simpa using this

end Derive
