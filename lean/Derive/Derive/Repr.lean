/-!
# C19 — repr hints: the macro's parser (`star_frame_proc/src/util/repr.rs`) and rustc's layout rules

Two independent readers of the same `#[repr(...)]` attributes are modelled here:

* `getRepr` — `util/repr.rs::get_repr` (`Representation::parse` per attribute, then the fold with its
  conflict rules); this is what `derive(Align1)` consults;
* `rustcRepr` / `rustcLayout` — what the compiler does with the flattened hint list: its own
  rejections (E0692, E0566, E0634, E0587, E0589, E0517, E0084, E0588, E0690, E0658, E0392) and the
  layout `(size, align, padding)` of the types it accepts, restricted to the declaration grammar.

Everything is a total computable function over plain data; the driver runs these definitions.
-/
namespace Derive

/-! ## Hints -/

inductive IntTy
  | u8 | i8 | u16 | i16 | u32 | i32 | u64 | i64 | u128 | i128 | usize | isize
  deriving DecidableEq, Repr

def IntTy.size : IntTy → Nat
  | .u8 | .i8 => 1
  | .u16 | .i16 => 2
  | .u32 | .i32 => 4
  | .u64 | .i64 | .usize | .isize => 8
  | .u128 | .i128 => 16

/-- One hint inside `#[repr(...)]`. `packed` without argument is `packed 1` (as in both parsers). -/
inductive Hint
  | rust                 -- the explicitly spelled default, `repr(Rust)`: known to rustc, NOT to the macro's parser
  | c
  | transparent
  | packed (n : Nat)
  | align (n : Nat)
  | int (t : IntTy)
  deriving DecidableEq, Repr

/-! ## `util/repr.rs` -/

/-- `util/repr.rs::Repr`. -/
inductive BaseRepr
  | rust | c | transparent | int (t : IntTy)
  deriving DecidableEq, Repr

/-- `util/repr.rs::Modifier`. -/
inductive Modifier
  | packed (n : Nat)
  | align (n : Nat)
  deriving DecidableEq, Repr

/-- `util/repr.rs::Representation`. -/
structure Representation where
  repr : BaseRepr
  modifier : Option Modifier
  deriving DecidableEq, Repr

def Representation.default : Representation := ⟨.rust, none⟩

/-- `Representation::is_packed`: *exactly* `packed(1)`. -/
def Representation.isPacked (r : Representation) : Bool :=
  r.modifier == some (.packed 1)

/-- `matches!(repr.modifier, Some(Modifier::Align(align)) if align > 1)`. -/
def Representation.alignGt1 (r : Representation) : Bool :=
  match r.modifier with
  | some (.align n) => decide (n > 1)
  | _ => false

def Hint.base? : Hint → Option BaseRepr
  | .c => some .c
  | .transparent => some .transparent
  | .int t => some (.int t)
  | _ => none

/-- One iteration of the `while !input.is_empty()` loop of `Representation::parse`
(`none` = `Err(...)`, which `get_repr` turns into `abort!`). -/
def parseStep (ret : Representation) : Hint → Option Representation
  | .packed n =>
    match ret.modifier with
    | some (.align _) => none                                   -- "duplicate representation hint"
    | some (.packed s) => if s ≠ n then none else some { ret with modifier := some (.packed n) }
    | none => some { ret with modifier := some (.packed n) }
  | .align n =>
    match ret.modifier with
    | some (.packed _) => none                                  -- "duplicate representation hint"
    | some (.align a) => some { ret with modifier := some (.align (max n a)) }
    | none => some { ret with modifier := some (.align (max n 1)) }
  | .c => match ret.repr with | .rust => some { ret with repr := .c } | _ => none
  | .transparent => match ret.repr with | .rust => some { ret with repr := .transparent } | _ => none
  | .int t => match ret.repr with | .rust => some { ret with repr := .int t } | _ => none
  | .rust => none                                                -- "unrecognized representation hint"

def parseFrom (ret : Representation) : List Hint → Option Representation
  | [] => some ret
  | h :: hs =>
    match parseStep ret h with
    | none => none
    | some r => parseFrom r hs

/-- `impl Parse for Representation`. -/
def parseAttr (hs : List Hint) : Option Representation := parseFrom .default hs

/-- `repr:` field of the closure of the `fold` in `get_repr`. -/
def combineBase : BaseRepr → BaseRepr → Option BaseRepr
  | a, .rust => some a
  | .rust, b => some b
  | _, _ => none                                       -- "conflicting representation hints"

/-- `modifier:` field of the closure of the `fold` in `get_repr`. -/
def combineMod : Option Modifier → Option Modifier → Option (Option Modifier)
  | some (.packed a), some (.packed b) => if a ≠ b then none else some (some (.packed a))
  | some (.align a), some (.align b) => some (some (.align (max a b)))
  | some _, some _ => none                             -- "conflicting representation hints"
  | a, none => some a
  | none, b => some b

/-- The closure of the `fold` in `get_repr`. -/
def combine (r1 r2 : Representation) : Option Representation :=
  match combineBase r1.repr r2.repr with
  | none => none
  | some repr =>
    match combineMod r1.modifier r2.modifier with
    | none => none
    | some modifier => some ⟨repr, modifier⟩

def getReprFrom (acc : Representation) : List (List Hint) → Option Representation
  | [] => some acc
  | a :: as =>
    match parseAttr a with
    | none => none
    | some r =>
      match combine acc r with
      | none => none
      | some acc' => getReprFrom acc' as

/-- `util/repr.rs::get_repr` (`none` = the macro aborts). -/
def getRepr (attrs : List (List Hint)) : Option Representation := getReprFrom .default attrs

/-! ## Field types and declarations -/

/-- What the model knows about a concrete field type. -/
structure FTy where
  size : Nat
  align : Nat
  /-- `ty: Align1` holds (impls of `star_frame/src/align1.rs`, or an earlier derive) -/
  a1 : Bool
  /-- the type (transitively) carries `#[repr(align(N))]` (rustc's E0588 when inside a packed type) -/
  reprAlign : Bool := false
  zeroable : Bool := true
  nouninit : Bool := true
  checked : Bool := true
  pod : Bool := true
  /-- `CheckedBitPattern::is_valid_bit_pattern` on the type's own bytes -/
  valid : List Nat → Bool := fun _ => true

/-- The marker is true of the type. -/
def FTy.Sound (t : FTy) : Prop := t.a1 = true → t.align = 1

/-- `PhantomData<_>`: a 1-ZST with every marker. -/
def FTy.phantom : FTy := { size := 0, align := 1, a1 := true }

/-- What a bare type parameter looks like to the definition-time checks of rustc: possibly not
zero-sized, no `repr(align)`. -/
def FTy.opaque : FTy := { size := 1, align := 1, a1 := true }

def chunksValid (v : List Nat → Bool) (sz : Nat) : Nat → List Nat → Bool
  | 0, _ => true
  | n + 1, bs => v (bs.take sz) && chunksValid v sz n (bs.drop sz)

/-- `[X; n]`. -/
def FTy.array (n : Nat) (x : FTy) : FTy :=
  { size := n * x.size, align := x.align, a1 := x.a1, reprAlign := x.reprAlign, zeroable := x.zeroable,
    nouninit := x.nouninit, checked := x.checked, pod := x.pod,
    valid := fun bs => chunksValid x.valid x.size n bs }

/-- A field of a (possibly generic) declaration. -/
inductive Field
  | conc (t : FTy)
  | param                 -- `T`
  | arr (n : Nat)         -- `[T; n]`
  | phantomT              -- `PhantomData<T>`

def Field.usesParam : Field → Bool
  | .conc _ => false
  | _ => true

def Field.inst (x : FTy) : Field → FTy
  | .conc t => t
  | .param => x
  | .arr n => .array n x
  | .phantomT => .phantom

inductive Kind
  | struct | tuple | union | enum
  deriving DecidableEq, Repr

/-- A declaration of the grammar. `fields` for struct / tuple struct / union, `variants` for enums
(a variant without fields is a unit variant). -/
structure Decl where
  kind : Kind
  generic : Bool
  attrs : List (List Hint)
  fields : List Field
  variants : List (List Field)

def Decl.allFields (d : Decl) : List Field := d.fields ++ d.variants.flatten

def Decl.usesParam (d : Decl) : Bool := d.allFields.any Field.usesParam

/-- Type parameters only occur in generic declarations (guaranteed by the op-line parser). -/
def Decl.WF (d : Decl) : Prop := d.generic = false → d.usesParam = false

/-- A monomorphic declaration: what the layout rules apply to. -/
structure CDecl where
  kind : Kind
  attrs : List (List Hint)
  fields : List FTy
  variants : List (List FTy)

def Decl.inst (d : Decl) (x : FTy) : CDecl :=
  { kind := d.kind, attrs := d.attrs, fields := d.fields.map (Field.inst x),
    variants := d.variants.map (fun v => v.map (Field.inst x)) }

/-! ## rustc: the flattened hint list -/

def packsOf : List Hint → List Nat
  | [] => []
  | .packed n :: hs => n :: packsOf hs
  | _ :: hs => packsOf hs

def alignsOf : List Hint → List Nat
  | [] => []
  | .align n :: hs => n :: alignsOf hs
  | _ :: hs => alignsOf hs

def intsOf : List Hint → List IntTy
  | [] => []
  | .int t :: hs => t :: intsOf hs
  | _ :: hs => intsOf hs

def hasC (hs : List Hint) : Bool := hs.any (· == .c)
def hasTransparent (hs : List Hint) : Bool := hs.any (· == .transparent)
def hasRust (hs : List Hint) : Bool := hs.any (· == .rust)

def maxl : List Nat → Nat
  | [] => 0
  | a :: l => max a (maxl l)

def allEq (n : Nat) (l : List Nat) : Bool := l.all (· == n)

/-- powers of two up to 2^29 (E0589 otherwise) -/
def pow2ok (n : Nat) : Bool :=
  [1, 2, 4, 8, 16, 32, 64, 128, 256, 512, 1024, 2048, 4096, 8192, 16384, 32768, 65536, 131072, 262144,
   524288, 1048576, 2097152, 4194304, 8388608, 16777216, 33554432, 67108864, 134217728, 268435456,
   536870912].contains n

/-- rustc's reading of all `#[repr]` attributes of an item. -/
structure RRepr where
  c : Bool
  transparent : Bool
  int : Option IntTy
  /-- `packed(n)` -/
  pack : Option Nat
  /-- largest `align(n)` (1 if none) -/
  align : Nat

def packsAgree : List Nat → Bool
  | [] => true
  | p :: ps => allEq p ps

/-- Item-kind independent checks (`none` = compile error). -/
def rustcRepr (hs : List Hint) : Option RRepr :=
  if hasTransparent hs && decide (hs.length > 1) then none               -- E0692
  else if hasRust hs && (hasC hs || !(intsOf hs).isEmpty) then none      -- E0566 (explicit Rust + C / int)
  else if decide ((intsOf hs).length > 1) then none                      -- E0566 (deny-by-default lint)
  else if !packsAgree (packsOf hs) then none                             -- E0634
  else if !(packsOf hs).isEmpty && !(alignsOf hs).isEmpty then none      -- E0587
  else if !((packsOf hs ++ alignsOf hs).all pow2ok) then none            -- E0589
  else some { c := hasC hs, transparent := hasTransparent hs, int := (intsOf hs).head?,
              pack := (packsOf hs).head?, align := max 1 (maxl (alignsOf hs)) }

/-! ## rustc: layout -/

structure Layout where
  size : Nat
  align : Nat
  /-- bytes of the type not covered by a field (struct kinds; 0 otherwise) -/
  pad : Nat
  deriving DecidableEq, Repr

def roundUp (n a : Nat) : Nat := ((n + a - 1) / a) * a

/-- a field's alignment inside a `packed(p)` aggregate -/
def effAlign (pack : Option Nat) (a : Nat) : Nat :=
  match pack with
  | none => a
  | some p => min a p

def sumSizes (fs : List FTy) : Nat := (fs.map (·.size)).foldr (· + ·) 0

/-- end offset of declaration-order (`repr(C)`) placement starting at `off` -/
def cEnd (pack : Option Nat) : List FTy → Nat → Nat
  | [], off => off
  | f :: fs, off => cEnd pack fs (roundUp off (effAlign pack f.align) + f.size)

/-- declaration-order offsets of the fields -/
def cOffsets (pack : Option Nat) : List FTy → Nat → List Nat
  | [], _ => []
  | f :: fs, off =>
    let o := roundUp off (effAlign pack f.align)
    o :: cOffsets pack fs (o + f.size)

def fieldsAlign (pack : Option Nat) (fs : List FTy) : Nat :=
  max 1 (maxl (fs.map (fun f => effAlign pack f.align)))

/-- Not a 1-ZST (relevant to `repr(transparent)`). -/
def FTy.nonTrivial (f : FTy) : Bool := !(f.size == 0 && f.align == 1)

/-- struct / tuple struct -/
def structLayout (rr : RRepr) (fs : List FTy) : Option Layout :=
  if rr.int.isSome then none                                              -- E0517
  else if rr.pack.isSome && fs.any (·.reprAlign) then none                -- E0588
  else if rr.transparent then
    match fs.filter FTy.nonTrivial with
    | [] => some ⟨0, 1, 0⟩
    | [f] => some ⟨f.size, f.align, 0⟩
    | _ => none                                                           -- E0690
  else
    let a := max (fieldsAlign rr.pack fs) rr.align
    let sum := sumSizes fs
    -- `repr(C)`: declaration order; default repr: rustc orders by descending alignment, which
    -- leaves no padding between fields
    let e := if rr.c then cEnd rr.pack fs 0 else sum
    let size := roundUp e a
    some ⟨size, a, size - sum⟩

def unionLayout (rr : RRepr) (fs : List FTy) : Option Layout :=
  if rr.int.isSome then none                                              -- E0517
  else if rr.transparent then none                                        -- E0658 (unstable)
  else if fs.isEmpty then none                                            -- "unions cannot have zero fields"
  else if rr.pack.isSome && fs.any (·.reprAlign) then none                -- E0588
  else
    let a := max (fieldsAlign rr.pack fs) rr.align
    some ⟨roundUp (maxl (fs.map (·.size))) a, a, 0⟩

def tagTy (t : IntTy) : FTy := { size := t.size, align := t.size, a1 := decide (t.size = 1) }

/-- Enums. The layout is modelled for unit-only enums and for `repr(int)` data enums (RFC 2195: a
union of `repr(C)` structs, each starting with the tag); other data enums (`repr(Rust)`, `repr(C)`,
`repr(transparent)`) answer `none` — `derive(Align1)` rejects all of those before the layout matters
(`Derive.C19.unmodelled_enum_rejected`). -/
def enumLayout (rr : RRepr) (hasAttr : Bool) (vs : List (List FTy)) : Option Layout :=
  if rr.pack.isSome then none                                             -- E0517
  else if vs.isEmpty then (if hasAttr then none else some ⟨0, 1, 0⟩)      -- E0084
  else if rr.transparent then none
  else
    let unitOnly := vs.all (·.isEmpty)
    match rr.int with
    | some t =>
      if rr.c && unitOnly then none                                       -- E0566
      else if rr.c then none                                              -- repr(C, int) data enum: not modelled
      else
        let a := max (maxl (vs.map (fun v => fieldsAlign none (tagTy t :: v)))) rr.align
        some ⟨roundUp (maxl (vs.map (fun v => cEnd none (tagTy t :: v) 0))) a, a, 0⟩
    | none =>
      if !unitOnly then none                                              -- not modelled
      else if rr.c then some ⟨roundUp 4 (max 4 rr.align), max 4 rr.align, 0⟩
      else
        let s := if vs.length ≤ 1 then 0 else 1
        some ⟨roundUp s rr.align, rr.align, 0⟩

/-- Layout of a monomorphic declaration; `none` = rustc rejects it (or: unmodelled data enum). -/
def rustcLayout (d : CDecl) : Option Layout :=
  match rustcRepr d.attrs.flatten with
  | none => none
  | some rr =>
    match d.kind with
    | .struct | .tuple => structLayout rr d.fields
    | .union => unionLayout rr d.fields
    | .enum => enumLayout rr (!d.attrs.isEmpty) d.variants

/-- Definition-time acceptance of a possibly generic declaration by rustc: every parameter must be
used (E0392) and the repr rules are checked with the parameter as an unknown sized type. -/
def rustcDefOk (d : Decl) : Bool :=
  (!d.generic || d.usesParam) && (rustcLayout (d.inst .opaque)).isSome

end Derive
