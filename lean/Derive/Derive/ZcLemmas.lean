import Derive.Sound
/-!
# Lemmas behind the zero-copy / sized-part / ZST theorems of C19
-/
namespace Derive

/-! ## bytemuck's parser: a reported `packed(n)` was written by the user -/

def InvBm (r : BmRepr) (hs : List Hint) : Prop := ∀ n, r.packed = some n → n ∈ packsOf hs

theorem InvBm.step {r r' : BmRepr} {hs : List Hint} {h : Hint}
    (inv : InvBm r hs) (hp : bmParseStep r h = some r') : InvBm r' (hs ++ [h]) := by
  intro n hn
  rw [packsOf_append]
  cases h with
  | packed m =>
    simp [bmParseStep] at hp; subst hp
    simp at hn; subst hn
    simp [packsOf]
  | align m =>
    simp [bmParseStep] at hp; subst hp
    simp at hn
    simp [packsOf, inv n hn]
  | c =>
    simp [bmParseStep] at hp
    obtain ⟨b, _, rfl⟩ := hp
    simp at hn
    simp [packsOf, inv n hn]
  | transparent =>
    simp [bmParseStep] at hp
    obtain ⟨b, _, rfl⟩ := hp
    simp at hn
    simp [packsOf, inv n hn]
  | int t =>
    simp [bmParseStep] at hp
    obtain ⟨b, _, rfl⟩ := hp
    simp at hn
    simp [packsOf, inv n hn]
  | rust => simp [bmParseStep] at hp

theorem InvBm.parseFrom {l : List Hint} : ∀ {r r' : BmRepr} {hs : List Hint},
    InvBm r hs → bmParseFrom r l = some r' → InvBm r' (hs ++ l) := by
  induction l with
  | nil => intro r r' hs inv h; simp [bmParseFrom] at h; subst h; simpa using inv
  | cons a t ih =>
    intro r r' hs inv h
    simp only [bmParseFrom] at h
    cases hstep : bmParseStep r a with
    | none => simp [hstep] at h
    | some r1 =>
      simp [hstep] at h
      have := ih (inv.step hstep) h
      simpa using this

theorem InvBm.combine {a b r : BmRepr} {h1 h2 : List Hint}
    (i1 : InvBm a h1) (i2 : InvBm b h2) (hc : bmCombine a b = some r) : InvBm r (h1 ++ h2) := by
  intro n hn
  rw [packsOf_append]
  obtain ⟨ba, pa, aa⟩ := a
  obtain ⟨bb, pb, ab⟩ := b
  simp only [bmCombine] at hc
  split at hc; · cases hc
  split at hc; · cases hc
  rename_i packed hpk
  injection hc with hc; subst hc
  simp only at hn; subst hn
  cases pa with
  | none =>
    cases pb with
    | none => simp at hpk
    | some y => simp at hpk; subst hpk; simp [i2 y rfl]
  | some x =>
    cases pb with
    | none => simp at hpk; subst hpk; simp [i1 x rfl]
    | some y => simp at hpk

theorem InvBm.getReprFrom {as : List (List Hint)} : ∀ {acc r : BmRepr} {hs : List Hint},
    InvBm acc hs → bmGetReprFrom acc as = some r → InvBm r (hs ++ as.flatten) := by
  induction as with
  | nil => intro acc r hs inv h; simp [bmGetReprFrom] at h; subst h; simpa using inv
  | cons a t ih =>
    intro acc r hs inv h
    simp only [bmGetReprFrom] at h
    cases hp : bmParseFrom BmRepr.default a with
    | none => simp [hp] at h
    | some ra =>
      simp only [hp] at h
      cases hc : bmCombine acc ra with
      | none => simp [hc] at h
      | some acc' =>
        simp only [hc] at h
        have i0 : InvBm BmRepr.default [] := by intro n hn; simp [BmRepr.default] at hn
        have ia : InvBm ra a := by simpa using InvBm.parseFrom i0 hp
        have := ih (inv.combine ia hc) h
        simpa using this

theorem InvBm.getRepr {attrs : List (List Hint)} {r : BmRepr} (h : bmGetRepr attrs = some r) :
    InvBm r attrs.flatten := by
  have i0 : InvBm BmRepr.default [] := by intro n hn; simp [BmRepr.default] at hn
  simpa using InvBm.getReprFrom i0 h

theorem bmGetReprFrom_keeps_c {as : List (List Hint)} : ∀ {acc r : BmRepr},
    bmGetReprFrom acc as = some r → acc.repr = .c → r.repr = .c := by
  induction as with
  | nil => intro acc r h hb; simp [bmGetReprFrom] at h; subst h; exact hb
  | cons a t ih =>
    intro acc r h hb
    simp only [bmGetReprFrom] at h
    cases hp : bmParseFrom BmRepr.default a with
    | none => simp [hp] at h
    | some ra =>
      simp only [hp] at h
      cases hc : bmCombine acc ra with
      | none => simp [hc] at h
      | some acc' =>
        simp only [hc] at h
        apply ih h
        obtain ⟨ba, pa, aa⟩ := acc
        obtain ⟨bb, pb, ab⟩ := ra
        simp only at hb; subst hb
        simp only [bmCombine] at hc
        split at hc; · cases hc
        rename_i repr hrepr
        split at hc; · cases hc
        injection hc with hc; subst hc
        cases bb <;> simp at hrepr
        exact hrepr.symm

theorem bmGetRepr_leading_c {as : List (List Hint)} {r : BmRepr}
    (h : bmGetRepr ([.c] :: as) = some r) : r.repr = .c := by
  have hp : bmParseFrom BmRepr.default [.c] = some ⟨.c, none, none⟩ := by decide
  have hc : bmCombine BmRepr.default ⟨.c, none, none⟩ = some ⟨.c, none, none⟩ := by decide
  simp only [bmGetRepr, bmGetReprFrom, hp, hc] at h
  exact bmGetReprFrom_keeps_c h rfl

theorem getReprFrom_keeps_c {as : List (List Hint)} : ∀ {acc r : Representation},
    getReprFrom acc as = some r → acc.repr = .c → r.repr = .c := by
  induction as with
  | nil => intro acc r h hb; simp [getReprFrom] at h; subst h; exact hb
  | cons a t ih =>
    intro acc r h hb
    simp only [getReprFrom] at h
    cases hp : parseAttr a with
    | none => simp [hp] at h
    | some ra =>
      simp only [hp] at h
      cases hc : combine acc ra with
      | none => simp [hc] at h
      | some acc' =>
        simp only [hc] at h
        apply ih h
        obtain ⟨b1, m1⟩ := acc
        obtain ⟨b2, m2⟩ := ra
        simp only at hb; subst hb
        simp only [combine] at hc
        cases hb' : combineBase .c b2 with
        | none => simp [hb'] at hc
        | some rb =>
          cases hm : combineMod m1 m2 with
          | none => simp [hb', hm] at hc
          | some rm =>
            simp [hb', hm] at hc; subst hc
            cases b2 <;> simp [combineBase] at hb'
            exact hb'.symm

theorem getRepr_leading_c {as : List (List Hint)} {r : Representation}
    (h : getRepr ([.c] :: as) = some r) : r.repr = .c := by
  have hc : combine Representation.default ⟨.c, none⟩ = some ⟨.c, none⟩ := by decide
  simp only [getRepr, getReprFrom, parseAttr_c, hc] at h
  exact getReprFrom_keeps_c h rfl

theorem head_of_packsAgree {l : List Nat} {n : Nat} (h : packsAgree l = true) (hn : n ∈ l) :
    l.head? = some n := by
  cases l with
  | nil => simp at hn
  | cons p ps =>
    simp only [packsAgree, allEq, List.all_eq_true, beq_iff_eq] at h
    simp only [List.mem_cons] at hn
    rcases hn with rfl | hn
    · rfl
    · simp [h n hn]

theorem rustcRepr_packsAgree {hs : List Hint} {rr : RRepr} (h : rustcRepr hs = some rr) :
    packsAgree (packsOf hs) = true := by
  unfold rustcRepr at h
  split at h; · cases h
  split at h; · cases h
  split at h; · cases h
  split at h; · cases h
  rename_i h3
  simpa using h3

/-! ## field positivity under instantiation -/

theorem alignPos_inst {fs : List Field} {x : FTy}
    (hf : ∀ f ∈ fs, ∀ t, f = .conc t → 0 < t.align) (hx : 0 < x.align) :
    AlignPos (fs.map (Field.inst x)) := by
  intro g hg
  obtain ⟨f, hfm, rfl⟩ := List.mem_map.mp hg
  cases f with
  | conc t => exact hf _ hfm t rfl
  | param => exact hx
  | arr n => exact hx
  | phantomT => simp [Field.inst, FTy.phantom]

/-! ## `#[zero_copy]` structs have no padding -/

theorem structLayout_of_kind {d : CDecl} {l : Layout} {rr : RRepr}
    (hk : d.kind = .struct ∨ d.kind = .tuple) (hr : rustcRepr d.attrs.flatten = some rr)
    (hl : rustcLayout d = some l) : structLayout rr d.fields = some l := by
  unfold rustcLayout at hl
  simp only [hr] at hl
  rcases hk with hk | hk <;> simpa [hk] using hl

theorem zeroCopy_pad (a : ZcArgs) (d d' : Decl) (x : FTy) (l : Layout)
    (hwf : d.WF) (hk : d.kind = .struct ∨ d.kind = .tuple)
    (hf : ∀ f ∈ d.fields, ∀ t, f = .conc t → 0 < t.align) (hx : 0 < x.align)
    (hi : zeroCopyItem a d = some d') (hacc : zeroCopy a d = .accept)
    (hl : rustcLayout (d'.inst x) = some l) : l.pad = 0 := by
  -- shape of the item the derives see
  have hd' : d' = { d with attrs := (if a.skipPacked then [.c] else [.c, .packed 1]) :: d.attrs } := by
    unfold zeroCopyItem at hi
    rcases hk with hk | hk <;> simp [hk] at hi <;> rw [← hi, hk]
  have hk' : d'.kind = .struct ∨ d'.kind = .tuple := by rw [hd']; exact hk
  unfold zeroCopy at hacc
  simp only [hi] at hacc
  have hall : deriveAlign1 d' = .accept ∧ bmZeroable d' = true ∧
      (if a.pod then bmPod d' else (bmChecked d' && bmNoUninit d')) = true := by
    by_cases h : (deriveAlign1 d' == .accept && bmZeroable d' &&
       (if a.pod then bmPod d' else (bmChecked d' && bmNoUninit d'))) = true
    · simp only [Bool.and_eq_true, beq_iff_eq] at h; exact ⟨h.1.1, h.1.2, h.2⟩
    · simp [h] at hacc
  obtain ⟨hA, _, hB⟩ := hall
  have hAs : deriveAlign1Struct d' = .accept := by
    unfold deriveAlign1 at hA
    rcases hk' with h | h <;> simpa [h] using hA
  -- the macro's parse of the attributes
  obtain ⟨r, hg, hgt⟩ : ∃ r, getRepr d'.attrs = some r ∧ r.alignGt1 = false := by
    unfold deriveAlign1Struct at hAs
    cases hg : getRepr d'.attrs with
    | none => simp [hg] at hAs
    | some r =>
      refine ⟨r, rfl, ?_⟩
      simp only [hg] at hAs
      cases h : r.alignGt1 <;> simp [h] at hAs ⊢
  have hpos : AlignPos (d'.inst x).fields := by
    rw [hd']; exact alignPos_inst hf hx
  cases hr : rustcRepr (d'.inst x).attrs.flatten with
  | none => unfold rustcLayout at hl; simp [hr] at hl
  | some rr =>
    have hsl := structLayout_of_kind (by simpa [Decl.inst] using hk') hr hl
    have hr' : rustcRepr d'.attrs.flatten = some rr := by simpa [Decl.inst] using hr
    -- no padding follows once rustc packs to 1
    have packed_case : rr.pack = some 1 → rr.transparent = false → rr.align = 1 → l.pad = 0 :=
      fun h1 h2 h3 => (structLayout_packed_pad hsl hpos h1 h2 h3).1
    -- or from bytemuck's no-padding assertion on a non-generic type
    have nopad_case : d'.generic = false → noPadding d' = true → l.pad = 0 := by
      intro hgen hnp
      have hup : d'.usesParam = false := by
        have := hwf (by rw [hd'] at hgen; exact hgen)
        rw [hd']; exact this
      rw [Decl.inst_noparam d' x .opaque hup] at hl
      unfold noPadding at hnp
      rw [hl] at hnp
      simpa using hnp
    cases hsk : a.skipPacked with
    | false =>
      have hattrs : d'.attrs = [.c, .packed 1] :: d.attrs := by rw [hd']; simp [hsk]
      rw [hattrs] at hg
      obtain ⟨hm, hb⟩ := getRepr_leading_packed hg
      rw [← hattrs] at hg
      obtain ⟨h1, h2, h3⟩ := rustc_view_of_c_packed hg hm hb hr'
      exact packed_case h1 h2 h3
    | true =>
      have hattrs : d'.attrs = [.c] :: d.attrs := by rw [hd']; simp [hsk]
      cases hpod : a.pod with
      | false =>
        simp only [hpod, Bool.false_eq_true, ↓reduceIte, Bool.and_eq_true] at hB
        have hnu := hB.2
        unfold bmNoUninit at hnu
        cases hbm : bmGetRepr d'.attrs with
        | none => simp [hbm] at hnu
        | some br =>
          simp only [hbm] at hnu
          rcases hk' with h | h <;> simp only [h, Bool.and_eq_true, Bool.not_eq_true'] at hnu <;>
            exact nopad_case hnu.1.1.2 hnu.1.2
      | true =>
        simp only [hpod, ↓reduceIte] at hB
        unfold bmPod at hB
        cases hbm : bmGetRepr d'.attrs with
        | none => simp [hbm] at hB
        | some br =>
          simp only [hbm] at hB
          have hbc : br.repr = .c := by rw [hattrs] at hbm; exact bmGetRepr_leading_c hbm
          have hB' : (br.packed == some 1 || decide (d'.generic = false) && noPadding d') = true := by
            rcases hk' with h | h <;> simp only [h, hbc] at hB <;>
              (simp only [Bool.and_eq_true, Bool.or_eq_true] at hB
               obtain ⟨⟨⟨_, h1⟩, h2⟩, _⟩ := hB
               rcases h1 with h1 | h1 <;> rcases h2 with h2 | h2 <;> simp_all)
          simp only [Bool.or_eq_true, Bool.and_eq_true, decide_eq_true_eq, beq_iff_eq] at hB'
          rcases hB' with hp1 | ⟨hgen, hnp⟩
          · -- user wrote packed(1): rustc packs to 1 as well
            have hmem := InvBm.getRepr hbm 1 hp1
            have hagree := rustcRepr_packsAgree hr'
            obtain ⟨_, htr, _, hpk, _, _⟩ := rustcRepr_fields hr'
            have h1 : rr.pack = some 1 := by rw [hpk]; exact head_of_packsAgree hagree hmem
            have inv := Inv.getRepr hg
            have hrc : r.repr = .c := by rw [hattrs] at hg; exact getRepr_leading_c hg
            have h2 : rr.transparent = false := by rw [htr, inv.transparent, hrc]
            exact packed_case h1 h2 (align_eq_one_of_not_gt1 inv hr' hgt)
          · exact nopad_case hgen hnp

/-! ## the sized part of `#[unsized_type]` structs -/

theorem sumSizes_append (a b : List FTy) : sumSizes (a ++ b) = sumSizes a + sumSizes b := by
  induction a with
  | nil => simp [sumSizes]
  | cons f t ih => simp only [sumSizes, List.cons_append, List.map_cons, List.foldr_cons] at ih ⊢; omega

theorem markerFields_not_conc (skip : Bool) (d : Decl) :
    ∀ f ∈ markerFields skip d, ∀ t, f = .conc t → 0 < t.align := by
  intro f hf t ht
  unfold markerFields at hf
  split at hf
  · simp at hf; subst hf; cases ht
  · simp at hf

theorem sumSizes_marker (skip : Bool) (d : Decl) (x : FTy) :
    sumSizes ((markerFields skip d).map (Field.inst x)) = 0 := by
  unfold markerFields
  split <;> simp [sumSizes, Field.inst, FTy.phantom]

theorem sizedPart_layout (skip : Bool) (d : Decl) (x : FTy) (l : Layout)
    (hf : ∀ f ∈ d.fields, ∀ t, f = .conc t → 0 < t.align) (hx : 0 < x.align)
    (hacc : sizedPart skip d = .accept)
    (hl : rustcLayout ((sizedPartDecl skip d).inst x) = some l) :
    l.pad = 0 ∧ l.align = 1 ∧ l.size = sumSizes (d.fields.map (Field.inst x)) := by
  have hA : deriveAlign1Struct (sizedPartDecl skip d) = .accept := by
    unfold sizedPart at hacc
    simp only at hacc
    by_cases h : deriveAlign1 (sizedPartDecl skip d) = .accept
    · simpa [deriveAlign1, sizedPartDecl] using h
    · simp [h] at hacc
  obtain ⟨r, hg⟩ : ∃ r, getRepr (sizedPartDecl skip d).attrs = some r := by
    unfold deriveAlign1Struct at hA
    cases hg : getRepr (sizedPartDecl skip d).attrs with
    | none => simp [hg] at hA
    | some r => exact ⟨r, rfl⟩
  have hattrs : (sizedPartDecl skip d).attrs = d.attrs ++ [[.c, .packed 1]] := rfl
  obtain ⟨hm, hb⟩ := getRepr_trailing_packed (hattrs ▸ hg)
  cases hr : rustcRepr ((sizedPartDecl skip d).inst x).attrs.flatten with
  | none => unfold rustcLayout at hl; simp [hr] at hl
  | some rr =>
    have hsl := structLayout_of_kind (d := (sizedPartDecl skip d).inst x) (Or.inl rfl) hr hl
    have hr' : rustcRepr (sizedPartDecl skip d).attrs.flatten = some rr := by
      simpa [Decl.inst] using hr
    obtain ⟨h1, h2, h3⟩ := rustc_view_of_c_packed hg hm hb hr'
    have hf' : ∀ f ∈ d.fields ++ markerFields skip d, ∀ t, f = .conc t → 0 < t.align := by
      intro f hfm t ht
      rcases List.mem_append.mp hfm with h | h
      · exact hf f h t ht
      · exact markerFields_not_conc skip d f h t ht
    have hpos : AlignPos ((sizedPartDecl skip d).inst x).fields := alignPos_inst hf' hx
    obtain ⟨p1, p2, p3⟩ := structLayout_packed_pad hsl hpos h1 h2 h3
    refine ⟨p1, p2, ?_⟩
    rw [p3]
    simp only [Decl.inst, sizedPartDecl, List.map_append, sumSizes_append, sumSizes_marker]
    omega

/-- The marker in front of the checked fields changes nothing: it is zero sized and always valid. -/
theorem structValid_marker (skip : Bool) (d : Decl) (x : FTy) (bytes : List Nat) :
    structValid (some 1) (sizedCheckFields skip d x) bytes =
      structValid (some 1) (d.fields.map (Field.inst x)) bytes := by
  unfold sizedCheckFields markerFields
  split
  · simp [structValid, cOffsets, fieldsValid, Field.inst, FTy.phantom, effAlign, roundUp]
  · simp

/-! ## the generated bit-pattern check looks at every field, at its own bytes -/

theorem fieldsValid_iff (fs : List FTy) (offs : List Nat) (bytes : List Nat)
    (hlen : offs.length = fs.length) :
    fieldsValid fs offs bytes = true ↔
      ∀ i (h : i < fs.length), fs[i].valid ((bytes.drop (offs[i]'(hlen ▸ h))).take fs[i].size) = true := by
  induction fs generalizing offs with
  | nil => simp [fieldsValid]
  | cons f t ih =>
    cases offs with
    | nil => simp at hlen
    | cons o os =>
      simp only [List.length_cons, Nat.add_right_cancel_iff] at hlen
      simp only [fieldsValid, Bool.and_eq_true, ih os hlen]
      constructor
      · rintro ⟨h0, hrest⟩ i hi
        cases i with
        | zero => simpa using h0
        | succ j => simpa using hrest j (by simpa using hi)
      · intro h
        refine ⟨?_, fun j hj => ?_⟩
        · have := h 0 (by simp)
          simp only [List.getElem_cons_zero] at this
          exact this
        · have := h (j + 1) (by simpa using hj)
          simp only [List.getElem_cons_succ] at this
          exact this

theorem structValid_packed_iff (fs : List FTy) (bytes : List Nat) (hp : AlignPos fs) :
    structValid (some 1) fs bytes = true ↔
      ∀ i (h : i < fs.length),
        fs[i].valid ((bytes.drop (sumSizes (fs.take i))).take fs[i].size) = true := by
  unfold structValid
  have hoff := cOffsets_pack_one hp 0
  have hlen : (cOffsets (some 1) fs 0).length = fs.length := by rw [hoff]; simp
  rw [fieldsValid_iff fs _ bytes hlen]
  constructor
  · intro h i hi
    have := h i hi
    simpa [hoff] using this
  · intro h i hi
    have := h i hi
    simpa [hoff] using this

/-! ## zero-sized elements -/

theorem zstOk_iff (elems : List Bool) :
    zstOk elems = true ↔ ∀ i, i + 1 < elems.length → elems[i]? = some true := by
  unfold zstOk
  simp only [List.all_eq_true, id_eq]
  constructor
  · intro h i hi
    have hlt : i < elems.dropLast.length := by simp; omega
    have hmem : elems.dropLast[i] ∈ elems.dropLast := List.getElem_mem hlt
    have := h _ hmem
    rw [List.getElem_dropLast] at this
    rw [List.getElem?_eq_getElem (by omega)]
    simp [this]
  · intro h b hb
    obtain ⟨i, hi, rfl⟩ := List.getElem_of_mem hb
    have hi' : i + 1 < elems.length := by simp at hi; omega
    have := h i hi'
    rw [List.getElem_dropLast]
    rw [List.getElem?_eq_getElem (by omega)] at this
    simpa using this

end Derive
