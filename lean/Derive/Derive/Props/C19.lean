import Derive.ZcLemmas
import Derive.Alphabet
/-!
# C19 — Derived safety markers only certify what actually holds

Property theorems about the model of `#[derive(Align1)]`, `#[zero_copy]`, the generated sized part
of `#[unsized_type]` structs and the zero-sized-type placement rule (`Derive/Align1.lean`,
`Derive/ZeroCopy.lean`), against the model of rustc's repr/layout rules (`Derive/Repr.lean`).
All statements quantify over every declaration of the grammar: any repr attribute lists, any field
types (`FTy` values), any instantiation of the type parameter.
-/
namespace Derive.C19
open Derive

/-- **An alignment-1 certification implies alignment 1.** For every declaration `d` and every
instantiation `x` of its type parameter: if `derive(Align1)` is accepted, the generated impl applies
to `D<x>` (its `where` clause holds) and rustc lays the type out, then `align_of::<D<x>>() == 1` —
provided the `Align1` impls of the field types themselves are truthful. -/
theorem align1_sound (d : Decl) (x : FTy) (l : Layout) (hwf : d.WF)
    (hf : ∀ f ∈ d.allFields, ∀ t, f = .conc t → t.Sound) (hx : x.Sound)
    (hacc : deriveAlign1 d = .accept) (himpl : align1Holds d x = true)
    (hl : rustcLayout (d.inst x) = some l) : l.align = 1 := by
  have hf' : ∀ f ∈ d.fields, ∀ t, f = .conc t → t.Sound :=
    fun f hfm => hf f (by simp [Decl.allFields, hfm])
  unfold deriveAlign1 at hacc
  cases hk : d.kind with
  | enum => simp only [hk] at hacc; exact align1_sound_enum d x l hk hwf hacc hl
  | struct =>
    simp only [hk] at hacc
    exact align1_sound_struct d x l (by simp [hk]) hf' hx hacc himpl hl
  | tuple =>
    simp only [hk] at hacc
    exact align1_sound_struct d x l (by simp [hk]) hf' hx hacc himpl hl
  | union =>
    simp only [hk] at hacc
    exact align1_sound_struct d x l (by simp [hk]) hf' hx hacc himpl hl

/-- non-vacuity: `#[derive(Align1)] #[repr(C, packed)] struct { a: u16, b: u8 }` is accepted, laid
out with size 3, alignment 1 -/
example : deriveAlign1 ⟨.struct, false, [[.c, .packed 1]], [.conc Ty.u16, .conc Ty.u8], []⟩ = .accept ∧
    rustcLayout (Decl.inst ⟨.struct, false, [[.c, .packed 1]], [.conc Ty.u16, .conc Ty.u8], []⟩ Ty.u8)
      = some ⟨3, 1, 0⟩ := by decide

/-- non-vacuity (generic, deferred bound): `#[repr(C)] struct S<T> { a: u8, b: T }` is accepted; for
`T = u16` the impl does not apply and the alignment is 2 — so the hypothesis `align1Holds` matters -/
example : deriveAlign1 ⟨.struct, true, [[.c]], [.conc Ty.u8, .param], []⟩ = .accept ∧
    align1Holds ⟨.struct, true, [[.c]], [.conc Ty.u8, .param], []⟩ Ty.u16 = false ∧
    rustcLayout (Decl.inst ⟨.struct, true, [[.c]], [.conc Ty.u8, .param], []⟩ Ty.u16) = some ⟨4, 2, 1⟩ := by
  decide

/-- the defect repaired by `fix: derive(Align1) rejects repr(align(N))` stays repaired in the model:
both declarations have alignment > 1 and are rejected -/
example : deriveAlign1 ⟨.struct, false, [[.align 2]], [.conc Ty.u8], []⟩ = .reject ∧
    rustcLayout (Decl.inst ⟨.struct, false, [[.align 2]], [.conc Ty.u8], []⟩ Ty.u8) = some ⟨2, 2, 1⟩ ∧
    deriveAlign1 ⟨.enum, false, [[.int .u8, .align 4]], [], [[], []]⟩ = .reject ∧
    rustcLayout (Decl.inst ⟨.enum, false, [[.int .u8, .align 4]], [], [[], []]⟩ Ty.u8) = some ⟨4, 4, 0⟩ := by
  decide

/-- `packed(2)` is not "packed": the bound on the fields is what rejects `packed(2) struct { a: u64 }`
(alignment 2) -/
example : deriveAlign1 ⟨.struct, false, [[.packed 2]], [.conc Ty.u64], []⟩ = .reject ∧
    rustcLayout (Decl.inst ⟨.struct, false, [[.packed 2]], [.conc Ty.u64], []⟩ Ty.u8) = some ⟨8, 2, 0⟩ := by
  decide

/-- **The layout model covers every enum the derive accepts**: an accepted enum is `repr(u8)` without
`C` / `transparent` in rustc's view too, i.e. it lies in the fragment `enumLayout` models (the
`none` answers of `enumLayout` for other data enums are never observable). -/
theorem unmodelled_enum_rejected (d : Decl) (rr : RRepr) (hk : d.kind = .enum)
    (hacc : deriveAlign1 d = .accept) (hr : rustcRepr d.attrs.flatten = some rr) :
    rr.int = some .u8 ∧ rr.c = false ∧ rr.transparent = false := by
  unfold deriveAlign1 at hacc
  simp only [hk] at hacc
  unfold deriveAlign1Enum at hacc
  cases hg : getRepr d.attrs with
  | none => simp [hg] at hacc
  | some r =>
    simp only [hg] at hacc
    by_cases hrep : r.repr = .int .u8
    case neg => simp [hrep] at hacc
    have inv := Inv.getRepr hg
    obtain ⟨hc, htr, hint, _, _, _⟩ := rustcRepr_fields hr
    have h1 := inv.ints
    have h2 := inv.c
    have h3 := inv.transparent
    simp only [hrep] at h1 h2 h3
    rw [hint, h1, hc, h2, htr, h3]
    simp

example : deriveAlign1 ⟨.enum, false, [[.int .u8]], [], [[.conc Ty.pv64], []]⟩ = .accept ∧
    rustcLayout (Decl.inst ⟨.enum, false, [[.int .u8]], [], [[.conc Ty.pv64], []]⟩ Ty.u8)
      = some ⟨9, 1, 0⟩ := by decide

/-- **`#[zero_copy]` structs have no padding and alignment 1.** Whatever arguments
(`pod`, `skip_packed`) and user attributes: if the attribute's output compiles and rustc lays the
struct out, then `size_of` is the sum of the field sizes, and the `Align1` impl it derives is
truthful. -/
theorem zero_copy_no_padding (a : ZcArgs) (d d' : Decl) (x : FTy) (l : Layout)
    (hwf : d.WF) (hk : d.kind = .struct ∨ d.kind = .tuple)
    (hf : ∀ f ∈ d.fields, ∀ t, f = .conc t → 0 < t.align ∧ t.Sound) (hx : 0 < x.align ∧ x.Sound)
    (hi : zeroCopyItem a d = some d') (hacc : zeroCopy a d = .accept)
    (hl : rustcLayout (d'.inst x) = some l) :
    l.pad = 0 ∧ (align1Holds d' x = true → l.align = 1) := by
  refine ⟨zeroCopy_pad a d d' x l hwf hk (fun f hfm t ht => (hf f hfm t ht).1) hx.1 hi hacc hl, ?_⟩
  intro himpl
  have hd' : d' = { d with attrs := (if a.skipPacked then [.c] else [.c, .packed 1]) :: d.attrs } := by
    unfold zeroCopyItem at hi
    rcases hk with hk | hk <;> simp [hk] at hi <;> rw [← hi, hk]
  have hA : deriveAlign1 d' = .accept := by
    unfold zeroCopy at hacc
    simp only [hi] at hacc
    by_cases h : deriveAlign1 d' = .accept
    · exact h
    · simp [h] at hacc
  have hk' : d'.kind ≠ .enum := by rw [hd']; rcases hk with h | h <;> simp [h]
  have hAs : deriveAlign1Struct d' = .accept := by
    unfold deriveAlign1 at hA
    cases hkk : d'.kind <;> simp [hkk] at hA hk' ⊢ <;> exact hA
  exact align1_sound_struct d' x l hk' (by rw [hd']; exact fun f hfm t ht => (hf f hfm t ht).2) hx.2 hAs himpl hl

/-- non-vacuity: `#[zero_copy] struct { a: u16, b: bool }` compiles: size 3, align 1, no padding -/
example : zeroCopy ⟨false, false⟩ ⟨.struct, false, [], [.conc Ty.u16, .conc Ty.bool], []⟩ = .accept ∧
    rustcLayout (Decl.inst ⟨.struct, false, [[.c, .packed 1]], [.conc Ty.u16, .conc Ty.bool], []⟩ Ty.u8)
      = some ⟨3, 1, 0⟩ := by decide

/-- non-vacuity: `#[zero_copy(skip_packed)] struct { a: u8, b: u16 }` would have padding and alignment
2 and is rejected -/
example : zeroCopy ⟨false, true⟩ ⟨.struct, false, [], [.conc Ty.u8, .conc Ty.u16], []⟩ = .reject ∧
    rustcLayout (Decl.inst ⟨.struct, false, [[.c]], [.conc Ty.u8, .conc Ty.u16], []⟩ Ty.u8)
      = some ⟨4, 2, 1⟩ := by decide

/-- **The generated bit-pattern check validates every field, on the field's own bytes**
(`is_valid_bit_pattern` as emitted by `bytemuck_derive` for zero-copy structs and by
`sized_bytemuck_derives` for generic sized parts): a byte string is accepted iff every field accepts
the bytes at its offset. -/
theorem bit_pattern_checks_every_field (pack : Option Nat) (fs : List FTy) (bytes : List Nat) :
    structValid pack fs bytes = true ↔
      ∀ i (h : i < fs.length), ∃ o, (cOffsets pack fs 0)[i]? = some o ∧
        fs[i].valid ((bytes.drop o).take fs[i].size) = true := by
  have hlen : ∀ (fs : List FTy) (off : Nat), (cOffsets pack fs off).length = fs.length := by
    intro fs
    induction fs with
    | nil => intro off; simp [cOffsets]
    | cons f t ih => intro off; simp [cOffsets, ih]
  unfold structValid
  rw [fieldsValid_iff fs _ bytes (hlen fs 0)]
  constructor
  · intro h i hi
    exact ⟨_, List.getElem?_eq_getElem (by rw [hlen]; exact hi), h i hi⟩
  · intro h i hi
    obtain ⟨o, ho, hv⟩ := h i hi
    rw [List.getElem?_eq_getElem (by rw [hlen]; exact hi)] at ho
    injection ho with ho
    rw [ho]; exact hv

example : structValid (some 1) [Ty.u8, Ty.bool] [7, 2] = false ∧
    structValid (some 1) [Ty.u8, Ty.bool] [7, 1] = true := by decide

/-- **The generated sized part has no padding, alignment 1, and checks every field.** For every
`#[unsized_type]` struct — any `sized_attributes`, generic or not, with or without
`skip_phantom_generics` (`skip`), i.e. with or without the `_generics` marker that the macro puts
last in the struct and first in the checked field list — whose `…Sized` struct compiles: its size
is the sum of the user's field sizes, its alignment is 1, and its generated `is_valid_bit_pattern`
(over `sizedCheckFields`) accepts a byte string iff EVERY user field, the first one included,
accepts its own slice (fields at the running sum of sizes). -/
theorem sized_part_no_padding_and_checked (skip : Bool) (d : Decl) (x : FTy) (l : Layout)
    (hf : ∀ f ∈ d.fields, ∀ t, f = .conc t → 0 < t.align) (hx : 0 < x.align)
    (hacc : sizedPart skip d = .accept)
    (hl : rustcLayout ((sizedPartDecl skip d).inst x) = some l) :
    l.pad = 0 ∧ l.align = 1 ∧ l.size = sumSizes (d.fields.map (Field.inst x)) ∧
    ∀ bytes, structValid (some 1) (sizedCheckFields skip d x) bytes = true ↔
      ∀ i (h : i < (d.fields.map (Field.inst x)).length),
        ((d.fields.map (Field.inst x))[i]).valid
          ((bytes.drop (sumSizes ((d.fields.map (Field.inst x)).take i))).take
            ((d.fields.map (Field.inst x))[i]).size) = true := by
  obtain ⟨h1, h2, h3⟩ := sizedPart_layout skip d x l hf hx hacc hl
  refine ⟨h1, h2, h3, fun bytes => ?_⟩
  rw [structValid_marker]
  exact structValid_packed_iff _ bytes (alignPos_inst hf hx)

/-- non-vacuity: the sized part of `{ a: bool, b: u16, #[unsized_start] .. }` -/
example : sizedPart false ⟨.struct, false, [], [.conc Ty.bool, .conc Ty.u16], []⟩ = .accept ∧
    rustcLayout ((sizedPartDecl false ⟨.struct, false, [], [.conc Ty.bool, .conc Ty.u16], []⟩).inst Ty.u8)
      = some ⟨3, 1, 0⟩ := by decide

/-- non-vacuity, marker-less generic layout (`#[unsized_type(skip_phantom_generics)]
struct S<T> { a: bool, b: T, .. }` at `T = bool`): accepted, and an invalid byte in the FIRST field
is refused exactly like one in the second; the same with the marker -/
example : sizedPart true ⟨.struct, true, [], [.conc Ty.bool, .param], []⟩ = .accept ∧
    structValid (some 1) (sizedCheckFields true ⟨.struct, true, [], [.conc Ty.bool, .param], []⟩ Ty.bool) [2, 0] = false ∧
    structValid (some 1) (sizedCheckFields true ⟨.struct, true, [], [.conc Ty.bool, .param], []⟩ Ty.bool) [0, 2] = false ∧
    structValid (some 1) (sizedCheckFields true ⟨.struct, true, [], [.conc Ty.bool, .param], []⟩ Ty.bool) [1, 1] = true ∧
    structValid (some 1) (sizedCheckFields false ⟨.struct, true, [], [.conc Ty.bool, .param], []⟩ Ty.bool) [2, 0] = false ∧
    (sizedCheckFields false ⟨.struct, true, [], [.conc Ty.bool, .param], []⟩ Ty.bool).length = 3 ∧
    (sizedCheckFields true ⟨.struct, true, [], [.conc Ty.bool, .param], []⟩ Ty.bool).length = 2 := by
  decide

/-- a field type without `CheckedBitPattern` (or with `repr(align)`) in the sized part is rejected -/
example : sizedPart false ⟨.struct, false, [], [.conc Ty.na2], []⟩ = .reject := by decide

/-- **A zero-sized element anywhere but last is rejected.** If an `#[unsized_type]` struct is
accepted then, for every probed instantiation, every element of (sized part, tail…) except the last
one has `ZST_STATUS = true` (is not zero sized). -/
theorem zst_middle_rejected (skip : Bool) (d : Decl) (tail : List UTy) (insts : List FTy)
    (hacc : acceptUnsized skip d tail insts = true) :
    ∀ x ∈ insts, ∀ i, i + 1 < (zstElems d tail x).length → (zstElems d tail x)[i]? = some true := by
  intro x hx
  unfold acceptUnsized at hacc
  simp only [Bool.and_eq_true, List.all_eq_true] at hacc
  exact (zstOk_iff _).mp (hacc.2 x hx)

/-- non-vacuity: the three doctests of `unsize/mod.rs` -/
example :
    acceptUnsized false ⟨.struct, false, [], [.conc Ty.u8], []⟩ [⟨false⟩] [Ty.u8] = true ∧
    acceptUnsized false ⟨.struct, false, [], [.conc Ty.unit], []⟩ [⟨true⟩] [Ty.u8] = false ∧
    acceptUnsized true ⟨.struct, false, [], [.conc Ty.u8], []⟩ [⟨false⟩, ⟨true⟩] [Ty.u8] = false := by
  decide

/-- **The documented valid forms keep compiling** (and the documented `compile_fail` forms stay
rejected): every entry of `documentedForms` has the documented verdict. -/
theorem documented_forms_accepted :
    documentedForms.all (fun (it, verdict) => acceptItem it == verdict) = true := by
  decide

example : documentedForms.length = 16 := by decide

end Derive.C19
