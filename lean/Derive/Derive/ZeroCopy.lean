import Derive.Align1
/-!
# C19 — `#[zero_copy]` (`star_frame_proc/src/zero_copy.rs`), the generated sized part of
`#[unsized_type]` structs (`unsize/struct_impl.rs`) and the zero-sized-type placement rule

`#[zero_copy]` only adds `#[repr(C, packed)]` (structs) and a list of derives; whether the item then
compiles is decided by `derive(Align1)` (our model) and by `bytemuck_derive` 1.10.1's
`Zeroable` / `NoUninit` / `CheckedBitPattern` / `Pod` derives, whose acceptance rules (own repr
parser, repr requirements, generics restriction, field bounds, no-padding assertion) are modelled
here as far as the grammar reaches.
-/
namespace Derive

/-! ## bytemuck_derive's repr parser (`traits.rs`: `Representation::parse`, `get_repr`) -/

inductive BmBase
  | rust | c | transparent | int (t : IntTy) | cInt (t : IntTy)
  deriving DecidableEq, Repr

structure BmRepr where
  repr : BmBase
  packed : Option Nat
  align : Option Nat
  deriving DecidableEq, Repr

def BmRepr.default : BmRepr := ⟨.rust, none, none⟩

def bmBaseStep (cur new : BmBase) : Option BmBase :=
  match cur, new with
  | .rust, n => some n
  | .c, .int t => some (.cInt t)
  | .int t, .c => some (.cInt t)
  | _, _ => none                                         -- "duplicate representation hint"

def bmParseStep (ret : BmRepr) : Hint → Option BmRepr
  | .packed n => some { ret with packed := some n }
  | .align n => some { ret with align := some (match ret.align with | none => n | some o => max o n) }
  | .c => (bmBaseStep ret.repr .c).map (fun b => { ret with repr := b })
  | .transparent => (bmBaseStep ret.repr .transparent).map (fun b => { ret with repr := b })
  | .int t => (bmBaseStep ret.repr (.int t)).map (fun b => { ret with repr := b })
  | .rust => none                                        -- "unrecognized representation hint"

def bmParseFrom (ret : BmRepr) : List Hint → Option BmRepr
  | [] => some ret
  | h :: hs => match bmParseStep ret h with | none => none | some r => bmParseFrom r hs

def bmCombine (a b : BmRepr) : Option BmRepr :=
  match (match a.repr, b.repr with | x, .rust => some x | .rust, y => some y | _, _ => none) with
  | none => none
  | some repr =>
    match (match a.packed, b.packed with
           | x, none => some x | none, y => some y | _, _ => none) with
    | none => none                                       -- "conflicting representation hints"
    | some packed =>
      some ⟨repr, packed,
            match a.align, b.align with
            | some x, some y => some (max x y) | x, none => x | none, y => y⟩

def bmGetReprFrom (acc : BmRepr) : List (List Hint) → Option BmRepr
  | [] => some acc
  | a :: as =>
    match bmParseFrom .default a with
    | none => none
    | some r => match bmCombine acc r with | none => none | some acc' => bmGetReprFrom acc' as

def bmGetRepr (attrs : List (List Hint)) : Option BmRepr := bmGetReprFrom .default attrs

/-! ## the bytemuck derives (acceptance at the definition site) -/

def Field.flagAtDef (p : FTy → Bool) : Field → Bool
  | .conc t => p t
  | _ => true      -- the derive adds `T: Trait` to the impl, so fields mentioning `T` pass

def noPadding (d : Decl) : Bool :=
  match rustcLayout (d.inst .opaque) with
  | some l => l.pad == 0
  | none => false

def unitOnly (d : Decl) : Bool := d.variants.all (·.isEmpty)

def bmZeroable (d : Decl) : Bool :=
  match bmGetRepr d.attrs with
  | none => false
  | some r =>
    match d.kind with
    | .struct | .tuple => d.fields.all (Field.flagAtDef (·.zeroable))
    | .union => true
    | .enum =>
      (match r.repr with | .c | .int _ | .cInt _ => true | _ => false) &&
      (match d.variants with
       | [] => false                                     -- "No variant's discriminant is 0"
       | v :: _ => v.all (Field.flagAtDef (·.zeroable)))

def structReprOk (r : BmRepr) : Bool :=
  match r.repr with | .c | .transparent => true | _ => false

def enumReprOk (d : Decl) (r : BmRepr) : Bool :=
  if unitOnly d then (match r.repr with | .c | .int _ => true | _ => false)
  else (match r.repr with | .c | .int _ | .cInt _ => true | _ => false)

/-- per variant: `size_of::<E>() == size_of::<tag>() + Σ size_of::<field>()` -/
def variantsNoPadding (d : Decl) (t : IntTy) : Bool :=
  match rustcLayout (d.inst .opaque) with
  | some l => d.variants.all (fun v => l.size == t.size + sumSizes (v.map (Field.inst .opaque)))
  | none => false

def bmNoUninit (d : Decl) : Bool :=
  match bmGetRepr d.attrs with
  | none => false
  | some r =>
    match d.kind with
    | .struct | .tuple =>
      structReprOk r && !d.generic && noPadding d && d.fields.all (Field.flagAtDef (·.nouninit))
    | .union => false
    | .enum =>
      enumReprOk d r && !d.generic &&
      (unitOnly d ||
        (match r.repr with
         | .int t => variantsNoPadding d t && d.variants.all (fun v => v.all (Field.flagAtDef (·.nouninit)))
         | _ => false))

def bmChecked (d : Decl) : Bool :=
  match bmGetRepr d.attrs with
  | none => false
  | some r =>
    match d.kind with
    | .struct | .tuple => structReprOk r && !d.generic && d.fields.all (Field.flagAtDef (·.checked))
    | .union => false
    | .enum => enumReprOk d r && !d.generic && d.variants.all (fun v => v.all (Field.flagAtDef (·.checked)))

def bmPod (d : Decl) : Bool :=
  match bmGetRepr d.attrs with
  | none => false
  | some r =>
    match d.kind with
    | .struct | .tuple =>
      let completelyPacked := r.packed == some 1 || r.repr == .transparent
      structReprOk r && (completelyPacked || !d.generic) && (completelyPacked || noPadding d) &&
        d.fields.all (Field.flagAtDef (·.pod))
    | _ => false

/-! ## `#[zero_copy]` -/

structure ZcArgs where
  pod : Bool
  skipPacked : Bool

/-- The item the derives see: `#[repr(C, packed)]` (or `#[repr(C)]`) is put in front of the user's
attributes on structs; nothing is added on enums. `none` = `zero_copy_impl` aborts. -/
def zeroCopyItem (a : ZcArgs) (d : Decl) : Option Decl :=
  match d.kind with
  | .union => none                                        -- "`#[zero_copy]` cannot be used on unions"
  | .enum => if a.pod || a.skipPacked then none else some d
  | _ => some { d with attrs := (if a.skipPacked then [.c] else [.c, .packed 1]) :: d.attrs }

def zeroCopy (a : ZcArgs) (d : Decl) : Verdict :=
  match zeroCopyItem a d with
  | none => .reject
  | some d' =>
    if deriveAlign1 d' == .accept && bmZeroable d' &&
       (if a.pod then bmPod d' else (bmChecked d' && bmNoUninit d')) then .accept else .reject

def acceptZeroCopy (a : ZcArgs) (d : Decl) : Bool :=
  match zeroCopyItem a d with
  | none => false
  | some d' => zeroCopy a d == .accept && rustcDefOk d'

/-! ## the generated bit-pattern check -/

/-- `is_valid_bit_pattern` as generated for a struct (by `bytemuck_derive` and, for generic unsized
structs, by `sized_bytemuck_derives`): the conjunction over the fields, each on its own bytes. -/
def fieldsValid : List FTy → List Nat → List Nat → Bool
  | f :: fs, o :: os, bytes => f.valid ((bytes.drop o).take f.size) && fieldsValid fs os bytes
  | _, _, _ => true

def structValid (pack : Option Nat) (fs : List FTy) (bytes : List Nat) : Bool :=
  fieldsValid fs (cOffsets pack fs 0) bytes

/-- unit-only `repr(u8)` enums: the tag must name a variant; data enums: the variant's fields too. -/
def enumValid (vs : List (List FTy)) (bytes : List Nat) : Bool :=
  match bytes with
  | [] => false
  | tag :: _ =>
    match vs[tag]? with
    | none => false
    | some v => fieldsValid v (cOffsets none (tagTy .u8 :: v) 0).tail bytes

/-! ## sized part of `#[unsized_type]` structs -/

/-- An element of the unsized tail; `nonZst` is its `ZST_STATUS`. -/
structure UTy where
  nonZst : Bool

/-- The `_generics: PhantomData<fn() -> (Box<T>,)>` marker the macro adds to the sized part of a
generic struct unless `skip_phantom_generics` is given (`phantom_generics_type`). -/
def markerFields (skipPhantom : Bool) (d : Decl) : List Field :=
  if d.generic && !skipPhantom then [.phantomT] else []

/-- The generated `<Name>Sized` struct: the user's `sized_attributes`, then `#[repr(C, packed)]`;
the user's sized fields, then the marker (`sized_struct`). -/
def sizedPartDecl (skipPhantom : Bool) (d : Decl) : Decl :=
  { d with kind := .struct, attrs := d.attrs ++ [[.c, .packed 1]],
           fields := d.fields ++ markerFields skipPhantom d }

/-- The fields in the order of the generated `…Bits` struct and of `is_valid_bit_pattern`
(`sized_bytemuck_derives`: the marker, if any, comes FIRST there), instantiated. -/
def sizedCheckFields (skipPhantom : Bool) (d : Decl) (x : FTy) : List FTy :=
  (markerFields skipPhantom d ++ d.fields).map (Field.inst x)

/-- `validate_fields_are_trait` of a generic sized part, under the struct's declared bound
`T: UnsizedGenerics` (= CheckedBitPattern + Align1 + NoUninit + Zeroable): `T` and `PhantomData<T>`
pass; `[T; N]` does not (bytemuck gives arrays `CheckedBitPattern` only through `Pod`, which the
bound does not provide). -/
def Field.okInGenericSized : Field → Bool
  | .conc t => t.nouninit && t.zeroable && t.checked
  | .param => true
  | .arr _ => false
  | .phantomT => true

/-- Does the `…Sized` struct (with its derives / hand-written impls) compile? -/
def sizedPart (skipPhantom : Bool) (d : Decl) : Verdict :=
  let s := sizedPartDecl skipPhantom d
  if deriveAlign1 s != .accept then .reject
  else if d.generic then
    -- `validate_fields_are_trait`: NoUninit + Zeroable + CheckedBitPattern on every field
    (if d.fields.all Field.okInGenericSized then .accept else .reject)
  else if bmChecked s && bmNoUninit s && bmZeroable s then .accept else .reject

/-- `ZST_STATUS` of the struct for one instantiation: every element but the last must not be zero
sized (`panic!` in the const otherwise). Elements: the sized part (if any field), then the tail. -/
def zstElems (d : Decl) (tail : List UTy) (x : FTy) : List Bool :=
  (if d.fields.isEmpty then [] else [sumSizes (d.fields.map (Field.inst x)) != 0]) ++ tail.map (·.nonZst)

def zstOk (elems : List Bool) : Bool := elems.dropLast.all id

def acceptUnsized (skipPhantom : Bool) (d : Decl) (tail : List UTy) (insts : List FTy) : Bool :=
  d.kind == .struct &&                                              -- "Unnamed fields are not supported"
  !tail.isEmpty &&
  (d.fields.isEmpty || (sizedPart skipPhantom d == .accept && rustcDefOk (sizedPartDecl skipPhantom d))) &&
  (!d.generic || d.usesParam) &&
  insts.all (fun x => zstOk (zstElems d tail x))

end Derive
