import Derive.ZeroCopy
/-!
# C19 — the concrete alphabet of the correspondence run, the op-line parser and the answer printer

The table of field types is tied to the real types by the `type <tok>` op lines (the probe prints
`size_of`, `align_of` and which marker traits hold for each of them).
-/
namespace Derive

def boolLike (bs : List Nat) : Bool := bs.all (· < 2)

/-- token → concrete field type -/
def ftyOf : String → Option FTy
  | "u8" | "i8" => some { size := 1, align := 1, a1 := true }
  | "bool" => some { size := 1, align := 1, a1 := true, pod := false, valid := boolLike }
  | "u8x3" => some { size := 3, align := 1, a1 := true }
  | "pubkey" => some { size := 32, align := 1, a1 := true }
  | "unit" | "phantom" => some { size := 0, align := 1, a1 := true }
  | "u16" => some { size := 2, align := 2, a1 := false }
  | "u32" => some { size := 4, align := 4, a1 := false }
  | "u64" => some { size := 8, align := 8, a1 := false }
  | "pv64" => some { size := 8, align := 1, a1 := true }
  | "np" => some { size := 3, align := 1, a1 := true, pod := false }
  | "na2" => some { size := 2, align := 2, a1 := false, reprAlign := true, zeroable := false,
                    nouninit := false, checked := false, pod := false }
  | "ne" => some { size := 1, align := 1, a1 := true, pod := false, valid := boolLike }
  | _ => none

def fieldOf (generic : Bool) (s : String) : Option Field :=
  match ftyOf s with
  | some t => some (.conc t)
  | none =>
    if generic then
      (if s = "T" then some .param else if s = "Tx2" then some (.arr 2)
       else if s = "phT" then some .phantomT else none)
    else none

def utyOf : String → Option UTy
  | "list" | "nestlist" => some ⟨true⟩
  | "rem" | "nestrem" => some ⟨false⟩
  | _ => none

def intTyOf : String → Option IntTy
  | "u8" => some .u8 | "i8" => some .i8 | "u16" => some .u16 | "i16" => some .i16
  | "u32" => some .u32 | "i32" => some .i32 | "u64" => some .u64 | "i64" => some .i64
  | "u128" => some .u128 | "i128" => some .i128 | "usize" => some .usize | "isize" => some .isize
  | _ => none

/-- 1–4 decimal digits, no leading zero -/
def parseN (cs : List Char) : Option Nat :=
  if cs.isEmpty || cs.length > 4 || cs.head? == some '0' || !cs.all Char.isDigit then none
  else some (cs.foldl (fun acc c => acc * 10 + (c.toNat - '0'.toNat)) 0)

def hintOf (s : String) : Option Hint :=
  if s = "C" then some .c
  else if s = "transparent" then some .transparent
  else if s = "packed" then some (.packed 1)
  else match intTyOf s with
    | some t => some (.int t)
    | none =>
      if s.startsWith "packed" then (parseN (s.toList.drop 6)).map .packed
      else if s.startsWith "align" then (parseN (s.toList.drop 5)).map .align
      else none

/-! ## s-expressions (tokens are whitespace separated; parentheses stand alone) -/

inductive SExp
  | atom (s : String)
  | list (xs : List SExp)

def sexpStep (st : Option (List (List SExp))) (tok : String) : Option (List (List SExp)) :=
  match st with
  | none => none
  | some stack =>
    if tok = "(" then some ([] :: stack)
    else if tok = ")" then
      match stack with
      | top :: next :: rest => some ((SExp.list top.reverse :: next) :: rest)
      | _ => none
    else
      match stack with
      | top :: rest => some ((SExp.atom tok :: top) :: rest)
      | [] => none

def parseSExps (toks : List String) : Option (List SExp) :=
  match toks.foldl sexpStep (some [[]]) with
  | some [top] => some top.reverse
  | _ => none

def atomsOf : List SExp → Option (List String)
  | [] => some []
  | .atom s :: xs => (atomsOf xs).map (s :: ·)
  | .list _ :: _ => none

def listsOf : List SExp → Option (List (List String))
  | [] => some []
  | .list ys :: xs =>
    match atomsOf ys, listsOf xs with
    | some a, some r => some (a :: r)
    | _, _ => none
  | .atom _ :: _ => none

def mapAll {α β : Type} (f : α → Option β) : List α → Option (List β)
  | [] => some []
  | a :: as => match f a, mapAll f as with | some b, some bs => some (b :: bs) | _, _ => none

inductive Mac
  | align1 | zc | zcpod | zcskip | unsized
  deriving DecidableEq, Repr

def macOf : String → Option Mac
  | "align1" => some .align1 | "zc" => some .zc | "zcpod" => some .zcpod
  | "zcskip" => some .zcskip | "unsized" => some .unsized | _ => none

def kindOf : String → Option Kind
  | "struct" => some .struct | "tuple" => some .tuple | "union" => some .union
  | "enum" => some .enum | _ => none

structure Item where
  mac : Mac
  decl : Decl
  tail : List UTy

def parseItem (toks : List String) : Option Item :=
  match parseSExps toks with
  | some [.list (.atom m :: .atom k :: .atom g :: .list (.atom "reprs" :: attrs) :: body)] =>
    match macOf m, kindOf k, (if g = "plain" then some false else if g = "generic" then some true else none),
          listsOf attrs with
    | some mac, some kind, some generic, some attrStrs =>
      match mapAll (mapAll hintOf) attrStrs with
      | none => none
      | some attrs =>
        match kind, body with
        | .enum, [.list (.atom "variants" :: vs)] =>
          if mac = .unsized then none else
          match listsOf vs with
          | none => none
          | some vss =>
            match mapAll (mapAll (fieldOf generic)) vss with
            | none => none
            | some variants => some ⟨mac, ⟨kind, generic, attrs, [], variants⟩, []⟩
        | .enum, _ => none
        | _, [.list (.atom "fields" :: fs)] =>
          if mac = .unsized then none else
          match atomsOf fs with
          | none => none
          | some fss =>
            match mapAll (fieldOf generic) fss with
            | none => none
            | some fields => some ⟨mac, ⟨kind, generic, attrs, fields, []⟩, []⟩
        | _, [.list (.atom "fields" :: fs), .list (.atom "tail" :: ts)] =>
          if mac ≠ .unsized || !(kind = .struct || kind = .tuple) then none else
          match atomsOf fs, atomsOf ts with
          | some fss, some tss =>
            match mapAll (fieldOf generic) fss, mapAll utyOf tss with
            | some fields, some tail =>
              if tail.isEmpty then none else some ⟨mac, ⟨kind, generic, attrs, fields, []⟩, tail⟩
            | _, _ => none
          | _, _ => none
        | _, _ => none
    | _, _, _, _ => none
  | _ => none

/-! ## the probe's byte patterns and the answer line -/

def fillRange (size o l v : Nat) : List Nat :=
  (List.range size).map (fun i => if o ≤ i ∧ i < o + l then v else 0)

/-- `support::patterns` of the probe crate. -/
def patterns (size : Nat) (kind : Kind) (fs : List FTy) (nvariants : Nat) : List (List Nat) :=
  let base := [0, 1, 2, 255].map (fun b => List.replicate size b)
  match kind with
  | .struct | .tuple =>
    let offs := cOffsets (some 1) fs 0
    let ranges := (offs.zip (fs.map (·.size))).filter (fun (o, l) => l > 0 && o + l ≤ size)
    base ++ ranges.map (fun (o, l) => fillRange size o l 2)
         ++ ranges.map (fun (o, l) => fillRange size (o + l - 1) 1 255)
  | .union => base
  | .enum =>
    if size ≥ 1 then
      base ++ (List.range (min nvariants 250)).map (fun k => k :: List.replicate (size - 1) 2)
    else base

def showBit (b : Bool) : String := if b then "1" else "0"

/-- which instantiations of `T` the probe looks at -/
def instsFor (mac : Mac) (generic : Bool) : List (String × FTy) :=
  if !generic then [("-", FTy.opaque)]
  else
    let pick := fun s => (s, (ftyOf s).getD FTy.opaque)
    if mac = .unsized then [pick "u8", pick "bool"] else [pick "u8", pick "u16"]

def showPad (kind : Kind) (l : Layout) : String :=
  match kind with
  | .struct | .tuple => toString l.pad
  | _ => "-"

/-- `a1=.. align=.. size=.. pad=..[ bits=..]` for the type `d'` instantiated at `x`. -/
def instLine (d' : Decl) (x : FTy) (withBits : Bool) : String :=
  match rustcLayout (d'.inst x) with
  | none => "nolayout"
  | some l =>
    let c := d'.inst x
    let rr := (rustcRepr c.attrs.flatten).getD ⟨false, false, none, none, 1⟩
    let bits :=
      if withBits then
        let ps := patterns l.size c.kind c.fields c.variants.length
        let ok := fun (p : List Nat) =>
          match c.kind with
          | .enum => enumValid c.variants p
          | _ => structValid rr.pack c.fields p
        " bits=" ++ String.join (ps.map (fun p => showBit (ok p)))
      else ""
    s!"a1={showBit (align1Holds d' x)} align={l.align} size={l.size} pad={showPad c.kind l}{bits}"

def zcArgsOf : Mac → ZcArgs
  | .zcpod => ⟨true, false⟩
  | .zcskip => ⟨false, true⟩
  | _ => ⟨false, false⟩

def answerItem (it : Item) : String :=
  let d := it.decl
  let insts := instsFor it.mac d.generic
  match it.mac with
  | .align1 =>
    if acceptAlign1 d then
      "accept " ++ " ".intercalate (insts.map (fun (lbl, x) => s!"{lbl}[{instLine d x false}]"))
    else "reject"
  | .zc | .zcpod | .zcskip =>
    let a := zcArgsOf it.mac
    if acceptZeroCopy a d then
      match zeroCopyItem a d with
      | some d' => "accept " ++ " ".intercalate (insts.map (fun (lbl, x) => s!"{lbl}[{instLine d' x true}]"))
      | none => "reject"
    else "reject"
  | .unsized =>
    if acceptUnsized d it.tail (insts.map (·.2)) then
      if d.fields.isEmpty then "accept " ++ " ".intercalate (insts.map (fun (lbl, _) => s!"{lbl}[nosized]"))
      else "accept " ++ " ".intercalate (insts.map (fun (lbl, x) => s!"{lbl}[{instLine (sizedPartDecl d) x true}]"))
    else "reject"

def typeLine (t : FTy) : String :=
  s!"ty size={t.size} align={t.align} a1={showBit t.a1} zeroable={showBit t.zeroable} nouninit={showBit t.nouninit} checked={showBit t.checked} pod={showBit t.pod}"

/-- one op line → one answer line -/
def answer (toks : List String) : String :=
  match toks with
  | "decl" :: rest =>
    match parseItem rest with
    | some it => answerItem it
    | none => "bad-op"
  | ["type", t] =>
    match ftyOf t with
    | some ty => typeLine ty
    | none => "bad-op"
  | _ => "bad-op"

end Derive
