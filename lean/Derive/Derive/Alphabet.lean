import Derive.ZeroCopy
/-!
# C19 — the concrete alphabet of the correspondence run, the op-line parser and the answer printer

The table of field types is tied to the real types by the `type <tok>` op lines (the probe prints
`size_of`, `align_of` and which marker traits hold for each of them).
-/
namespace Derive

def boolLike (bs : List Nat) : Bool := bs.all (· < 2)

namespace Ty
def u8 : FTy := { size := 1, align := 1, a1 := true }
def bool : FTy := { size := 1, align := 1, a1 := true, pod := false, valid := boolLike }
def u8x3 : FTy := { size := 3, align := 1, a1 := true }
def pubkey : FTy := { size := 32, align := 1, a1 := true }
def unit : FTy := { size := 0, align := 1, a1 := true }
def u16 : FTy := { size := 2, align := 2, a1 := false }
def u32 : FTy := { size := 4, align := 4, a1 := false }
def u64 : FTy := { size := 8, align := 8, a1 := false }
/-- `PackedValue<u64>` -/
def pv64 : FTy := { size := 8, align := 1, a1 := true }
/-- `#[repr(C, packed)] struct { a: u16, b: u8 }` with `Align1` (not `Pod`) -/
def np : FTy := { size := 3, align := 1, a1 := true, pod := false }
/-- `#[repr(align(2))] struct(u8)`, no marker traits -/
def na2 : FTy := { size := 2, align := 2, a1 := false, reprAlign := true, zeroable := false,
                   nouninit := false, checked := false, pod := false }
/-- `#[repr(u8)] enum { A, B }` -/
def ne : FTy := { size := 1, align := 1, a1 := true, pod := false, valid := boolLike }
/-- `[u16; 2]` -/
def u16x2 : FTy := { size := 4, align := 2, a1 := false }
/-- `(u16,)`: bytemuck implements `Zeroable` for tuples, nothing else -/
def tup16 : FTy := { size := 2, align := 2, a1 := false, nouninit := false, checked := false, pod := false }
end Ty

/-- token → concrete field type -/
def ftyOf : String → Option FTy
  | "u8" | "i8" => some Ty.u8
  | "bool" => some Ty.bool
  | "u8x3" => some Ty.u8x3
  | "pubkey" => some Ty.pubkey
  | "unit" | "phantom" => some Ty.unit
  | "u16" => some Ty.u16
  | "u32" => some Ty.u32
  | "u64" => some Ty.u64
  | "pv64" => some Ty.pv64
  | "np" => some Ty.np
  | "na2" => some Ty.na2
  | "ne" => some Ty.ne
  | "u16x2" => some Ty.u16x2
  | "tup16" => some Ty.tup16
  | _ => none

def fieldOf (generic : Bool) (s : String) : Option Field :=
  match ftyOf s with
  | some t => some (.conc t)
  | none =>
    if generic then
      (if s = "T" then some .param else if s = "Tx2" then some (.arr 2)
       else if s = "phT" then some .phantomT else none)
    else none

def utyOf : String → Option UTy
  | "list" | "nestlist" => some ⟨true⟩
  | "rem" | "nestrem" => some ⟨false⟩
  | _ => none

def intTyOf : String → Option IntTy
  | "u8" => some .u8 | "i8" => some .i8 | "u16" => some .u16 | "i16" => some .i16
  | "u32" => some .u32 | "i32" => some .i32 | "u64" => some .u64 | "i64" => some .i64
  | "u128" => some .u128 | "i128" => some .i128 | "usize" => some .usize | "isize" => some .isize
  | _ => none

/-- 1–4 decimal digits, no leading zero -/
def parseN (cs : List Char) : Option Nat :=
  if cs.isEmpty || cs.length > 4 || cs.head? == some '0' || !cs.all Char.isDigit then none
  else some (cs.foldl (fun acc c => acc * 10 + (c.toNat - '0'.toNat)) 0)

def hintOf (s : String) : Option Hint :=
  if s = "C" then some .c
  else if s = "Rust" then some .rust
  else if s = "transparent" then some .transparent
  else if s = "packed" then some (.packed 1)
  else match intTyOf s with
    | some t => some (.int t)
    | none =>
      if s.startsWith "packed" then (parseN (s.toList.drop 6)).map .packed
      else if s.startsWith "align" then (parseN (s.toList.drop 5)).map .align
      else none

/-! ## s-expressions (tokens are whitespace separated; parentheses stand alone) -/

inductive SExp
  | atom (s : String)
  | list (xs : List SExp)

def sexpStep (st : Option (List (List SExp))) (tok : String) : Option (List (List SExp)) :=
  match st with
  | none => none
  | some stack =>
    if tok = "(" then some ([] :: stack)
    else if tok = ")" then
      match stack with
      | top :: next :: rest => some ((SExp.list top.reverse :: next) :: rest)
      | _ => none
    else
      match stack with
      | top :: rest => some ((SExp.atom tok :: top) :: rest)
      | [] => none

def parseSExps (toks : List String) : Option (List SExp) :=
  match toks.foldl sexpStep (some [[]]) with
  | some [top] => some top.reverse
  | _ => none

def atomsOf : List SExp → Option (List String)
  | [] => some []
  | .atom s :: xs => (atomsOf xs).map (s :: ·)
  | .list _ :: _ => none

def listsOf : List SExp → Option (List (List String))
  | [] => some []
  | .list ys :: xs =>
    match atomsOf ys, listsOf xs with
    | some a, some r => some (a :: r)
    | _, _ => none
  | .atom _ :: _ => none

def mapAll {α β : Type} (f : α → Option β) : List α → Option (List β)
  | [] => some []
  | a :: as => match f a, mapAll f as with | some b, some bs => some (b :: bs) | _, _ => none

inductive Mac
  | align1 | zc | zcpod | zcskip | unsized | unsizednp
  deriving DecidableEq, Repr

def macOf : String → Option Mac
  | "align1" => some .align1 | "zc" => some .zc | "zcpod" => some .zcpod
  | "zcskip" => some .zcskip | "unsized" => some .unsized | "unsizednp" => some .unsizednp
  | _ => none

/-- `#[unsized_type]`, with or without `skip_phantom_generics` -/
def Mac.isUnsized : Mac → Bool
  | .unsized | .unsizednp => true
  | _ => false

def kindOf : String → Option Kind
  | "struct" => some .struct | "tuple" => some .tuple | "union" => some .union
  | "enum" => some .enum | _ => none

structure Item where
  mac : Mac
  decl : Decl
  tail : List UTy

def parseItem (toks : List String) : Option Item :=
  match parseSExps toks with
  | some [.list (.atom m :: .atom k :: .atom g :: .list (.atom "reprs" :: attrs) :: body)] =>
    match macOf m, kindOf k, (if g = "plain" then some false else if g = "generic" then some true else none),
          listsOf attrs with
    | some mac, some kind, some generic, some attrStrs =>
      match mapAll (mapAll hintOf) attrStrs with
      | none => none
      | some attrs =>
        match kind, body with
        | .enum, [.list (.atom "variants" :: vs)] =>
          if mac.isUnsized then none else
          match listsOf vs with
          | none => none
          | some vss =>
            match mapAll (mapAll (fieldOf generic)) vss with
            | none => none
            | some variants => some ⟨mac, ⟨kind, generic, attrs, [], variants⟩, []⟩
        | .enum, _ => none
        | _, [.list (.atom "fields" :: fs)] =>
          if mac.isUnsized then none else
          match atomsOf fs with
          | none => none
          | some fss =>
            match mapAll (fieldOf generic) fss with
            | none => none
            | some fields => some ⟨mac, ⟨kind, generic, attrs, fields, []⟩, []⟩
        | _, [.list (.atom "fields" :: fs), .list (.atom "tail" :: ts)] =>
          if !mac.isUnsized || !(kind = .struct || kind = .tuple) then none else
          match atomsOf fs, atomsOf ts with
          | some fss, some tss =>
            match mapAll (fieldOf generic) fss, mapAll utyOf tss with
            | some fields, some tail =>
              if tail.isEmpty then none else some ⟨mac, ⟨kind, generic, attrs, fields, []⟩, tail⟩
            | _, _ => none
          | _, _ => none
        | _, _ => none
    | _, _, _, _ => none
  | _ => none

/-! ## the probe's byte patterns and the answer line -/

def fillRange (size o l v : Nat) : List Nat :=
  (List.range size).map (fun i => if o ≤ i ∧ i < o + l then v else 0)

/-- `support::patterns` of the probe crate. -/
def patterns (size : Nat) (kind : Kind) (fs : List FTy) (nvariants : Nat) : List (List Nat) :=
  let base := [0, 1, 2, 255].map (fun b => List.replicate size b)
  match kind with
  | .struct | .tuple =>
    let offs := cOffsets (some 1) fs 0
    let ranges := (offs.zip (fs.map (·.size))).filter (fun (o, l) => l > 0 && o + l ≤ size)
    base ++ ranges.map (fun (o, l) => fillRange size o l 2)
         ++ ranges.map (fun (o, l) => fillRange size (o + l - 1) 1 255)
  | .union => base
  | .enum =>
    if size ≥ 1 then
      base ++ (List.range (min nvariants 250)).map (fun k => k :: List.replicate (size - 1) 2)
    else base

def showBit (b : Bool) : String := if b then "1" else "0"

/-- which instantiations of `T` the probe looks at -/
def instsFor (mac : Mac) (generic : Bool) : List (String × FTy) :=
  if !generic then [("-", FTy.opaque)]
  else
    if mac.isUnsized then [("u8", Ty.u8), ("bool", Ty.bool)] else [("u8", Ty.u8), ("u16", Ty.u16)]

def showPad (kind : Kind) (l : Layout) : String :=
  match kind with
  | .struct | .tuple => toString l.pad
  | _ => "-"

/-- `a1=.. align=.. size=.. pad=..[ bits=..]` for the type `d'` instantiated at `x`. -/
def instLine (d' : Decl) (x : FTy) (withBits : Bool) (checkFields : Option (List FTy) := none) : String :=
  match rustcLayout (d'.inst x) with
  | none => "nolayout"
  | some l =>
    let c := d'.inst x
    let rr := (rustcRepr c.attrs.flatten).getD ⟨false, false, none, none, 1⟩
    let bits :=
      if withBits then
        let ps := patterns l.size c.kind c.fields c.variants.length
        let ok := fun (p : List Nat) =>
          match c.kind with
          | .enum => enumValid c.variants p
          | _ => structValid rr.pack (checkFields.getD c.fields) p
        " bits=" ++ String.join (ps.map (fun p => showBit (ok p)))
      else ""
    s!"a1={showBit (align1Holds d' x)} align={l.align} size={l.size} pad={showPad c.kind l}{bits}"

def zcArgsOf : Mac → ZcArgs
  | .zcpod => ⟨true, false⟩
  | .zcskip => ⟨false, true⟩
  | _ => ⟨false, false⟩

/-- Does the module of this item compile? -/
def acceptItem (it : Item) : Bool :=
  match it.mac with
  | .align1 => acceptAlign1 it.decl
  | .zc | .zcpod | .zcskip => acceptZeroCopy (zcArgsOf it.mac) it.decl
  | .unsized | .unsizednp =>
    acceptUnsized (it.mac == .unsizednp) it.decl it.tail ((instsFor it.mac it.decl.generic).map (·.2))

/-- The type the probe measures: the declaration itself, the item the zero-copy derives see, or
the generated sized part (`none`: an unsized struct without sized fields). -/
def probedDecl (it : Item) : Option Decl :=
  match it.mac with
  | .align1 => some it.decl
  | .zc | .zcpod | .zcskip => zeroCopyItem (zcArgsOf it.mac) it.decl
  | .unsized | .unsizednp =>
    if it.decl.fields.isEmpty then none else some (sizedPartDecl (it.mac == .unsizednp) it.decl)

def answerItem (it : Item) : String :=
  if acceptItem it then
    let insts := instsFor it.mac it.decl.generic
    match probedDecl it with
    | some d' =>
      -- the sized part is checked by the generated `is_valid_bit_pattern` over `sizedCheckFields`
      let chk := fun (x : FTy) =>
        if it.mac.isUnsized then some (sizedCheckFields (it.mac == .unsizednp) it.decl x) else none
      "accept " ++ " ".intercalate
        (insts.map (fun (lbl, x) => s!"{lbl}[{instLine d' x (it.mac != .align1) (chk x)}]"))
    | none => "accept " ++ " ".intercalate (insts.map (fun (lbl, _) => s!"{lbl}[nosized]"))
  else "reject"

def typeLine (t : FTy) : String :=
  s!"ty size={t.size} align={t.align} a1={showBit t.a1} zeroable={showBit t.zeroable} nouninit={showBit t.nouninit} checked={showBit t.checked} pod={showBit t.pod}"

/-- one op line → one answer line -/
def answer (toks : List String) : String :=
  match toks with
  | "decl" :: rest =>
    match parseItem rest with
    | some it => answerItem it
    | none => "bad-op"
  | ["type", t] =>
    match ftyOf t with
    | some ty => typeLine ty
    | none => "bad-op"
  | _ => "bad-op"

/-! ## the documented forms (the same list as `gen::documented` of the harness) -/

private def cf (ts : List FTy) : List Field := ts.map .conc

/-- (item, documented verdict) -/
def documentedForms : List (Item × Bool) :=
  [ -- `#[zero_copy] struct MyStruct { pub field: u64 }`
    (⟨.zc, ⟨.struct, false, [], cf [Ty.u64], []⟩, []⟩, true),
    -- `#[derive(Align1)] #[repr(C, packed)] struct SomePackedThing { a: u32, b: u64 }`
    (⟨.align1, ⟨.struct, false, [[.c, .packed 1]], cf [Ty.u32, Ty.u64], []⟩, []⟩, true),
    -- `#[derive(Align1)] #[repr(C, packed)] struct CounterAccount { authority: Pubkey }`
    (⟨.align1, ⟨.struct, false, [[.c, .packed 1]], cf [Ty.pubkey], []⟩, []⟩, true),
    -- `#[derive(Align1)] struct UnCallable;`
    (⟨.align1, ⟨.struct, false, [], [], []⟩, []⟩, true),
    -- `#[derive(Align1)] #[repr(C)] struct ListItemSized<K, V> { key: K, value: V }`
    (⟨.align1, ⟨.struct, true, [[.c]], [.param, .param], []⟩, []⟩, true),
    -- `#[derive(Align1)] #[repr(C, packed)] struct PackedValue<T>(pub T);`
    (⟨.align1, ⟨.tuple, true, [[.c, .packed 1]], [.param], []⟩, []⟩, true),
    -- `#[derive(Align1)] #[repr(transparent)] struct RemainingBytes([u8]);`
    (⟨.align1, ⟨.tuple, false, [[.transparent]], cf [Ty.u8x3], []⟩, []⟩, true),
    -- `#[zero_copy(pod)]` struct
    (⟨.zcpod, ⟨.struct, false, [], cf [Ty.u64, Ty.u8], []⟩, []⟩, true),
    -- `#[zero_copy(skip_packed)]` with `Align1` fields
    (⟨.zcskip, ⟨.struct, false, [], cf [Ty.u8, Ty.bool], []⟩, []⟩, true),
    -- `#[zero_copy] #[repr(u8)] enum { A, B }`
    (⟨.zc, ⟨.enum, false, [[.int .u8]], [], [[], []]⟩, []⟩, true),
    -- `#[unsized_type] struct MyStruct { sized_field: u64, #[unsized_start] items: List<u8> }`
    (⟨.unsized, ⟨.struct, false, [], cf [Ty.u64], []⟩, [⟨true⟩]⟩, true),
    -- `MyAccount { sized_field: u64, another_sized_field: bool, #[unsized_start] bytes: List<u8>, map: Map<..> }`
    (⟨.unsized, ⟨.struct, false, [], cf [Ty.u64, Ty.bool], []⟩, [⟨true⟩, ⟨true⟩]⟩, true),
    -- `#[unsized_type(skip_idl, skip_phantom_generics)] struct WithSizedGenerics<A, B> { sized1: A, sized2: B, sized3: u8, .. }`
    (⟨.unsizednp, ⟨.struct, true, [], [.param, .param, .conc Ty.u8], []⟩, [⟨true⟩]⟩, true),
    -- doctest "ZST at end": `{ field1: u8, #[unsized_start] remaining: RemainingBytes }`
    (⟨.unsized, ⟨.struct, false, [], cf [Ty.u8], []⟩, [⟨false⟩]⟩, true),
    -- doctest "ZST on sized" (compile_fail): `{ field1: (), #[unsized_start] list: List<u8> }`
    (⟨.unsized, ⟨.struct, false, [], cf [Ty.unit], []⟩, [⟨true⟩]⟩, false),
    -- doctest "nested ZST" (compile_fail): `{ field1: u8, #[unsized_start] zst_in_middle: ZstAtEnd, list: List<u8> }`
    (⟨.unsized, ⟨.struct, false, [], cf [Ty.u8], []⟩, [⟨false⟩, ⟨true⟩]⟩, false) ]

end Derive
