import Common.Proto
import Derive.Alphabet
/-! Model driver for C19: one answer per op line (`decl <s-expr>` / `type <tok>`). -/
open Common.Proto

def main : IO Unit :=
  run () (fun _ toks => ((), Derive.answer toks))
