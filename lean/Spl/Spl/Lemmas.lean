import Spl.Wire
import Spl.Pack
/-! Helper lemmas for `Spl.Props.C16`. -/
namespace Spl
open Common

theorem leN1 (n : Nat) : leN 1 n = [n % 256] := by simp [leN]

theorem leN4 (n : Nat) : leN 4 n = u32le n := by
  simp [leN, u32le, Nat.div_div_eq_div_mul]

theorem leN8 (n : Nat) : leN 8 n = u64le n := by
  simp [leN, u64le, Nat.div_div_eq_div_mul]

theorem borsh_optKey (o : Option Key) : borsh .optPubkey (some (.optKey o)) = packKeyOpt o := by
  cases o <;> rfl

theorem borsh_u8 (n : Nat) : borsh .u8 (some (.num n)) = [n % 256] := by simp [borsh, leN1]
theorem borsh_u64 (n : Nat) : borsh .u64 (some (.num n)) = u64le n := by simp [borsh, leN8]
theorem borsh_key (k : Key) : borsh .pubkey (some (.key k)) = k := rfl
theorem borsh_auth (a : Generated.AuthorityType) : borsh .authorityType (some (.auth a)) = [a.idx % 256] := by
  simp [borsh, leN1]

theorem auth_byte (t : AuthTy) : t.fw.idx % 256 = t.toByte := by
  cases t <;> rfl

/-- The ids the framework declares are the reference ids (concrete 32-byte tables). -/
theorem systemId_eq : Generated.systemId = refSystemId := by decide
theorem tokenId_eq : Generated.tokenId = refTokenId := by decide
theorem ataId_eq : Generated.ataId = refAtaId := by decide
theorem rentId_eq : Generated.rentSysvarId = refRentId := by decide

theorem optIs_getD {o : Option Key} {k : Key} (h : optIs o k) : o.getD k = k := by
  rcases h with h | h <;> simp [h]

/-! ## CPI build -/

theorem infosOf_keys (rt : AName → Nat → Bool × Bool) (n : AName) (s w : Bool) (ks : List Key) (i : Nat) :
    (infosOf rt n ks i).map (fun x => (⟨x.key, s, w⟩ : Meta)) = ks.map (fun k => ⟨k, s, w⟩) := by
  induction ks generalizing i with
  | nil => rfl
  | cons k ks ih => simp [infosOf, ih]

/-- One slot: the CPI meta writer on the CPI value of a client input = the client meta writer on that input,
whatever the runtime flags. -/
theorem cpiMetasOf_eq (rt : AName → Nat → Bool × Bool) (ty : AcctTy) (n : AName) (v : Option AVal) :
    cpiMetasOf ty (toCpiVal rt ty n v) = metasOf ty v := by
  cases ty <;> rcases v with _ | v <;> try rfl
  all_goals cases v <;> simp [toCpiVal, cpiMetasOf, metasOf, infosOf_keys]

/-! ## Pack: inversion of the reference unpackers, `PodOption` vs `COption` -/

theorem refUnpackMint_ok {b : List Nat} {m : Mint} (h : refUnpackMint b = .ok m) :
    b.length = 82 ∧ refCOptKey (slice b 0 36) = some m.mintAuthority ∧ slice b 45 1 = [1]
      ∧ refCOptKey (slice b 46 36) = some m.freezeAuthority ∧ m.supply = rdLE (slice b 36 8)
      ∧ m.decimals = (slice b 44 1).head?.getD 0 ∧ m.isInitialized = true := by
  unfold refUnpackMint at h
  split at h
  · cases h
  · rename_i hl
    split at h
    · cases h
    · rename_i ma hma
      split at h
      · split at h <;> cases h
      · rename_i h45
        split at h
        · cases h
        · rename_i fa hfa
          cases h
          simp_all
      · cases h
theorem refCOptKey_some {f : List Nat} {o : Option Key} (h : refCOptKey f = some o) :
    (slice f 0 4 = [0,0,0,0] ∧ o = none) ∨ (slice f 0 4 = [1,0,0,0] ∧ o = some (slice f 4 32)) := by
  unfold refCOptKey at h
  split at h <;> simp_all

theorem podInto_key {f : List Nat} {o : Option Key} (h : refCOptKey f = some o) : podInto 32 f = o := by
  rcases refCOptKey_some h with ⟨ht, ho⟩ | ⟨ht, ho⟩ <;>
    simp [podInto, podParts, Generated.podOptionLayout, Generated.podSome, ht, ho]

theorem refUnpackAccount_ok {b : List Nat} {t : TokenAcc} (h : refUnpackAccount b = .ok t) :
    b.length = 165 ∧ refCOptKey (slice b 72 36) = some t.delegate
      ∧ (slice b 108 1).head?.getD 0 ≤ 2 ∧ (slice b 108 1).head?.getD 0 ≠ 0
      ∧ refCOptU64 (slice b 109 12) = some t.isNative
      ∧ refCOptKey (slice b 129 36) = some t.closeAuthority
      ∧ t.mint = slice b 0 32 ∧ t.owner = slice b 32 32 ∧ t.amount = rdLE (slice b 64 8)
      ∧ t.state = (slice b 108 1).head?.getD 0 ∧ t.delegatedAmount = rdLE (slice b 121 8) := by
  unfold refUnpackAccount at h
  split at h
  · cases h
  · split at h
    · cases h
    · simp only at h
      split at h
      · cases h
      · split at h
        · cases h
        · split at h
          · cases h
          · split at h
            · cases h
            · cases h
              simp_all

theorem refCOptU64_some {f : List Nat} {o : Option Nat} (h : refCOptU64 f = some o) :
    (slice f 0 4 = [0,0,0,0] ∧ o = none) ∨ (slice f 0 4 = [1,0,0,0] ∧ o = some (rdLE (slice f 4 8))) := by
  unfold refCOptU64 at h
  split at h <;> simp_all

theorem podInto_u64 {f : List Nat} {o : Option Nat} (h : refCOptU64 f = some o) :
    (podInto 8 f).map rdLE = o := by
  rcases refCOptU64_some h with ⟨ht, ho⟩ | ⟨ht, ho⟩ <;>
    simp [podInto, podParts, Generated.podOptionLayout, Generated.podSome, ht, ho]

/-! ## raw `PodOption` cells vs `COption` (validation functions) -/

theorem podEqSome_ref {f : List Nat} {o : Option Key} (h : refCOptKey f = some o) (k : Key) :
    podEqSome (podParts 32 f Generated.podOptionLayout 0 ([], [])) k = (o == some k) := by
  rcases refCOptKey_some h with ⟨ht, ho⟩ | ⟨ht, ho⟩ <;>
    simp [podEqSome, podParts, Generated.podOptionLayout, Generated.podSome, ht, ho]

theorem podIsSome_ref {f : List Nat} {o : Option Key} (h : refCOptKey f = some o) :
    podIsSome (podParts 32 f Generated.podOptionLayout 0 ([], [])) = o.isSome := by
  rcases refCOptKey_some h with ⟨ht, ho⟩ | ⟨ht, ho⟩ <;>
    simp [podIsSome, podParts, Generated.podOptionLayout, Generated.podSome, ht, ho]

theorem mint_cells (b : List Nat) :
    podCell Generated.mintFields b .mint_authority 32
        = podParts 32 (slice b 0 36) Generated.podOptionLayout 0 ([], [])
    ∧ podCell Generated.mintFields b .freeze_authority 32
        = podParts 32 (slice b 46 36) Generated.podOptionLayout 0 ([], []) := by
  simp [podCell, fieldOffset, Generated.mintFields, STy.size, podSize, Generated.podOptionLayout, partSize]

/-! ## the writable flag: `data()` vs `validate()` vs `data_unchecked()` -/

/-- Whatever `validate()` accepts, the bare checked cast accepts with the same fields. -/
theorem fwView_ok_unchecked {fields : List (SName × STy)} {len : Nat} {init : List (SName × SVal) → Bool}
    {o : Bool} {b : List Nat} {vs : List (SName × SVal)} (h : fwView fields len init o b = .ok vs) :
    fwUnchecked fields b = .ok vs := by
  unfold fwView at h
  unfold fwUnchecked
  split at h
  · cases h
  · split at h
    · cases h
    · split at h
      · cases h
      · rename_i hs
        rw [if_neg hs]
        split at h
        · cases h
        · rename_i vs' hr
          split at h
          · cases h; simp
          · cases h

/-- `data()` on a writable info is exactly `validate()` followed by the fields; on a read-only info it is the
bare checked cast. -/
theorem fwDataView_writable (fields : List (SName × STy)) (len : Nat) (init : List (SName × SVal) → Bool)
    (o : Bool) (b : List Nat) : fwDataView fields len init true o b = fwView fields len init o b := by
  unfold fwDataView
  simp only [if_true]
  cases h : fwView fields len init o b with
  | error e => rfl
  | ok vs => simp [fwView_ok_unchecked h]

theorem fwDataView_readonly (fields : List (SName × STy)) (len : Nat) (init : List (SName × SVal) → Bool)
    (o : Bool) (b : List Nat) : fwDataView fields len init false o b = fwUnchecked fields b := by
  simp [fwDataView]

/-- Once `validate()` accepts, `data()` returns the same fields for either value of the writable flag. -/
theorem fwDataView_of_view {fields : List (SName × STy)} {len : Nat} {init : List (SName × SVal) → Bool}
    {o : Bool} {b : List Nat} {vs : List (SName × SVal)} (h : fwView fields len init o b = .ok vs) (w : Bool) :
    fwDataView fields len init w o b = .ok vs := by
  cases w
  · rw [fwDataView_readonly]; exact fwView_ok_unchecked h
  · rw [fwDataView_writable]; exact h

end Spl
