import Spl.Lemmas
/-!
# C16 — System / SPL Token / ATA bindings are wire- and layout-compatible with the references

Property theorems only (models: `Spl/Wire.lean`, `Spl/Pack.lean`; tables: `Spl/Generated/Tables.lean`,
regenerated from the repository source on every run; helper lemmas: `Spl/Lemmas.lean`).

* `ix_bytes_agree`, `program_agree` — for EVERY bound instruction and ALL argument values the framework's
  instruction data / program id are the reference's.
* `bound_covered` — every variant of the three generated instruction-set enums is one of the modelled
  instructions (a variant added to the source breaks this theorem instead of silently escaping).
* `metas_agree` — same keys, same order, same signer / writable flags, for all keys and any list of
  multisig signers, whenever the reference builder produces an instruction. (History: on the tree before
  `/repo` commit 7d43a17 this was false — `RecoverNested` marked `owner_ata` writable; found by this check,
  regression case `corpus/C16/recover_nested_owner_ata.replay`.)
* `cpi_agree` — the CPI build of every bound instruction: metas independent of the runtime flags of the
  supplied infos and equal to the client metas / reference; data and program id likewise.
* `mint_view_agree`, `token_view_agree` — for ALL byte images: the reference unpacker accepts ⇒ the
  framework's zero-copy view accepts, with identical field values. (`view_converse_witness`: the converse
  does not hold — not part of the property.)
* `data_flag_exact`, `mint_view_agree_flags`, `token_view_agree_flags` — what the runtime writable flag of the
  `AccountInfo` does (`data()` re-runs `validate()` iff writable), and the view theorems for every access path
  (`data_unchecked`, `data`, account set + `data`) and both flag values.
* `validate_mint_agree`, `validate_token_agree`, `init_*_if_needed_agree` — for ALL images the reference accepts,
  ALL validation arguments and both flag values, `validate_mint` / `validate_token` (alone, as validation id, and
  through `init_account::<IF_NEEDED>`) give the predicate on the reference fields.
* `ata_agree` — the helper hashes the same seed list under the same program as the reference derivation.
-/
namespace Spl.C16
open Common Spl

/-- For every bound instruction and ALL argument values: the framework's instruction data
(`bytes_of(&repr discriminant) ++ borsh(payload in declared field order)`) equals the reference encoding
(System: `u32` LE index ++ bincode fields; Token: `TokenInstruction::pack`; ATA: tag byte). -/
theorem ix_bytes_agree (ix : Ix) : fwData ix = refData ix := by
  cases ix <;>
    simp [fwData, refData, Ix.tag, IxTag.reprBytes, IxTag.disc, IxTag.fields, fwArgs,
      borsh_u8, borsh_u64, borsh_key, borsh_auth, borsh_optKey, auth_byte,
      Generated.sysReprBytes, Generated.tokReprBytes, Generated.ataReprBytes,
      Generated.SysIx.disc, Generated.TokIx.disc, Generated.AtaIx.disc,
      Generated.SysIx.fields, Generated.TokIx.fields, Generated.AtaIx.fields,
      assoc, leN1, leN4, u32le]

example : refData (.tokTransferChecked [] [] [] [] (2 ^ 64 - 1) 9) = [12, 255, 255, 255, 255, 255, 255, 255, 255, 9] := by
  decide
example : fwData (.sysCreateAccount [] [] 1 2 [7]) = [0, 0, 0, 0, 1, 0, 0, 0, 0, 0, 0, 0, 2, 0, 0, 0, 0, 0, 0, 0, 7] := by
  decide

/-- The program id the framework declares is the reference program id, for every bound instruction. -/
theorem program_agree (ix : Ix) : fwProgram ix = refProgram ix := by
  cases ix <;> simp [fwProgram, refProgram, Ix.tag, IxTag.prog, progId, systemId_eq, tokenId_eq, ataId_eq]

/-- Every bound instruction (every variant of the three generated enums) is modelled. -/
theorem bound_covered (t : IxTag) : t ∈ IxTag.all ∧ ∃ ix : Ix, ix.tag = t := by
  constructor
  · rcases t with i | i | i <;> cases i <;> decide
  · rcases t with i | i | i <;> cases i
    all_goals first
      | exact ⟨.sysCreateAccount [] [] 0 0 [], rfl⟩ | exact ⟨.sysAssign [] [], rfl⟩
      | exact ⟨.sysTransfer [] [] 0, rfl⟩ | exact ⟨.sysAdvanceNonce [] [] [], rfl⟩
      | exact ⟨.sysWithdrawNonce [] [] [] none [] 0, rfl⟩ | exact ⟨.sysInitNonce [] [] none [], rfl⟩
      | exact ⟨.sysAuthorizeNonce [] [] [], rfl⟩ | exact ⟨.sysAllocate [] 0, rfl⟩
      | exact ⟨.sysUpgradeNonce [], rfl⟩
      | exact ⟨.tokInitializeMint [] none 0 [] none, rfl⟩ | exact ⟨.tokInitializeAccount [] [] [] none, rfl⟩
      | exact ⟨.tokInitializeMultisig [] none [] 0, rfl⟩ | exact ⟨.tokTransfer [] [] [] 0, rfl⟩
      | exact ⟨.tokApprove [] [] [] 0, rfl⟩ | exact ⟨.tokRevoke [] [], rfl⟩
      | exact ⟨.tokSetAuthority [] [] .mintTokens none, rfl⟩ | exact ⟨.tokMintTo [] [] [] 0, rfl⟩
      | exact ⟨.tokBurn [] [] [] 0, rfl⟩ | exact ⟨.tokCloseAccount [] [] [], rfl⟩
      | exact ⟨.tokFreezeAccount [] [] [], rfl⟩ | exact ⟨.tokThawAccount [] [] [], rfl⟩
      | exact ⟨.tokTransferChecked [] [] [] [] 0 0, rfl⟩ | exact ⟨.tokApproveChecked [] [] [] [] 0 0, rfl⟩
      | exact ⟨.tokMintToChecked [] [] [] 0 0, rfl⟩ | exact ⟨.tokBurnChecked [] [] [] 0 0, rfl⟩
      | exact ⟨.tokInitializeAccount2 [] [] none [], rfl⟩ | exact ⟨.tokSyncNative [], rfl⟩
      | exact ⟨.tokInitializeAccount3 [] [] [], rfl⟩ | exact ⟨.tokInitializeMultisig2 [] [] 0, rfl⟩
      | exact ⟨.tokInitializeMint2 [] 0 [] none, rfl⟩ | exact ⟨.tokGetAccountDataSize [], rfl⟩
      | exact ⟨.tokInitializeImmutableOwner [], rfl⟩ | exact ⟨.tokAmountToUiAmount [] 0, rfl⟩
      | exact ⟨.ataCreate [] [] [] [] none none, rfl⟩ | exact ⟨.ataCreateIdempotent [] [] [] [] none none, rfl⟩
      | exact ⟨.ataRecoverNested [] [] [] [] [] [] none, rfl⟩

/-- For every bound instruction: whenever the reference builder produces an instruction
(`refMetas = some ms`; the multisig builders refuse unless `1 ≤ m ≤ n ≤ 11`) and the client passed, for the
accounts the reference fixes or derives itself, those same keys (`Canonical`), the framework's metas are
the reference's: same keys, same order, same signer / writable flags — for all keys and any list of
multisig signers. -/
theorem metas_agree (pda : List Key → Key → Key) (ix : Ix) (ms : List Meta)
    (hc : Canonical pda ix) (hr : refMetas pda ix = some ms) : fwMetas ix = ms := by
  cases ix <;>
    simp [Canonical, refMetas, fwMetas, Ix.tag, IxTag.accounts, fwAccts, metasOf, assoc,
      Generated.SysIx.accounts, Generated.TokIx.accounts, Generated.AtaIx.accounts, mW, mR, progId,
      systemId_eq, tokenId_eq, ataId_eq, rentId_eq] at *
  all_goals first
    | exact hr
    | (subst hr; simp_all [optIs_getD])
    | (obtain ⟨_, hr⟩ := hr; subst hr; simp_all [optIs_getD])

/-- non-vacuity: eleven signers, the reference accepts, the hypotheses hold -/
example : ∃ ms, refMetas (fun _ _ => []) (.tokInitializeMultisig [1] none (List.replicate 11 [2]) 11) = some ms
    ∧ Canonical (fun _ _ => []) (.tokInitializeMultisig [1] none (List.replicate 11 [2]) 11)
    ∧ ms.length = 13 := ⟨_, rfl, Or.inl rfl, rfl⟩

/-- non-vacuity for the derived-key instructions: a canonical `RecoverNested` (the client passes exactly the
keys the reference derives), seven metas. -/
example : ∃ ms, Canonical (fun _ _ => [9]) (.ataRecoverNested [9] [1] [9] [9] [2] [3] none)
    ∧ refMetas (fun _ _ => [9]) (.ataRecoverNested [9] [1] [9] [9] [2] [3] none) = some ms ∧ ms.length = 7 :=
  ⟨_, ⟨rfl, rfl, rfl⟩, rfl, rfl⟩

/-- The CPI build (`Program::cpi(..).invoke()`) of every bound instruction, for ALL arguments and ALL runtime
privileges `rt` of the supplied account infos: its metas do not depend on `rt` and are the client build's
metas; its data and program id are the client build's — hence (by `ix_bytes_agree`, `program_agree`,
`metas_agree`) the reference's. -/
theorem cpi_agree (rt : AName → Nat → Bool × Bool) (ix : Ix) :
    cpiMetas rt ix = fwMetas ix ∧ cpiData ix = refData ix ∧ cpiProgram ix = refProgram ix
      ∧ ∀ (pda : List Key → Key → Key) (ms : List Meta),
          Canonical pda ix → refMetas pda ix = some ms → cpiMetas rt ix = ms := by
  have h : cpiMetas rt ix = fwMetas ix := by
    simp only [cpiMetas, fwMetas, cpiMetasOf_eq]
  exact ⟨h, ix_bytes_agree ix, program_agree ix, fun pda ms hc hr => h ▸ metas_agree pda ix ms hc hr⟩

/-- non-vacuity: `TransferChecked` with every supplied info a writable signer — `mint` (a bare read-only
`AccountInfo` slot) still goes out read-only and non-signer. -/
example : cpiMetas (fun _ _ => (true, true)) (.tokTransferChecked [1] [2] [3] [4] 5 6)
    = [⟨[1], false, true⟩, ⟨[2], false, false⟩, ⟨[3], false, true⟩, ⟨[4], true, false⟩] := by decide

/-- For ALL byte images: if the reference `Mint::unpack` accepts, the framework's `MintAccount` view
(owner = Token) accepts, and the fields it exposes are the reference's. -/
theorem mint_view_agree (b : List Nat) (m : Mint) (h : refUnpackMint b = .ok m) :
    ∃ vs, fwMintView true b = .ok vs ∧ viewMint vs = m := by
  obtain ⟨hl, hma, h45, hfa, hs, hd, hi⟩ := refUnpackMint_ok h
  simp [fwMintView, fwView, Generated.mintLen, Generated.mintFields, structSize, STy.size, podSize,
    Generated.podOptionLayout, partSize, hl, readFields, readField, h45, mintInitialized, assoc,
    podInto_key hma, podInto_key hfa, viewMint, getOptKey, getNum, getFlag]
  cases m; simp_all

/-- non-vacuity: a valid 82-byte image with both authorities present -/
example : ∃ m, refUnpackMint ([1, 0, 0, 0] ++ List.replicate 32 7 ++ [1, 2, 3, 4, 5, 6, 7, 8] ++ [9, 1]
    ++ [1, 0, 0, 0] ++ List.replicate 32 8) = .ok m ∧ m.supply = 0x0807060504030201 ∧ m.freezeAuthority.isSome :=
  ⟨_, rfl, by decide, rfl⟩

/-- For ALL byte images: if the reference `Account::unpack` accepts, the framework's `TokenAccount` view
(owner = Token) accepts, and the fields it exposes are the reference's. -/
theorem token_view_agree (b : List Nat) (t : TokenAcc) (h : refUnpackAccount b = .ok t) :
    ∃ vs, fwTokenView true b = .ok vs ∧ viewToken vs = t := by
  obtain ⟨hl, hd, hs2, hs0, hn, hc, h1, h2, h3, h4, h5⟩ := refUnpackAccount_ok h
  have hv : (slice b 108 1).head?.getD 0 ∈ Generated.accountStateValid := by
    simp [Generated.accountStateValid]; omega
  simp [fwTokenView, fwView, Generated.tokenLen, Generated.tokenFields, structSize, STy.size, podSize,
    Generated.podOptionLayout, partSize, hl, readFields, readField, tokenInitialized, assoc,
    podInto_key hd, podInto_key hc, podInto_u64 hn, viewToken, getOptKey, getNum, getKey, getOptNum,
    Generated.accountStateUninitialized, hv, hs0]
  cases t; simp_all

-- non-vacuity: a valid frozen 165-byte image, native, with delegate and close authority
set_option maxRecDepth 8192 in
example : ∃ t, refUnpackAccount (List.replicate 32 1 ++ List.replicate 32 2 ++ [5, 0, 0, 0, 0, 0, 0, 0]
    ++ [1, 0, 0, 0] ++ List.replicate 32 3 ++ [2] ++ [1, 0, 0, 0] ++ [6, 0, 0, 0, 0, 0, 0, 0]
    ++ [7, 0, 0, 0, 0, 0, 0, 0] ++ [1, 0, 0, 0] ++ List.replicate 32 4) = .ok t
    ∧ t.state = 2 ∧ t.isNative = some 6 ∧ t.delegatedAmount = 7 := ⟨_, rfl, rfl, rfl, rfl⟩

/-- What the runtime `is_writable` flag of the `AccountInfo` does to the zero-copy read, exactly:
`data()` on a WRITABLE info is `validate()` (owner, `len == LEN`, checked cast, initialized) followed by the
fields; on a READ-ONLY info it is the bare checked cast (`data_unchecked()`: no owner, length-constant or
initialized test); and whatever `validate()` accepts, `data()` returns with the same fields for EITHER flag
value. (The signer flag is not read on any of these paths.) -/
theorem data_flag_exact (fields : List (SName × STy)) (len : Nat) (init : List (SName × SVal) → Bool)
    (o : Bool) (b : List Nat) :
    fwDataView fields len init true o b = fwView fields len init o b
      ∧ fwDataView fields len init false o b = fwUnchecked fields b
      ∧ ∀ vs, fwView fields len init o b = .ok vs → ∀ w, fwDataView fields len init w o b = .ok vs
          ∧ fwSetView fields len init w o b = .ok vs :=
  ⟨fwDataView_writable .., fwDataView_readonly .., fun vs h w =>
    ⟨fwDataView_of_view h w, by simp [fwSetView, h, fwDataView_of_view h w]⟩⟩

/-- `mint_view_agree` for every access path and BOTH values of the writable flag: if the reference accepts, then
`data_unchecked()`, `data()` and account-set validation + `data()` all accept with the reference's fields. -/
theorem mint_view_agree_flags (b : List Nat) (m : Mint) (h : refUnpackMint b = .ok m) (w : Bool) :
    ∃ vs, viewMint vs = m ∧ fwMintUnchecked b = .ok vs ∧ fwMintData w true b = .ok vs
      ∧ fwMintSet w true b = .ok vs := by
  obtain ⟨vs, hv, hm⟩ := mint_view_agree b m h
  have hx := (data_flag_exact Generated.mintFields Generated.mintLen mintInitialized true b).2.2 vs hv w
  exact ⟨vs, hm, fwView_ok_unchecked hv, hx.1, hx.2⟩

/-- …and for token accounts — in particular a FROZEN account behind a WRITABLE info (state 2 is accepted by
`validate()`, so `data()` must return it). -/
theorem token_view_agree_flags (b : List Nat) (t : TokenAcc) (h : refUnpackAccount b = .ok t) (w : Bool) :
    ∃ vs, viewToken vs = t ∧ fwTokenUnchecked b = .ok vs ∧ fwTokenData w true b = .ok vs
      ∧ fwTokenSet w true b = .ok vs := by
  obtain ⟨vs, hv, ht⟩ := token_view_agree b t h
  have hx := (data_flag_exact Generated.tokenFields Generated.tokenLen tokenInitialized true b).2.2 vs hv w
  exact ⟨vs, ht, fwView_ok_unchecked hv, hx.1, hx.2⟩

-- non-vacuity: the frozen, native 165-byte image behind a writable info
set_option maxRecDepth 8192 in
example : ∃ vs, fwTokenData true true (List.replicate 32 1 ++ List.replicate 32 2 ++ [5, 0, 0, 0, 0, 0, 0, 0]
    ++ [1, 0, 0, 0] ++ List.replicate 32 3 ++ [2] ++ [1, 0, 0, 0] ++ [6, 0, 0, 0, 0, 0, 0, 0]
    ++ [7, 0, 0, 0, 0, 0, 0, 0] ++ [1, 0, 0, 0] ++ List.replicate 32 4) = .ok vs ∧ (viewToken vs).state = 2 :=
  ⟨_, rfl, rfl⟩

/-- For ALL byte images the reference `Mint::unpack` accepts, ALL `ValidateMint` arguments (expected
decimals / mint authority / freeze authority `Any | None | Some`) and BOTH values of the writable flag:
`validate_mint(arg)` on its own, the `validate_mint` validation id (`validate()?; validate_mint(arg)`) and
`init_account::<IF_NEEDED>` on the existing account give exactly the result of the same predicate on the
reference-unpacked fields (raw `PodOption` cells: derived `PartialEq` against `PodOption::some(k)`,
`is_some()`) — in particular for images whose option tag is `NONE` over stale non-zero payload bytes. -/
theorem validate_mint_agree (b : List Nat) (m : Mint) (a : ValidateMintArg) (w : Bool)
    (h : refUnpackMint b = .ok m) :
    fwValidateMintDirect w true b a = refValidateMint m a ∧ fwValidateMint w true b a = refValidateMint m a := by
  obtain ⟨vs, hv, hm⟩ := mint_view_agree b m h
  obtain ⟨hl, hma, h45, hfa, hs, hd, hi⟩ := refUnpackMint_ok h
  have hdec : getNum vs .decimals = m.decimals := by rw [← hm]; rfl
  obtain ⟨c1, c2⟩ := mint_cells b
  have hdata : fwMintData w true b = .ok vs := fwDataView_of_view hv w
  have hdirect : fwValidateMintDirect w true b a = refValidateMint m a := by
    simp only [fwValidateMintDirect, mintChecks, refValidateMint, hdata, c1, c2, podEqSome_ref hma,
      podEqSome_ref hfa, podIsSome_ref hfa, hdec]
    rcases a with ⟨d, au, fr⟩
    cases d <;> cases au <;> cases fr <;> simp [bne]
  exact ⟨hdirect, by simp only [fwValidateMint, hv, hdirect]⟩

theorem init_mint_if_needed_agree (b : List Nat) (m : Mint) (w : Bool) (d : Nat) (au : Key) (fr : Option Key)
    (h : refUnpackMint b = .ok m) :
    fwInitMintIfNeeded w b d au fr
      = refValidateMint m ⟨some d, some au, match fr with | none => .none | some k => .some k⟩ :=
  (validate_mint_agree b m _ w h).2

/-- non-vacuity (the red-team image): freeze authority cleared — tag `NONE`, 32 stale key bytes `8` — the
reference reports `None`, and `FreezeAuthority::None` validates; expecting the stale key is rejected. -/
example :
    let b := [1, 0, 0, 0] ++ List.replicate 32 7 ++ [1, 2, 3, 4, 5, 6, 7, 8] ++ [9, 1] ++ [0, 0, 0, 0]
      ++ List.replicate 32 8
    (∃ m, refUnpackMint b = .ok m ∧ m.freezeAuthority = none)
      ∧ fwValidateMint true true b ⟨some 9, some (List.replicate 32 7), .none⟩ = .ok ()
      ∧ fwValidateMint false true b ⟨none, none, .some (List.replicate 32 8)⟩ = .error .invalidAccountData :=
  ⟨⟨_, rfl, rfl⟩, rfl, rfl⟩

/-- For ALL byte images the reference `Account::unpack` accepts (Initialized AND Frozen), ALL `ValidateToken`
arguments and BOTH values of the writable flag: `validate_token(arg)` on its own, the `validate_token` validation
id and `init_account::<IF_NEEDED>` on the existing account = the same predicate (and error class: mint →
`InvalidAccountData`, then owner → `IncorrectAuthority`) on the reference-unpacked fields. -/
theorem validate_token_agree (b : List Nat) (t : TokenAcc) (a : ValidateTokenArg) (w : Bool)
    (h : refUnpackAccount b = .ok t) :
    fwValidateTokenDirect w true b a = refValidateToken t a ∧ fwValidateToken w true b a = refValidateToken t a := by
  obtain ⟨vs, hv, ht⟩ := token_view_agree b t h
  have hmint : getKey vs .mint = t.mint := by rw [← ht]; rfl
  have hown : getKey vs .owner = t.owner := by rw [← ht]; rfl
  have hdata : fwTokenData w true b = .ok vs := fwDataView_of_view hv w
  have hdirect : fwValidateTokenDirect w true b a = refValidateToken t a := by
    simp only [fwValidateTokenDirect, tokenChecks, refValidateToken, hdata, hmint, hown]
  exact ⟨hdirect, by simp only [fwValidateToken, hv, hdirect]⟩

theorem init_token_if_needed_agree (b : List Nat) (t : TokenAcc) (w : Bool) (mint owner : Key)
    (h : refUnpackAccount b = .ok t) :
    fwInitTokenIfNeeded w b mint owner = refValidateToken t ⟨some mint, some owner⟩ :=
  (validate_token_agree b t _ w h).2

/-- The converse is not part of the property and does not hold: `PodOption` is `Pod`, so the view accepts
an image whose option tag is neither `NONE` nor `SOME` (here `[2,0,0,0]`), which `Mint::unpack` rejects;
the view then reports the authority as absent. -/
theorem view_converse_witness :
    ∃ b vs, refUnpackMint b = .error .invalidAccountData ∧ fwMintView true b = .ok vs
      ∧ (viewMint vs).mintAuthority = none :=
  ⟨[2, 0, 0, 0] ++ List.replicate 41 0 ++ [1] ++ List.replicate 36 0, _, rfl, rfl, by decide⟩

/-- `AssociatedToken::find_address_with_bump(wallet, mint)` passes to `find_program_address` exactly what
the reference derivation with the SPL Token program passes (same seed list `[wallet, token program, mint]`,
same program) — so for ANY derivation function `H` (SHA-256 + off-curve search: a parameter) the two
addresses coincide. -/
theorem ata_agree {α : Type} (H : List Key × Key → α) (wallet mint : Key) :
    fwAtaInput wallet mint = refAtaInput wallet mint refTokenId
      ∧ H (fwAtaInput wallet mint) = H (refAtaInput wallet mint refTokenId) := by
  have h : fwAtaInput wallet mint = refAtaInput wallet mint refTokenId := by
    simp [fwAtaInput, refAtaInput, refAtaSeeds, Generated.ataSeeds, Generated.ataProgram, progId, tokenId_eq,
      ataId_eq]
  exact ⟨h, by rw [h]⟩

example : (fwAtaInput [1] [2]).1 = [[1], refTokenId, [2]] := by decide

end Spl.C16
