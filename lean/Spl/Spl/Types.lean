import Common.Bytes
/-!
# C16 — shared vocabulary of the binding model

Hand-written. The generated tables (`Spl/Generated/Tables.lean`, rewritten from `/repo` on every run by
`bin/gen_spl_tables.py`) speak in these names: a field or type the generator meets in the source that has
no constructor here makes the build fail, which is the intended reaction to an unknown source shape.
-/
namespace Spl

/-- A public key: 32 bytes (the length is irrelevant for the equalities proved; bytes as `Nat`). -/
abbrev Key := List Nat

/-- `solana_instruction::AccountMeta`. -/
structure Meta where
  key : Key
  signer : Bool
  writable : Bool
  deriving DecidableEq, Repr

/-- The three bound programs. -/
inductive Prog where
  | system | token | ata
  deriving DecidableEq, Repr

/-- Field names of the instruction payload structs (`f0` = field 0 of a tuple struct). -/
inductive FName where
  | lamports | space | owner | f0
  | decimals | mint_authority | freeze_authority | m | amount | authority_type | new_authority
  deriving DecidableEq, Repr

/-- Argument types that occur in the bound payload structs (borsh encodings in `Spl.Wire.borsh`). -/
inductive ArgTy where
  | u8 | u64 | pubkey | optPubkey | authorityType
  deriving DecidableEq, Repr

/-- Field names of the account structs. -/
inductive AName where
  | funder | new_account | account | recipient | nonce_account | recent_blockhashes | nonce_authority | rent
  | mint | owner | multisig | signers | source | destination | delegate | current_authority
  | mint_authority | authority
  | token_account | wallet | system_program | token_program
  | nested_ata | nested_mint | destination_ata | owner_ata | owner_mint
  deriving DecidableEq, Repr

/-- What an account-struct field contributes on the client path (`ClientAccountSet::extend_account_metas`):
`info s w` — one meta with the composed `SingleSetMeta` flags (`Mut` sets writable, `Signer` sets signer);
`sysvarRent` — `Option<Pubkey>` defaulting to the Rent sysvar id, read-only non-signer;
`program p` — `Option<Pubkey>` defaulting to `p`'s id, read-only non-signer;
`rest s w` — `Vec<Pubkey>`, one meta each. -/
inductive AcctTy where
  | info (signer writable : Bool)
  | sysvarRent
  | program (p : Prog)
  | rest (signer writable : Bool)
  deriving DecidableEq, Repr

/-- Field names of the packed state structs. -/
inductive SName where
  | mint_authority | supply | decimals | is_initialized | freeze_authority
  | mint | owner | amount | delegate | state | is_native | delegated_amount | close_authority
  deriving DecidableEq, Repr

/-- Field types of the packed state structs. -/
inductive STy where
  | key | u64 | u8 | bool | state | podOptKey | podOptU64
  deriving DecidableEq, Repr

/-- Parts of `PodOption<T>` in declared order. -/
inductive PodPart where
  | tag (n : Nat) | value
  deriving DecidableEq, Repr

/-- Seed expressions of the ATA derivation. -/
inductive SeedTok where
  | wallet | tokenProgram | mint
  deriving DecidableEq, Repr

/-- Association-list lookup by decidable equality (first match). -/
def assoc {α β : Type} [DecidableEq α] (k : α) : List (α × β) → Option β
  | [] => none
  | (a, b) :: r => if k = a then some b else assoc k r

end Spl
