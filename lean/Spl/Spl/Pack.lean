import Spl.Types
import Spl.Generated.Tables
/-!
# C16 — account state layouts: the reference `Pack` unpackers and the framework's zero-copy views

* `refUnpackMint` / `refUnpackAccount` — `solana_program_pack::Pack::unpack` for
  `spl_token_interface::state::{Mint, Account}` (2.0.0), written from `state.rs`: absolute `array_refs!`
  offsets, `u32` `COption` tags `[0,0,0,0]` / `[1,0,0,0]` (anything else: `InvalidAccountData`), the
  `is_initialized` / `AccountState` bytes, and the `IsInitialized` test of `unpack`.
* `fwMintView` / `fwTokenView` — `MintAccount::validate` + `data()` / `TokenAccount::validate` + `data()`
  (`star_frame_spl/src/token/state.rs`): owner test, `len != LEN`, `bytemuck::checked::try_from_bytes`
  (size test, then the bit-pattern test of `bool` / `AccountState` fields; `PodOption` is `Pod`: every tag
  is accepted), the initialized test, and the field values the accessors expose
  (`PodOption::into_option`: `Some(value)` iff `option == SOME`). Field offsets are computed by walking the
  generated declared-order field tables of the `#[repr(C, packed)]` structs.
-/
namespace Spl
open Common

/-- `&b[off .. off+len]` (an `array_refs!` / packed-field cell). -/
def slice (b : List Nat) (off len : Nat) : List Nat := (b.drop off).take len

structure Mint where
  mintAuthority : Option Key
  supply : Nat
  decimals : Nat
  isInitialized : Bool
  freezeAuthority : Option Key
  deriving DecidableEq, Repr

structure TokenAcc where
  mint : Key
  owner : Key
  amount : Nat
  delegate : Option Key
  /-- `AccountState as u8` -/
  state : Nat
  isNative : Option Nat
  delegatedAmount : Nat
  closeAuthority : Option Key
  deriving DecidableEq, Repr

/-! ## Reference -/

inductive PackErr where
  | invalidAccountData | uninitializedAccount
  deriving DecidableEq, Repr

/-- `unpack_coption_key(src: &[u8; 36])`. -/
def refCOptKey (src : List Nat) : Option (Option Key) :=
  match slice src 0 4 with
  | [0, 0, 0, 0] => some none
  | [1, 0, 0, 0] => some (some (slice src 4 32))
  | _ => none

/-- `unpack_coption_u64(src: &[u8; 12])`. -/
def refCOptU64 (src : List Nat) : Option (Option Nat) :=
  match slice src 0 4 with
  | [0, 0, 0, 0] => some none
  | [1, 0, 0, 0] => some (some (rdLE (slice src 4 8)))
  | _ => none

/-- `Mint::unpack`: `array_refs![src, 36, 8, 1, 1, 36]`. -/
def refUnpackMint (b : List Nat) : Except PackErr Mint :=
  if b.length ≠ 82 then .error .invalidAccountData else
  match refCOptKey (slice b 0 36) with
  | none => .error .invalidAccountData
  | some mintAuthority =>
    let supply := rdLE (slice b 36 8)
    let decimals := (slice b 44 1).head?.getD 0
    match slice b 45 1 with
    | [0] =>
      -- `unpack_from_slice` succeeds if the freeze tag is valid; then `unpack` refuses: not initialized
      match refCOptKey (slice b 46 36) with
      | none => .error .invalidAccountData
      | some _ => .error .uninitializedAccount
    | [1] =>
      match refCOptKey (slice b 46 36) with
      | none => .error .invalidAccountData
      | some freezeAuthority => .ok ⟨mintAuthority, supply, decimals, true, freezeAuthority⟩
    | _ => .error .invalidAccountData

/-- `Account::unpack`: `array_refs![src, 32, 32, 8, 36, 1, 12, 8, 36]`; `AccountState::try_from_primitive`
accepts 0, 1, 2; `is_initialized` = `state != Uninitialized`. -/
def refUnpackAccount (b : List Nat) : Except PackErr TokenAcc :=
  if b.length ≠ 165 then .error .invalidAccountData else
  match refCOptKey (slice b 72 36) with
  | none => .error .invalidAccountData
  | some delegate =>
    let state := (slice b 108 1).head?.getD 0
    if ¬ state ≤ 2 then .error .invalidAccountData else
    match refCOptU64 (slice b 109 12) with
    | none => .error .invalidAccountData
    | some isNative =>
      match refCOptKey (slice b 129 36) with
      | none => .error .invalidAccountData
      | some closeAuthority =>
        if state = 0 then .error .uninitializedAccount else
        .ok ⟨slice b 0 32, slice b 32 32, rdLE (slice b 64 8), delegate, state, isNative,
             rdLE (slice b 121 8), closeAuthority⟩

/-! ## Framework view -/

inductive ViewErr where
  /-- `owner_pubkey() != Token::ID` → `InvalidAccountOwner` -/
  | owner
  /-- `account_data().len() != LEN` → `InvalidAccountData` -/
  | len
  /-- `try_from_bytes`: `SizeMismatch` -/
  | size
  /-- `try_from_bytes`: `InvalidBitPattern` -/
  | bitPattern
  /-- not initialized → `UninitializedAccount` -/
  | uninit
  deriving DecidableEq, Repr

/-- A field value as the accessors expose it. -/
inductive SVal where
  | key (k : Key) | num (n : Nat) | flag (b : Bool) | optKey (o : Option Key) | optNum (o : Option Nat)
  deriving DecidableEq, Repr

def partSize (v : Nat) : PodPart → Nat
  | .tag n => n | .value => v

/-- `size_of::<PodOption<T>>()` with `size_of::<T>() = v` (packed: the sum of the parts). -/
def podSize (v : Nat) : Nat := (Generated.podOptionLayout.map (partSize v)).sum

/-- Walk the declared parts of `PodOption<T>` over the cell `f`: `(option bytes, value bytes)`. -/
def podParts (v : Nat) (f : List Nat) : List PodPart → Nat → List Nat × List Nat → List Nat × List Nat
  | [], _, acc => acc
  | .tag n :: ps, off, acc => podParts v f ps (off + n) (slice f off n, acc.2)
  | .value :: ps, off, acc => podParts v f ps (off + v) (acc.1, slice f off v)

/-- `PodOption::into_option`: `Some(value)` iff `option == SOME`. -/
def podInto (v : Nat) (f : List Nat) : Option (List Nat) :=
  let p := podParts v f Generated.podOptionLayout 0 ([], [])
  if p.1 = Generated.podSome then some p.2 else none

def STy.size : STy → Nat
  | .key => 32 | .u64 => 8 | .u8 => 1 | .bool => 1 | .state => 1
  | .podOptKey => podSize 32 | .podOptU64 => podSize 8

/-- `size_of` of a packed struct. -/
def structSize (fields : List (SName × STy)) : Nat := (fields.map (fun f => f.2.size)).sum

/-- Read one field cell; `none` = `CheckedBitPattern::is_valid_bit_pattern` is false. -/
def readField : STy → List Nat → Option SVal
  | .key, c => some (.key c)
  | .u64, c => some (.num (rdLE c))
  | .u8, c => some (.num (c.head?.getD 0))
  | .bool, c => match c with
    | [0] => some (.flag false)
    | [1] => some (.flag true)
    | _ => none
  | .state, c => if (c.head?.getD 0) ∈ Generated.accountStateValid then some (.num (c.head?.getD 0)) else none
  | .podOptKey, c => some (.optKey (podInto 32 c))
  | .podOptU64, c => some (.optNum ((podInto 8 c).map rdLE))

/-- Walk the declared fields of a packed struct from offset `off`. -/
def readFields (b : List Nat) : List (SName × STy) → Nat → Option (List (SName × SVal))
  | [], _ => some []
  | (n, ty) :: fs, off =>
    match readField ty (slice b off ty.size), readFields b fs (off + ty.size) with
    | some v, some rest => some ((n, v) :: rest)
    | _, _ => none

/-- `validate()` then `data()` for a `#[repr(C, packed)]` view of declared `fields` and `LEN = len`;
`initialized` is the view's own test. -/
def fwView (fields : List (SName × STy)) (len : Nat) (initialized : List (SName × SVal) → Bool)
    (ownerOk : Bool) (b : List Nat) : Except ViewErr (List (SName × SVal)) :=
  if !ownerOk then .error .owner
  else if b.length ≠ len then .error .len
  else if b.length ≠ structSize fields then .error .size
  else match readFields b fields 0 with
    | none => .error .bitPattern
    | some vs => if initialized vs then .ok vs else .error .uninit

/-- `data_unchecked()?.is_initialized`. -/
def mintInitialized (vs : List (SName × SVal)) : Bool :=
  match assoc .is_initialized vs with
  | some (.flag b) => b
  | _ => false

/-- `data_unchecked()?.state != AccountState::Uninitialized`. -/
def tokenInitialized (vs : List (SName × SVal)) : Bool :=
  match assoc .state vs with
  | some (.num s) => s != Generated.accountStateUninitialized
  | _ => false

def fwMintView (ownerOk : Bool) (b : List Nat) : Except ViewErr (List (SName × SVal)) :=
  fwView Generated.mintFields Generated.mintLen mintInitialized ownerOk b

def fwTokenView (ownerOk : Bool) (b : List Nat) : Except ViewErr (List (SName × SVal)) :=
  fwView Generated.tokenFields Generated.tokenLen tokenInitialized ownerOk b

/-- `data_unchecked()`: `bytemuck::checked::try_from_bytes` only — size test, then the bit-pattern test. No
owner, length-constant or initialized test. -/
def fwUnchecked (fields : List (SName × STy)) (b : List Nat) : Except ViewErr (List (SName × SVal)) :=
  if b.length ≠ structSize fields then .error .size
  else match readFields b fields 0 with
    | none => .error .bitPattern
    | some vs => .ok vs

/-- `data()`: `if self.is_writable() { self.validate()?; } self.data_unchecked()` — the runtime writable flag of
the `AccountInfo` decides whether `validate()` (owner, length, cast, initialized) runs again before the cast. -/
def fwDataView (fields : List (SName × STy)) (len : Nat) (initialized : List (SName × SVal) → Bool)
    (writable ownerOk : Bool) (b : List Nat) : Except ViewErr (List (SName × SVal)) :=
  if writable then
    match fwView fields len initialized ownerOk b with
    | .error e => .error e
    | .ok _ => fwUnchecked fields b
  else fwUnchecked fields b

/-- The account set: `validate()` as extra validation at `validate_accounts`, then the program reads `data()`. -/
def fwSetView (fields : List (SName × STy)) (len : Nat) (initialized : List (SName × SVal) → Bool)
    (writable ownerOk : Bool) (b : List Nat) : Except ViewErr (List (SName × SVal)) :=
  match fwView fields len initialized ownerOk b with
  | .error e => .error e
  | .ok _ => fwDataView fields len initialized writable ownerOk b

def fwMintUnchecked (b : List Nat) := fwUnchecked Generated.mintFields b
def fwTokenUnchecked (b : List Nat) := fwUnchecked Generated.tokenFields b
def fwMintData (writable ownerOk : Bool) (b : List Nat) :=
  fwDataView Generated.mintFields Generated.mintLen mintInitialized writable ownerOk b
def fwTokenData (writable ownerOk : Bool) (b : List Nat) :=
  fwDataView Generated.tokenFields Generated.tokenLen tokenInitialized writable ownerOk b
def fwMintSet (writable ownerOk : Bool) (b : List Nat) :=
  fwSetView Generated.mintFields Generated.mintLen mintInitialized writable ownerOk b
def fwTokenSet (writable ownerOk : Bool) (b : List Nat) :=
  fwSetView Generated.tokenFields Generated.tokenLen tokenInitialized writable ownerOk b

def getKey (vs : List (SName × SVal)) (n : SName) : Key :=
  match assoc n vs with | some (.key k) => k | _ => []
def getNum (vs : List (SName × SVal)) (n : SName) : Nat :=
  match assoc n vs with | some (.num k) => k | _ => 0
def getFlag (vs : List (SName × SVal)) (n : SName) : Bool :=
  match assoc n vs with | some (.flag k) => k | _ => false
def getOptKey (vs : List (SName × SVal)) (n : SName) : Option Key :=
  match assoc n vs with | some (.optKey k) => k | _ => none
def getOptNum (vs : List (SName × SVal)) (n : SName) : Option Nat :=
  match assoc n vs with | some (.optNum k) => k | _ => none

/-- The view's fields under the reference's field names. -/
def viewMint (vs : List (SName × SVal)) : Mint :=
  ⟨getOptKey vs .mint_authority, getNum vs .supply, getNum vs .decimals, getFlag vs .is_initialized,
   getOptKey vs .freeze_authority⟩

def viewToken (vs : List (SName × SVal)) : TokenAcc :=
  ⟨getKey vs .mint, getKey vs .owner, getNum vs .amount, getOptKey vs .delegate, getNum vs .state,
   getOptNum vs .is_native, getNum vs .delegated_amount, getOptKey vs .close_authority⟩

/-! ## `validate_mint` / `validate_token` (the `validate_mint` / `validate_token` validation ids)

`#[validate(id = "validate_mint", arg = ValidateMint, extra_validation = { self.validate()?; self.validate_mint(arg) })]`:
the view test above, then comparisons on the zero-copy data. The comparisons on `PodOption` fields are the
derived `PartialEq` of the packed struct (`option` and `value` both equal) against `PodOption::some(key)`,
and `is_some()` (`option == SOME`) — they read the raw cell, so stale payload bytes under a `NONE` tag
(the SPL program clears only the tag) are in scope. -/

/-- Offset of a field in a packed struct: the sizes of the fields declared before it. -/
def fieldOffset (n : SName) : List (SName × STy) → Nat
  | [] => 0
  | (k, ty) :: fs => if n = k then 0 else ty.size + fieldOffset n fs

/-- The raw `(option, value)` parts of the `PodOption<T>` field `n` (`size_of::<T>() = v`). -/
def podCell (fields : List (SName × STy)) (b : List Nat) (n : SName) (v : Nat) : List Nat × List Nat :=
  podParts v (slice b (fieldOffset n fields) (podSize v)) Generated.podOptionLayout 0 ([], [])

/-- `cell == PodOption::some(k)` (derived `PartialEq`: `option == SOME && value == k`). -/
def podEqSome (c : List Nat × List Nat) (k : Key) : Bool := c.1 == Generated.podSome && c.2 == k

/-- `cell.is_some()`. -/
def podIsSome (c : List Nat × List Nat) : Bool := c.1 == Generated.podSome

/-- `FreezeAuthority<'a>`. -/
inductive FreezeArg where
  | any | none | some (k : Key)
  deriving DecidableEq, Repr

/-- `ValidateMint<'a>`. -/
structure ValidateMintArg where
  decimals : Option Nat
  authority : Option Key
  freeze : FreezeArg
  deriving DecidableEq, Repr

/-- `ValidateToken`. -/
structure ValidateTokenArg where
  mint : Option Key
  owner : Option Key
  deriving DecidableEq, Repr

inductive ValErr where
  /-- `self.validate()` failed -/
  | view (e : ViewErr)
  /-- `bail!(ProgramError::InvalidAccountData, …)` of `validate_mint` / the mint test of `validate_token` -/
  | invalidAccountData
  /-- `bail!(ProgramError::IncorrectAuthority, …)`: the owner test of `validate_token` -/
  | incorrectAuthority
  deriving DecidableEq, Repr

/-- The comparisons of `validate_mint` on the data `data()` returned, in the code's order: decimals, mint
authority, freeze authority. -/
def mintChecks (vs : List (SName × SVal)) (b : List Nat) (a : ValidateMintArg) : Except ValErr Unit :=
  if (match a.decimals with | some d => getNum vs .decimals != d | none => false) then
    .error .invalidAccountData
  else if (match a.authority with
      | some k => !podEqSome (podCell Generated.mintFields b .mint_authority 32) k
      | none => false) then
    .error .invalidAccountData
  else match a.freeze with
    | .any => .ok ()
    | .none =>
      if podIsSome (podCell Generated.mintFields b .freeze_authority 32) then .error .invalidAccountData
      else .ok ()
    | .some k =>
      if !podEqSome (podCell Generated.mintFields b .freeze_authority 32) k then .error .invalidAccountData
      else .ok ()

/-- `MintAccount::validate_mint(arg)` on its own: `let data = self.data()?;` then the comparisons. -/
def fwValidateMintDirect (writable ownerOk : Bool) (b : List Nat) (a : ValidateMintArg) : Except ValErr Unit :=
  match fwMintData writable ownerOk b with
  | .error e => .error (.view e)
  | .ok vs => mintChecks vs b a

/-- The `validate_mint` validation id: `self.validate()?; self.validate_mint(arg)`. -/
def fwValidateMint (writable ownerOk : Bool) (b : List Nat) (a : ValidateMintArg) : Except ValErr Unit :=
  match fwMintView ownerOk b with
  | .error e => .error (.view e)
  | .ok _ => fwValidateMintDirect writable ownerOk b a

/-- `init_account::<IF_NEEDED = true>` on an account the Token program already owns:
`self.validate()?; self.validate_mint(init_mint.into())?; return Ok(false)` with
`ValidateMint { decimals: Some, authority: Some, freeze_authority: None | Some }`. -/
def fwInitMintIfNeeded (writable : Bool) (b : List Nat) (decimals : Nat) (authority : Key)
    (freeze : Option Key) : Except ValErr Unit :=
  fwValidateMint writable true b
    ⟨some decimals, some authority, match freeze with | none => .none | some k => .some k⟩

def tokenChecks (vs : List (SName × SVal)) (a : ValidateTokenArg) : Except ValErr Unit :=
  if (match a.mint with | some k => getKey vs .mint != k | none => false) then .error .invalidAccountData
  else if (match a.owner with | some k => getKey vs .owner != k | none => false) then
    .error .incorrectAuthority
  else .ok ()

/-- `TokenAccount::validate_token(arg)` on its own: `let data = self.data()?;` then mint, then owner. -/
def fwValidateTokenDirect (writable ownerOk : Bool) (b : List Nat) (a : ValidateTokenArg) :
    Except ValErr Unit :=
  match fwTokenData writable ownerOk b with
  | .error e => .error (.view e)
  | .ok vs => tokenChecks vs a

/-- The `validate_token` validation id: `self.validate()?; self.validate_token(arg)`. -/
def fwValidateToken (writable ownerOk : Bool) (b : List Nat) (a : ValidateTokenArg) : Except ValErr Unit :=
  match fwTokenView ownerOk b with
  | .error e => .error (.view e)
  | .ok _ => fwValidateTokenDirect writable ownerOk b a

/-- `init_account::<true>` on an existing Token-owned account: `validate()?; validate_token({mint, owner})`. -/
def fwInitTokenIfNeeded (writable : Bool) (b : List Nat) (mint owner : Key) : Except ValErr Unit :=
  fwValidateToken writable true b ⟨some mint, some owner⟩

/-- The same predicate on the fields the reference unpacker reports. -/
def refValidateMint (m : Mint) (a : ValidateMintArg) : Except ValErr Unit :=
  if (match a.decimals with | some d => m.decimals != d | none => false) then .error .invalidAccountData
  else if (match a.authority with | some k => m.mintAuthority != some k | none => false) then
    .error .invalidAccountData
  else match a.freeze with
    | .any => .ok ()
    | .none => if m.freezeAuthority.isSome then .error .invalidAccountData else .ok ()
    | .some k => if m.freezeAuthority != some k then .error .invalidAccountData else .ok ()

def refValidateToken (t : TokenAcc) (a : ValidateTokenArg) : Except ValErr Unit :=
  if (match a.mint with | some k => t.mint != k | none => false) then .error .invalidAccountData
  else if (match a.owner with | some k => t.owner != k | none => false) then .error .incorrectAuthority
  else .ok ()

end Spl
