import Spl.Types
import Spl.Generated.Tables
/-!
# C16 — instruction wire formats: reference encoders and the framework's encoder

Two independent descriptions of the same instructions:

* `refData` / `refMetas` / `refProgram` — the reference formats, written by hand from the reference crates
  (`solana-system-interface 2.0.0` `instruction.rs` builders + bincode of `SystemInstruction`;
  `spl-token-interface 2.0.0` `TokenInstruction::pack` + builders;
  `spl-associated-token-account-interface 2.0.0` builders). Absolute constants, explicit byte formulas.
* `fwData` / `fwMetas` / `fwProgram` — what `MakeInstruction::instruction` does in `/repo`
  (`star_frame/src/client.rs`): `bytes_of(&DISCRIMINANT)` (repr width and value from the table generated
  from source) `++` borsh of the payload struct in its declared field order, and
  `ClientAccountSet::extend_account_metas` over the account struct in its declared field order with the
  flags composed from the wrapper types. It interprets `Spl.Generated.*`; nothing about the expected
  answer is written here.

`Ix` is the common argument space (one constructor per bound instruction, carrying the client's inputs).
-/
namespace Spl
open Common

/-! ## The argument space -/

/-- `spl_token_interface::instruction::AuthorityType`. -/
inductive AuthTy where
  | mintTokens | freezeAccount | accountOwner | closeAccount
  deriving DecidableEq, Repr

/-- One constructor per bound instruction; accounts as the client supplies them (an `Option Key` is a
client account the framework defaults when `None`: `Sysvar<Rent>`, `Program<_>`), then the data arguments. -/
inductive Ix where
  -- System
  | sysCreateAccount (funder newAccount : Key) (lamports space : Nat) (owner : Key)
  | sysAssign (account owner : Key)
  | sysTransfer (funder recipient : Key) (lamports : Nat)
  | sysAdvanceNonce (nonce recentBlockhashes authority : Key)
  | sysWithdrawNonce (nonce recipient recentBlockhashes : Key) (rent : Option Key) (authority : Key) (lamports : Nat)
  | sysInitNonce (nonce recentBlockhashes : Key) (rent : Option Key) (authority : Key)
  | sysAuthorizeNonce (nonce authority newAuthority : Key)
  | sysAllocate (account : Key) (space : Nat)
  | sysUpgradeNonce (nonce : Key)
  -- SPL Token
  | tokInitializeMint (mint : Key) (rent : Option Key) (decimals : Nat) (mintAuthority : Key) (freezeAuthority : Option Key)
  | tokInitializeAccount (account mint owner : Key) (rent : Option Key)
  | tokInitializeMultisig (multisig : Key) (rent : Option Key) (signers : List Key) (m : Nat)
  | tokTransfer (source destination owner : Key) (amount : Nat)
  | tokApprove (source delegate owner : Key) (amount : Nat)
  | tokRevoke (source owner : Key)
  | tokSetAuthority (account currentAuthority : Key) (ty : AuthTy) (newAuthority : Option Key)
  | tokMintTo (mint account mintAuthority : Key) (amount : Nat)
  | tokBurn (account mint owner : Key) (amount : Nat)
  | tokCloseAccount (account destination owner : Key)
  | tokFreezeAccount (account mint authority : Key)
  | tokThawAccount (account mint authority : Key)
  | tokTransferChecked (source mint destination owner : Key) (amount decimals : Nat)
  | tokApproveChecked (source mint delegate owner : Key) (amount decimals : Nat)
  | tokMintToChecked (mint account mintAuthority : Key) (amount decimals : Nat)
  | tokBurnChecked (account mint owner : Key) (amount decimals : Nat)
  | tokInitializeAccount2 (account mint : Key) (rent : Option Key) (owner : Key)
  | tokSyncNative (account : Key)
  | tokInitializeAccount3 (account mint owner : Key)
  | tokInitializeMultisig2 (multisig : Key) (signers : List Key) (m : Nat)
  | tokInitializeMint2 (mint : Key) (decimals : Nat) (mintAuthority : Key) (freezeAuthority : Option Key)
  | tokGetAccountDataSize (mint : Key)
  | tokInitializeImmutableOwner (account : Key)
  | tokAmountToUiAmount (mint : Key) (amount : Nat)
  -- Associated Token Account
  | ataCreate (funder tokenAccount wallet mint : Key) (systemProgram tokenProgram : Option Key)
  | ataCreateIdempotent (funder tokenAccount wallet mint : Key) (systemProgram tokenProgram : Option Key)
  | ataRecoverNested (nestedAta nestedMint destinationAta ownerAta ownerMint wallet : Key) (tokenProgram : Option Key)
  deriving Repr

/-! ## Reference side (hand-written from the reference crates) -/

/-- `solana_system_interface::program::ID` = `11111111111111111111111111111111`. -/
def refSystemId : Key := List.replicate 32 0
/-- `spl_token_interface::ID` = `TokenkegQfeZyiNwAJbNbGKPFXCWuBvf9Ss623VQ5DA`. -/
def refTokenId : Key :=
  [6, 221, 246, 225, 215, 101, 161, 147, 217, 203, 225, 70, 206, 235, 121, 172,
   28, 180, 133, 237, 95, 91, 55, 145, 58, 140, 245, 133, 126, 255, 0, 169]
/-- `spl_associated_token_account_interface::program::ID` = `ATokenGPvbdGVxr1b2hvZbsiqW5xWH25efTNsLJA8knL`. -/
def refAtaId : Key :=
  [140, 151, 37, 143, 78, 36, 137, 241, 187, 61, 16, 41, 20, 142, 13, 131,
   11, 90, 19, 153, 218, 255, 16, 132, 4, 142, 123, 216, 219, 233, 248, 89]
/-- `SysvarRent111111111111111111111111111111111`. -/
def refRentId : Key :=
  [6, 167, 213, 23, 25, 44, 92, 81, 33, 140, 201, 76, 61, 74, 241, 127,
   88, 218, 238, 8, 155, 161, 253, 68, 227, 219, 217, 138, 0, 0, 0, 0]
/-- `SysvarRecentB1ockHashes11111111111111111111`. -/
def refRecentBlockhashesId : Key :=
  [6, 167, 213, 23, 25, 44, 86, 142, 224, 138, 132, 95, 115, 210, 151, 136,
   207, 3, 92, 49, 69, 178, 26, 179, 68, 216, 6, 46, 169, 64, 0, 0]

/-- `u64::to_le_bytes`, byte by byte. -/
def u64le (n : Nat) : List Nat :=
  [n % 256, n / 256 % 256, n / 65536 % 256, n / 16777216 % 256, n / 4294967296 % 256,
   n / 1099511627776 % 256, n / 281474976710656 % 256, n / 72057594037927936 % 256]
/-- bincode's fixed-int `u32` (the enum variant index). -/
def u32le (n : Nat) : List Nat := [n % 256, n / 256 % 256, n / 65536 % 256, n / 16777216 % 256]

/-- `TokenInstruction::pack_pubkey_option`: `0` | `1 ++ key`. -/
def packKeyOpt : Option Key → List Nat
  | none => [0]
  | some k => 1 :: k

/-- `AuthorityType::into`. -/
def AuthTy.toByte : AuthTy → Nat
  | .mintTokens => 0 | .freezeAccount => 1 | .accountOwner => 2 | .closeAccount => 3

/-- Instruction data as the reference crates produce it. System: bincode = `u32` LE variant index of
`SystemInstruction` (`CreateAccount`=0, `Assign`=1, `Transfer`=2, `CreateAccountWithSeed`=3,
`AdvanceNonceAccount`=4, `WithdrawNonceAccount`=5, `InitializeNonceAccount`=6, `AuthorizeNonceAccount`=7,
`Allocate`=8, `AllocateWithSeed`=9, `AssignWithSeed`=10, `TransferWithSeed`=11, `UpgradeNonceAccount`=12)
then the fields in declaration order (u64 LE, `Pubkey` as 32 raw bytes). Token: `TokenInstruction::pack`.
ATA: the single tag byte. -/
def refData : Ix → List Nat
  | .sysCreateAccount _ _ lamports space owner => u32le 0 ++ u64le lamports ++ u64le space ++ owner
  | .sysAssign _ owner => u32le 1 ++ owner
  | .sysTransfer _ _ lamports => u32le 2 ++ u64le lamports
  | .sysAdvanceNonce .. => u32le 4
  | .sysWithdrawNonce _ _ _ _ _ lamports => u32le 5 ++ u64le lamports
  | .sysInitNonce _ _ _ authority => u32le 6 ++ authority
  | .sysAuthorizeNonce _ _ newAuthority => u32le 7 ++ newAuthority
  | .sysAllocate _ space => u32le 8 ++ u64le space
  | .sysUpgradeNonce _ => u32le 12
  | .tokInitializeMint _ _ decimals mintAuthority freezeAuthority =>
      [0, decimals % 256] ++ mintAuthority ++ packKeyOpt freezeAuthority
  | .tokInitializeAccount .. => [1]
  | .tokInitializeMultisig _ _ _ m => [2, m % 256]
  | .tokTransfer _ _ _ amount => 3 :: u64le amount
  | .tokApprove _ _ _ amount => 4 :: u64le amount
  | .tokRevoke .. => [5]
  | .tokSetAuthority _ _ ty newAuthority => [6, ty.toByte] ++ packKeyOpt newAuthority
  | .tokMintTo _ _ _ amount => 7 :: u64le amount
  | .tokBurn _ _ _ amount => 8 :: u64le amount
  | .tokCloseAccount .. => [9]
  | .tokFreezeAccount .. => [10]
  | .tokThawAccount .. => [11]
  | .tokTransferChecked _ _ _ _ amount decimals => 12 :: u64le amount ++ [decimals % 256]
  | .tokApproveChecked _ _ _ _ amount decimals => 13 :: u64le amount ++ [decimals % 256]
  | .tokMintToChecked _ _ _ amount decimals => 14 :: u64le amount ++ [decimals % 256]
  | .tokBurnChecked _ _ _ amount decimals => 15 :: u64le amount ++ [decimals % 256]
  | .tokInitializeAccount2 _ _ _ owner => 16 :: owner
  | .tokSyncNative _ => [17]
  | .tokInitializeAccount3 _ _ owner => 18 :: owner
  | .tokInitializeMultisig2 _ _ m => [19, m % 256]
  | .tokInitializeMint2 _ decimals mintAuthority freezeAuthority =>
      [20, decimals % 256] ++ mintAuthority ++ packKeyOpt freezeAuthority
  | .tokGetAccountDataSize _ => [21]
  | .tokInitializeImmutableOwner _ => [22]
  | .tokAmountToUiAmount _ amount => 23 :: u64le amount
  | .ataCreate .. => [0]
  | .ataCreateIdempotent .. => [1]
  | .ataRecoverNested .. => [2]

/-- Program id of the reference instruction. -/
def refProgram : Ix → Key
  | .sysCreateAccount .. | .sysAssign .. | .sysTransfer .. | .sysAdvanceNonce .. | .sysWithdrawNonce ..
  | .sysInitNonce .. | .sysAuthorizeNonce .. | .sysAllocate .. | .sysUpgradeNonce .. => refSystemId
  | .ataCreate .. | .ataCreateIdempotent .. | .ataRecoverNested .. => refAtaId
  | _ => refTokenId

/-- `AccountMeta::new(k, signer)`. -/
def mW (k : Key) (signer : Bool) : Meta := ⟨k, signer, true⟩
/-- `AccountMeta::new_readonly(k, signer)`. -/
def mR (k : Key) (signer : Bool) : Meta := ⟨k, signer, false⟩

/-- `is_valid_signer_index`: `MIN_SIGNERS..=MAX_SIGNERS` = `1..=11`. -/
def validSignerIndex (n : Nat) : Bool := 1 ≤ n && n ≤ 11

/-- The seed list the reference ATA derivation hashes (`address.rs`), in order. -/
def refAtaSeeds (wallet tokenProgram mint : Key) : List Key := [wallet, tokenProgram, mint]

/-- Account metas as the reference builders produce them; `none` = the builder refuses
(`initialize_multisig{,2}`: `MissingRequiredSignature`). `pda seeds program` stands for
`Pubkey::find_program_address(seeds, program).0` (SHA-256 + curve test: a parameter). The token-program
argument of the ATA builders is what the framework client defaults: `tokenProgram.getD Token`. The
single-owner form (`signer_pubkeys = []`) of the Token builders is the one the framework binds. -/
def refMetas (pda : List Key → Key → Key) : Ix → Option (List Meta)
  | .sysCreateAccount funder newAccount _ _ _ => some [mW funder true, mW newAccount true]
  | .sysAssign account _ => some [mW account true]
  | .sysTransfer funder recipient _ => some [mW funder true, mW recipient false]
  | .sysAdvanceNonce nonce _ authority =>
      some [mW nonce false, mR refRecentBlockhashesId false, mR authority true]
  | .sysWithdrawNonce nonce recipient _ _ authority _ =>
      some [mW nonce false, mW recipient false, mR refRecentBlockhashesId false, mR refRentId false,
            mR authority true]
  | .sysInitNonce nonce _ _ _ => some [mW nonce false, mR refRecentBlockhashesId false, mR refRentId false]
  | .sysAuthorizeNonce nonce authority _ => some [mW nonce false, mR authority true]
  | .sysAllocate account _ => some [mW account true]
  | .sysUpgradeNonce nonce => some [mW nonce false]
  | .tokInitializeMint mint _ _ _ _ => some [mW mint false, mR refRentId false]
  | .tokInitializeAccount account mint owner _ =>
      some [mW account false, mR mint false, mR owner false, mR refRentId false]
  | .tokInitializeMultisig multisig _ signers m =>
      if validSignerIndex m && validSignerIndex signers.length && decide (m ≤ signers.length) then
        some (mW multisig false :: mR refRentId false :: signers.map (fun k => mR k false))
      else none
  | .tokTransfer source destination owner _ => some [mW source false, mW destination false, mR owner true]
  | .tokApprove source delegate owner _ => some [mW source false, mR delegate false, mR owner true]
  | .tokRevoke source owner => some [mW source false, mR owner true]
  | .tokSetAuthority account currentAuthority _ _ => some [mW account false, mR currentAuthority true]
  | .tokMintTo mint account mintAuthority _ => some [mW mint false, mW account false, mR mintAuthority true]
  | .tokBurn account mint owner _ => some [mW account false, mW mint false, mR owner true]
  | .tokCloseAccount account destination owner => some [mW account false, mW destination false, mR owner true]
  | .tokFreezeAccount account mint authority => some [mW account false, mR mint false, mR authority true]
  | .tokThawAccount account mint authority => some [mW account false, mR mint false, mR authority true]
  | .tokTransferChecked source mint destination owner _ _ =>
      some [mW source false, mR mint false, mW destination false, mR owner true]
  | .tokApproveChecked source mint delegate owner _ _ =>
      some [mW source false, mR mint false, mR delegate false, mR owner true]
  | .tokMintToChecked mint account mintAuthority _ _ =>
      some [mW mint false, mW account false, mR mintAuthority true]
  | .tokBurnChecked account mint owner _ _ => some [mW account false, mW mint false, mR owner true]
  | .tokInitializeAccount2 account mint _ _ => some [mW account false, mR mint false, mR refRentId false]
  | .tokSyncNative account => some [mW account false]
  | .tokInitializeAccount3 account mint _ => some [mW account false, mR mint false]
  | .tokInitializeMultisig2 multisig signers m =>
      if validSignerIndex m && validSignerIndex signers.length && decide (m ≤ signers.length) then
        some (mW multisig false :: signers.map (fun k => mR k false))
      else none
  | .tokInitializeMint2 mint _ _ _ => some [mW mint false]
  | .tokGetAccountDataSize mint => some [mR mint false]
  | .tokInitializeImmutableOwner account => some [mW account false]
  | .tokAmountToUiAmount mint _ => some [mR mint false]
  | .ataCreate funder _ wallet mint _ tokenProgram
  | .ataCreateIdempotent funder _ wallet mint _ tokenProgram =>
      let tp := tokenProgram.getD refTokenId
      some [mW funder true, mW (pda (refAtaSeeds wallet tp mint) refAtaId) false, mR wallet false,
            mR mint false, mR refSystemId false, mR tp false]
  | .ataRecoverNested _ nestedMint _ _ ownerMint wallet tokenProgram =>
      let tp := tokenProgram.getD refTokenId
      let ownerAta := pda (refAtaSeeds wallet tp ownerMint) refAtaId
      let destinationAta := pda (refAtaSeeds wallet tp nestedMint) refAtaId
      let nestedAta := pda (refAtaSeeds ownerAta tp nestedMint) refAtaId
      some [mW nestedAta false, mR nestedMint false, mW destinationAta false, mR ownerAta false,
            mR ownerMint false, mW wallet true, mR tp false]

/-- The client passed `None` or exactly `k`. -/
def optIs (o : Option Key) (k : Key) : Prop := o = none ∨ o = some k

instance (o : Option Key) (k : Key) : Decidable (optIs o k) := by unfold optIs; infer_instance

/-- The client supplied, for every account whose key the reference builder fixes or derives itself, that
same key (or left the defaulted ones out). Keys the reference takes as parameters are unconstrained. -/
def Canonical (pda : List Key → Key → Key) : Ix → Prop
  | .sysAdvanceNonce _ rb _ => rb = refRecentBlockhashesId
  | .sysWithdrawNonce _ _ rb rent _ _ => rb = refRecentBlockhashesId ∧ optIs rent refRentId
  | .sysInitNonce _ rb rent _ => rb = refRecentBlockhashesId ∧ optIs rent refRentId
  | .tokInitializeMint _ rent _ _ _ => optIs rent refRentId
  | .tokInitializeAccount _ _ _ rent => optIs rent refRentId
  | .tokInitializeMultisig _ rent _ _ => optIs rent refRentId
  | .tokInitializeAccount2 _ _ rent _ => optIs rent refRentId
  | .ataCreate _ tokenAccount wallet mint systemProgram tokenProgram
  | .ataCreateIdempotent _ tokenAccount wallet mint systemProgram tokenProgram =>
      tokenAccount = pda (refAtaSeeds wallet (tokenProgram.getD refTokenId) mint) refAtaId
        ∧ optIs systemProgram refSystemId
  | .ataRecoverNested nestedAta nestedMint destinationAta ownerAta ownerMint wallet tokenProgram =>
      let tp := tokenProgram.getD refTokenId
      ownerAta = pda (refAtaSeeds wallet tp ownerMint) refAtaId
        ∧ destinationAta = pda (refAtaSeeds wallet tp nestedMint) refAtaId
        ∧ nestedAta = pda (refAtaSeeds ownerAta tp nestedMint) refAtaId
  | _ => True

/-! ## Framework side (interprets the generated tables) -/

/-- Which generated enum variant an `Ix` constructor is built through (the harness builds it through the
struct of the same name). -/
inductive IxTag where
  | sys (i : Generated.SysIx)
  | tok (i : Generated.TokIx)
  | ata (i : Generated.AtaIx)
  deriving DecidableEq, Repr

def Ix.tag : Ix → IxTag
  | .sysCreateAccount .. => .sys .CreateAccount
  | .sysAssign .. => .sys .Assign
  | .sysTransfer .. => .sys .Transfer
  | .sysAdvanceNonce .. => .sys .AdvanceNonceAccount
  | .sysWithdrawNonce .. => .sys .WithdrawNonceAccount
  | .sysInitNonce .. => .sys .InitializeNonceAccount
  | .sysAuthorizeNonce .. => .sys .AuthorizeNonceAccount
  | .sysAllocate .. => .sys .Allocate
  | .sysUpgradeNonce .. => .sys .UpgradeNonceAccount
  | .tokInitializeMint .. => .tok .InitializeMint
  | .tokInitializeAccount .. => .tok .InitializeAccount
  | .tokInitializeMultisig .. => .tok .InitializeMultisig
  | .tokTransfer .. => .tok .Transfer
  | .tokApprove .. => .tok .Approve
  | .tokRevoke .. => .tok .Revoke
  | .tokSetAuthority .. => .tok .SetAuthority
  | .tokMintTo .. => .tok .MintTo
  | .tokBurn .. => .tok .Burn
  | .tokCloseAccount .. => .tok .CloseAccount
  | .tokFreezeAccount .. => .tok .FreezeAccount
  | .tokThawAccount .. => .tok .ThawAccount
  | .tokTransferChecked .. => .tok .TransferChecked
  | .tokApproveChecked .. => .tok .ApproveChecked
  | .tokMintToChecked .. => .tok .MintToChecked
  | .tokBurnChecked .. => .tok .BurnChecked
  | .tokInitializeAccount2 .. => .tok .InitializeAccount2
  | .tokSyncNative .. => .tok .SyncNative
  | .tokInitializeAccount3 .. => .tok .InitializeAccount3
  | .tokInitializeMultisig2 .. => .tok .InitializeMultisig2
  | .tokInitializeMint2 .. => .tok .InitializeMint2
  | .tokGetAccountDataSize .. => .tok .GetAccountDataSize
  | .tokInitializeImmutableOwner .. => .tok .InitializeImmutableOwner
  | .tokAmountToUiAmount .. => .tok .AmountToUiAmount
  | .ataCreate .. => .ata .Create
  | .ataCreateIdempotent .. => .ata .CreateIdempotent
  | .ataRecoverNested .. => .ata .RecoverNested

def IxTag.all : List IxTag :=
  Generated.SysIx.all.map .sys ++ Generated.TokIx.all.map .tok ++ Generated.AtaIx.all.map .ata

def IxTag.prog : IxTag → Prog
  | .sys _ => .system | .tok _ => .token | .ata _ => .ata
/-- `size_of::<S::Discriminant>()` with `use_repr`. -/
def IxTag.reprBytes : IxTag → Nat
  | .sys _ => Generated.sysReprBytes | .tok _ => Generated.tokReprBytes | .ata _ => Generated.ataReprBytes
def IxTag.disc : IxTag → Nat
  | .sys i => i.disc | .tok i => i.disc | .ata i => i.disc
def IxTag.fields : IxTag → List (FName × ArgTy)
  | .sys i => i.fields | .tok i => i.fields | .ata i => i.fields
def IxTag.accounts : IxTag → List (AName × AcctTy)
  | .sys i => i.accounts | .tok i => i.accounts | .ata i => i.accounts

/-- `StarFrameProgram::ID` of each bound program, from the generated table. -/
def progId : Prog → Key
  | .system => Generated.systemId | .token => Generated.tokenId | .ata => Generated.ataId

/-- The framework's own `AuthorityType` variant the client picks for a reference authority type (by name). -/
def AuthTy.fw : AuthTy → Generated.AuthorityType
  | .mintTokens => .MintTokens | .freezeAccount => .FreezeAccount
  | .accountOwner => .AccountOwner | .closeAccount => .CloseAccount

/-- Argument values. -/
inductive Val where
  | num (n : Nat) | key (k : Key) | optKey (o : Option Key) | auth (a : Generated.AuthorityType)
  deriving Repr

/-- Client account values. -/
inductive AVal where
  | key (k : Key) | opt (o : Option Key) | list (ks : List Key)
  deriving Repr

/-- The payload struct the client fills in, by the framework's field names. -/
def fwArgs : Ix → List (FName × Val)
  | .sysCreateAccount _ _ lamports space owner => [(.lamports, .num lamports), (.space, .num space), (.owner, .key owner)]
  | .sysAssign _ owner => [(.owner, .key owner)]
  | .sysTransfer _ _ lamports => [(.lamports, .num lamports)]
  | .sysWithdrawNonce _ _ _ _ _ lamports => [(.f0, .num lamports)]
  | .sysInitNonce _ _ _ authority => [(.f0, .key authority)]
  | .sysAuthorizeNonce _ _ newAuthority => [(.f0, .key newAuthority)]
  | .sysAllocate _ space => [(.space, .num space)]
  | .tokInitializeMint _ _ decimals mintAuthority freezeAuthority
  | .tokInitializeMint2 _ decimals mintAuthority freezeAuthority =>
      [(.decimals, .num decimals), (.mint_authority, .key mintAuthority), (.freeze_authority, .optKey freezeAuthority)]
  | .tokInitializeMultisig _ _ _ m | .tokInitializeMultisig2 _ _ m => [(.m, .num m)]
  | .tokTransfer _ _ _ amount | .tokApprove _ _ _ amount | .tokMintTo _ _ _ amount | .tokBurn _ _ _ amount
  | .tokAmountToUiAmount _ amount => [(.amount, .num amount)]
  | .tokSetAuthority _ _ ty newAuthority => [(.authority_type, .auth ty.fw), (.new_authority, .optKey newAuthority)]
  | .tokTransferChecked _ _ _ _ amount decimals | .tokApproveChecked _ _ _ _ amount decimals
  | .tokMintToChecked _ _ _ amount decimals | .tokBurnChecked _ _ _ amount decimals =>
      [(.amount, .num amount), (.decimals, .num decimals)]
  | .tokInitializeAccount2 _ _ _ owner | .tokInitializeAccount3 _ _ owner => [(.owner, .key owner)]
  | _ => []

/-- The `…ClientAccounts` struct the client fills in, by the framework's field names. -/
def fwAccts : Ix → List (AName × AVal)
  | .sysCreateAccount funder newAccount _ _ _ => [(.funder, .key funder), (.new_account, .key newAccount)]
  | .sysAssign account _ => [(.account, .key account)]
  | .sysTransfer funder recipient _ => [(.funder, .key funder), (.recipient, .key recipient)]
  | .sysAdvanceNonce nonce rb authority =>
      [(.nonce_account, .key nonce), (.recent_blockhashes, .key rb), (.nonce_authority, .key authority)]
  | .sysWithdrawNonce nonce recipient rb rent authority _ =>
      [(.nonce_account, .key nonce), (.recipient, .key recipient), (.recent_blockhashes, .key rb),
       (.rent, .opt rent), (.nonce_authority, .key authority)]
  | .sysInitNonce nonce rb rent _ => [(.nonce_account, .key nonce), (.recent_blockhashes, .key rb), (.rent, .opt rent)]
  | .sysAuthorizeNonce nonce authority _ => [(.nonce_account, .key nonce), (.nonce_authority, .key authority)]
  | .sysAllocate account _ => [(.account, .key account)]
  | .sysUpgradeNonce nonce => [(.nonce_account, .key nonce)]
  | .tokInitializeMint mint rent _ _ _ => [(.mint, .key mint), (.rent, .opt rent)]
  | .tokInitializeAccount account mint owner rent =>
      [(.account, .key account), (.mint, .key mint), (.owner, .key owner), (.rent, .opt rent)]
  | .tokInitializeMultisig multisig rent signers _ =>
      [(.multisig, .key multisig), (.rent, .opt rent), (.signers, .list signers)]
  | .tokTransfer source destination owner _ =>
      [(.source, .key source), (.destination, .key destination), (.owner, .key owner)]
  | .tokApprove source delegate owner _ => [(.source, .key source), (.delegate, .key delegate), (.owner, .key owner)]
  | .tokRevoke source owner => [(.source, .key source), (.owner, .key owner)]
  | .tokSetAuthority account currentAuthority _ _ => [(.account, .key account), (.current_authority, .key currentAuthority)]
  | .tokMintTo mint account mintAuthority _ | .tokMintToChecked mint account mintAuthority _ _ =>
      [(.mint, .key mint), (.account, .key account), (.mint_authority, .key mintAuthority)]
  | .tokBurn account mint owner _ | .tokBurnChecked account mint owner _ _ =>
      [(.account, .key account), (.mint, .key mint), (.owner, .key owner)]
  | .tokCloseAccount account destination owner =>
      [(.account, .key account), (.destination, .key destination), (.owner, .key owner)]
  | .tokFreezeAccount account mint authority | .tokThawAccount account mint authority =>
      [(.account, .key account), (.mint, .key mint), (.authority, .key authority)]
  | .tokTransferChecked source mint destination owner _ _ =>
      [(.source, .key source), (.mint, .key mint), (.destination, .key destination), (.owner, .key owner)]
  | .tokApproveChecked source mint delegate owner _ _ =>
      [(.source, .key source), (.mint, .key mint), (.delegate, .key delegate), (.owner, .key owner)]
  | .tokInitializeAccount2 account mint rent _ => [(.account, .key account), (.mint, .key mint), (.rent, .opt rent)]
  | .tokSyncNative account | .tokInitializeImmutableOwner account => [(.account, .key account)]
  | .tokInitializeAccount3 account mint _ => [(.account, .key account), (.mint, .key mint)]
  | .tokInitializeMultisig2 multisig signers _ => [(.multisig, .key multisig), (.signers, .list signers)]
  | .tokInitializeMint2 mint _ _ _ | .tokGetAccountDataSize mint | .tokAmountToUiAmount mint _ => [(.mint, .key mint)]
  | .ataCreate funder tokenAccount wallet mint systemProgram tokenProgram
  | .ataCreateIdempotent funder tokenAccount wallet mint systemProgram tokenProgram =>
      [(.funder, .key funder), (.token_account, .key tokenAccount), (.wallet, .key wallet), (.mint, .key mint),
       (.system_program, .opt systemProgram), (.token_program, .opt tokenProgram)]
  | .ataRecoverNested nestedAta nestedMint destinationAta ownerAta ownerMint wallet tokenProgram =>
      [(.nested_ata, .key nestedAta), (.nested_mint, .key nestedMint), (.destination_ata, .key destinationAta),
       (.owner_ata, .key ownerAta), (.owner_mint, .key ownerMint), (.wallet, .key wallet),
       (.token_program, .opt tokenProgram)]

/-- borsh of one field (`to_le_bytes` = `leN`; `Option<T>` = `0` | `1 ++ T`; a fieldless enum = its variant
index as `u8`; `Pubkey` = its 32 bytes). A field the client did not supply / of the wrong kind encodes
as nothing (cannot happen for a well-typed client; the agreement theorem would fail if the tables
asked for a field `fwArgs` does not provide). -/
def borsh : ArgTy → Option Val → List Nat
  | .u8, some (.num n) => leN 1 n
  | .u64, some (.num n) => leN 8 n
  | .pubkey, some (.key k) => k
  | .optPubkey, some (.optKey none) => [0]
  | .optPubkey, some (.optKey (some k)) => 1 :: k
  | .authorityType, some (.auth a) => leN 1 a.idx
  | _, _ => []

/-- `star_frame_instruction_data`: `bytes_of(&DISCRIMINANT) ++ borsh(payload)`. -/
def fwData (ix : Ix) : List Nat :=
  leN ix.tag.reprBytes ix.tag.disc
    ++ ix.tag.fields.flatMap (fun f => borsh f.2 (assoc f.1 (fwArgs ix)))

/-- `ClientAccountSet::extend_account_metas` of one account-struct field. -/
def metasOf : AcctTy → Option AVal → List Meta
  | .info s w, some (.key k) => [⟨k, s, w⟩]
  | .sysvarRent, some (.opt o) => [⟨o.getD Generated.rentSysvarId, false, false⟩]
  | .program p, some (.opt o) => [⟨o.getD (progId p), false, false⟩]
  | .rest s w, some (.list ks) => ks.map (fun k => ⟨k, s, w⟩)
  | _, _ => []

/-- The derived `extend_account_metas` of the account struct: fields in declared order. -/
def fwMetas (ix : Ix) : List Meta :=
  ix.tag.accounts.flatMap (fun a => metasOf a.2 (assoc a.1 (fwAccts ix)))

def fwProgram (ix : Ix) : Key := progId ix.tag.prog

/-! ## The CPI build (`star_frame/src/cpi.rs`: `Program::cpi(data, …CpiAccounts, None).invoke()`)

The on-chain twin of the client build. The caller supplies one `AccountInfo` per slot (a `Vec` for
`Rest<_>`; `Sysvar<_>` / `Program<_>` slots have no default here); `CpiAccountSet::write_account_metas` writes,
per slot, the info's key with the slot's DECLARED flags (the hand-written impl for a bare `AccountInfo`:
`false, false`; the derived single-account-set impl: `Self::meta()`), never the info's runtime
`is_signer` / `is_writable`; the data is `bytes_of(&DISCRIMINANT) ++ borsh(payload)` again (a second copy of
that code), the program id `P::ID` (no override). -/

/-- A native `AccountInfo` as far as the build can see it: its key and its runtime privileges. -/
structure Info where
  key : Key
  isSigner : Bool
  isWritable : Bool
  deriving DecidableEq, Repr

/-- `…CpiAccounts` field values. -/
inductive CVal where
  | info (i : Info) | list (is : List Info)
  deriving Repr

/-- Attach runtime flags to a list of keys (`rt name index`). -/
def infosOf (rt : AName → Nat → Bool × Bool) (n : AName) : List Key → Nat → List Info
  | [], _ => []
  | k :: ks, i => ⟨k, (rt n i).1, (rt n i).2⟩ :: infosOf rt n ks (i + 1)

/-- The `…CpiAccounts` value of one slot for the same (well-typed) client input: an info with the same key —
for a `Sysvar<Rent>` / `Program<_>` slot the client left out, the canonical account — and ARBITRARY runtime
flags `rt`. -/
def toCpiVal (rt : AName → Nat → Bool × Bool) : AcctTy → AName → Option AVal → Option CVal
  | .info _ _, n, some (.key k) => some (.info ⟨k, (rt n 0).1, (rt n 0).2⟩)
  | .sysvarRent, n, some (.opt o) => some (.info ⟨o.getD Generated.rentSysvarId, (rt n 0).1, (rt n 0).2⟩)
  | .program p, n, some (.opt o) => some (.info ⟨o.getD (progId p), (rt n 0).1, (rt n 0).2⟩)
  | .rest _ _, n, some (.list ks) => some (.list (infosOf rt n ks 0))
  | _, _, _ => none

/-- `CpiAccountSet::write_account_metas` of one account-struct field. -/
def cpiMetasOf : AcctTy → Option CVal → List Meta
  | .info s w, some (.info i) => [⟨i.key, s, w⟩]
  | .sysvarRent, some (.info i) => [⟨i.key, false, false⟩]
  | .program _, some (.info i) => [⟨i.key, false, false⟩]
  | .rest s w, some (.list is) => is.map (fun i => ⟨i.key, s, w⟩)
  | _, _ => []

/-- The derived `write_account_metas` of the account struct: fields in declared order. -/
def cpiMetas (rt : AName → Nat → Bool × Bool) (ix : Ix) : List Meta :=
  ix.tag.accounts.flatMap (fun a => cpiMetasOf a.2 (toCpiVal rt a.2 a.1 (assoc a.1 (fwAccts ix))))

/-- `CpiBuilder::invoke_signed`: `data.extend_from_slice(bytes_of(&Ix::DISCRIMINANT)); self.data.serialize(&mut data)`. -/
def cpiData (ix : Ix) : List Nat :=
  leN ix.tag.reprBytes ix.tag.disc
    ++ ix.tag.fields.flatMap (fun f => borsh f.2 (assoc f.1 (fwArgs ix)))

/-- `CpiProgramInput::pubkey(None)` = `P::ID`. -/
def cpiProgram (ix : Ix) : Key := progId ix.tag.prog

/-! ## ATA derivation input -/

/-- What `AssociatedToken::find_address_with_bump(wallet, mint)` passes to
`Pubkey::find_program_address`: the generated seed list resolved, and the program. -/
def fwAtaInput (wallet mint : Key) : List Key × Key :=
  (Generated.ataSeeds.map (fun
    | .wallet => wallet
    | .tokenProgram => Generated.tokenId
    | .mint => mint),
   progId Generated.ataProgram)

/-- What the reference `get_associated_token_address_with_program_id` passes. -/
def refAtaInput (wallet mint tokenProgram : Key) : List Key × Key :=
  (refAtaSeeds wallet tokenProgram mint, refAtaId)

end Spl
