import Common.Proto
import Spl.Wire
import Spl.Pack
/-!
# C16 model driver (`c16_model`)

Reads the op stream of `hx-bindings C16` and answers, per op, what the framework model
(`fwProgram`/`fwData`/`fwMetas`, `fwMintView`/`fwTokenView`, `fwAtaInput` — the definitions the theorems of
`Spl.Props.C16` are about) computes from the same arguments.

Ops (positional; keys = 64 hex digits; optional client accounts `none` | key; key lists comma separated,
`-` = empty; numbers decimal):

* `ix sys.<Variant> …` / `ix tok.<Variant> …` / `ix ata.<Variant> …` — arguments in the order of the `Ix`
  constructor → `ok <program> <data> <key:s:w,…>`
* `cpi <exact|more|all|none> <prog>.<Variant> …` — the CPI build with native infos whose runtime flags are the
  required ones / strictly more / all set / none → `ok <program> <data> <key:s:w,…>`
* `table id <system|token|ata|rent>` / `table ix <prog>.<Variant>` / `table struct <mint|token>` / `table pod` /
  `table state` / `table authority` — one entry of `Spl.Generated.*`, in the format in which the harness reports
  the same entry from the compiled code (discriminant bytes, borsh layout probe, meta layout probe,
  `offset_of!` / `size_of`, tags, enum encodings)
* `mint <owner> <image>` / `token <owner> <image>` → `ok <fields>` | `err:<class>`
* `view <mint|token> <unchecked|data|validate|set|vset|vdirect|init> <w0s0|w0s1|w1s0|w1s1> <owner> <image> [args]` —
  every access path of the views under the runtime flags of the `AccountInfo` (see `viewOp`); `mint`/`token`/
  `vmint`/`vtoken` below are the `set` / `vset` paths with `w0s0`
* `vmint <owner> <image> <decimals|any> <authority|any> <any|none|freeze key>` /
  `vtoken <owner> <image> <mint|any> <owner|any>` — `validate()?; validate_mint/validate_token(arg)` →
  `ok` | `err:<class>`
* `ata <wallet> <mint>` → `ok <seed|seed|seed> <program>`
-/
namespace Spl.Driver
open Common Common.Proto Spl

def pKey (s : String) : Option Key :=
  match parseHex s with
  | some b => if b.length = 32 then some b else none
  | none => none

def pOptKey (s : String) : Option (Option Key) :=
  if s = "none" then some none else (pKey s).map some

def pKeys (s : String) : Option (List Key) :=
  if s = "-" then some [] else (s.splitOn ",").mapM pKey

def pU64 (s : String) : Option Nat :=
  match s.toNat? with
  | some n => if n < 2 ^ 64 then some n else none
  | none => none

def pU8 (s : String) : Option Nat :=
  match s.toNat? with
  | some n => if n < 256 then some n else none
  | none => none

def pAuth (s : String) : Option AuthTy :=
  if s = "MintTokens" then some .mintTokens
  else if s = "FreezeAccount" then some .freezeAccount
  else if s = "AccountOwner" then some .accountOwner
  else if s = "CloseAccount" then some .closeAccount
  else none

/-- Parse `<prog>.<Variant> args…` into the argument space. -/
def parseIx : List String → Option Ix
  | ["sys.CreateAccount", a, b, l, s, o] => do
      pure (.sysCreateAccount (← pKey a) (← pKey b) (← pU64 l) (← pU64 s) (← pKey o))
  | ["sys.Assign", a, o] => do pure (.sysAssign (← pKey a) (← pKey o))
  | ["sys.Transfer", a, b, l] => do pure (.sysTransfer (← pKey a) (← pKey b) (← pU64 l))
  | ["sys.AdvanceNonceAccount", n, rb, au] => do pure (.sysAdvanceNonce (← pKey n) (← pKey rb) (← pKey au))
  | ["sys.WithdrawNonceAccount", n, r, rb, rent, au, l] => do
      pure (.sysWithdrawNonce (← pKey n) (← pKey r) (← pKey rb) (← pOptKey rent) (← pKey au) (← pU64 l))
  | ["sys.InitializeNonceAccount", n, rb, rent, au] => do
      pure (.sysInitNonce (← pKey n) (← pKey rb) (← pOptKey rent) (← pKey au))
  | ["sys.AuthorizeNonceAccount", n, au, na] => do pure (.sysAuthorizeNonce (← pKey n) (← pKey au) (← pKey na))
  | ["sys.Allocate", a, s] => do pure (.sysAllocate (← pKey a) (← pU64 s))
  | ["sys.UpgradeNonceAccount", n] => do pure (.sysUpgradeNonce (← pKey n))
  | ["tok.InitializeMint", mint, rent, d, ma, fa] => do
      pure (.tokInitializeMint (← pKey mint) (← pOptKey rent) (← pU8 d) (← pKey ma) (← pOptKey fa))
  | ["tok.InitializeAccount", a, mint, o, rent] => do
      pure (.tokInitializeAccount (← pKey a) (← pKey mint) (← pKey o) (← pOptKey rent))
  | ["tok.InitializeMultisig", ms, rent, signers, m] => do
      pure (.tokInitializeMultisig (← pKey ms) (← pOptKey rent) (← pKeys signers) (← pU8 m))
  | ["tok.Transfer", s, d, o, a] => do pure (.tokTransfer (← pKey s) (← pKey d) (← pKey o) (← pU64 a))
  | ["tok.Approve", s, d, o, a] => do pure (.tokApprove (← pKey s) (← pKey d) (← pKey o) (← pU64 a))
  | ["tok.Revoke", s, o] => do pure (.tokRevoke (← pKey s) (← pKey o))
  | ["tok.SetAuthority", a, c, ty, na] => do
      pure (.tokSetAuthority (← pKey a) (← pKey c) (← pAuth ty) (← pOptKey na))
  | ["tok.MintTo", mint, a, au, n] => do pure (.tokMintTo (← pKey mint) (← pKey a) (← pKey au) (← pU64 n))
  | ["tok.Burn", a, mint, o, n] => do pure (.tokBurn (← pKey a) (← pKey mint) (← pKey o) (← pU64 n))
  | ["tok.CloseAccount", a, d, o] => do pure (.tokCloseAccount (← pKey a) (← pKey d) (← pKey o))
  | ["tok.FreezeAccount", a, mint, au] => do pure (.tokFreezeAccount (← pKey a) (← pKey mint) (← pKey au))
  | ["tok.ThawAccount", a, mint, au] => do pure (.tokThawAccount (← pKey a) (← pKey mint) (← pKey au))
  | ["tok.TransferChecked", s, mint, d, o, n, dec] => do
      pure (.tokTransferChecked (← pKey s) (← pKey mint) (← pKey d) (← pKey o) (← pU64 n) (← pU8 dec))
  | ["tok.ApproveChecked", s, mint, d, o, n, dec] => do
      pure (.tokApproveChecked (← pKey s) (← pKey mint) (← pKey d) (← pKey o) (← pU64 n) (← pU8 dec))
  | ["tok.MintToChecked", mint, a, au, n, dec] => do
      pure (.tokMintToChecked (← pKey mint) (← pKey a) (← pKey au) (← pU64 n) (← pU8 dec))
  | ["tok.BurnChecked", a, mint, o, n, dec] => do
      pure (.tokBurnChecked (← pKey a) (← pKey mint) (← pKey o) (← pU64 n) (← pU8 dec))
  | ["tok.InitializeAccount2", a, mint, rent, o] => do
      pure (.tokInitializeAccount2 (← pKey a) (← pKey mint) (← pOptKey rent) (← pKey o))
  | ["tok.SyncNative", a] => do pure (.tokSyncNative (← pKey a))
  | ["tok.InitializeAccount3", a, mint, o] => do pure (.tokInitializeAccount3 (← pKey a) (← pKey mint) (← pKey o))
  | ["tok.InitializeMultisig2", ms, signers, m] => do
      pure (.tokInitializeMultisig2 (← pKey ms) (← pKeys signers) (← pU8 m))
  | ["tok.InitializeMint2", mint, d, ma, fa] => do
      pure (.tokInitializeMint2 (← pKey mint) (← pU8 d) (← pKey ma) (← pOptKey fa))
  | ["tok.GetAccountDataSize", mint] => do pure (.tokGetAccountDataSize (← pKey mint))
  | ["tok.InitializeImmutableOwner", a] => do pure (.tokInitializeImmutableOwner (← pKey a))
  | ["tok.AmountToUiAmount", mint, n] => do pure (.tokAmountToUiAmount (← pKey mint) (← pU64 n))
  | ["ata.Create", f, ta, w, mint, sp, tp] => do
      pure (.ataCreate (← pKey f) (← pKey ta) (← pKey w) (← pKey mint) (← pOptKey sp) (← pOptKey tp))
  | ["ata.CreateIdempotent", f, ta, w, mint, sp, tp] => do
      pure (.ataCreateIdempotent (← pKey f) (← pKey ta) (← pKey w) (← pKey mint) (← pOptKey sp) (← pOptKey tp))
  | ["ata.RecoverNested", na, nm, da, oa, om, w, tp] => do
      pure (.ataRecoverNested (← pKey na) (← pKey nm) (← pKey da) (← pKey oa) (← pKey om) (← pKey w) (← pOptKey tp))
  | _ => none

def showMeta (m : Meta) : String := s!"{toHex m.key}:{showBool m.signer}:{showBool m.writable}"

def showMetas (ms : List Meta) : String :=
  if ms.isEmpty then "-" else ",".intercalate (ms.map showMeta)

def showOptKey : Option Key → String
  | none => "none"
  | some k => toHex k

def showOptNum : Option Nat → String
  | none => "none"
  | some n => toString n

/-- How the framework's error surfaces as a `ProgramError` class (`hx_native::err_class`). -/
def showViewErr : ViewErr → String
  | .owner => "err:InvalidAccountOwner"
  | .len => "err:InvalidAccountData"
  | .size => "err:CheckedCastError"
  | .bitPattern => "err:CheckedCastError"
  | .uninit => "err:UninitializedAccount"

def showValErr : ValErr → String
  | .view e => showViewErr e
  | .invalidAccountData => "err:InvalidAccountData"
  | .incorrectAuthority => "err:IncorrectAuthority"

def showVal : Except ValErr Unit → String
  | .ok _ => "ok"
  | .error e => showValErr e

/-- `any` | value -/
def pAny {α : Type} (p : String → Option α) (s : String) : Option (Option α) :=
  if s = "any" then some none else (p s).map some

def pFreeze (s : String) : Option FreezeArg :=
  if s = "any" then some .any else if s = "none" then some .none else (pKey s).map .some

def showMint (m : Mint) : String :=
  s!"ok ma={showOptKey m.mintAuthority} supply={m.supply} dec={m.decimals} init={showBool m.isInitialized} fa={showOptKey m.freezeAuthority}"

def showToken (t : TokenAcc) : String :=
  s!"ok mint={toHex t.mint} owner={toHex t.owner} amount={t.amount} delegate={showOptKey t.delegate} state={t.state} native={showOptNum t.isNative} delegated={t.delegatedAmount} close={showOptKey t.closeAuthority}"

/-- Declared (= required) flags of the slot `n` of `ix`. -/
def requiredFlags (ix : Ix) (n : AName) : Bool × Bool :=
  match assoc n ix.tag.accounts with
  | some (.info s w) => (s, w)
  | some (.rest s w) => (s, w)
  | _ => (false, false)

/-- The runtime flags the harness gives the info of each slot in each mode. -/
def runtimeFlags (mode : String) (ix : Ix) : Option (AName → Nat → Bool × Bool) :=
  if mode = "exact" then some (fun n _ => requiredFlags ix n)
  else if mode = "more" then
    some (fun n _ => if requiredFlags ix n = (false, false) then (true, true) else requiredFlags ix n)
  else if mode = "all" then some (fun _ _ => (true, true))
  else if mode = "none" then some (fun _ _ => (false, false))
  else none

/-! ### `table …`: entries of the generated tables -/

/-- constructor name of an enumeration value (`Spl.FName.amount` → `amount`) -/
def ctorName {α : Type} [Repr α] (x : α) : String :=
  ((toString (repr x)).splitOn ".").getLastD ""

def joinOr (l : List String) : String := if l.isEmpty then "-" else ",".intercalate l

/-- width of a field's borsh encoding under the probe (optional keys present) -/
def probeWidth : ArgTy → Nat
  | .u8 => 1 | .u64 => 8 | .pubkey => 32 | .optPubkey => 33 | .authorityType => 1

def showArgLayout : List (FName × ArgTy) → Nat → List String
  | [], _ => []
  | (n, ty) :: fs, off => s!"{ctorName n}@{off}+{probeWidth ty}" :: showArgLayout fs (off + probeWidth ty)

def argsLen (fs : List (FName × ArgTy)) : Nat := (fs.map (fun f => probeWidth f.2)).sum

/-- the probe passes two signers -/
def slotCount : AcctTy → Nat
  | .rest _ _ => 2 | _ => 1

def showAcctLayout : List (AName × AcctTy) → Nat → List String
  | [], _ => []
  | (n, ty) :: fs, idx =>
    (match ty with
      | .info s w => s!"{ctorName n}@{idx}:{showBool s}:{showBool w}"
      | .sysvarRent => s!"{ctorName n}@{idx}:0:0={toHex Generated.rentSysvarId}"
      | .program p => s!"{ctorName n}@{idx}:0:0={toHex (progId p)}"
      | .rest s w => s!"{ctorName n}@{idx}+2:{showBool s}:{showBool w}") :: showAcctLayout fs (idx + slotCount ty)

def tagOfName (name : String) : Option IxTag :=
  IxTag.all.find? (fun t =>
    (match t with
      | .sys i => "sys." ++ i.name
      | .tok i => "tok." ++ i.name
      | .ata i => "ata." ++ i.name) == name)

def showStructLayout : List (SName × STy) → Nat → List String
  | [], _ => []
  | (n, ty) :: fs, off => s!"{ctorName n}@{off}+{ty.size}" :: showStructLayout fs (off + ty.size)

/-- offset of the tag / of the value inside `PodOption<T>` (`size_of::<T>() = v`), tag width -/
def podLayout (v : Nat) : List PodPart → Nat → (Int × Nat × Int) → (Int × Nat × Int)
  | [], _, acc => acc
  | .tag n :: ps, off, (_, _, val) => podLayout v ps (off + n) (Int.ofNat off, n, val)
  | .value :: ps, off, (tag, w, _) => podLayout v ps (off + v) (tag, w, Int.ofNat off)

/-- entries by name: declaration order is not a table value -/
def sortStrs (l : List String) : List String := (l.toArray.qsort (· < ·)).toList

def tableOp : List String → String
  | ["id", "system"] => s!"ok {toHex Generated.systemId}"
  | ["id", "token"] => s!"ok {toHex Generated.tokenId}"
  | ["id", "ata"] => s!"ok {toHex Generated.ataId}"
  | ["id", "rent"] => s!"ok {toHex Generated.rentSysvarId}"
  | ["ix", name] =>
    match tagOfName name with
    | none => "bad-op"
    | some t =>
      let metas := (t.accounts.map (fun a => slotCount a.2)).sum
      s!"ok program={toHex (progId t.prog)} disc={toHex (leN t.reprBytes t.disc)} datalen={t.reprBytes + argsLen t.fields} args={joinOr (showArgLayout t.fields 0)} metas={metas} accts={joinOr (showAcctLayout t.accounts 0)}"
  | ["struct", "mint"] =>
    s!"ok size={structSize Generated.mintFields} len={Generated.mintLen} fields={joinOr (showStructLayout Generated.mintFields 0)}"
  | ["struct", "token"] =>
    s!"ok size={structSize Generated.tokenFields} len={Generated.tokenLen} fields={joinOr (showStructLayout Generated.tokenFields 0)}"
  | ["pod"] =>
    let l := podLayout 32 Generated.podOptionLayout 0 (-1, 0, -1)
    s!"ok size32={podSize 32} size8={podSize 8} tag@{l.1}+{l.2.1} value@{l.2.2} none={toHex Generated.podNone} some={toHex Generated.podSome}"
  | ["state"] => "ok " ++ ",".intercalate (sortStrs (Generated.accountStateDiscs.map (fun d => s!"{d.1}={d.2}")))
  | ["authority"] =>
    "ok " ++ ",".intercalate
      (sortStrs (Generated.AuthorityType.all.map (fun a => s!"{a.name}={toHex (leN 1 a.idx)}")))
  | _ => "bad-op"

/-- runtime flags of the `AccountInfo`: `w<0|1>s<0|1>` → (writable, signer) -/
def pFlags (s : String) : Option (Bool × Bool) :=
  if s = "w0s0" then some (false, false) else if s = "w0s1" then some (false, true)
  else if s = "w1s0" then some (true, false) else if s = "w1s1" then some (true, true) else none

def showFields {α : Type} (sh : α → String) (conv : List (SName × SVal) → α) :
    Except ViewErr (List (SName × SVal)) → String
  | .ok vs => sh (conv vs)
  | .error e => showViewErr e

def showUnit : Except ViewErr (List (SName × SVal)) → String
  | .ok _ => "ok"
  | .error e => showViewErr e

def showInit : Except ValErr Unit → String
  | .ok _ => "ok false"
  | .error e => showValErr e

/-- `view <mint|token> <path> <flags> <owner> <image> [args]` — every access path of the zero-copy views under
the runtime flags of the `AccountInfo`:
`unchecked` = `data_unchecked()`, `data` = `data()`, `validate` = `validate()`, `set` = decode + `validate_accounts(())`
+ `data()`, `vset <args>` = `validate_accounts(ValidateMint/ValidateToken)`, `vdirect <args>` =
`validate_mint/validate_token(arg)` alone, `init <args>` = `init_account::<IF_NEEDED = true>` on the existing
account (only for accounts the Token program owns: otherwise the create path runs — `bad-op`). The signer flag is
carried but not read by any path. -/
def viewOp : List String → String
  | kind :: path :: flags :: owner :: image :: args =>
    match pFlags flags, pKey owner, parseHex image with
    | some (w, _), some o, some b =>
      let ok := o == Generated.tokenId
      if kind = "mint" then
        match path, args with
        | "unchecked", [] => showFields showMint viewMint (fwMintUnchecked b)
        | "data", [] => showFields showMint viewMint (fwMintData w ok b)
        | "validate", [] => showUnit (fwMintView ok b)
        | "set", [] => showFields showMint viewMint (fwMintSet w ok b)
        | "vset", [d, au, fr] =>
          match pAny pU8 d, pAny pKey au, pFreeze fr with
          | some d, some au, some fr => showVal (fwValidateMint w ok b ⟨d, au, fr⟩)
          | _, _, _ => "bad-op"
        | "vdirect", [d, au, fr] =>
          match pAny pU8 d, pAny pKey au, pFreeze fr with
          | some d, some au, some fr => showVal (fwValidateMintDirect w ok b ⟨d, au, fr⟩)
          | _, _, _ => "bad-op"
        | "init", [d, au, fr] =>
          match pU8 d, pKey au, pOptKey fr with
          | some d, some au, some fr => if ok then showInit (fwInitMintIfNeeded w b d au fr) else "bad-op"
          | _, _, _ => "bad-op"
        | _, _ => "bad-op"
      else if kind = "token" then
        match path, args with
        | "unchecked", [] => showFields showToken viewToken (fwTokenUnchecked b)
        | "data", [] => showFields showToken viewToken (fwTokenData w ok b)
        | "validate", [] => showUnit (fwTokenView ok b)
        | "set", [] => showFields showToken viewToken (fwTokenSet w ok b)
        | "vset", [m, own] =>
          match pAny pKey m, pAny pKey own with
          | some m, some own => showVal (fwValidateToken w ok b ⟨m, own⟩)
          | _, _ => "bad-op"
        | "vdirect", [m, own] =>
          match pAny pKey m, pAny pKey own with
          | some m, some own => showVal (fwValidateTokenDirect w ok b ⟨m, own⟩)
          | _, _ => "bad-op"
        | "init", [m, own] =>
          match pKey m, pKey own with
          | some m, some own => if ok then showInit (fwInitTokenIfNeeded w b m own) else "bad-op"
          | _, _ => "bad-op"
        | _, _ => "bad-op"
      else "bad-op"
    | _, _, _ => "bad-op"
  | _ => "bad-op"

def step (_ : Unit) (toks : List String) : Unit × String :=
  let out :=
    match toks with
    | "ix" :: rest =>
      match parseIx rest with
      | some ix => s!"ok {toHex (fwProgram ix)} {toHex (fwData ix)} {showMetas (fwMetas ix)}"
      | none => "bad-op"
    | "table" :: rest => tableOp rest
    | "cpi" :: mode :: rest =>
      match parseIx rest with
      | some ix =>
        match runtimeFlags mode ix with
        | some rt => s!"ok {toHex (cpiProgram ix)} {toHex (cpiData ix)} {showMetas (cpiMetas rt ix)}"
        | none => "bad-op"
      | none => "bad-op"
    | ["mint", owner, image] => viewOp ["mint", "set", "w0s0", owner, image]
    | ["token", owner, image] => viewOp ["token", "set", "w0s0", owner, image]
    | ["vmint", owner, image, d, au, fr] => viewOp ["mint", "vset", "w0s0", owner, image, d, au, fr]
    | ["vtoken", owner, image, mint, own] => viewOp ["token", "vset", "w0s0", owner, image, mint, own]
    | "view" :: rest => viewOp rest
    | ["ata", wallet, mint] =>
      match pKey wallet, pKey mint with
      | some w, some m =>
        let inp := fwAtaInput w m
        s!"ok {"|".intercalate (inp.1.map toHex)} {toHex inp.2}"
      | _, _ => "bad-op"
    | _ => "bad-op"
  ((), out)

end Spl.Driver

def main : IO Unit := Common.Proto.run () Spl.Driver.step
