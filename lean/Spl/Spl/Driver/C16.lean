import Common.Proto
import Spl.Wire
import Spl.Pack
/-!
# C16 model driver (`c16_model`)

Reads the op stream of `hx-bindings C16` and answers, per op, what the framework model
(`fwProgram`/`fwData`/`fwMetas`, `fwMintView`/`fwTokenView`, `fwAtaInput` — the definitions the theorems of
`Spl.Props.C16` are about) computes from the same arguments.

Ops (positional; keys = 64 hex digits; optional client accounts `none` | key; key lists comma separated,
`-` = empty; numbers decimal):

* `ix sys.<Variant> …` / `ix tok.<Variant> …` / `ix ata.<Variant> …` — arguments in the order of the `Ix`
  constructor → `ok <program> <data> <key:s:w,…>`
* `mint <owner> <image>` / `token <owner> <image>` → `ok <fields>` | `err:<class>`
* `vmint <owner> <image> <decimals|any> <authority|any> <any|none|freeze key>` /
  `vtoken <owner> <image> <mint|any> <owner|any>` — `validate()?; validate_mint/validate_token(arg)` →
  `ok` | `err:<class>`
* `ata <wallet> <mint>` → `ok <seed|seed|seed> <program>`
-/
namespace Spl.Driver
open Common Common.Proto Spl

def pKey (s : String) : Option Key :=
  match parseHex s with
  | some b => if b.length = 32 then some b else none
  | none => none

def pOptKey (s : String) : Option (Option Key) :=
  if s = "none" then some none else (pKey s).map some

def pKeys (s : String) : Option (List Key) :=
  if s = "-" then some [] else (s.splitOn ",").mapM pKey

def pU64 (s : String) : Option Nat :=
  match s.toNat? with
  | some n => if n < 2 ^ 64 then some n else none
  | none => none

def pU8 (s : String) : Option Nat :=
  match s.toNat? with
  | some n => if n < 256 then some n else none
  | none => none

def pAuth (s : String) : Option AuthTy :=
  if s = "MintTokens" then some .mintTokens
  else if s = "FreezeAccount" then some .freezeAccount
  else if s = "AccountOwner" then some .accountOwner
  else if s = "CloseAccount" then some .closeAccount
  else none

/-- Parse `<prog>.<Variant> args…` into the argument space. -/
def parseIx : List String → Option Ix
  | ["sys.CreateAccount", a, b, l, s, o] => do
      pure (.sysCreateAccount (← pKey a) (← pKey b) (← pU64 l) (← pU64 s) (← pKey o))
  | ["sys.Assign", a, o] => do pure (.sysAssign (← pKey a) (← pKey o))
  | ["sys.Transfer", a, b, l] => do pure (.sysTransfer (← pKey a) (← pKey b) (← pU64 l))
  | ["sys.AdvanceNonceAccount", n, rb, au] => do pure (.sysAdvanceNonce (← pKey n) (← pKey rb) (← pKey au))
  | ["sys.WithdrawNonceAccount", n, r, rb, rent, au, l] => do
      pure (.sysWithdrawNonce (← pKey n) (← pKey r) (← pKey rb) (← pOptKey rent) (← pKey au) (← pU64 l))
  | ["sys.InitializeNonceAccount", n, rb, rent, au] => do
      pure (.sysInitNonce (← pKey n) (← pKey rb) (← pOptKey rent) (← pKey au))
  | ["sys.AuthorizeNonceAccount", n, au, na] => do pure (.sysAuthorizeNonce (← pKey n) (← pKey au) (← pKey na))
  | ["sys.Allocate", a, s] => do pure (.sysAllocate (← pKey a) (← pU64 s))
  | ["sys.UpgradeNonceAccount", n] => do pure (.sysUpgradeNonce (← pKey n))
  | ["tok.InitializeMint", mint, rent, d, ma, fa] => do
      pure (.tokInitializeMint (← pKey mint) (← pOptKey rent) (← pU8 d) (← pKey ma) (← pOptKey fa))
  | ["tok.InitializeAccount", a, mint, o, rent] => do
      pure (.tokInitializeAccount (← pKey a) (← pKey mint) (← pKey o) (← pOptKey rent))
  | ["tok.InitializeMultisig", ms, rent, signers, m] => do
      pure (.tokInitializeMultisig (← pKey ms) (← pOptKey rent) (← pKeys signers) (← pU8 m))
  | ["tok.Transfer", s, d, o, a] => do pure (.tokTransfer (← pKey s) (← pKey d) (← pKey o) (← pU64 a))
  | ["tok.Approve", s, d, o, a] => do pure (.tokApprove (← pKey s) (← pKey d) (← pKey o) (← pU64 a))
  | ["tok.Revoke", s, o] => do pure (.tokRevoke (← pKey s) (← pKey o))
  | ["tok.SetAuthority", a, c, ty, na] => do
      pure (.tokSetAuthority (← pKey a) (← pKey c) (← pAuth ty) (← pOptKey na))
  | ["tok.MintTo", mint, a, au, n] => do pure (.tokMintTo (← pKey mint) (← pKey a) (← pKey au) (← pU64 n))
  | ["tok.Burn", a, mint, o, n] => do pure (.tokBurn (← pKey a) (← pKey mint) (← pKey o) (← pU64 n))
  | ["tok.CloseAccount", a, d, o] => do pure (.tokCloseAccount (← pKey a) (← pKey d) (← pKey o))
  | ["tok.FreezeAccount", a, mint, au] => do pure (.tokFreezeAccount (← pKey a) (← pKey mint) (← pKey au))
  | ["tok.ThawAccount", a, mint, au] => do pure (.tokThawAccount (← pKey a) (← pKey mint) (← pKey au))
  | ["tok.TransferChecked", s, mint, d, o, n, dec] => do
      pure (.tokTransferChecked (← pKey s) (← pKey mint) (← pKey d) (← pKey o) (← pU64 n) (← pU8 dec))
  | ["tok.ApproveChecked", s, mint, d, o, n, dec] => do
      pure (.tokApproveChecked (← pKey s) (← pKey mint) (← pKey d) (← pKey o) (← pU64 n) (← pU8 dec))
  | ["tok.MintToChecked", mint, a, au, n, dec] => do
      pure (.tokMintToChecked (← pKey mint) (← pKey a) (← pKey au) (← pU64 n) (← pU8 dec))
  | ["tok.BurnChecked", a, mint, o, n, dec] => do
      pure (.tokBurnChecked (← pKey a) (← pKey mint) (← pKey o) (← pU64 n) (← pU8 dec))
  | ["tok.InitializeAccount2", a, mint, rent, o] => do
      pure (.tokInitializeAccount2 (← pKey a) (← pKey mint) (← pOptKey rent) (← pKey o))
  | ["tok.SyncNative", a] => do pure (.tokSyncNative (← pKey a))
  | ["tok.InitializeAccount3", a, mint, o] => do pure (.tokInitializeAccount3 (← pKey a) (← pKey mint) (← pKey o))
  | ["tok.InitializeMultisig2", ms, signers, m] => do
      pure (.tokInitializeMultisig2 (← pKey ms) (← pKeys signers) (← pU8 m))
  | ["tok.InitializeMint2", mint, d, ma, fa] => do
      pure (.tokInitializeMint2 (← pKey mint) (← pU8 d) (← pKey ma) (← pOptKey fa))
  | ["tok.GetAccountDataSize", mint] => do pure (.tokGetAccountDataSize (← pKey mint))
  | ["tok.InitializeImmutableOwner", a] => do pure (.tokInitializeImmutableOwner (← pKey a))
  | ["tok.AmountToUiAmount", mint, n] => do pure (.tokAmountToUiAmount (← pKey mint) (← pU64 n))
  | ["ata.Create", f, ta, w, mint, sp, tp] => do
      pure (.ataCreate (← pKey f) (← pKey ta) (← pKey w) (← pKey mint) (← pOptKey sp) (← pOptKey tp))
  | ["ata.CreateIdempotent", f, ta, w, mint, sp, tp] => do
      pure (.ataCreateIdempotent (← pKey f) (← pKey ta) (← pKey w) (← pKey mint) (← pOptKey sp) (← pOptKey tp))
  | ["ata.RecoverNested", na, nm, da, oa, om, w, tp] => do
      pure (.ataRecoverNested (← pKey na) (← pKey nm) (← pKey da) (← pKey oa) (← pKey om) (← pKey w) (← pOptKey tp))
  | _ => none

def showMeta (m : Meta) : String := s!"{toHex m.key}:{showBool m.signer}:{showBool m.writable}"

def showMetas (ms : List Meta) : String :=
  if ms.isEmpty then "-" else ",".intercalate (ms.map showMeta)

def showOptKey : Option Key → String
  | none => "none"
  | some k => toHex k

def showOptNum : Option Nat → String
  | none => "none"
  | some n => toString n

/-- How the framework's error surfaces as a `ProgramError` class (`hx_native::err_class`). -/
def showViewErr : ViewErr → String
  | .owner => "err:InvalidAccountOwner"
  | .len => "err:InvalidAccountData"
  | .size => "err:CheckedCastError"
  | .bitPattern => "err:CheckedCastError"
  | .uninit => "err:UninitializedAccount"

def showValErr : ValErr → String
  | .view e => showViewErr e
  | .invalidAccountData => "err:InvalidAccountData"
  | .incorrectAuthority => "err:IncorrectAuthority"

def showVal : Except ValErr Unit → String
  | .ok _ => "ok"
  | .error e => showValErr e

/-- `any` | value -/
def pAny {α : Type} (p : String → Option α) (s : String) : Option (Option α) :=
  if s = "any" then some none else (p s).map some

def pFreeze (s : String) : Option FreezeArg :=
  if s = "any" then some .any else if s = "none" then some .none else (pKey s).map .some

def showMint (m : Mint) : String :=
  s!"ok ma={showOptKey m.mintAuthority} supply={m.supply} dec={m.decimals} init={showBool m.isInitialized} fa={showOptKey m.freezeAuthority}"

def showToken (t : TokenAcc) : String :=
  s!"ok mint={toHex t.mint} owner={toHex t.owner} amount={t.amount} delegate={showOptKey t.delegate} state={t.state} native={showOptNum t.isNative} delegated={t.delegatedAmount} close={showOptKey t.closeAuthority}"

def step (_ : Unit) (toks : List String) : Unit × String :=
  let out :=
    match toks with
    | "ix" :: rest =>
      match parseIx rest with
      | some ix => s!"ok {toHex (fwProgram ix)} {toHex (fwData ix)} {showMetas (fwMetas ix)}"
      | none => "bad-op"
    | ["mint", owner, image] =>
      match pKey owner, parseHex image with
      | some o, some b =>
        match fwMintView (o == Generated.tokenId) b with
        | .ok vs => showMint (viewMint vs)
        | .error e => showViewErr e
      | _, _ => "bad-op"
    | ["token", owner, image] =>
      match pKey owner, parseHex image with
      | some o, some b =>
        match fwTokenView (o == Generated.tokenId) b with
        | .ok vs => showToken (viewToken vs)
        | .error e => showViewErr e
      | _, _ => "bad-op"
    | ["vmint", owner, image, d, au, fr] =>
      match pKey owner, parseHex image, pAny pU8 d, pAny pKey au, pFreeze fr with
      | some o, some b, some d, some au, some fr =>
        showVal (fwValidateMint (o == Generated.tokenId) b ⟨d, au, fr⟩)
      | _, _, _, _, _ => "bad-op"
    | ["vtoken", owner, image, mint, own] =>
      match pKey owner, parseHex image, pAny pKey mint, pAny pKey own with
      | some o, some b, some m, some w => showVal (fwValidateToken (o == Generated.tokenId) b ⟨m, w⟩)
      | _, _, _, _ => "bad-op"
    | ["ata", wallet, mint] =>
      match pKey wallet, pKey mint with
      | some w, some m =>
        let inp := fwAtaInput w m
        s!"ok {"|".intercalate (inp.1.map toHex)} {toHex inp.2}"
      | _, _ => "bad-op"
    | _ => "bad-op"
  ((), out)

end Spl.Driver

def main : IO Unit := Common.Proto.run () Spl.Driver.step
