import Lean
/-!
# Proof audit command

`#audit_props Mod.Props.Cxx Pfx1 Pfx2 …` prints one JSON object on one line (prefixed `AUDIT `):
* `props`: every theorem declared in module `Mod.Props.Cxx`, each with the axioms it depends on;
* `obligations`: the number of theorems (kernel-checked declarations of kind `theorem`) declared in
  modules whose name starts with one of the prefixes and that are imported by this file;
* `modules`: those modules.
Used by `bin/check` to count what was proved and to fail on any axiom outside the allowed set.
-/
open Lean Elab Command

private def jsonStr (s : String) : String := "\"" ++ s ++ "\""

elab "#audit_props " m:ident pfx:ident* : command => do
  let env ← getEnv
  let modName := m.getId
  let pfxs := pfx.map (·.getId)
  let modNames := env.header.moduleNames
  let some propIdx := modNames.findIdx? (· == modName)
    | throwError "module {modName} is not imported"
  let inScope (i : Nat) : Bool :=
    match modNames[i]? with
    | some mn => pfxs.any (fun p => p.isPrefixOf mn)
    | none => false
  let mut props : Array (Name) := #[]
  let mut total : Nat := 0
  let mut mods : Array Name := #[]
  for (n, ci) in env.constants.map₁.toList do
    if n.isInternal then continue
    -- skip auto-generated equation / unfolding lemmas
    if (match n with
        | .str _ s => s.startsWith "eq_" || s == "induct" || s.startsWith "induct_" || s.startsWith "fun_cases"
                      || s == "sizeOf_spec" || s == "injEq" || s == "inj" || s.startsWith "match_" || s.startsWith "proof_"
        | _ => true) then continue
    let .thmInfo _ := ci | continue
    let some idx := env.getModuleIdxFor? n | continue
    if inScope idx.toNat then
      total := total + 1
      let mn := modNames[idx.toNat]!
      if !mods.contains mn then mods := mods.push mn
    if idx.toNat == propIdx then props := props.push n
  let mut items : Array String := #[]
  for n in props.qsort (fun a b => a.toString < b.toString) do
    let axs ← liftCoreM (collectAxioms n)
    let axsS := ", ".intercalate (axs.toList.map (fun a => jsonStr a.toString))
    items := items.push s!"\{\"name\": {jsonStr n.toString}, \"axioms\": [{axsS}]}"
  let modsS := ", ".intercalate ((mods.qsort (fun a b => a.toString < b.toString)).toList.map (fun a => jsonStr a.toString))
  logInfo m!"AUDIT \{\"module\": {jsonStr modName.toString}, \"obligations\": {total}, \"modules\": [{modsS}], \"props\": [{", ".intercalate items.toList}]}"
