/-!
# Bytes as `Nat` lists, little-endian integers

Bytes are modelled as `Nat` with an explicit well-formedness predicate (`BytesWF`) instead of
`UInt8`: `omega`/`simp` then close the offset arithmetic that dominates the proofs.
-/
namespace Common

/-- Every element is a byte. -/
def BytesWF (l : List Nat) : Prop := ∀ b ∈ l, b < 256

instance (l : List Nat) : Decidable (BytesWF l) := by unfold BytesWF; infer_instance

@[simp] theorem BytesWF_nil : BytesWF [] := by simp [BytesWF]
@[simp] theorem BytesWF_cons {b : Nat} {l : List Nat} :
    BytesWF (b :: l) ↔ b < 256 ∧ BytesWF l := by simp [BytesWF]
@[simp] theorem BytesWF_append {a b : List Nat} :
    BytesWF (a ++ b) ↔ BytesWF a ∧ BytesWF b := by
  simp only [BytesWF, List.mem_append]
  constructor
  · intro h; exact ⟨fun x hx => h x (Or.inl hx), fun x hx => h x (Or.inr hx)⟩
  · rintro ⟨h1, h2⟩ x (hx | hx); exact h1 x hx; exact h2 x hx
theorem BytesWF_take {l : List Nat} (n : Nat) (h : BytesWF l) : BytesWF (l.take n) :=
  fun b hb => h b (List.mem_of_mem_take hb)
theorem BytesWF_drop {l : List Nat} (n : Nat) (h : BytesWF l) : BytesWF (l.drop n) :=
  fun b hb => h b (List.mem_of_mem_drop hb)
@[simp] theorem BytesWF_replicate {n b : Nat} (hb : b < 256) : BytesWF (List.replicate n b) := by
  intro x hx; rw [List.mem_replicate] at hx; omega

/-- `w`-byte little-endian encoding of `n` (truncating, like `as uW` then `to_le_bytes`). -/
def leN : Nat → Nat → List Nat
  | 0, _ => []
  | w + 1, n => (n % 256) :: leN w (n / 256)

/-- Little-endian read of a byte list of any width. -/
def rdLE : List Nat → Nat
  | [] => 0
  | b :: bs => b + 256 * rdLE bs

@[simp] theorem leN_length (w n : Nat) : (leN w n).length = w := by
  induction w generalizing n with
  | zero => rfl
  | succ w ih => simp [leN, ih]

@[simp] theorem leN_wf (w n : Nat) : BytesWF (leN w n) := by
  induction w generalizing n with
  | zero => simp [leN]
  | succ w ih => simp [leN, ih]; omega

theorem rdLE_leN (w n : Nat) (h : n < 256 ^ w) : rdLE (leN w n) = n := by
  induction w generalizing n with
  | zero => simp at h; simp [leN, rdLE, h]
  | succ w ih =>
    have : n / 256 < 256 ^ w := by
      rw [Nat.pow_succ] at h
      exact Nat.div_lt_of_lt_mul (by rw [Nat.mul_comm]; exact h)
    simp [leN, rdLE, ih _ this]; omega

theorem rdLE_lt (l : List Nat) (h : BytesWF l) : rdLE l < 256 ^ l.length := by
  induction l with
  | nil => simp [rdLE]
  | cons b bs ih =>
    simp at h
    have := ih h.2
    simp only [rdLE, List.length_cons, Nat.pow_succ]; omega

theorem leN_rdLE (l : List Nat) (h : BytesWF l) : leN l.length (rdLE l) = l := by
  induction l with
  | nil => rfl
  | cons b bs ih =>
    simp at h
    have h1 : (b + 256 * rdLE bs) % 256 = b := by omega
    have h2 : (b + 256 * rdLE bs) / 256 = rdLE bs := by omega
    simp [leN, rdLE, h1, h2, ih h.2]

/-- Little-endian reading is injective on well-formed byte strings of equal length: one lemma
serving every integer-compare fast path (`u8/u16/u32/u64` discriminants, 4×u64 key compare). -/
theorem rdLE_inj {a b : List Nat} (hl : a.length = b.length) (ha : BytesWF a) (hb : BytesWF b)
    (h : rdLE a = rdLE b) : a = b := by
  rw [← leN_rdLE a ha, ← leN_rdLE b hb, hl, h]

theorem rdLE_eq_iff {a b : List Nat} (hl : a.length = b.length) (ha : BytesWF a) (hb : BytesWF b) :
    rdLE a = rdLE b ↔ a = b := ⟨rdLE_inj hl ha hb, fun h => by rw [h]⟩

theorem leN_inj {w a b : Nat} (ha : a < 256 ^ w) (hb : b < 256 ^ w) (h : leN w a = leN w b) :
    a = b := by
  rw [← rdLE_leN w a ha, ← rdLE_leN w b hb, h]

end Common
