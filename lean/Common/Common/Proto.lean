/-!
# Line protocol helpers shared by all model drivers

One operation per line, space separated tokens, byte strings in lower-case hex (`-` = empty).
-/
namespace Common.Proto

def hexDigit (c : Char) : Option Nat :=
  if '0' ≤ c ∧ c ≤ '9' then some (c.toNat - '0'.toNat)
  else if 'a' ≤ c ∧ c ≤ 'f' then some (c.toNat - 'a'.toNat + 10)
  else if 'A' ≤ c ∧ c ≤ 'F' then some (c.toNat - 'A'.toNat + 10)
  else none

def parseHexChars : List Char → Option (List Nat)
  | [] => some []
  | [_] => none
  | a :: b :: rest => do
    let x ← hexDigit a
    let y ← hexDigit b
    let r ← parseHexChars rest
    pure ((x * 16 + y) :: r)

/-- `-` is the empty byte string. -/
def parseHex (s : String) : Option (List Nat) :=
  if s = "-" then some [] else parseHexChars s.toList

def hexChar (n : Nat) : Char :=
  if n < 10 then Char.ofNat ('0'.toNat + n) else Char.ofNat ('a'.toNat + (n - 10))

def toHex (bs : List Nat) : String :=
  if bs.isEmpty then "-" else
  String.ofList (bs.foldr (fun b acc => hexChar (b / 16 % 16) :: hexChar (b % 16) :: acc) [])

def tokens (line : String) : List String :=
  (line.trimAscii.toString.splitOn " ").filter (· ≠ "")

def parseBool (s : String) : Option Bool :=
  if s = "1" ∨ s = "t" ∨ s = "true" then some true
  else if s = "0" ∨ s = "f" ∨ s = "false" then some false else none

def showBool (b : Bool) : String := if b then "1" else "0"

/-- Generic driver loop: `step` consumes one line and the per-case state `σ`; a line starting with
`case` resets the state to `init` and is answered with `case`. Exactly one output line per input
line. -/
partial def loop {σ : Type} (h : IO.FS.Stream) (out : IO.FS.Stream) (init : σ)
    (step : σ → List String → σ × String) (st : σ) : IO Unit := do
  let line ← h.getLine
  if line.isEmpty then return ()
  let toks := tokens line
  match toks with
  | "case" :: _ =>
    out.putStrLn "case"
    loop h out init step init
  | [] =>
    out.putStrLn ""
    loop h out init step st
  | _ =>
    let (st', o) := step st toks
    out.putStrLn o
    loop h out init step st'

def run {σ : Type} (init : σ) (step : σ → List String → σ × String) : IO Unit := do
  let i ← IO.getStdin
  let o ← IO.getStdout
  loop i o init step init
  o.flush

end Common.Proto
