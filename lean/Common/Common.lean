import Common.Bytes
import Common.Proto
