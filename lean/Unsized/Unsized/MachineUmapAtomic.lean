import Unsized.MachineUlistAtomic
import Unsized.MachineNodeUmap
/-!
# `umap_atomic` without side hypothesis: the `ChildFocus` premise holds on every `UnsizedMap` focus
-/
namespace Unsized.Machine
open Common Unsized Unsized.Text

/-- On canonical bytes, an existing key found by the binary search has its element accessor one level
down, at the address `UnsizedMap::insert` computes. -/
theorem childFocus_umap {s v p m} {kw : Nat} {e : Shape} {es : List (List Nat × Val)}
    (F : Focus s v p (.umap kw e) (.umap es) m) (sm : Small m) : ChildFocus s v p kw e m := by
  have hsm := small_len sm
  intro k i hse
  rw [umapKeys_enc F hsm] at hse
  obtain ⟨_, hs⟩ := good_umap_keys F.sub
  rcases search_sorted (fun kv : List Nat × Val => rdLE kv.1) es (rdLE k) 0 hs with
    ⟨j, hj, hat, _⟩ | ⟨j, _, hins, _⟩
  · rw [hat] at hse
    simp only [Nat.zero_add] at hse
    cases hse
    obtain ⟨Fc, hoff⟩ := F.elem hsm i es[i] (by simp [hj])
    exact ⟨_, Fc, hoff⟩
  · rw [hins] at hse; cases hse

/-- **Every non-generic op on an `UnsizedMap` node is atomic under any refusal schedule**, up to the known
findings (`initFail`). -/
theorem umap_atomic_all {s v p m} {kw : Nat} {el : Shape} {es : List (List Nat × Val)}
    (F : Focus s v p (.umap kw el) (.umap es) m) (sm : Small m) (op : Op)
    (hg : genericOp op = false) (m' : Mem) (e : Err) (hne : e ≠ .initFail)
    (h : applyAt ⟨s, p⟩ (.umap kw el) (offsetOf s v p) op m = (m', .error e)) :
    m'.bytes = m.bytes ∧ m'.orig = m.orig ∧ m'.refuse = m.refuse :=
  umap_atomic F sm (childFocus_umap F sm) op hg m' e hne h

end Unsized.Machine
