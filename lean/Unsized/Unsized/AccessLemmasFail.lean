import Unsized.AccessLemmas
/-!
# A refused / over-limit growth is the LAST event of its op line and the op returns `Err(InvalidRealloc)`

`FailSpec r evs`: either no realloc of `evs` was refused, or the refused one is the very last event and
the result `r` is `Err(InvalidRealloc)` ("a growth beyond the limit returns `Err` before any move", at the
level of whole op lines, loops included).
-/
namespace Unsized.Machine
open Common Unsized Unsized.Text

/-- No refused realloc among the events. -/
def noFail : List Ev → Bool
  | [] => true
  | .realloc _ _ false :: _ => false
  | _ :: es => noFail es

def isReallocErr {α : Type} : Except Err α → Bool
  | .error .realloc => true
  | _ => false

/-- See the module doc. -/
def FailSpec {α : Type} (x : Traced α) : Prop :=
  noFail x.2 = true ∨
  (isReallocErr x.1.2 = true ∧ ∃ pre o n, x.2 = pre ++ [Ev.realloc o n false] ∧ noFail pre = true)

theorem noFail_append (a b : List Ev) : noFail (a ++ b) = (noFail a && noFail b) := by
  induction a with
  | nil => simp [noFail]
  | cons e es ih =>
    cases e with
    | realloc o n ok => cases ok <;> simp [noFail, ih]
    | call => simp [noFail, ih]
    | move d s n => simp [noFail, ih]
    | notify s n a b => simp [noFail, ih]

theorem FailSpec.nil {α : Type} (r : Mem × Except Err α) : FailSpec (r, ([] : List Ev)) := Or.inl rfl

/-- A successful result has no refused realloc. -/
theorem FailSpec.ok_noFail {α : Type} {m : Mem} {a : α} {ev : List Ev} (h : FailSpec ((m, Except.ok a), ev)) :
    noFail ev = true := by
  rcases h with h | ⟨h, _⟩
  · exact h
  · simp [isReallocErr] at h

/-- Changing the payload of the result keeps the spec as long as "is a realloc error" is kept. -/
theorem FailSpec.map {α β : Type} {x : Traced α} {y : Traced β} (h : FailSpec x) (hev : y.2 = x.2)
    (hr : isReallocErr x.1.2 = true → isReallocErr y.1.2 = true) : FailSpec y := by
  rcases h with h | ⟨h1, h2⟩
  · exact Or.inl (by rw [hev]; exact h)
  · exact Or.inr ⟨hr h1, by rw [hev]; exact h2⟩

/-- Sequencing: events of a successful first part, then a second part. -/
theorem FailSpec.seq {α β : Type} {pre : List Ev} (hpre : noFail pre = true) {x : Traced α} {y : Traced β}
    (hx : FailSpec x) (hev : y.2 = pre ++ x.2) (hr : isReallocErr x.1.2 = true → isReallocErr y.1.2 = true) :
    FailSpec y := by
  rcases hx with h | ⟨h1, p, o, n, h2, h3⟩
  · exact Or.inl (by rw [hev, noFail_append, hpre, h]; rfl)
  · refine Or.inr ⟨hr h1, pre ++ p, o, n, ?_, ?_⟩
    · rw [hev, h2, List.append_assoc]
    · rw [noFail_append, hpre, h3]; rfl

theorem addBytesEvs_spec (m : Mem) (start amount : Nat) :
    FailSpec (m.addBytesT start amount) := by
  unfold Mem.addBytesT Mem.addBytes addBytesEvs FailSpec
  split
  · exact Or.inl rfl
  · split
    · exact Or.inl rfl
    · simp only []
      by_cases h1 : m.grows + 1 ∈ m.refuse
      · right
        simp only [h1, true_or, ↓reduceIte, isReallocErr, true_and]
        exact ⟨[.call], _, _, rfl, rfl⟩
      · by_cases h2 : m.orig + maxIncrease < m.bytes.length + amount
        · right
          simp only [h1, h2, or_true, ↓reduceIte, isReallocErr, true_and]
          exact ⟨[.call], _, _, rfl, rfl⟩
        · left
          simp only [h1, h2, or_self, ↓reduceIte]
          split <;> rfl

theorem removeBytesEvs_noFail (m : Mem) (start stop : Nat) : noFail (removeBytesEvs m start stop) = true := by
  unfold removeBytesEvs
  repeat' split
  all_goals rfl

theorem addBytesNT_spec (m : Mem) (c : Ctx) (src start amount : Nat) :
    FailSpec (m.addBytesNT c src start amount) := by
  have h0 := addBytesEvs_spec m start amount
  unfold Mem.addBytesNT
  generalize m.addBytesT start amount = x at *
  rcases x with ⟨⟨m1, r⟩, ev⟩
  cases r with
  | error e => exact h0
  | ok u =>
    cases u
    have hn := h0.ok_noFail
    simp only []
    split
    · exact h0
    · split <;> exact Or.inl (by simp only [noFail_append, hn]; rfl)

theorem removeBytesNT_noFail (m : Mem) (c : Ctx) (src start stop : Nat) :
    noFail (m.removeBytesNT c src start stop).2 = true := by
  have h0 := removeBytesEvs_noFail m start stop
  unfold Mem.removeBytesNT Mem.removeBytesT
  rcases m.removeBytes start stop with ⟨m1, r⟩
  cases r with
  | error e => exact h0
  | ok u =>
    cases u
    simp only []
    split
    · exact h0
    · split <;> (simp only [noFail_append, h0]; rfl)

theorem listInsertAllT_spec (c : Ctx) (ew lw b idx : Nat) (items : List (List Nat)) (m : Mem) :
    FailSpec (listInsertAllT c ew lw b idx items m) := by
  unfold listInsertAllT
  simp only []
  split
  · exact FailSpec.nil _
  · split
    · exact FailSpec.nil _
    · have h1 := addBytesNT_spec m c b (b + lw + idx * ew) (ew * items.length)
      generalize m.addBytesNT c b (b + lw + idx * ew) (ew * items.length) = x at *
      rcases x with ⟨⟨m1, r⟩, ev⟩
      cases r with
      | error e => exact h1
      | ok u => cases u; exact Or.inl h1.ok_noFail

theorem listRemoveRangeT_noFail (c : Ctx) (ew lw b lo hi : Nat) (m : Mem) :
    noFail (listRemoveRangeT c ew lw b lo hi m).2 = true := by
  unfold listRemoveRangeT
  simp only []
  split
  · rfl
  · split
    · rfl
    · have h1 := removeBytesNT_noFail m c b (b + lw + lo * ew) (b + lw + hi * ew)
      generalize m.removeBytesNT c b (b + lw + lo * ew) (b + lw + hi * ew) = x at *
      rcases x with ⟨⟨m1, r⟩, ev⟩
      cases r with
      | error e => exact h1
      | ok u => cases u; exact h1

theorem setInsertT_spec (c : Ctx) (ew lw b : Nat) (e : List Nat) (m : Mem) :
    FailSpec (setInsertT c ew lw b e m) := by
  unfold setInsertT
  split
  · exact FailSpec.nil _
  · rename_i i _
    have h1 := listInsertAllT_spec c ew lw b i [e] m
    generalize listInsertAllT c ew lw b i [e] m = x at *
    rcases x with ⟨⟨m1, r⟩, ev⟩
    cases r with
    | error er => exact h1.map rfl (fun h => by cases er <;> first | rfl | (simp [isReallocErr] at h))
    | ok u => cases u; exact Or.inl h1.ok_noFail

theorem setInsertAllT_spec (c : Ctx) (ew lw b : Nat) (es : List (List Nat)) :
    ∀ (n : Nat) (m : Mem), FailSpec (setInsertAllT c ew lw b es n m) := by
  induction es with
  | nil => intro n m; exact FailSpec.nil _
  | cons e es ih =>
    intro n m
    simp only [setInsertAllT]
    have h1 := setInsertT_spec c ew lw b e m
    generalize setInsertT c ew lw b e m = x at *
    rcases x with ⟨⟨m1, r⟩, ev⟩
    cases r with
    | error er => exact h1.map rfl (fun h => by cases er <;> first | rfl | (simp [isReallocErr] at h))
    | ok new =>
      simp only []
      exact FailSpec.seq h1.ok_noFail (ih _ m1) rfl (fun h => h)

theorem mapInsertT_spec (c : Ctx) (kw vw lw b : Nat) (k v : List Nat) (m : Mem) :
    FailSpec (mapInsertT c kw vw lw b k v m) := by
  unfold mapInsertT
  simp only []
  split
  · exact FailSpec.nil _
  · rename_i i _
    have h1 := listInsertAllT_spec c (kw + vw) lw b i [k ++ v] m
    generalize listInsertAllT c (kw + vw) lw b i [k ++ v] m = x at *
    rcases x with ⟨⟨m1, r⟩, ev⟩
    cases r with
    | error er => exact h1.map rfl (fun h => by cases er <;> first | rfl | (simp [isReallocErr] at h))
    | ok u => cases u; exact Or.inl h1.ok_noFail

theorem mapInsertAllT_spec (c : Ctx) (kw vw lw b : Nat) (kvs : List (List Nat × List Nat)) :
    ∀ (n : Nat) (m : Mem), FailSpec (mapInsertAllT c kw vw lw b kvs n m) := by
  induction kvs with
  | nil => intro n m; exact FailSpec.nil _
  | cons kv kvs ih =>
    intro n m
    obtain ⟨k, v⟩ := kv
    simp only [mapInsertAllT]
    have h1 := mapInsertT_spec c kw vw lw b k v m
    generalize mapInsertT c kw vw lw b k v m = x at *
    rcases x with ⟨⟨m1, r⟩, ev⟩
    cases r with
    | error er => exact h1.map rfl (fun h => by cases er <;> first | rfl | (simp [isReallocErr] at h))
    | ok old =>
      simp only []
      exact FailSpec.seq h1.ok_noFail (ih _ m1) rfl (fun h => h)

theorem strSetT_spec (c : Ctx) (lw b : Nat) (s : List Nat) (m : Mem) : FailSpec (strSetT c lw b s m) := by
  unfold strSetT listClearT
  have h1 := listRemoveRangeT_noFail c 1 lw b 0 (rdN m.bytes b lw) m
  generalize listRemoveRangeT c 1 lw b 0 (rdN m.bytes b lw) m = x at *
  rcases x with ⟨⟨m1, r⟩, ev⟩
  cases r with
  | error e => exact Or.inl h1
  | ok u =>
    cases u
    simp only []
    exact FailSpec.seq h1 (listInsertAllT_spec c 1 lw b (rdN m1.bytes b lw) (s.map fun x => [x]) m1) rfl (fun h => h)

theorem remSetLenT_spec (c : Ctx) (b n : Nat) (m : Mem) : FailSpec (remSetLenT c b n m) := by
  unfold remSetLenT
  simp only []
  split
  · exact addBytesNT_spec ..
  · split
    · exact FailSpec.nil _
    · exact Or.inl (removeBytesNT_noFail ..)

theorem setDataInnerT_spec (c : Ctx) (t : Shape) (b : Nat) (newBytes : List Nat) (fails : Bool) (m : Mem) :
    FailSpec (setDataInnerT c t b newBytes fails m) := by
  unfold setDataInnerT
  cases hx : extent t (m.bytes.drop b) with
  | error e => exact FailSpec.nil _
  | ok cur =>
    simp only []
    by_cases h1 : cur < newBytes.length
    · simp only [h1, ↓reduceIte]
      have := addBytesNT_spec m c b b (newBytes.length - cur)
      generalize m.addBytesNT c b b (newBytes.length - cur) = x at *
      rcases x with ⟨⟨m1, r⟩, ev⟩
      cases r with
      | error e => exact this
      | ok u => cases u; simp only []; split <;> exact Or.inl this.ok_noFail
    · by_cases h2 : newBytes.length < cur
      · simp only [h1, h2, ↓reduceIte]
        have := removeBytesNT_noFail m c b b (b + (cur - newBytes.length))
        generalize m.removeBytesNT c b b (b + (cur - newBytes.length)) = x at *
        rcases x with ⟨⟨m1, r⟩, ev⟩
        cases r with
        | error e => exact Or.inl this
        | ok u => cases u; simp only []; split <;> exact Or.inl this
      · simp only [h1, h2, ↓reduceIte]
        split <;> exact Or.inl rfl

theorem ulistInsertT_spec (c : Ctx) (cw : Nat) (e : Shape) (b idx n : Nat) (init : Init) (key : List Nat)
    (m : Mem) : FailSpec (ulistInsertT c cw e b idx n init key m) := by
  unfold ulistInsertT
  simp only []
  split
  · exact FailSpec.nil _
  · have h1 := addBytesNT_spec m c b (b + 8 + rd32 m.bytes (b + 4) * cw + 4 + ulistOffset cw b idx m.bytes)
      ((initSize e init + cw) * n)
    generalize m.addBytesNT c b (b + 8 + rd32 m.bytes (b + 4) * cw + 4 + ulistOffset cw b idx m.bytes)
      ((initSize e init + cw) * n) = x at *
    rcases x with ⟨⟨m1, r⟩, ev⟩
    cases r with
    | error er => exact h1
    | ok u =>
      cases u
      have hn : ∀ d s k, noFail (ev ++ [Ev.move d s k]) = true := by
        intro d s k; rw [noFail_append, h1.ok_noFail]; rfl
      simp only []
      split
      · exact Or.inl (hn _ _ _)
      · split
        · exact Or.inl (hn _ _ _)
        · split
          · exact Or.inl (hn _ _ _)
          · split <;> exact Or.inl (hn _ _ _)

theorem ulistClearT_noFail (c : Ctx) (cw b : Nat) (m : Mem) : noFail (ulistClearT c cw b m).2 = true := by
  unfold ulistClearT
  simp only []
  have h1 := removeBytesNT_noFail m c b (b + 8 + 4) (b + 8 + rd32 m.bytes (b + 4) * cw + 4 + rd32 m.bytes b)
  generalize m.removeBytesNT c b (b + 8 + 4) (b + 8 + rd32 m.bytes (b + 4) * cw + 4 + rd32 m.bytes b) = x at *
  rcases x with ⟨⟨m1, r⟩, ev⟩
  cases r with
  | error e => exact h1
  | ok u => cases u; exact h1

theorem ulistRemoveRangeT_noFail (c : Ctx) (cw b lo hi : Nat) (m : Mem) :
    noFail (ulistRemoveRangeT c cw b lo hi m).2 = true := by
  unfold ulistRemoveRangeT
  simp only []
  split
  · exact ulistClearT_noFail c cw b m
  · split
    · rfl
    · split
      · rfl
      · have h1 : ∀ (mm : Mem) s1 s2, noFail (mm.removeBytesNT c b s1 s2).2 = true :=
          fun mm s1 s2 => removeBytesNT_noFail mm c b s1 s2
        generalize hx : Mem.removeBytesNT _ c b _ _ = x
        have h2 : noFail x.2 = true := by rw [← hx]; exact h1 _ _ _
        rcases x with ⟨⟨m1, r⟩, ev⟩
        cases r with
        | error e => simp only [List.singleton_append, noFail]; exact h2
        | ok u =>
          cases u
          simp only []
          split <;> (simp only [List.singleton_append, noFail]; exact h2)

theorem ulistPopT_noFail (c : Ctx) (cw b : Nat) (m : Mem) : noFail (ulistPopT c cw b m).2 = true := by
  unfold ulistPopT
  simp only []
  split
  · rfl
  · have h1 := ulistRemoveRangeT_noFail c cw b (rd32 m.bytes (b + 4) - 1) (rd32 m.bytes (b + 4)) m
    generalize ulistRemoveRangeT c cw b (rd32 m.bytes (b + 4) - 1) (rd32 m.bytes (b + 4)) m = x at *
    rcases x with ⟨⟨m1, r⟩, ev⟩
    cases r with
    | error e => exact h1
    | ok u => cases u; exact h1

theorem listPopT_noFail (c : Ctx) (ew lw b : Nat) (m : Mem) : noFail (listPopT c ew lw b m).2 = true := by
  unfold listPopT
  simp only []
  split
  · rfl
  · have h1 := listRemoveRangeT_noFail c ew lw b (rdN m.bytes b lw - 1) (rdN m.bytes b lw) m
    generalize listRemoveRangeT c ew lw b (rdN m.bytes b lw - 1) (rdN m.bytes b lw) m = x at *
    rcases x with ⟨⟨m1, r⟩, ev⟩
    cases r with
    | error e => exact h1
    | ok u => cases u; exact h1

theorem setRemoveT_noFail (c : Ctx) (ew lw b : Nat) (e : List Nat) (m : Mem) :
    noFail (setRemoveT c ew lw b e m).2 = true := by
  unfold setRemoveT
  split
  · rfl
  · rename_i i _
    have h1 := listRemoveRangeT_noFail c ew lw b i (i + 1) m
    generalize listRemoveRangeT c ew lw b i (i + 1) m = x at *
    rcases x with ⟨⟨m1, r⟩, ev⟩
    cases r with
    | error e => exact h1
    | ok u => cases u; exact h1

theorem mapRemoveT_noFail (c : Ctx) (kw vw lw b : Nat) (k : List Nat) (m : Mem) :
    noFail (mapRemoveT c kw vw lw b k m).2 = true := by
  unfold mapRemoveT
  simp only []
  split
  · rfl
  · rename_i i _
    have h1 := listRemoveRangeT_noFail c (kw + vw) lw b i (i + 1) m
    generalize listRemoveRangeT c (kw + vw) lw b i (i + 1) m = x at *
    rcases x with ⟨⟨m1, r⟩, ev⟩
    cases r with
    | error e => exact h1
    | ok u => cases u; exact h1

theorem umapInsertT_spec (c : Ctx) (kw : Nat) (e : Shape) (b : Nat) (k : List Nat) (init : Init) (m : Mem) :
    FailSpec (umapInsertT c kw e b k init m) := by
  unfold umapInsertT
  simp only []
  split
  · rename_i i _
    have h1 := setDataInnerT_spec { c with path := c.path ++ [.elem i] } e
      (b + 8 + rd32 m.bytes (b + 4) * Shape.entryW kw + 4 + rd32 m.bytes (b + 8 + i * Shape.entryW kw))
      (initBytes e init) (initFails e init) m
    generalize setDataInnerT _ e _ _ _ m = x at *
    rcases x with ⟨⟨m1, r⟩, ev⟩
    cases r with
    | error er => exact h1.map rfl (fun h => by cases er <;> first | rfl | (simp [isReallocErr] at h))
    | ok u => cases u; exact Or.inl h1.ok_noFail
  · rename_i i _
    have h1 := ulistInsertT_spec c (Shape.entryW kw) e b i 1 init k m
    generalize ulistInsertT c (Shape.entryW kw) e b i 1 init k m = x at *
    rcases x with ⟨⟨m1, r⟩, ev⟩
    cases r with
    | error er => exact h1.map rfl (fun h => by cases er <;> first | rfl | (simp [isReallocErr] at h))
    | ok u => cases u; exact Or.inl h1.ok_noFail

theorem unitResT_spec {x : Traced Unit} (h : FailSpec x) : FailSpec (unitResT x) := by
  rcases x with ⟨⟨m1, r⟩, ev⟩
  cases r with
  | error e => exact h.map rfl (fun h' => by cases e <;> first | rfl | (simp [isReallocErr] at h'))
  | ok u => cases u; exact Or.inl h.ok_noFail

theorem FailSpec.of_noFail {α : Type} {x : Traced α} (h : noFail x.2 = true) : FailSpec x := Or.inl h

theorem sinsert_spec (c : Ctx) (e : Fixed) (lw b : Nat) (x : List Nat) (m : Mem) :
    FailSpec (applyAtT c (.set e lw) b (.sinsert x) m) := by
  simp only [applyAtT]
  split
  · have h1 := setInsertT_spec c e.size lw b x m
    generalize setInsertT c e.size lw b x m = y at *
    rcases y with ⟨⟨m1, r⟩, ev⟩
    cases r with
    | error er => exact h1.map rfl (fun h => by cases er <;> first | rfl | (simp [isReallocErr] at h))
    | ok u => exact Or.inl h1.ok_noFail
  · exact FailSpec.nil _

theorem minsert_spec (c : Ctx) (kw : Nat) (v : Fixed) (lw b : Nat) (k x : List Nat) (m : Mem) :
    FailSpec (applyAtT c (.map kw v lw) b (.minsert k x) m) := by
  simp only [applyAtT]
  split
  · have h1 := mapInsertT_spec c kw v.size lw b k x m
    generalize mapInsertT c kw v.size lw b k x m = y at *
    rcases y with ⟨⟨m1, r⟩, ev⟩
    cases r with
    | error er => exact h1.map rfl (fun h => by cases er <;> first | rfl | (simp [isReallocErr] at h))
    | ok u => exact Or.inl h1.ok_noFail
  · exact FailSpec.nil _

theorem umremove_spec (c : Ctx) (kw : Nat) (e : Shape) (b : Nat) (k : List Nat) (m : Mem) :
    FailSpec (applyAtT c (.umap kw e) b (.umremove k) m) := by
  simp only [applyAtT]
  split
  · split
    · exact FailSpec.nil _
    · rename_i i _
      have h1 := ulistRemoveRangeT_noFail c (Shape.entryW kw) b i (i + 1) m
      generalize ulistRemoveRangeT c (Shape.entryW kw) b i (i + 1) m = y at *
      rcases y with ⟨⟨m1, r⟩, ev⟩
      cases r with
      | error e => exact Or.inl h1
      | ok u => cases u; exact Or.inl h1
  · exact FailSpec.nil _

/-- **Every op line**: a refused / over-limit growth is the last event and the line answers
`Err(InvalidRealloc)`. -/
theorem applyAtT_failSpec (c : Ctx) (t : Shape) (b : Nat) (op : Op) (m : Mem) :
    FailSpec (applyAtT c t b op m) := by
  cases op with
  | sinsert x =>
    cases t with
    | set e lw => exact sinsert_spec ..
    | _ => simp only [applyAtT]; exact FailSpec.nil _
  | minsert k x =>
    cases t with
    | map kw v lw => exact minsert_spec ..
    | _ => simp only [applyAtT]; exact FailSpec.nil _
  | umremove k =>
    cases t with
    | umap kw e => exact umremove_spec ..
    | _ => simp only [applyAtT]; exact FailSpec.nil _
  | _ =>
    cases t <;> simp only [applyAtT] <;> (try split) <;> first
      | exact FailSpec.nil _
      | with_reducible exact unitResT_spec (setDataInnerT_spec _ _ _ _ _ _)
      | with_reducible exact unitResT_spec (listInsertAllT_spec _ _ _ _ _ _ _)
      | with_reducible exact setInsertAllT_spec _ _ _ _ _ _ _
      | with_reducible exact mapInsertAllT_spec _ _ _ _ _ _ _ _
      | with_reducible exact FailSpec.of_noFail (setRemoveT_noFail _ _ _ _ _ _)
      | with_reducible exact FailSpec.of_noFail (mapRemoveT_noFail _ _ _ _ _ _ _)
      | with_reducible exact unitResT_spec (strSetT_spec _ _ _ _ _)
      | with_reducible exact unitResT_spec (ulistInsertT_spec _ _ _ _ _ _ _ _ _)
      | with_reducible exact umapInsertT_spec _ _ _ _ _ _ _
      | with_reducible exact unitResT_spec (FailSpec.of_noFail (listRemoveRangeT_noFail _ _ _ _ _ _ _))
      | with_reducible exact FailSpec.of_noFail (listPopT_noFail _ _ _ _ _)
      | with_reducible exact unitResT_spec (remSetLenT_spec _ _ _ _)
      | with_reducible exact unitResT_spec (FailSpec.of_noFail (ulistRemoveRangeT_noFail _ _ _ _ _ _))
      | with_reducible exact FailSpec.of_noFail (ulistPopT_noFail _ _ _ _)
      | with_reducible exact unitResT_spec (FailSpec.of_noFail (ulistClearT_noFail _ _ _ _))
      | (simp only [listClearT]
         with_reducible exact unitResT_spec (FailSpec.of_noFail (listRemoveRangeT_noFail _ _ _ _ _ _ _)))

theorem applyOpT_failSpec (s : Shape) (abs : List Step) (op : Op) (m : Mem) :
    FailSpec (applyOpT s abs op m) := by
  unfold applyOpT
  cases locate s abs 0 m.bytes with
  | error e => exact FailSpec.nil _
  | ok tb => obtain ⟨t, b⟩ := tb; exact applyAtT_failSpec ..

end Unsized.Machine
