import Unsized.MachineStepFacts
/-!
# `size_pos` (non-ZST shapes have positive size) and the own-header rewrite of one
`UnsizedList`/`UnsizedMap` step in `stepPre … ++ Y ++ stepPost …` form (`uNotify_items`)
-/
namespace Unsized.Machine
open Common Unsized Unsized.Text

theorem zstLast_mem (fs : List Shape) (d : Bool) (h : Shape.zstLast d fs = false) (hne : fs ≠ []) :
    ∃ f, fs.getLast? = some f ∧ f.zst = false := by
  induction fs with
  | nil => exact absurd rfl hne
  | cons f fs ih =>
    cases fs with
    | nil => exact ⟨f, by simp, by simpa [Shape.zstLast] using h⟩
    | cons g gs =>
      rw [zstLast_cons_cons] at h
      obtain ⟨l, hl, hz⟩ := ih h (by simp)
      exact ⟨l, by simpa using hl, hz⟩

theorem sizeFields_last (fs : List Shape) (vs : List Val) (hv : validFields fs vs = true) (f : Shape)
    (hl : fs.getLast? = some f) : ∃ x, valid f x = true ∧ size f x ≤ sizeFields fs vs := by
  induction fs generalizing vs with
  | nil => simp at hl
  | cons f' fs ih =>
    cases vs with
    | nil => simp [validFields] at hv
    | cons x vs =>
      simp only [validFields, Bool.and_eq_true] at hv
      cases fs with
      | nil =>
        simp at hl; subst hl
        exact ⟨x, hv.1, by simp [sizeFields]⟩
      | cons g gs =>
        obtain ⟨y, hy1, hy2⟩ := ih vs hv.2 (by simpa using hl)
        exact ⟨y, hy1, by simp only [sizeFields] at hy2 ⊢; omega⟩

theorem size_pos (s : Shape) : ∀ top, Shape.okAux top false s = true → s.zst = false → ∀ v, valid s v = true →
    0 < size s v := by
  induction s using Shape.induct' with
  | fixed f => intro top hok hz v hv; simp [Shape.okAux] at hok; simp [size]; exact hok.2
  | list e lw =>
    intro top hok hz v hv
    simp [Shape.zst] at hz
    cases v <;> simp [valid] at hv
    simp [size]; omega
  | set e lw =>
    intro top hok hz v hv
    simp [Shape.zst] at hz
    cases v <;> simp [valid] at hv
    simp [size]; omega
  | map kw vv lw =>
    intro top hok hz v hv
    simp [Shape.zst] at hz
    cases v <;> simp [valid] at hv
    simp [size]; omega
  | str lw =>
    intro top hok hz v hv
    simp [Shape.zst] at hz
    cases v <;> simp [valid] at hv
    simp [size]; omega
  | rem => intro top hok hz; simp [Shape.zst] at hz
  | ulist e ih => intro top hok hz v hv; cases v <;> simp [valid] at hv; simp [size]; omega
  | umap kw e ih => intro top hok hz v hv; cases v <;> simp [valid] at hv; simp [size]; omega
  | struct sized fs ih =>
    intro top hok hz v hv
    cases v <;> simp only [valid, Bool.false_eq_true] at hv
    rename_i sz vs
    simp only [Shape.okAux, Bool.and_eq_true, Bool.not_eq_true'] at hok
    simp only [Bool.and_eq_true] at hv
    simp only [Shape.zst] at hz
    have hne : fs ≠ [] := by intro h; simp [h] at hok
    obtain ⟨f, hl, hfz⟩ := zstLast_mem fs false hz hne
    obtain ⟨x, hx1, hx2⟩ := sizeFields_last fs vs hv.2 f hl
    have hmem : f ∈ fs := List.mem_of_getLast? hl
    have hfo : Shape.okAux false false f = true := by
      obtain ⟨i, hi⟩ := List.getElem?_of_mem hmem
      exact okFields_get fs i f hi hok.2
    have := ih f hmem false hfo hfz x hx1
    simp only [size]; omega
  | enum ds ps ih => intro top hok hz v hv; cases v <;> simp [valid] at hv; simp [size]; omega
  | unit => intro top hok; simp [Shape.okAux] at hok
  | disc d inner ih =>
    intro top hok hz v hv
    simp only [Shape.okAux, Bool.and_eq_true, Bool.not_eq_true'] at hok
    have : d ≠ [] := by intro h; simp [h] at hok
    simp only [size]
    have : 0 < d.length := List.length_pos_iff.2 this
    omega


/-- `ulistNotify_core` in the `stepPre … ++ Y ++ stepPost …` form. -/
theorem uNotify_items (kw : Nat) (keys : List (List Nat)) (datas : List (List Nat)) (pre post Y : List Nat)
    (base src i o' : Nat) (neg : Bool) (amt : Nat)
    (hb : base = pre.length) (hl : keys.length = datas.length) (hk : ∀ k ∈ keys, k.length = kw)
    (hi : i < datas.length) (hY : Y.length = applyDelta neg amt (datas[i]).length)
    (hneg : neg = true → amt ≤ (datas[i]).length) (hamt : 0 < amt)
    (hpos : ∀ d ∈ datas, 0 < d.length)
    (hsum : (datas.map List.length).sum < Shape.u32Lim)
    (hsum' : ((datas.set i Y).map List.length).sum < Shape.u32Lim)
    (hlen : datas.length < Shape.u32Lim) (ho : o' < (datas[i]).length)
    (hsrc : src = base + (12 + datas.length * (4 + kw) + (datas.take i).flatten.length) + o') :
    ulistNotify (4 + kw) base src neg amt
        (pre ++ (uHdrOf keys ((datas.map List.length).set i (datas[i]).length) ++ (datas.take i).flatten)
          ++ Y ++ (datas.drop (i + 1)).flatten ++ post)
      = .ok (pre ++ (uHdrOf keys ((datas.map List.length).set i Y.length) ++ (datas.take i).flatten)
          ++ Y ++ (datas.drop (i + 1)).flatten ++ post) := by
  have hcore := ulistNotify_core kw keys datas pre post Y base src i o' neg amt hb hl hk hi hY hneg hamt hpos
    hsum hsum' hlen ho (by rw [hsrc, sum_map_length_take]; omega)
  rw [uBytes_set keys datas i Y hi, flatten_set_split datas i Y hi] at hcore
  rw [set_self_length datas i hi]
  have e1 : pre ++ (uHdrOf keys (datas.map List.length) ++ (datas.take i).flatten) ++ Y
        ++ (datas.drop (i + 1)).flatten ++ post
      = pre ++ uHdrOf keys (datas.map List.length)
        ++ ((datas.take i).flatten ++ Y ++ (datas.drop (i + 1)).flatten) ++ post := by
    simp [List.append_assoc]
  rw [e1, hcore]; simp [List.append_assoc]

end Unsized.Machine
