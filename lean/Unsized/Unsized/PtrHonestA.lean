import Unsized.PtrChainNotify
namespace Unsized.Ptr
open Common Unsized Unsized.Text Unsized.Machine Unsized.PtrT

/-! ## Honest pointer objects -/

mutual
/-- `Hon s v b R`: `R` is an honest pointer object for the value `v` of shape `s` serialized at address
`b`: every own pointer is what `get_ptr` gives, and every `UnsizedListPtr` caches in `inner_exclusive`
either nothing or an honest pointer object of an element-shaped value lying inside the list's range
`lo .. hi` (the element last entered — or what is left of it after the list itself was edited: a pointer
to where that element USED to be; `possible_mut_borrow` is unconstrained). -/
def Hon : Shape → Val → Nat → PtrTree → Prop
  | .ulist e, .useq vs, b, R =>
      ∃ inner pmb, R = .ulist 4 b vs.length b (b + size (.ulist e) (.useq vs)) inner pmb
        ∧ (inner = none ∨ ∃ J x b0, inner = some J ∧ Good e x ∧ b + 12 ≤ b0
            ∧ b0 + size e x ≤ b + size (.ulist e) (.useq vs) ∧ Hon e x b0 J)
  | .umap kw e, .umap es, b, R =>
      ∃ inner pmb, R = .node [.ulist (Shape.entryW kw) b es.length b (b + size (.umap kw e) (.umap es)) inner pmb]
        ∧ (inner = none ∨ ∃ J x b0, inner = some J ∧ Good e x ∧ b + 12 ≤ b0
            ∧ b0 + size e x ≤ b + size (.umap kw e) (.umap es) ∧ Hon e x b0 J)
  | .struct sized fs, .record _ vs, b, R =>
      ∃ ks, R = (if sized.isEmpty then .node ks else .node (.leaf .checked b :: ks))
        ∧ HonL fs vs (b + Fixed.sizeList sized) ks
  | .enum _ ps, .variant i pl, b, R => ∃ po, R = .start b i po ∧ HonV ps i pl (b + 1) po
  | .disc d inner, v, b, R => Hon inner v (b + d.length) R
  | s, v, b, R => R = treeOf s v b
def HonL : List Shape → List Val → Nat → List PtrTree → Prop
  | f :: fs, v :: vs, b, ks => ∃ k ks', ks = k :: ks' ∧ Hon f v b k ∧ HonL fs vs (b + size f v) ks'
  | _, _, _, ks => ks = []
def HonV : List Shape → Nat → Val → Nat → Option PtrTree → Prop
  | .unit :: _, 0, _, _, po => po = none
  | p :: _, 0, v, b, po => ∃ k, po = some k ∧ Hon p v b k
  | _ :: ps, i + 1, v, b, po => HonV ps i v b po
  | [], _, _, _, po => po = none
end

theorem honV_unit (ps : List Shape) (i : Nat) (pl : Val) (b : Nat) (po : Option PtrTree)
    (ht : ps[i]? = some .unit) : HonV ps i pl b po ↔ po = none := by
  induction i generalizing ps with
  | zero => cases ps with
    | nil => simp at ht
    | cons q qs => simp at ht; subst ht; simp [HonV]
  | succ j ih => cases ps with
    | nil => simp at ht
    | cons q qs => simp only [HonV]; exact ih qs (by simpa using ht)

theorem honV_some (ps : List Shape) (i : Nat) (t : Shape) (pl : Val) (b : Nat) (po : Option PtrTree)
    (ht : ps[i]? = some t) (hu : t ≠ .unit) : HonV ps i pl b po ↔ ∃ k, po = some k ∧ Hon t pl b k := by
  induction i generalizing ps with
  | zero => cases ps with
    | nil => simp at ht
    | cons q qs =>
      simp at ht; subst ht
      cases q <;> first | exact absurd rfl hu | simp only [HonV]
  | succ j ih => cases ps with
    | nil => simp at ht
    | cons q qs => simp only [HonV]; exact ih qs (by simpa using ht)

/-- What `get_ptr` returns is honest. -/
def HonTreeOK (s : Shape) : Prop := ∀ (v : Val) (b : Nat), Hon s v b (treeOf s v b)

theorem honL_trees (fs : List Shape) (ih : ∀ f ∈ fs, HonTreeOK f) :
    ∀ (vs : List Val) (b : Nat), HonL fs vs b (treesOf fs vs b) := by
  induction fs with
  | nil => intro vs b; simp [HonL, treesOf]
  | cons f fs ihf =>
    intro vs b
    cases vs with
    | nil => simp [HonL, treesOf]
    | cons v vs =>
      simp only [HonL, treesOf]
      exact ⟨_, _, rfl, ih f List.mem_cons_self v b, ihf (fun g hg => ih g (List.mem_cons_of_mem _ hg)) vs _⟩

theorem honV_tree (ps : List Shape) (ih : ∀ p ∈ ps, HonTreeOK p) :
    ∀ (i : Nat) (v : Val) (b : Nat), HonV ps i v b (variantTree ps i v b) := by
  induction ps with
  | nil => intro i v b; simp [HonV, variantTree]
  | cons q qs ihq =>
    intro i v b
    cases i with
    | zero =>
      cases q <;> simp only [HonV, variantTree] <;>
        first
        | rfl
        | exact ⟨_, rfl, ih _ List.mem_cons_self v b⟩
    | succ i =>
      simp only [HonV, variantTree]
      exact ihq (fun g hg => ih g (List.mem_cons_of_mem _ hg)) i v b

theorem hon_treeOf (s : Shape) : HonTreeOK s := by
  induction s using Shape.induct' with
  | struct sized fs ih =>
    intro v b
    cases v <;> try (simp only [Hon, treeOf])
    rename_i sz vs
    exact ⟨treesOf fs vs (b + Fixed.sizeList sized), by
      by_cases he : sized.isEmpty = true
      · have hs0 : Fixed.sizeList sized = 0 := by
          cases sized with
          | nil => rfl
          | cons _ _ => simp at he
        simp [he, hs0]
      · simp [he], honL_trees fs ih vs _⟩
  | enum ds ps ih =>
    intro v b
    cases v <;> try (simp only [Hon, treeOf])
    rename_i i pl
    exact ⟨_, rfl, honV_tree ps ih i pl _⟩
  | ulist e ih =>
    intro v b
    cases v <;> try (simp only [Hon, treeOf])
    exact ⟨none, false, rfl, Or.inl rfl⟩
  | umap kw e ih =>
    intro v b
    cases v <;> try (simp only [Hon, treeOf])
    exact ⟨none, false, rfl, Or.inl rfl⟩
  | disc d inner ih => intro v b; simp only [Hon, treeOf]; exact ih v _
  | _ => intro v b; simp only [Hon, treeOf]

end Unsized.Ptr
