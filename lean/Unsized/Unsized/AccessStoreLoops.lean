import Unsized.AccessStoreOps
import Unsized.MachineNodeSet
import Unsized.MachineNodeMap
import Unsized.MachineNodeStr
/-!
# Store bounds for the composite ops (`Set`/`Map::insert_all`, `UnsizedString::set`) and for every op line

The loops are handled by induction over the items: each iteration runs on a canonical buffer again (the byte
machine's `set_insert_step` / `map_insert_step` / `listRemoveRange_bytes` say so), so its accesses are in
bounds, and the data only grows from one iteration to the next.
-/
namespace Unsized.Machine
open Common Unsized Unsized.Text

/-- Two calls in sequence (the second on the state the first returned). -/
theorem StepOk.seq {α β : Type} {m m1 : Mem} {r1 : Except Err α} {ev1 : List EvS} {L1 L2 : Nat}
    {x2 : TracedS β} (h1 : StepOk m (((m1, r1), ev1) : TracedS α) L1) (h2 : StepOk m1 x2 L2)
    (hv : L1 ≤ m.bytes.length ∨ L1 ≤ L2) : StepOk m ((x2.1, ev1 ++ x2.2) : TracedS β) L2 := by
  have hl : m1.bytes.length = L1 := h1.len
  have ho : m1.orig = m.orig := h1.orig
  have hc : m1.cap = m.cap := by simp only [Mem.cap, ho]
  refine ⟨?_, ?_, ?_, h2.len, by rw [h2.orig, ho], by rw [← hc]; exact h2.cap⟩
  · rw [evsOkS_append, h1.ok, h1.lenAfter, ← hl, ← hc]; simpa using h2.ok
  · rw [rawOf_append, lenAfter_append, h1.lenAfter, ← hl]; exact h2.lenAfter
  · rw [rawOf_append, maxLen_append, h1.maxl, h1.lenAfter, ← hl, h2.maxl, hl]
    rcases hv with hv | hv <;> omega

theorem insKey_len_le (kw : Nat) (x : List Nat) (l : List (List Nat)) : (insKey kw x l).length ≤ l.length + 1 := by
  induction l with
  | nil => simp [insKey]
  | cons y r ih =>
    simp only [insKey]
    split
    · simp
    · split
      · simp
      · simp only [List.length_cons]; omega

/-- The growth that just succeeded leaves room for the new canonical buffer. -/
theorem room_of {s v p t u m ew lw es} (F : Focus s v p t u m) (N : LNode t u ew lw es) (X : List Nat)
    (hX : X.length ≤ (encode t u).length + ew) (h : m.bytes.length + ew ≤ m.cap) :
    (plug s v p X).length ≤ m.orig + maxIncrease := by
  have := plug_length p s v t u F.good F.res X
  have hb := F.bytes
  have : (encode s v).length = m.bytes.length := by rw [hb]
  simp only [Mem.cap] at h
  omega

theorem setInsertS_fst (c : Ctx) (ew lw b : Nat) (e : List Nat) (m : Mem) :
    (setInsertS c ew lw b e m).1 = setInsert c ew lw b e m := by
  have := congrArg Prod.fst (setInsertS_proj c ew lw b e m)
  simp only [proj] at this
  rw [this, setInsertT_fst]

theorem mapInsertS_fst (c : Ctx) (kw vw lw b : Nat) (k v : List Nat) (m : Mem) :
    (mapInsertS c kw vw lw b k v m).1 = mapInsert c kw vw lw b k v m := by
  have := congrArg Prod.fst (mapInsertS_proj c kw vw lw b k v m)
  simp only [proj] at this
  rw [this, mapInsertT_fst]

theorem lnode_set {e : Fixed} {lw : Nat} {es : List (List Nat)} (g : Good (.set e lw) (.seq es)) :
    LNode (.set e lw) (.seq es) e.size lw es :=
  ⟨set_enc e lw es, fun x hx => validE_len ((good_set g).1 x hx), (good_set g).2.1⟩

theorem lnode_map {kw : Nat} {f : Fixed} {lw : Nat} {es : List (List Nat)} (g : Good (.map kw f lw) (.seq es)) :
    LNode (.map kw f lw) (.seq es) (kw + f.size) lw es :=
  ⟨map_enc kw f lw es, fun x hx => validKV_len ((good_map g).1 x hx), (good_map g).2.1⟩

theorem lnode_list {e : Fixed} {lw : Nat} {es : List (List Nat)} (g : Good (.list e lw) (.seq es)) :
    LNode (.list e lw) (.seq es) e.size lw es :=
  ⟨list_enc e lw es, fun x hx => validE_len (good_list_valid g x hx), (good_list g).2⟩

/-- One `Set::insert`: in bounds, the data only grows, and afterwards the buffer is canonical again. -/
theorem setInsertS_step {s v p m} {e : Fixed} {lw : Nat} {es : List (List Nat)}
    (F : Focus s v p (.set e lw) (.seq es) m) (c : Calm m) (x : List Nat) (hx : validE e x = true) :
    ∃ L, StepOk m (setInsertS ⟨s, p⟩ e.size lw (offsetOf s v p) x m) L ∧ m.bytes.length ≤ L ∧
      ∀ m1 new ev, setInsertS ⟨s, p⟩ e.size lw (offsetOf s v p) x m = ((m1, .ok new), ev) →
        ∃ v' es', Focus s v' p (.set e lw) (.seq es') m1 ∧ Calm m1 ∧ offsetOf s v' p = offsetOf s v p := by
  have N := lnode_set F.sub
  have hfst := setInsertS_fst ⟨s, p⟩ e.size lw (offsetOf s v p) x m
  obtain ⟨st1, st2, st3⟩ := set_insert_step F c x hx
  unfold setInsertS at hfst ⊢
  cases hs : search (listKeys e.size lw e.size (offsetOf s v p) m.bytes) (rdLE x) 0 with
  | «at» i =>
    rw [hs] at hfst
    simp only [] at hfst ⊢
    refine ⟨_, StepOk.nil m _ c.cap_ok.1, Nat.le_refl _, ?_⟩
    intro m1 new ev h
    simp only [Prod.mk.injEq, Except.ok.injEq] at h
    obtain ⟨⟨rfl, _⟩, _⟩ := h
    exact ⟨v, es, F, c, rfl⟩
  | ins i =>
    rw [hs] at hfst
    simp only [] at hfst ⊢
    obtain ⟨L, hS, hle, hLeq⟩ := listInsertAllS_ok F c N i [x] (by intro y hy; simp at hy; subst hy; exact validE_len hx)
    generalize listInsertAllS ⟨s, p⟩ e.size lw (offsetOf s v p) i [x] m = y at *
    rcases y with ⟨⟨m1, r⟩, ev⟩
    cases r with
    | error er => exact ⟨L, hS.retag _, hle, by intro _ _ _ h; simp at h⟩
    | ok uu =>
      cases uu
      refine ⟨L, hS.retag _, hle, ?_⟩
      intro m1' new ev' h
      simp only [Prod.mk.injEq, Except.ok.injEq] at h
      obtain ⟨⟨rfl, rfl⟩, _⟩ := h
      simp only [] at hfst
      have hL := hLeq rfl
      simp only [List.length_singleton, Nat.mul_one] at hL
      have hcapL : m.bytes.length + e.size ≤ m.cap := by rw [← hL]; exact hS.cap
      cases hk : Spec.hasKey e.size (rdLE x) es with
      | true => rw [st1 hk] at hfst; simp at hfst
      | false =>
        by_cases hov : 256 ^ lw ≤ es.length + 1
        · rw [st2 hk hov] at hfst; simp at hfst
        · have hroom := room_of F N (encode (.set e lw) (.seq (insKey e.size x es))) (by
            have hw : ∀ y ∈ insKey e.size x es, y.length = e.size := by
              intro y hy
              rcases insKey_mem e.size x es y hy with h | h
              · subst h; exact validE_len hx
              · exact N.wid y h
            rw [set_enc, N.size, List.length_append, leN_length, flatten_width e.size _ hw]
            have := insKey_len_le e.size x es
            have := Nat.mul_le_mul_right e.size this
            rw [Nat.add_mul] at this
            omega) hcapL
          obtain ⟨m', hm', F', ho, hr⟩ := st3 hk hov hroom
          rw [hm'] at hfst
          simp only [Prod.mk.injEq, Except.ok.injEq] at hfst
          obtain ⟨rfl, _⟩ := hfst
          have hc' : Calm m1 := c.next ho hr (by have := hS.len; have := hS.cap; simp only [Mem.cap] at *; omega)
          exact ⟨_, _, F', hc', (Focus.next_facts F _ m1 F' hc'.lt).1⟩

/-- **`Set::insert_all`** (a loop of `insert` stopping at the first error). -/
theorem setInsertAllS_ok {s p} {e : Fixed} {lw : Nat} (b : Nat) (xs : List (List Nat)) :
    ∀ (n : Nat) (m : Mem) (v : Val) (es : List (List Nat)), Focus s v p (.set e lw) (.seq es) m → Calm m →
      b = offsetOf s v p → (∀ x ∈ xs, validE e x = true) →
      ∃ L, StepOk m (setInsertAllS ⟨s, p⟩ e.size lw b xs n m) L ∧ m.bytes.length ≤ L := by
  induction xs with
  | nil => intro n m v es F c hb _; exact ⟨_, StepOk.nil m _ c.cap_ok.1, Nat.le_refl _⟩
  | cons x xs ih =>
    intro n m v es F c hb hxs
    subst hb
    simp only [setInsertAllS]
    obtain ⟨L1, hS1, hle1, hnext⟩ := setInsertS_step F c x (hxs x (by simp))
    generalize hy : setInsertS ⟨s, p⟩ e.size lw (offsetOf s v p) x m = y at *
    rcases y with ⟨⟨m1, r⟩, ev⟩
    cases r with
    | error er => exact ⟨L1, hS1.retag _, hle1⟩
    | ok new =>
      obtain ⟨v', es', F', c', hoff⟩ := hnext m1 new ev rfl
      obtain ⟨L2, hS2, hle2⟩ := ih (if new then n + 1 else n) m1 v' es' F' c' hoff.symm
        (fun y hy => hxs y (by simp [hy]))
      simp only []
      have hl1 : m1.bytes.length = L1 := hS1.len
      exact ⟨L2, hS1.seq hS2 (Or.inr (by omega)), by omega⟩

/-- One `Map::insert`. -/
theorem mapInsertS_step {s v p m} {kw : Nat} {f : Fixed} {lw : Nat} {es : List (List Nat)}
    (F : Focus s v p (.map kw f lw) (.seq es) m) (c : Calm m) (k x : List Nat) (hk : k.length = kw)
    (hkw : BytesWF k) (hx : validE f x = true) :
    ∃ L, StepOk m (mapInsertS ⟨s, p⟩ kw f.size lw (offsetOf s v p) k x m) L ∧ m.bytes.length ≤ L ∧
      ∀ m1 old ev, mapInsertS ⟨s, p⟩ kw f.size lw (offsetOf s v p) k x m = ((m1, .ok old), ev) →
        ∃ v' es', Focus s v' p (.map kw f lw) (.seq es') m1 ∧ Calm m1 ∧ offsetOf s v' p = offsetOf s v p := by
  have N := lnode_map F.sub
  have hin := F.inside
  have hNs := N.size
  have hfst := mapInsertS_fst ⟨s, p⟩ kw f.size lw (offsetOf s v p) k x m
  obtain ⟨st1, st2, st3⟩ := map_insert_step F c k x hk hkw hx
  have hxl : x.length = f.size := validE_len hx
  have hw : ∀ y ∈ insKey kw (k ++ x) es, y.length = kw + f.size := by
    intro y hy
    rcases insKey_mem kw (k ++ x) es y hy with h | h
    · subst h; simp [hk, hxl]
    · exact N.wid y h
  have hXle : (encode (.map kw f lw) (.seq (insKey kw (k ++ x) es))).length
      ≤ (encode (.map kw f lw) (.seq es)).length + (kw + f.size) := by
    rw [map_enc, N.size, List.length_append, leN_length, flatten_width (kw + f.size) _ hw]
    have := insKey_len_le kw (k ++ x) es
    have := Nat.mul_le_mul_right (kw + f.size) this
    rw [Nat.add_mul] at this
    omega
  unfold mapInsertS at hfst ⊢
  simp only [] at hfst ⊢
  rcases map_search F k hk hkw with ⟨j, hj, hse, hkj, hfind, _, hins, _⟩ | ⟨j, hj, hse, hfind, _, hins⟩
  · -- existing key: the value is overwritten in place
    rw [hse] at hfst ⊢
    simp only [] at hfst ⊢
    have hjm : (j + 1) * (kw + f.size) ≤ es.length * (kw + f.size) := Nat.mul_le_mul_right _ hj
    rw [Nat.add_mul] at hjm
    have h0 := (StepOk.nil (α := Unit) m (.ok ()) c.cap_ok.1).add_store
      (β := Option (List Nat)) (offsetOf s v p + lw + j * (kw + f.size) + kw) x (by omega)
      (.ok (some (rd m.bytes (offsetOf s v p + lw + j * (kw + f.size) + kw) f.size)))
    refine ⟨_, by simpa using h0, Nat.le_refl _, ?_⟩
    intro m1 old ev h
    simp only [Prod.mk.injEq, Except.ok.injEq] at h
    obtain ⟨⟨rfl, _⟩, _⟩ := h
    -- same length: the new canonical buffer fits
    have hsame : (encode (.map kw f lw) (.seq (insKey kw (k ++ x) es))).length = (encode (.map kw f lw) (.seq es)).length := by
      rw [hins x, map_enc, map_enc, List.length_append, List.length_append, leN_length, leN_length]
      have hw2 : ∀ y ∈ es.set j (k ++ x), y.length = kw + f.size := by
        intro y hy
        rcases List.mem_or_eq_of_mem_set hy with h | h
        · exact N.wid y h
        · subst h; simp [hk, hxl]
      rw [flatten_width _ _ hw2, flatten_width _ _ N.wid, List.length_set]
    have hroom : (plug s v p (encode (.map kw f lw) (.seq (insKey kw (k ++ x) es)))).length ≤ m.orig + maxIncrease := by
      have := plug_length p s v _ _ F.good F.res (encode (.map kw f lw) (.seq (insKey kw (k ++ x) es)))
      have hb : (encode s v).length = m.bytes.length := by rw [F.bytes]
      have := c.fitsNow
      omega
    obtain ⟨m', hm', F', ho, hr⟩ := st1 _ hfind hroom
    rw [hm'] at hfst
    simp only [Prod.mk.injEq] at hfst
    obtain ⟨rfl, _⟩ := hfst
    have hc' : Calm _ := c.next ho hr (by
      have := c.fitsNow
      simp only []
      rw [wr_length' _ _ _ (by omega)]; exact this)
    exact ⟨_, _, F', hc', (Focus.next_facts F _ _ F' hc'.lt).1⟩
  · rw [hse] at hfst ⊢
    simp only [] at hfst ⊢
    obtain ⟨L, hS, hle, hLeq⟩ := listInsertAllS_ok F c N j [k ++ x] (by intro y hy; simp at hy; subst hy; simp [hk, hxl])
    generalize listInsertAllS ⟨s, p⟩ (kw + f.size) lw (offsetOf s v p) j [k ++ x] m = y at *
    rcases y with ⟨⟨m1, r⟩, ev⟩
    cases r with
    | error er => exact ⟨L, hS.retag _, hle, by intro _ _ _ h; simp at h⟩
    | ok uu =>
      cases uu
      refine ⟨L, hS.retag _, hle, ?_⟩
      intro m1' old ev' h
      simp only [Prod.mk.injEq, Except.ok.injEq] at h
      obtain ⟨⟨rfl, _⟩, _⟩ := h
      simp only [] at hfst
      have hL := hLeq rfl
      simp only [List.length_singleton, Nat.mul_one] at hL
      have hcapL : m.bytes.length + (kw + f.size) ≤ m.cap := by rw [← hL]; exact hS.cap
      by_cases hov : 256 ^ lw ≤ es.length + 1
      · rw [st2 hfind hov] at hfst; simp at hfst
      · have hroom := room_of F N _ hXle hcapL
        obtain ⟨m', hm', F', ho, hr⟩ := st3 hfind hov hroom
        rw [hm'] at hfst
        simp only [Prod.mk.injEq] at hfst
        obtain ⟨rfl, _⟩ := hfst
        have hc' : Calm m1 := c.next ho hr (by have := hS.len; have := hS.cap; simp only [Mem.cap] at *; omega)
        exact ⟨_, _, F', hc', (Focus.next_facts F _ m1 F' hc'.lt).1⟩

/-- **`Map::insert_all`.** -/
theorem mapInsertAllS_ok {s p} {kw : Nat} {f : Fixed} {lw : Nat} (b : Nat) (kvs : List (List Nat × List Nat)) :
    ∀ (n : Nat) (m : Mem) (v : Val) (es : List (List Nat)), Focus s v p (.map kw f lw) (.seq es) m → Calm m →
      b = offsetOf s v p → (∀ kx ∈ kvs, kx.1.length = kw ∧ BytesWF kx.1 ∧ validE f kx.2 = true) →
      ∃ L, StepOk m (mapInsertAllS ⟨s, p⟩ kw f.size lw b kvs n m) L ∧ m.bytes.length ≤ L := by
  induction kvs with
  | nil => intro n m v es F c hb _; exact ⟨_, StepOk.nil m _ c.cap_ok.1, Nat.le_refl _⟩
  | cons kx kvs ih =>
    intro n m v es F c hb hall
    obtain ⟨k, x⟩ := kx
    subst hb
    simp only [mapInsertAllS]
    obtain ⟨hk1, hk2, hk3⟩ := hall (k, x) (by simp)
    obtain ⟨L1, hS1, hle1, hnext⟩ := mapInsertS_step F c k x hk1 hk2 hk3
    generalize hy : mapInsertS ⟨s, p⟩ kw f.size lw (offsetOf s v p) k x m = y at *
    rcases y with ⟨⟨m1, r⟩, ev⟩
    cases r with
    | error er => exact ⟨L1, hS1.retag _, hle1⟩
    | ok old =>
      obtain ⟨v', es', F', c', hoff⟩ := hnext m1 old ev rfl
      obtain ⟨L2, hS2, hle2⟩ := ih (if old.isNone then n + 1 else n) m1 v' es' F' c' hoff.symm
        (fun y hy => hall y (by simp [hy]))
      simp only []
      have hl1 : m1.bytes.length = L1 := hS1.len
      exact ⟨L2, hS1.seq hS2 (Or.inr (by omega)), by omega⟩

theorem listRemoveRangeS_fst (c : Ctx) (ew lw b lo hi : Nat) (m : Mem) :
    (listRemoveRangeS c ew lw b lo hi m).1 = listRemoveRange c ew lw b lo hi m := by
  have := congrArg Prod.fst (listRemoveRangeS_proj c ew lw b lo hi m)
  simp only [proj] at this
  rw [this, listRemoveRangeT_fst]

theorem lnode_str {lw : Nat} {l : List Nat} (g : Good (.str lw) (.bytes l)) :
    LNode (.str lw) (.bytes l) 1 lw (l.map fun b => [b]) := by
  refine ⟨str_enc lw l, ?_, ?_⟩
  · intro x hx; obtain ⟨b, _, rfl⟩ := List.mem_map.1 hx; rfl
  · have := g.fits; simp only [fits, Bool.and_eq_true, decide_eq_true_eq] at this; simpa using this.1

/-- **`UnsizedString::set`** = `clear` then `push_all`: shrink, then grow. -/
theorem strSetS_ok {s v p m} {lw : Nat} {l : List Nat} (F : Focus s v p (.str lw) (.bytes l) m) (c : Calm m)
    (x : List Nat) : ∃ L, StepOk m (strSetS ⟨s, p⟩ lw (offsetOf s v p) x m) L := by
  have N := lnode_str F.sub
  unfold strSetS listClearS
  obtain ⟨L1, hS1, hle1⟩ := listRemoveRangeS_ok F c N 0 (rdN m.bytes (offsetOf s v p) lw)
  have hfst := listRemoveRangeS_fst ⟨s, p⟩ 1 lw (offsetOf s v p) 0 (rdN m.bytes (offsetOf s v p) lw) m
  rw [N.rdlen F] at hfst hS1 ⊢
  obtain ⟨mB, hB, hBb, hBo, hBr, _⟩ := listRemoveRange_bytes F 1 lw _ N.enc N.wid N.len 0 (l.map fun b => [b]).length
    (Nat.zero_le _) (Nat.le_refl _)
  generalize listRemoveRangeS ⟨s, p⟩ 1 lw (offsetOf s v p) 0 (l.map fun b => [b]).length m = y at *
  rcases y with ⟨⟨m1, r⟩, ev⟩
  simp only [] at hfst
  rw [hB] at hfst
  simp only [Prod.mk.injEq] at hfst
  obtain ⟨rfl, rfl⟩ := hfst
  simp only []
  have hl1 : m1.bytes.length = L1 := hS1.len
  have hc1 : Calm m1 := c.next hBo hBr (by have := c.fitsNow; omega)
  have g' : Good (.str lw) (.bytes []) :=
    good_str_of F.sub.ok (by decide) (by intro b hb; cases hb) (by have := N.len; simp at this ⊢; omega)
      (by simp; decide)
  have hb' : m1.bytes = plug s v p (encode (.str lw) (.bytes [])) := by
    rw [hBb, str_enc]
    have : List.drop l.length (List.map (fun b => [b]) l) = [] := List.drop_eq_nil_of_le (by simp)
    simp [Spec.removeRange, this]
  have F' := F.finish (.bytes []) g' m1 hb' hc1.lt
  have hoff := (Focus.next_facts F _ m1 F' hc1.lt).1
  have N' := lnode_str F'.sub
  obtain ⟨L2, hS2, hle2, _⟩ := listInsertAllS_ok F' hc1 N' (rdN m1.bytes (offsetOf s v p) lw) (x.map fun b => [b])
    (by intro y hy; obtain ⟨b, _, rfl⟩ := List.mem_map.1 hy; rfl)
  rw [hoff] at hS2
  exact ⟨L2, hS1.seq hS2 (Or.inl hle1)⟩

theorem setRemoveS_ok {s v p m} {e : Fixed} {lw : Nat} {es : List (List Nat)}
    (F : Focus s v p (.set e lw) (.seq es) m) (c : Calm m) (x : List Nat) :
    ∃ L, StepOk m (setRemoveS ⟨s, p⟩ e.size lw (offsetOf s v p) x m) L := by
  have N := lnode_set F.sub
  unfold setRemoveS
  split
  · exact ⟨_, StepOk.nil m _ c.cap_ok.1⟩
  · rename_i i _
    obtain ⟨L, h1, _⟩ := listRemoveRangeS_ok F c N i (i + 1)
    generalize listRemoveRangeS ⟨s, p⟩ e.size lw (offsetOf s v p) i (i + 1) m = y at *
    rcases y with ⟨⟨m1, r⟩, ev⟩
    cases r with
    | error er => exact ⟨L, h1.retag _⟩
    | ok uu => cases uu; exact ⟨L, h1.retag _⟩

theorem mapRemoveS_ok {s v p m} {kw : Nat} {f : Fixed} {lw : Nat} {es : List (List Nat)}
    (F : Focus s v p (.map kw f lw) (.seq es) m) (c : Calm m) (k : List Nat) :
    ∃ L, StepOk m (mapRemoveS ⟨s, p⟩ kw f.size lw (offsetOf s v p) k m) L := by
  have N := lnode_map F.sub
  unfold mapRemoveS
  simp only []
  split
  · exact ⟨_, StepOk.nil m _ c.cap_ok.1⟩
  · rename_i i _
    obtain ⟨L, h1, _⟩ := listRemoveRangeS_ok F c N i (i + 1)
    generalize listRemoveRangeS ⟨s, p⟩ (kw + f.size) lw (offsetOf s v p) i (i + 1) m = y at *
    rcases y with ⟨⟨m1, r⟩, ev⟩
    cases r with
    | error er => exact ⟨L, h1.retag _⟩
    | ok uu => cases uu; exact ⟨L, h1.retag _⟩

end Unsized.Machine
