import Unsized.Driver.MachineStep
/-! Model driver for C02 (`c02_model`): the `len=` / `bytes=` columns of `Unsized.Machine.step`. -/
def main : IO Unit := Unsized.Driver.M.run true
