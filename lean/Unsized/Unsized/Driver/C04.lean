import Unsized.Driver.CodecStep
/-! Model driver for C04 (`c04_model`): one answer per op line, computed by `Unsized.Codec`. -/
def main : IO Unit := Common.Proto.run (none : Unsized.Driver.St) Unsized.Driver.step
