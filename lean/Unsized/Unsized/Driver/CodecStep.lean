import Unsized.Text
/-!
# Op interpreter shared by the C05 and C04 model drivers

State: the shape set by the last `shape NAME SEXP` line of the case. Every answer is computed by
the definitions of `Unsized.Codec` the theorems are about.
-/
namespace Unsized.Driver
open Common.Proto Unsized Unsized.Text

abbrev St := Option Shape

def badOp : String := "bad-op"

def withVal (s : Shape) (toks : List String) (k : Val → String) : String :=
  match parseOne toks with
  | some sx => match toVal s sx with
    | some v => if valid s v then k v else badOp
    | none => badOp
  | none => badOp

def withHex (toks : List String) (k : List Nat → String) : String :=
  match toks with
  | [h] => match parseHex h with
    | some bs => k bs
    | none => badOp
  | _ => badOp

def showDec (s : Shape) : Except E (Val × Nat) → String
  | .ok (v, n) => s!"ok {n} {showVal s v}"
  | .error e => e.name

def showView (s : Shape) : Except E (Val × Nat) → String
  | .ok (v, _) => s!"ok {showVal s v}"
  | .error e => e.name

def showEnc (s : Shape) (v : Val) (cap : Nat) : String :=
  match fromOwned s v cap with
  | .ok (bytes, n) => s!"ok {size s v} {n} {toHex bytes}"
  | .error e => e.name

def step (st : St) (toks : List String) : St × String :=
  match toks with
  | "shape" :: _ :: rest =>
    match parseOne rest with
    | some sx => match toShape sx with
      | some s => if s.ok then (some s, "ok") else (st, badOp)
      | none => (st, badOp)
    | none => (st, badOp)
  | op :: rest =>
    match st with
    | none => (st, badOp)
    | some s =>
      let ans : String :=
        if op = "enc" then withVal s rest (fun v => showEnc s v (size s v + 3))
        else if op = "encs" then
          match rest with
          | c :: vt => match c.toNat? with
            | some cap => withVal s vt (fun v => showEnc s v cap)
            | none => badOp
          | [] => badOp
        else if op = "sert" then
          withVal s rest (fun v => match fromOwned s v (size s v) with
            | .ok (bytes, _) => s!"ok {toHex bytes}"
            | .error e => e.name)
        else if op = "tbs" then
          withVal s rest (fun v => match testBufferNew s v with
            | .error e => e.name
            | .ok buf => match testBufferOwned s buf with
              | .error e => e.name
              | .ok v' => s!"ok {buf.2} {showVal s v'}")
        else if op = "tbr" then
          -- `tbr V1 | V2`: TestByteSet::new(V1), data_mut().set_from_owned(V2), underlying_data/owned
          match s with
          | .disc _ _ => badOp
          | _ =>
            let t1 := rest.takeWhile (· ≠ "|")
            let t2 := (rest.dropWhile (· ≠ "|")).drop 1
            withVal s t1 (fun v1 => withVal s t2 (fun v2 =>
              if !(fits s v1 && fits s v2) then badOp else
              match testBufferNew s v1 with
              | .error e => e.name
              | .ok buf => match testBufferSet s buf v2 with
                | .error e => e.name
                | .ok buf' => match testBufferOwned s buf' with
                  | .error e => e.name
                  | .ok v' => s!"ok {toHex (testBufferData buf')} {showVal s v'}"))
        else if op = "sera" then
          match s with
          | .disc d inner => withVal s rest (fun v => match serializeAccount d inner v with
            | .ok bytes => s!"ok {toHex bytes}"
            | .error e => e.name)
          | _ => badOp
        else if op = "desa" then
          match s with
          | .disc d inner => withHex rest (fun bs => showView s (deserializeAccount d inner bs))
          | _ => badOp
        else if op = "init" then
          match parseOne rest with
          | some sx => match toInit sx with
            | some a => if initOk s a then s!"ok {initSize s a} {toHex (initBytes s a)}" else badOp
            | none => badOp
          | none => badOp
        else if op = "dec" then withHex rest (fun bs => showDec s (decode s bs))
        else if op = "ptr" then
          withHex rest (fun bs => match extent s bs with
            | .ok n => s!"ok {n} {n - (match s with | .disc d _ => d.length | _ => 0)}"
            | .error e => e.name)
        else if op = "owned" then withHex rest (fun bs => showView s (decode s bs))
        else if op = "view" then withHex rest (fun bs => showView s (viewTop .get s bs))
        else if op = "iter" then withHex rest (fun bs => showView s (viewTop .iter s bs))
        else if op = "xview" then withHex rest (fun bs => showView s (viewTop .getMut s bs))
        else badOp
      (st, ans)
  | [] => (st, badOp)

end Unsized.Driver
