import Unsized.MachineRun
import Unsized.Driver.Curated
/-!
# Line interpreter shared by the C01 / C02 / C06 model drivers

Parses the op-line language of `notes/unsized_ops.md` (same strictness as `hx-unsized/src/ops.rs`),
runs `Unsized.Machine.step` and prints the answer line from the machine's bytes:
`owned=` is `decode`, `shared=` the iterator view, `live=` `own` at every live level's path.
-/
namespace Unsized.Driver.M
open Common Common.Proto Unsized Unsized.Text Unsized.Machine

/-! ## tokens -/

def numTok (a : String) : Option Nat :=
  let cs := a.toList
  if cs.isEmpty || cs.length > 10 || !cs.all Char.isDigit then none
  else if cs.length > 1 && cs.head? == some '0' then none
  else
    let v := cs.foldl (fun acc c => acc * 10 + (c.toNat - '0'.toNat)) 0
    if v ≥ 4294967296 then none else some v

def hexTok (a : String) : Option (List Nat) :=
  if a = "-" then some []
  else if a.toList.all (fun c => c.isDigit || ('a' ≤ c && c ≤ 'f')) then parseHex a
  else none

def stepTok (a : String) : Option Step :=
  if a = "v" then some .payload
  else match a.toList with
    | 'f' :: ds => (numTok (String.ofList ds)).map Step.field
    | 'e' :: ds => (numTok (String.ofList ds)).map Step.elem
    | _ => none

def pathTok (a : String) : Option (List Step) :=
  if a = "." then some []
  else (a.splitOn ".").foldr (fun t acc => match stepTok t, acc with
    | some st, some l => some (st :: l)
    | _, _ => none) (some [])

def num : Sx → Option Nat
  | .atom a => numTok a
  | _ => none
def hx : Sx → Option (List Nat)
  | .atom a => hexTok a
  | _ => none
def hexList : List Sx → Option (List (List Nat))
  | [] => some []
  | x :: xs => match hx x, hexList xs with
    | some b, some bs => some (b :: bs)
    | _, _ => none
def blist : Sx → Option (List (List Nat))
  | .node '[' kids => hexList kids
  | _ => none
def kvList : List Sx → Option (List (List Nat × List Nat))
  | [] => some []
  | .atom a :: xs =>
    match a.splitOn ":" with
    | k :: rest@(_ :: _) =>
      -- `split_once(':')`: the key is everything before the FIRST colon
      match hexTok k, hexTok (":".intercalate rest), kvList xs with
      | some kb, some vb, some r => some ((kb, vb) :: r)
      | _, _, _ => none
    | _ => none
  | _ => none
def kvlist : Sx → Option (List (List Nat × List Nat))
  | .node '[' kids => kvList kids
  | _ => none

/-- An op line before the value of `replace` is parsed against the node's shape. -/
inductive RawCmd where
  | enter (st : Step)
  | leave
  | reborrow
  | op (path : List Step) (op : Op)
  | replace (path : List Step) (v : Sx)

def parseLine (line : String) : Option RawCmd :=
  if line.startsWith " " || line.endsWith " " || (line.splitOn "  ").length > 1 then none else
  match parseSx (lex line) with
  | none => none
  | some [] => none
  | some (.node _ _ :: _) => none
  | some (.atom name :: a) =>
    match name, a with
    | "enter", [.atom s] => (stepTok s).map RawCmd.enter
    | "leave", [] => some .leave
    | "reborrow", [] => some .reborrow
    | _, .atom p :: a =>
      match pathTok p with
      | none => none
      | some path =>
        let mk (o : Option Op) : Option RawCmd := o.map (RawCmd.op path)
        match name, a with
        | "touch", [] => mk (some .touch)
        | "replace", [v] => some (.replace path v)
        | "reset", [] => mk (some .reset)
        | "write", [h] => mk ((hx h).map Op.write)
        | "push", [h] => mk ((hx h).map Op.push)
        | "insert", [i, h] => mk (match num i, hx h with | some i, some h => some (.insert i h) | _, _ => none)
        | "insert_all", [i, l] =>
          mk (match num i, blist l with | some i, some l => some (.insertAll i l) | _, _ => none)
        | "remove", [i] => mk ((num i).map Op.remove)
        | "remove_range", [lo, hi] =>
          mk (match num lo, num hi with | some lo, some hi => some (.removeRange lo hi) | _, _ => none)
        | "pop", [] => mk (some .pop)
        | "clear", [] => mk (some .clear)
        | "set", [i, h] => mk (match num i, hx h with | some i, some h => some (.set i h) | _, _ => none)
        | "sinsert", [h] => mk ((hx h).map Op.sinsert)
        | "sremove", [h] => mk ((hx h).map Op.sremove)
        | "sinsert_all", [l] => mk ((blist l).map Op.sinsertAll)
        | "minsert", [k, h] => mk (match hx k, hx h with | some k, some h => some (.minsert k h) | _, _ => none)
        | "mremove", [k] => mk ((hx k).map Op.mremove)
        | "mset", [k, h] => mk (match hx k, hx h with | some k, some h => some (.mset k h) | _, _ => none)
        | "minsert_all", [l] => mk ((kvlist l).map Op.minsertAll)
        | "str_set", [h] => mk ((hx h).map Op.strSet)
        | "set_len", [n] => mk ((num n).map Op.setLen)
        | "uinsert", [i, n] => mk (match num i, num n with | some i, some n => some (.uinsert i n) | _, _ => none)
        | "uinsert_arr", [i, l] =>
          mk (match num i, blist l with | some i, some l => some (.uinsertArr i l) | _, _ => none)
        | "uget", [i] => mk ((num i).map Op.uget)
        | "utouch", [i] => mk ((num i).map Op.utouch)
        | "uminsert", [k] => mk ((hx k).map Op.uminsert)
        | "uminsert_arr", [k, l] =>
          mk (match hx k, blist l with | some k, some l => some (.uminsertArr k l) | _, _ => none)
        | "umremove", [k] => mk ((hx k).map Op.umremove)
        | "set_variant", [i] => mk ((num i).map Op.setVariant)
        | _, _ => none
    | _, _ => none

/-! ## state of one case -/

inductive DSt where
  /-- before the first header -/
  | fresh
  /-- unusable header: every line is `bad-op` -/
  | invalid
  | live (s : Shape) (st : State)
  /-- after an initialiser failed behind a resize (known finding): every later op line is `dead` -/
  | dead

def parseRefuse (a : String) : Option (List Nat) :=
  if a.startsWith "refuse=" then
    ((a.drop 7).toString.splitOn ",").foldr (fun t acc =>
      match (if t.toList.all Char.isDigit && !t.isEmpty && t.length ≤ 10 then t.toNat? else none), acc with
      | some k, some l => if 1 ≤ k ∧ k < 4294967296 then some (k :: l) else none
      | _, _ => none) (some [])
  else none

def header (line : String) : DSt :=
  match parseSx (lex line) with
  | some (.atom "case" :: _ :: shapeSx :: valSx :: rest) =>
    let refuse : Option (List Nat) := match rest with
      | [] => some []
      | [.atom r] => parseRefuse r
      | _ => none
    match refuse, toShape shapeSx with
    | some refuse, some s =>
      if curated.contains (showShape s) then
        match toVal s valSx with
        | some v => if WF s v then .live s (State.init (encode s v) refuse) else .invalid
        | none => .invalid
      else .invalid
    | _, _ => .invalid
  | _ => .invalid

/-! ## printing -/

def bang : E → String
  | .panic => "!panic"
  | _ => "!err"

def showOwned (s : Shape) (bs : List Nat) : String :=
  match decode s bs with
  | .ok (v, _) => showVal s v
  | .error e => bang e

/-- The harness's `shared=` column: iterator API; an iterator that ends early is `!err` (`iter_len`). -/
def showShared (s : Shape) (bs : List Nat) : String :=
  match viewTop .iter s bs with
  | .error e => bang e
  | .ok (v, _) =>
    match view .get s bs with
    | .ok _ => showVal s v
    | .error _ => "!err"

def showLive (s : Shape) (bs : List Nat) (path : List Step) : String :=
  match locate s path 0 bs with
  | .error _ => "!err"
  | .ok (t, b) =>
    match own t (bs.drop b) with
    | .ok v => showVal t v
    | .error e => bang e

def errName : Err → String
  | .bad => "bad-op"
  | .ioob => "err:IndexOutOfBounds"
  | .range => "err:InvalidRange"
  | .toPrim => "err:ToPrimitiveError"
  | .initFail => "err:ToPrimitiveError"
  | .realloc => "err:InvalidRealloc"
  | .ptrOob => "err:PointerOutOfBounds"
  | .arith => "err:ArithmeticOverflow"
  | .parse => "err:RawSliceAdvance"

/-- `ret=`; `t` = shape of the node the op was applied to (for `uget`). -/
def showRet (t : Option Shape) : Ret → String
  | .unit => "-"
  | .flag b => if b then "1" else "0"
  | .count n => toString n
  | .old none => "none"
  | .old (some b) => toHex b
  | .elem none => "none"
  | .elem (some (k, v)) =>
    match t with
    | some (.ulist e) => showVal e v
    | some (.umap _ e) => "(" ++ toHex k ++ " " ++ showVal e v ++ ")"
    | _ => "?"
  | .elemErr => "!err"

def answer (short : Bool) (s : Shape) (st : State) (oc ret : String) : String :=
  let bs := st.mem.bytes
  if short then s!"{oc} len={bs.length} bytes={toHex bs}"
  else
    s!"{oc} ret={ret} len={bs.length} bytes={toHex bs} owned={showOwned s bs} shared={showShared s bs} live="
      ++ " | ".intercalate (st.levels.map (showLive s bs))

/-- Turn a raw line into a machine command (`replace` needs the node's shape to parse its value). -/
def toCmd (s : Shape) (st : State) : RawCmd → Option Cmd
  | .enter x => some (.enter x)
  | .leave => some .leave
  | .reborrow => some .reborrow
  | .op p o => some (.op p o)
  | .replace p sx =>
    match locate s (st.cur ++ p) 0 st.mem.bytes with
    | .error _ =>
      -- the path does not resolve: let the machine report why (value is irrelevant)
      some (.op p (.replace .unit))
    | .ok (t, _) =>
      match toVal t sx with
      | some v => some (.op p (.replace v))
      | none => none

def nodeShape (s : Shape) (st : State) : Cmd → Option Shape
  | .op p _ => match locate s (st.cur ++ p) 0 st.mem.bytes with
    | .ok (t, _) => some t
    | .error _ => none
  | _ => none

def stepLine (short : Bool) (d : DSt) (line : String) : DSt × String :=
  match d with
  | .fresh => (d, "bad-op")
  | .invalid => (d, "bad-op")
  | .dead => (d, if (parseLine line).isSome then "dead" else "bad-op")
  | .live s st =>
    match parseLine line with
    | none => (d, "bad-op")
    | some raw =>
      match toCmd s st raw with
      | none => (d, "bad-op")
      | some cmd =>
        let t := nodeShape s st cmd
        match step s st cmd with
        | (_, .error .bad) => (d, "bad-op")
        | (st', .error .initFail) => (.dead, answer short s st' (errName .initFail) "-")
        | (st', .error e) => (.live s st', answer short s st' (errName e) "-")
        | (st', .ok r) => (.live s st', answer short s st' "ok" (showRet t r))

partial def loop (short : Bool) (i o : IO.FS.Stream) (d : DSt) : IO Unit := do
  let line ← i.getLine
  if line.isEmpty then return ()
  let line := (line.dropEndWhile (fun c => c == '\n' || c == '\r')).toString
  if line.startsWith "case" then
    o.putStrLn "case"
    loop short i o (header line)
  else
    let (d', ans) := stepLine short d line
    o.putStrLn ans
    loop short i o d'

def run (short : Bool) : IO Unit := do
  let i ← IO.getStdin
  let o ← IO.getStdout
  loop short i o .fresh
  o.flush

end Unsized.Driver.M
