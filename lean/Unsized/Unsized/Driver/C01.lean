import Unsized.Driver.MachineStep
/-! Model driver for C01 (`c01_model`): every answer is computed by `Unsized.Machine.step`. -/
def main : IO Unit := Unsized.Driver.M.run false
