import Unsized.Runtime
import Common.Proto
/-! Model driver for C07: answers the op lines of `harness/hx-reborrow/src/c07.rs`. -/
open Common Common.Proto Unsized.Runtime

namespace Unsized.Driver.C07

/-- The harness account types. -/
def kindsOf : String → Option (List Kind)
  | "two" => some [.list, .list]
  | "tail" => some [.list, .remaining]
  | "ul" => some [.sized 8, .list, .ulist, .list]
  | _ => none

/-- Any address will do: answers never contain addresses. -/
def BASE : Nat := 140737488355328 + 4096

inductive St
  | fresh
  | live (s : State)
  | dead

def parseNats : List String → Option (List Nat)
  | [] => some []
  | t :: ts => do
    let n ← t.toNat?
    let r ← parseNats ts
    pure (n :: r)

def minLen (ks : List Kind) : Nat := 8 + layoutLen ks (ks.map fun _ => 0)

def initState (toks : List String) : Option State :=
  match toks with
  | cmd :: ty :: rest =>
    match kindsOf ty with
    | none => none
    | some ks =>
      if cmd = "init" ∨ cmd = "initro" then
        match parseNats rest with
        | none => none
        | some cs =>
          if cs.length ≠ ks.length then none
          else if (ks.zip cs).any (fun (k, c) => k.isSized && c != 0) then none
          else if cs.foldl (· + ·) 0 > 200000 then none
          else some (mkState BASE (cmd = "init") ks cs (8 + layoutLen ks cs))
      else if cmd = "initraw" then
        match rest with
        | [sz] =>
          match sz.toNat? with
          | none => none
          | some size =>
            if size > 200000 ∨ size < 8 then none
            else
              let ml := minLen ks
              some (mkState BASE true ks (ks.map fun k => if k = .remaining then size - ml else 0) size)
        | _ => none
      else none
  | _ => none

def hex2 (n : Nat) : String := String.ofList [hexChar (n / 16 % 16), hexChar (n % 16)]

def showCounts (cs : List Nat) : String := ",".intercalate (cs.map toString)

def showErr : Err → String
  | .accountBorrowFailed => "err:AccountBorrowFailed"
  | .invalidRealloc => "err:InvalidRealloc"
  | .accountDataTooSmall => "err:AccountDataTooSmall"
  | .pointerOutOfBounds => "err:Custom2001"
  | .unsizedUnexpected => "err:Custom2000"
  | .advance _ => "err:Custom2002"
  | .tryFromInt => "err:TryFromInt"

def showAns : Ans → String
  | .borrowedMut h len delta bs lo hi seen =>
    s!"ok h={h} len={len} delta={delta} bs={hex2 bs} rng={lo}..{hi} f={showCounts seen}"
  | .borrowed h len delta bs seen => s!"ok h={h} len={len} delta={delta} bs={hex2 bs} f={showCounts seen}"
  | .released bs => s!"ok bs={hex2 bs}"
  | .resized len delta cs => s!"ok len={len} delta={delta} f={showCounts cs}"
  | .info len delta bs => s!"len={len} delta={delta} bs={hex2 bs}"
  | .err e => showErr e
  | .panic => "panic"
  | .badOp => "bad-op"

def parseOp : List String → Option Op
  | ["borrow_mut"] => some .borrowMut
  | ["borrow"] => some .borrow
  | ["len?"] => some .query
  | ["release", h] => h.toNat?.map .release
  | ["grow", f, n] => do
    let f ← f.toNat?
    let n ← n.toNat?
    pure (.grow f n)
  | ["shrink", f, n] => do
    let f ← f.toNat?
    let n ← n.toNat?
    pure (.shrink f n)
  | _ => none

def stepLine (st : St) (toks : List String) : St × String :=
  match toks with
  | [] => (st, "bad-op")
  | t :: _ =>
    if t.startsWith "init" then
      match st with
      | .fresh =>
        match initState toks with
        | some s => (.live s, s!"ok len={s.acct.len}")
        | none => (.dead, "bad-op")
      | _ => (.dead, "bad-op")
    else
      match st with
      | .live s =>
        match parseOp toks with
        | some op =>
          let (s', a) := step s op
          (.live s', showAns a)
        | none => (st, "bad-op")
      | _ => (st, "bad-op")

end Unsized.Driver.C07

def main : IO Unit := Common.Proto.run Unsized.Driver.C07.St.fresh Unsized.Driver.C07.stepLine
