import Unsized.PtrMachine
import Unsized.Driver.MachineStep
/-!
# Model driver for C03 (`c03_model`), `notes/unsized_ops_c03.md`

Plain cases and the pre-swap part of swap cases: `<outcome> len=<n> acc=<raw accesses> frame=1`, computed
by the byte machine's traced ops (`Unsized.Machine.applyAtT`, the definitions `Props/C03.lean` is about)
driven through the pointer machine (`Unsized.PtrM.opAt`). After a swap: `panic` / `panic@drop` / `cont` /
`bad-op` / `dead` from the pointer checks (`checkTop`, `checkInnerInitialized`, `checkPointers`).
-/
namespace Unsized.Driver.C03
open Common Common.Proto Unsized Unsized.Text Unsized.Machine Unsized.PtrT Unsized.PtrM Unsized.Driver.M

def baseA : Nat := 1048576
def baseB : Nat := 1073741824

/-- `layout=account` swap cases: account `B` is serialized DIRECTLY BEHIND account `A` in the runtime's
input — after A's data and its 10240 bytes of headroom come the padding to 8, the rent epoch (8) and B's
88-byte header. -/
def baseBBehind (origA : Nat) : Nat := baseA + (origA + maxIncrease + 7) / 8 * 8 + 8 + 88

def mkBuf (s : Shape) (v : Val) (refuse : List Nat) (base : Nat) : Option PBuf :=
  let bytes := encode s v
  match getPtr s bytes base with
  | .ok (root, _) =>
    some { mem := { bytes := bytes, orig := bytes.length, grows := 0, refuse := refuse }, base := base,
           root := root, levels := [[]], finished := false, dead := false }
  | .error _ => none

def dummyBuf (base : Nat) : PBuf :=
  { mem := { bytes := [], orig := 0, grows := 0, refuse := [] }, base := base, root := .node [],
    levels := [[]], finished := true, dead := false }

inductive DSt where
  | fresh
  | invalid
  /-- `swapCase`: two buffers; `swaps` = number of successful swaps so far; `deadPlain`: a plain case after
  a panic / failed initialiser -/
  | live (s : Shape) (w : World) (swapCase : Bool) (swaps : Nat) (deadPlain : Bool)

def parseOpts : List Sx → Option (List Nat)
  | [] => some []
  | .atom a :: rest =>
    if a = "layout=start" || a = "layout=end" || a = "layout=account" || a = "layout=tbs" then parseOpts rest
    else
      match parseRefuse a, parseOpts rest with
      | some r, some [] => some r
      | _, _ => none
  | _ => none

def parseLayoutOnly : List Sx → Bool
  | [] => true
  | [.atom a] => a = "layout=start" || a = "layout=end" || a = "layout=account"
  | _ => false

def isAccount : List Sx → Bool
  | [.atom a] => a = "layout=account"
  | _ => false

/-- ` rng=<lo>:<hi>`: the top wrapper's valid range as offsets from the data start (printed after a
successful `reborrow`). -/
def showRng (X : PBuf) : String :=
  s!" rng={(X.rng.lo : Int) - (X.base : Int)}:{(X.rng.hi : Int) - (X.base : Int)}"

def isReborrow : RawCmd → Bool
  | .reborrow => true
  | _ => false

def isOk : Except Err Ret → Bool
  | .ok _ => true
  | .error _ => false

def header (line : String) : DSt :=
  match parseSx (lex line) with
  | some (.atom "case" :: _ :: .atom "swap" :: shapeSx :: va :: vb :: rest) =>
    if !parseLayoutOnly rest then .invalid else
    match toShape shapeSx with
    | some s =>
      if curated.contains (showShape s) then
        match toVal s va, toVal s vb with
        | some a, some b =>
          if WF s a && WF s b then
            match mkBuf s a [] baseA,
                mkBuf s b [] (if isAccount rest then baseBBehind (encode s a).length else baseB) with
            | some A, some B => .live s ⟨A, B⟩ true 0 false
            | _, _ => .invalid
          else .invalid
        | _, _ => .invalid
      else .invalid
    | none => .invalid
  | some (.atom "case" :: _ :: shapeSx :: valSx :: rest) =>
    match parseOpts rest, toShape shapeSx with
    | some refuse, some s =>
      if curated.contains (showShape s) then
        match toVal s valSx with
        | some v =>
          if WF s v then
            match mkBuf s v refuse baseA with
            | some A => .live s ⟨A, dummyBuf baseB⟩ false 0 false
            | none => .invalid
          else .invalid
        | none => .invalid
      else .invalid
    | _, _ => .invalid
  | _ => .invalid

/-! ## One line on one buffer -/

/-- Execute a parsed line for buffer `x` (the semantics is `Unsized.PtrM.exec*`). -/
def execLine (s : Shape) (w : World) (x : Which) (keepBad : Bool) (raw : RawCmd) : World × Ans :=
  match raw with
  | .leave => execLeave w x
  | .reborrow => execReborrow s w x
  | .enter st => execEnter s w x keepBad st
  | .op p o => execOp s w x keepBad p (fun _ => some o)
  | .replace p sx => execOp s w x keepBad p (fun sh => (toVal sh sx).map Op.replace)

/-- `swap pA pB`. -/
def execSwap (s : Shape) (w : World) (pa pb : List Step) : World × String :=
  let A := w.a
  let B := w.b
  if A.finished || B.finished || A.dead || B.dead then (w, "bad-op") else
  match curPtr s A with
  | none => (w, "bad-op")
  | some (tpa0, sha0, ta0) =>
    match walk w true sha0 ta0 pa with
    | (ta0', outA) =>
      let w1 := w.set .A { A with root := (replaceAt A.root tpa0 ta0').getD A.root }
      match outA with
      | .panic => (w1.set .A { w1.a with finished := true }, "panic")
      | _ =>
        match curPtr s w1.b with
        | none => (w1, "bad-op")
        | some (tpb0, shb0, tb0) =>
          match walk w1 true shb0 tb0 pb with
          | (tb0', outB) =>
            let w2 := w1.set .B { w1.b with root := (replaceAt w1.b.root tpb0 tb0').getD w1.b.root }
            match outB with
            | .panic => (w2.set .B { w2.b with finished := true }, "panic")
            | _ =>
              match outA, outB with
              | .ok tpa sa, .ok tpb sb =>
                if showShape sa == showShape sb then
                  match subtreeAt w2.a.root (tpa0 ++ tpa), subtreeAt w2.b.root (tpb0 ++ tpb) with
                  | some qa, some qb =>
                    match replaceAt w2.a.root (tpa0 ++ tpa) qb, replaceAt w2.b.root (tpb0 ++ tpb) qa with
                    | some ra, some rb =>
                      ((w2.set .A { w2.a with root := ra }).set .B { w2.b with root := rb }, "ok")
                    | _, _ => (w2, "bad-op")
                  | _, _ => (w2, "bad-op")
                else (w2, "bad-op")
              | _, _ => (w2, "bad-op")

/-! ## Answer lines -/

def fullAnswer (X : PBuf) (r : Except Err Ret) (evs : List Ev) : String :=
  let oc := match r with
    | .ok _ => "ok"
    | .error e => errName e
  s!"{oc} len={X.mem.bytes.length} acc={showAcc evs} frame=1"

def isInitFail : Except Err Ret → Bool
  | .error .initFail => true
  | _ => false

/-- A line of a plain case. -/
def plainLine (s : Shape) (w : World) (deadPlain : Bool) (line : String) : World × Bool × String :=
  match parseLine line with
  | none => (w, deadPlain, "bad-op")
  | some raw =>
    if deadPlain then (w, deadPlain, "dead") else
    match execLine s w .A false raw with
    | (_, .bad) => (w, false, "bad-op")
    | (w', .panic) => (w', true, "panic")
    | (w', .panicDrop) => (w', true, "panic")
    | (w', .res r evs) =>
      (w', isInitFail r, fullAnswer w'.a r evs ++ (if isReborrow raw && isOk r then showRng w'.a else ""))

/-- `A …` / `B …` of a swap case. -/
def bufLine (s : Shape) (w : World) (x : Which) (swaps : Nat) (rest : String) : World × String :=
  let X := w.get x
  if swaps = 0 then
    if X.finished || X.dead then (w, "dead")
    else if rest = "end" then
      match endBuf w x with
      | (w', ok) => (w', if ok then "ok" else "panic@drop")
    else
      match parseLine rest with
      | none => (w, "bad-op")
      | some raw =>
        match execLine s w x false raw with
        | (_, .bad) => (w, "bad-op")
        | (w', .panic) => (w', "panic")
        | (w', .panicDrop) => (w', "panic")
        | (w', .res r evs) =>
          let X' := w'.get x
          let w'' := if isInitFail r then w'.set x { X' with dead := true } else w'
          (w'', fullAnswer X' r evs ++ (if isReborrow raw && isOk r then showRng X' else ""))
  else
    if X.finished then (w, "dead")
    else if rest = "end" then
      match endBuf w x with
      | (w', ok) => (w', if ok then "cont" else "panic@drop")
    else
      match parseLine rest with
      | none => (w, "bad-op")
      | some raw =>
        match execLine s w x true raw with
        | (w', .bad) => (w', "bad-op")
        | (w', .panic) => (w', "panic")
        | (w', .panicDrop) => (w', "panic@drop")
        | (w', .res _ _) => (w', "cont")

def stepLine (d : DSt) (line : String) : DSt × String :=
  match d with
  | .fresh => (d, "bad-op")
  | .invalid => (d, "bad-op")
  | .live s w false swaps deadPlain =>
    match plainLine s w deadPlain line with
    | (w', dp, ans) => (.live s w' false swaps dp, ans)
  | .live s w true swaps dp =>
    if line.startsWith "A " then
      match bufLine s w .A swaps (line.drop 2).toString with
      | (w', ans) => (.live s w' true swaps dp, ans)
    else if line.startsWith "B " then
      match bufLine s w .B swaps (line.drop 2).toString with
      | (w', ans) => (.live s w' true swaps dp, ans)
    else if line.startsWith "swap " then
      match (line.drop 5).toString.splitOn " " with
      | [a, b] =>
        match pathTok a, pathTok b with
        | some pa, some pb =>
          match execSwap s w pa pb with
          | (w', ans) => (.live s w' true (if ans = "ok" then swaps + 1 else swaps) dp, ans)
        | _, _ => (d, "bad-op")
      | _ => (d, "bad-op")
    else (d, "bad-op")

partial def loop (i o : IO.FS.Stream) (d : DSt) : IO Unit := do
  let line ← i.getLine
  if line.isEmpty then return ()
  let line := (line.dropEndWhile (fun c => c == '\n' || c == '\r')).toString
  if line.startsWith "case" then
    o.putStrLn "case"
    loop i o (header line)
  else
    let (d', ans) := stepLine d line
    o.putStrLn ans
    loop i o d'

end Unsized.Driver.C03

def main : IO Unit := do
  let i ← IO.getStdin
  let o ← IO.getStdout
  Unsized.Driver.C03.loop i o .fresh
  o.flush
