import Unsized.Driver.MachineStep
/-! Model driver for C06 (`c06_model`): every answer is computed by `Unsized.Machine.step`. -/
def main : IO Unit := Unsized.Driver.M.run false
