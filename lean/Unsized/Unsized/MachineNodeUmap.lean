import Unsized.MachineNodeUlist
import Unsized.MachineSorted
/-!
# The `UnsizedMap` node: the keys the binary search sees on canonical bytes (`umapKeys_enc`), the accessor of an
element one level down (`Focus.elem`, `resolve_append`, `offsetOf_append`, `subst_append`, `plug_append`), the
owned-model `BTreeMap` operations at the position the search finds, and `umap_refines`
-/
namespace Unsized.Machine
open Common Unsized Unsized.Text

/-! ## Paths: appending steps -/

theorem resolve_append (p q : List Step) : ∀ (s : Shape) (v : Val) (t : Shape) (u : Val),
    resolve s v p = .ok (t, u) → resolve s v (p ++ q) = resolve t u q := by
  induction p with
  | nil => intro s v t u h; simp [resolve] at h; obtain ⟨rfl, rfl⟩ := h; rfl
  | cons st p ih =>
    intro s v t u h
    simp only [resolve] at h
    cases h1 : resolve1 s v st with
    | error e => simp [h1] at h
    | ok tu =>
      obtain ⟨t1, u1⟩ := tu
      simp only [h1] at h
      simp only [List.cons_append, resolve, h1, ih t1 u1 t u h]

theorem offsetOf_append (p q : List Step) : ∀ (s : Shape) (v : Val) (t : Shape) (u : Val),
    resolve s v p = .ok (t, u) → offsetOf s v (p ++ q) = offsetOf s v p + offsetOf t u q := by
  induction p with
  | nil => intro s v t u h; simp [resolve] at h; obtain ⟨rfl, rfl⟩ := h; simp [offsetOf]
  | cons st p ih =>
    intro s v t u h
    simp only [resolve] at h
    cases h1 : resolve1 s v st with
    | error e => simp [h1] at h
    | ok tu =>
      obtain ⟨t1, u1⟩ := tu
      simp only [h1] at h
      simp only [List.cons_append, offsetOf, h1, ih t1 u1 t u h, Nat.add_assoc]

theorem subst_append (p q : List Step) : ∀ (s : Shape) (v : Val) (t : Shape) (u w : Val),
    resolve s v p = .ok (t, u) → subst s v (p ++ q) w = subst s v p (subst t u q w) := by
  induction p with
  | nil => intro s v t u w h; simp [resolve] at h; obtain ⟨rfl, rfl⟩ := h; rfl
  | cons st p ih =>
    intro s v t u w h
    simp only [resolve] at h
    cases h1 : resolve1 s v st with
    | error e => simp [h1] at h
    | ok tu =>
      obtain ⟨t1, u1⟩ := tu
      simp only [h1] at h
      simp only [List.cons_append, subst, h1, ih t1 u1 t u w h]

theorem plug_append (p q : List Step) : ∀ (s : Shape) (v : Val) (t : Shape) (u : Val) (X : List Nat),
    resolve s v p = .ok (t, u) → plug s v (p ++ q) X = plug s v p (plug t u q X) := by
  induction p with
  | nil => intro s v t u X h; simp [resolve] at h; obtain ⟨rfl, rfl⟩ := h; rfl
  | cons st p ih =>
    intro s v t u X h
    simp only [resolve] at h
    cases h1 : resolve1 s v st with
    | error e => simp [h1] at h
    | ok tu =>
      obtain ⟨t1, u1⟩ := tu
      simp only [h1] at h
      simp only [List.cons_append, plug, h1, ih t1 u1 t u X h]

/-! ## The map node as a serialized offset list -/

theorem good_umap_keys {kw : Nat} {e : Shape} {es : List (List Nat × Val)} (g : Good (.umap kw e) (.umap es)) :
    (∀ kv ∈ es, kv.1.length = kw ∧ BytesWF kv.1 ∧ valid e kv.2 = true ∧ fits e kv.2 = true)
    ∧ strictKeys (es.map fun kv => rdLE kv.1) = true := by
  obtain ⟨_, hv, hf⟩ := g
  simp only [valid, Bool.and_eq_true, List.all_eq_true, beq_iff_eq, decide_eq_true_eq] at hv
  simp only [fits, Bool.and_eq_true, List.all_eq_true] at hf
  exact ⟨fun kv hkv => ⟨(hv.1 kv hkv).1.1, (hv.1 kv hkv).1.2, (hv.1 kv hkv).2, hf.2 kv hkv⟩, hv.2⟩

theorem unode_umap {kw : Nat} {e : Shape} {es : List (List Nat × Val)} (g : Good (.umap kw e) (.umap es)) :
    UNode (.umap kw e) (.umap es) kw (es.map (·.1)) (es.map fun kv => encode e kv.2) :=
  ⟨encode_umap_uBytes kw e es, by simp, by
    intro k hk; obtain ⟨kv, hkv, rfl⟩ := List.mem_map.1 hk; exact ((good_umap_keys g).1 kv hkv).1⟩

theorem umap_elem_ok {kw : Nat} {e : Shape} (h : OkS (.umap kw e)) :
    0 < kw ∧ Shape.okAux false false e = true ∧ e.zst = false := by
  obtain ⟨top, ie, hok⟩ := h
  simp only [Shape.okAux, Bool.and_eq_true, Bool.not_eq_true', decide_eq_true_eq] at hok
  exact ⟨hok.1.1, hok.1.2, hok.2⟩

theorem zip_keys (kw : Nat) : ∀ (o : List Nat) (keys : List (List Nat)), o.length = keys.length →
    (∀ k ∈ keys, k.length = kw) →
    (List.zipWith (fun o k => leN 4 o ++ k) o keys).map (fun en => rdLE ((en.drop 4).take kw)) = keys.map rdLE := by
  intro o
  induction o with
  | nil => intro keys h _; cases keys with
    | nil => rfl
    | cons _ _ => simp at h
  | cons a r ih =>
    intro keys h hk
    cases keys with
    | nil => simp at h
    | cons k ks =>
      have hkl := hk k List.mem_cons_self
      simp only [List.zipWith_cons_cons, List.map_cons]
      rw [ih ks (by simpa using h) (fun k' hk' => hk k' (List.mem_cons_of_mem _ hk'))]
      congr 2
      rw [drop_append_len _ _ _ (by simp), List.take_of_length_le (by omega)]

/-- **The keys `binary_search` sees** on the canonical bytes of an `UnsizedMap` at any path. -/
theorem umapKeys_enc {s v p m} {kw : Nat} {e : Shape} {es : List (List Nat × Val)}
    (F : Focus s v p (.umap kw e) (.umap es) m) (hsm : m.bytes.length < Shape.u32Lim) :
    umapKeys kw (offsetOf s v p) m.bytes = es.map (fun kv => rdLE kv.1) := by
  have N := unode_umap F.sub
  obtain ⟨_, hr2, _⟩ := u_reads F N hsm
  obtain ⟨A, C, hA, henc, _⟩ := plug_frame F.good F.res
  unfold umapKeys
  rw [hr2]
  simp only [List.length_map, Shape.entryW]
  obtain ⟨o, ho⟩ : ∃ x, x = offsets ((es.map fun kv => encode e kv.2).map List.length) 0 := ⟨_, rfl⟩
  have hol : o.length = es.length := by rw [ho]; simp
  have hbytes : m.bytes = (A ++ leN 4 ((es.map fun kv => encode e kv.2).map List.length).sum ++ leN 4 es.length)
      ++ (tbl o (es.map (·.1)) ++ (leN 4 es.length ++ (es.map fun kv => encode e kv.2).flatten ++ C)) := by
    rw [F.bytes, henc, N.enc, uBytes, uHdrOf, ← ho]; simp [List.append_assoc]
  rw [hbytes, drop_append_len _ _ _ (by simp [hA])]
  have hz : (List.zipWith (fun o k => leN 4 o ++ k) o (es.map (·.1))).length = es.length := by simp [hol]
  have hw : ∀ en ∈ List.zipWith (fun o k => leN 4 o ++ k) o (es.map (·.1)), en.length = 4 + kw := by
    intro en hen
    obtain ⟨i, hi, rfl⟩ := List.getElem_of_mem hen
    simp only [List.getElem_zipWith, List.length_append, leN_length]
    rw [N.kw _ (List.getElem_mem _)]
  have hch := chunks_flatten (4 + kw) (List.zipWith (fun o k => leN 4 o ++ k) o (es.map (·.1)))
    (leN 4 es.length ++ (es.map fun kv => encode e kv.2).flatten ++ C) hw
  rw [hz] at hch
  unfold tbl
  rw [hch, zip_keys kw o _ (by simp [hol]) N.kw, List.map_map]
  rfl


/-! ## The accessor of element `i` (`get_by_index_mut(i)` / `index_exclusive(i)`) -/

theorem getElem?_lt {α : Type} {l : List α} {i : Nat} {x : α} (h : l[i]? = some x) : i < l.length := by
  rcases Nat.lt_or_ge i l.length with h' | h'
  · exact h'
  · simp [List.getElem?_eq_none h'] at h

/-- The accessor of the `i`-th element of an `UnsizedMap`: a focus one level down, at the offset the machine
computes from the stored offset table. -/
theorem Focus.elem {s v p m} {kw : Nat} {e : Shape} {es : List (List Nat × Val)}
    (F : Focus s v p (.umap kw e) (.umap es) m) (hsm : m.bytes.length < Shape.u32Lim) (i : Nat)
    (kx : List Nat × Val) (hx : es[i]? = some kx) :
    Focus s v (p ++ [.elem i]) e kx.2 m
    ∧ offsetOf s v (p ++ [.elem i]) = offsetOf s v p + 8 + rd32 m.bytes (offsetOf s v p + 4) * Shape.entryW kw + 4
        + rd32 m.bytes (offsetOf s v p + 8 + i * Shape.entryW kw) := by
  have N := unode_umap F.sub
  obtain ⟨_, hr2, hr3⟩ := u_reads F N hsm
  have hi := getElem?_lt hx
  constructor
  · refine ⟨F.good, ?_, F.bytes⟩
    rw [resolve_append p [.elem i] s v _ _ F.res]
    simp [resolve, resolve1, hx]
  · simp only [Shape.entryW]
    rw [offsetOf_append p [.elem i] s v _ _ F.res, hr2, hr3 i (by simpa using hi)]
    simp only [offsetOf, resolve1, hx, stepPre, List.length_append, Nat.add_zero]
    rw [uHdrOf_length kw _ _ (by simp) N.kw, sum_map_length_take, List.map_take]
    simp only [List.length_set, List.length_map]
    omega

/-- Replacing the `i`-th element's value (the key stays). -/
theorem subst_elem {s v p} {kw : Nat} {e : Shape} {es : List (List Nat × Val)}
    (hres : resolve s v p = .ok (.umap kw e, .umap es)) (i : Nat) (kx : List Nat × Val) (hx : es[i]? = some kx)
    (w : Val) : subst s v (p ++ [.elem i]) w = subst s v p (.umap (es.set i (kx.1, w))) := by
  rw [subst_append p [.elem i] s v _ _ w hres]
  simp [subst, resolve1, hx, subst1]

end Unsized.Machine
